(* Run/C04_run.v -- correspondence runner for C04 (native histogram accounting): compares what the
   real histogram exposed (harness/cmd/c04) with the model (Model/NativeHist.v, Part 1) and checks it
   against the specification (Part 2).
   wire: case = (cfg ops impl)
     cfg  = (schema zt_bits max_buckets max_zt_bits min_reset_ns ex_max ex_ttl_ns)
     op   = (0 v) Observe | (1 v oracle) ObserveWithExemplar | (2) Write | (3 d) Advance | (4) FireTimer
     impl = (0) panic/hang | (1 (w ...)), one w per Write:
       w = (schema zt zc count sum created pspans pdeltas nspans ndeltas pos neg exemplars timers)
       spans = ((offset length) ...), pos/neg = ((key population) ...) decoded by the driver,
       exemplars = ((value_bits ts) ...), timers = durations handed to afterFunc since the last Write *)
From Coq Require Import ZArith List Bool.
From Verif Require Import Base.F64 Base.Sx Model.NativeHist.
Import ListNotations.
Open Scope Z_scope.

Record iw := mkIw { i_w : wout; i_pos : list (Z * Z); i_neg : list (Z * Z) }.
Inductive impl := IFail | IOk (ws : list iw).
Definition case := (config * list op * impl)%type.

Definition d_cfg (s : sx) : option config :=
  match s with
  | SL [SZ sc; SZ zt; SZ mb; SZ mz; SZ mr; SZ em; SZ et] =>
      Some (mkConfig sc (of_bits zt) mb (of_bits mz) mr em et)
  | _ => None
  end.
Definition d_op (s : sx) : option op :=
  match s with
  | SL [SZ 0; SZ v] => Some (OObs (of_bits v))
  | SL [SZ 1; SZ v; SZ o] => Some (OObsEx (of_bits v) o)
  | SL [SZ 2] => Some OWrite
  | SL [SZ 3; SZ d] => Some (OAdvance d)
  | SL [SZ 4] => Some OFire
  | _ => None
  end.
Definition d_pairs : sx -> option (list (Z * Z)) := dL (dP dZ dZ).
Definition d_w (s : sx) : option iw :=
  match s with
  | SL [SZ sc; SZ zt; SZ zc; SZ cnt; SZ sum; SZ cr; psp; pds; nsp; nds; pos; neg; exs; tm] =>
      match d_pairs psp, dL dZ pds, d_pairs nsp, dL dZ nds, d_pairs pos, d_pairs neg, dL (dP dF dZ) exs, dL dZ tm with
      | Some psp', Some pds', Some nsp', Some nds', Some pos', Some neg', Some exs', Some tm' =>
          Some (mkIw (mkWout sc (of_bits zt) zc cnt (of_bits sum) cr psp' pds' nsp' nds' exs' tm') pos' neg')
      | _, _, _, _, _, _, _, _ => None
      end
  | _ => None
  end.
Definition d_impl (s : sx) : option impl :=
  match s with
  | SL [SZ 0] => Some IFail
  | SL [SZ 1; ws] => option_map IOk (dL d_w ws)
  | _ => None
  end.
Definition d_case : sx -> option case := dT3 d_cfg (dL d_op) d_impl.

(* ---- equality of observables ---- *)
Definition pairs_eqb (a b : list (Z * Z)) : bool :=
  Nat.eqb (length a) (length b) &&
  forallb (fun p => Z.eqb (fst (fst p)) (fst (snd p)) && Z.eqb (snd (fst p)) (snd (snd p))) (combine a b).
Definition zs_eqb (a b : list Z) : bool :=
  Nat.eqb (length a) (length b) && forallb (fun p => Z.eqb (fst p) (snd p)) (combine a b).
Definition exs_eqb (a b : list exemplar) : bool :=
  Nat.eqb (length a) (length b) && forallb (fun p => ex_eqb (fst p) (snd p)) (combine a b).

Definition wout_eqb (a b : wout) : bool :=
  Z.eqb (w_schema a) (w_schema b) && fbits_eq (w_zt a) (w_zt b) && Z.eqb (w_zc a) (w_zc b) &&
  Z.eqb (w_count a) (w_count b) && fbits_eq (w_sum a) (w_sum b) && Z.eqb (w_created a) (w_created b) &&
  pairs_eqb (w_pspans a) (w_pspans b) && zs_eqb (w_pdeltas a) (w_pdeltas b) &&
  pairs_eqb (w_nspans a) (w_nspans b) && zs_eqb (w_ndeltas a) (w_ndeltas b) &&
  exs_eqb (w_ex a) (w_ex b) && zs_eqb (w_timers a) (w_timers b).

Definition model_eqb (m : option (list wout)) (i : impl) : bool :=
  match m, i with
  | None, IFail => true
  | Some ws, IOk os =>
      Nat.eqb (length ws) (length os) && forallb (fun p => wout_eqb (fst p) (i_w (snd p))) (combine ws os)
  | _, _ => false
  end.

(* ---- the specification applied to the implementation's outputs ---- *)
Definition decoded_ok (sp : list (Z * Z)) (ds : list Z) (pops : list (Z * Z)) : bool :=
  match decode sp ds with Some l => pairs_eqb l pops | None => false end.

Definition expo_of (o : iw) : expo :=
  let w := i_w o in
  mkExpo (w_schema w) (w_zt w) (w_zc w) (w_count w) (w_sum w) (w_created w) (i_pos o) (i_neg o).

(* seen_r / exs_r: reversed histories; returns false on the first violated Write *)
Fixpoint spec_loop (g : config) (ops : list op) (outs : list iw) (clock : Z)
         (seen_r : list tobs) (exs_r : list exemplar) (prev : option (Z * Z * f64)) : bool :=
  match ops with
  | [] => match outs with [] => true | _ => false end
  | OObs v :: r => spec_loop g r outs clock ((v, clock) :: seen_r) exs_r prev
  | OObsEx v _ :: r =>
      spec_loop g r outs clock ((v, clock) :: seen_r) (if is_nan v then exs_r else (v, clock) :: exs_r) prev
  | OAdvance d :: r => spec_loop g r outs (clock + d) seen_r exs_r prev
  | OFire :: r => spec_loop g r outs clock seen_r exs_r prev
  | OWrite :: r =>
      match outs with
      | [] => false
      | o :: outs' =>
          let x := expo_of o in
          let seen := rev seen_r in
          decoded_ok (w_pspans (i_w o)) (w_pdeltas (i_w o)) (i_pos o) &&
          decoded_ok (w_nspans (i_w o)) (w_ndeltas (i_w o)) (i_neg o) &&
          write_check g seen (rev exs_r) prev x (w_ex (i_w o)) &&
          spec_loop g r outs' clock seen_r exs_r (Some (zlen seen - e_count x, e_schema x, e_zt x))
      end
  end.

Definition spec_ok (g : config) (ops : list op) (i : impl) : bool :=
  match i with
  | IFail => false                 (* Observe/Write must return *)
  | IOk outs => spec_loop g ops outs 0 [] [] None
  end.

Definition writes_in (ops : list op) : nat :=
  length (filter (fun o => match o with OWrite => true | _ => false end) ops).

Definition check_case (c : case) : Z :=
  let '(g, ops, i) := c in
  match i with
  | IOk outs => if negb (Nat.eqb (length outs) (writes_in ops)) then code_decode_error
                else if negb (spec_ok g ops i) then code_spec_violation
                else if negb (model_eqb (run g ops) i) then code_model_mismatch else code_ok
  | IFail => code_spec_violation
  end.

(* pickSchema cases: (5 floor_bits schema) *)
Definition check_pick (fl res : Z) : Z :=
  if negb (Z.leb (-4) res && Z.leb res 8) then code_spec_violation
  else if negb (Z.eqb res (pick_schema_of_floor (of_bits fl))) then code_model_mismatch else code_ok.

Definition check (s : sx) : Z :=
  match s with
  | SL [SZ 5; SZ fl; SZ res] => check_pick fl res
  | _ => match d_case s with Some c => check_case c | None => code_decode_error end
  end.

(* ---- replay output: what the model exposes, and which Writes the specification rejects ---- *)
Definition e_pairs (l : list (Z * Z)) : sx := eL (fun p => SL [SZ (fst p); SZ (snd p)]) l.
Definition e_wout (w : wout) : sx :=
  SL [SZ (w_schema w); eF (w_zt w); SZ (w_zc w); SZ (w_count w); eF (w_sum w); SZ (w_created w);
      e_pairs (w_pspans w); eL SZ (w_pdeltas w); e_pairs (w_nspans w); eL SZ (w_ndeltas w);
      match decode (w_pspans w) (w_pdeltas w) with Some l => e_pairs l | None => SL [] end;
      match decode (w_nspans w) (w_ndeltas w) with Some l => e_pairs l | None => SL [] end;
      eL (fun e => SL [eF (fst e); SZ (snd e)]) (w_ex w); eL SZ (w_timers w)].

(* per Write: 1 if the specification accepts the implementation's exposition (given the earlier ones) *)
Fixpoint spec_flags (g : config) (ops : list op) (outs : list iw) (clock : Z)
         (seen_r : list tobs) (exs_r : list exemplar) (prev : option (Z * Z * f64)) : list sx :=
  match ops with
  | [] => []
  | OObs v :: r => spec_flags g r outs clock ((v, clock) :: seen_r) exs_r prev
  | OObsEx v _ :: r =>
      spec_flags g r outs clock ((v, clock) :: seen_r) (if is_nan v then exs_r else (v, clock) :: exs_r) prev
  | OAdvance d :: r => spec_flags g r outs (clock + d) seen_r exs_r prev
  | OFire :: r => spec_flags g r outs clock seen_r exs_r prev
  | OWrite :: r =>
      match outs with
      | [] => []
      | o :: outs' =>
          let x := expo_of o in
          let seen := rev seen_r in
          SL [eB (decoded_ok (w_pspans (i_w o)) (w_pdeltas (i_w o)) (i_pos o) &&
                  decoded_ok (w_nspans (i_w o)) (w_ndeltas (i_w o)) (i_neg o));
              eB (time_ok seen (e_count x) (e_created x));
              eB (accounting_check (map fst (since_reset seen (e_count x))) x);
              eB (exemplars_check g (rev exs_r) (w_ex (i_w o)));
              eB (write_check g seen (rev exs_r) prev x (w_ex (i_w o)))]
          :: spec_flags g r outs' clock seen_r exs_r (Some (zlen seen - e_count x, e_schema x, e_zt x))
      end
  end.

Definition explain (s : sx) : sx :=
  match s with
  | SL [SZ 5; SZ fl; _] => SL [SZ (pick_schema_of_floor (of_bits fl))]
  | _ =>
  match d_case s with
  | Some (g, ops, i) =>
      SL [match run g ops with None => SL [SZ 0] | Some ws => SL [SZ 1; eL e_wout ws] end;
          match i with IFail => SL [] | IOk outs => SL (spec_flags g ops outs 0 [] [] None) end]
  | None => SL []
  end
  end.
