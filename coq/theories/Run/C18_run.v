(* Run/C18_run.v -- correspondence runner for C18 (harness/cmd/c18/main.go).
   wire:
     (0 unit ib has_sum ((counts sum)...) impl)   impl = (0) panic | (1 hb ((count sum ((ub cum)...))...) unchanged same gathered)
     (1 ((((match deny)...) included)...) order_ok)             rule matching over metrics.All()
     (2 name cumulative kind fq valid)                           RuntimeMetricsToProm
     (3 ((name cumulative kind fq)...))                          sampleBuf[i] against rmExposedMetrics[i] *)
From Coq Require Import ZArith List Bool.
From Verif Require Import Base.F64 Base.Str Base.Sx Model.Rebucket.
Import ListNotations.
Open Scope Z_scope.

Definition d_unit (s : sx) : option unit_t :=
  match s with SZ 0 => Some UBytes | SZ 1 => Some USeconds | SZ 2 => Some UOther | _ => None end.

Definition d_wout (s : sx) : option wout :=
  match dT3 dZ dF (dL (dP dF dZ)) s with
  | Some (c, sm, bk) => Some (mkW c sm bk)
  | None => None
  end.

(* observables, and the two purity flags (true, true when the code panicked: nothing was observed) *)
Definition d_impl (s : sx) : option (option (list f64 * list wout) * bool * bool * bool) :=
  match s with
  | SL [SZ 0] => Some (None, true, true, true)
  | SL [SZ 1; hb; ws; un; sm; ga] =>
      match dL dF hb, dL d_wout ws, dB un, dB sm, dB ga with
      | Some hb, Some ws, Some un, Some sm, Some ga => Some (Some (hb, ws), un, sm, ga)
      | _, _, _, _, _ => None
      end
  | _ => None
  end.

Definition both (spec_ok model_ok : bool) : Z :=
  if negb spec_ok then code_spec_violation else if negb model_ok then code_model_mismatch else code_ok.

Fixpoint list_eqb {A} (eq : A -> A -> bool) (a b : list A) : bool :=
  match a, b with
  | [], [] => true
  | x :: a', y :: b' => eq x y && list_eqb eq a' b'
  | _, _ => false
  end.

Definition wout_eqb (a b : wout) : bool :=
  Z.eqb (w_count a) (w_count b) && fbits_eq (w_sum a) (w_sum b) &&
  list_eqb (fun p q => fbits_eq (fst p) (fst q) && Z.eqb (snd p) (snd q)) (w_buckets a) (w_buckets b).

Definition out_eqb (m i : option (list f64 * list wout)) : bool :=
  match m, i with
  | None, None => true
  | Some (hb, ws), Some (hb', ws') => list_eqb fbits_eq hb hb' && list_eqb wout_eqb ws ws'
  | _, _ => false
  end.

Definition d_rule_name (s : sx) : option (list (bool * bool) * bool) := dP (dL (dP dB dB)) dB s.
Definition d_layout (s : sx) : option (str * bool * Z * str) :=
  match s with
  | SL [n; c; SZ k; fq] =>
      match dStr n, dB c, dStr fq with Some n, Some c, Some fq => Some (n, c, k, fq) | _, _, _ => None end
  | _ => None
  end.

Definition name_model_ok (n : str) (c : bool) (k : Z) (fq : str) (valid : bool) : bool :=
  match runtime_metrics_to_prom n c k with
  | Some (m, v) => str_eqb m fq && Bool.eqb v valid
  | None => true                        (* outside the modelled name shape *)
  end.
Definition name_spec_ok (n : str) (c : bool) (k : Z) (fq : str) : bool :=
  match name_spec n c k with Some m => str_eqb m fq | None => true end.

Definition check (s : sx) : Z :=
  match s with
  | SL [SZ 0; u; ib; hs; ups; impl] =>
      match d_unit u, dL dF ib, dB hs, dL (dP (dL dZ) dF) ups, d_impl impl with
      | Some u, Some ib, Some hs, Some ups, Some (o, un, sm, ga) =>
          both (spec_ok u ib ups o && purity_ok un sm && gather_ok (precondition u ib ups) ga)
               (out_eqb (run_hist u ib hs ups) o)
      | _, _, _, _, _ => code_decode_error
      end
  | SL [SZ 1; names; ord] =>
      match dL d_rule_name names, dB ord with
      | Some ns, Some ord =>
          both (ord && forallb (fun p => Bool.eqb (snd p) (negb (rule_spec (fst p)))) ns)
               (forallb (fun p => Bool.eqb (snd p) (negb (match_rules (fst p)))) ns)
      | _, _ => code_decode_error
      end
  | SL [SZ 2; n; c; SZ k; fq; v] =>
      match dStr n, dB c, dStr fq, dB v with
      | Some n, Some c, Some fq, Some v => both (name_spec_ok n c k fq) (name_model_ok n c k fq v)
      | _, _, _, _ => code_decode_error
      end
  | SL [SZ 3; l] =>
      match dL d_layout l with
      | Some l =>
          both (forallb (fun q => let '(n, c, k, fq) := q in name_spec_ok n c k fq) l)
               (forallb (fun q => let '(n, c, k, fq) := q in name_model_ok n c k fq true) l)
      | None => code_decode_error
      end
  | _ => code_decode_error
  end.

Definition e_wout (w : wout) : sx :=
  SL [SZ (w_count w); eF (w_sum w); eL (fun p => SL [eF (fst p); SZ (snd p)]) (w_buckets w)].
Definition e_out (o : option (list f64 * list wout)) : sx :=
  match o with
  | None => SL [SZ 0]
  | Some (hb, ws) => SL [SZ 1; eL eF hb; eL e_wout ws]
  end.

(* model output, then what the specification says: precondition, expected sample counts and, for the
   bounds the implementation exposed, the expected cumulative counts *)
Definition explain (s : sx) : sx :=
  match s with
  | SL [SZ 0; u; ib; hs; ups; impl] =>
      match d_unit u, dL dF ib, dB hs, dL (dP (dL dZ) dF) ups, d_impl impl with
      | Some u, Some ib, Some hs, Some ups, Some (o, un, sm, ga) =>
          SL [e_out (run_hist u ib hs ups);
              SL [eB (precondition u ib ups); eB (purity_ok un sm); eB (gather_ok (precondition u ib ups) ga);
                  eL (fun up => SZ (wrap64 (sumZ (fst up)))) ups;
                  match o with
                  | Some (hb, ws) =>
                      SL [eB (rebucket_ok u ib hb);
                          eL (fun p => eL (fun b => SL [eF (fst b);
                                 SZ (wrap64 (count_below (fun hi => entirely_below hi (fst b)) (fst (fst p)) (tl ib)))])
                                          (w_buckets (snd p))) (combine ups ws)]
                  | None => SL []
                  end]]
      | _, _, _, _, _ => SL []
      end
  | SL [SZ 1; names; _] =>
      match dL d_rule_name names with
      | Some ns => SL [eL (fun p => eB (negb (match_rules (fst p)))) ns; eL (fun p => eB (negb (rule_spec (fst p)))) ns]
      | None => SL []
      end
  | SL [SZ 2; n; c; SZ k; _; _] =>
      match dStr n, dB c with
      | Some n, Some c =>
          SL [match runtime_metrics_to_prom n c k with Some (m, v) => SL [eStr m; eB v] | None => SL [] end;
              eOpt eStr (name_spec n c k)]
      | _, _ => SL []
      end
  | _ => SL []
  end.
