(* Run/C14_run.v -- correspondence runner for C14 (harness/cmd/c14/main.go).
   case := (tag ... impl).  Codes: 0 ok, 1 impl <> model but the spec checker is satisfied,
   2 impl violates the spec checker, 9 decode error. *)
From Coq Require Import ZArith List Bool.
From Verif Require Import Base.F64 Base.Str Base.Sx Gen.Gen_Consts Model.ConstMetrics.
Import ListNotations.
Open Scope Z_scope.

Definition both (spec_ok model_ok : bool) : Z :=
  if negb spec_ok then code_spec_violation else if negb model_ok then code_model_mismatch else code_ok.

(* ---------- decoders ---------- *)
Definition dLP : sx -> option (list lpair) := dL (dP dStr dStr).
Definition dFZ : sx -> option (list (f64 * Z)) := dL (dP dF dZ).
Definition dFF : sx -> option (list (f64 * f64)) := dL (dP dF dF).
Definition dZZ : sx -> option (list (Z * Z)) := dL (dP dZ dZ).
Definition dExIn : sx -> option (list (f64 * list lpair)) := dL (dP dF dLP).

Record dspec := mkDspec { ds_fq : str; ds_help : str; ds_vars : list str; ds_consts : list lpair; ds_lvs : list str }.
Definition d_dspec (s : sx) : option dspec :=
  match s with
  | SL [fq; help; vars; consts; lvs] =>
      match dStr fq, dStr help, dL dStr vars, dLP consts, dL dStr lvs with
      | Some a, Some b, Some c, Some d, Some e => Some (mkDspec a b c d e)
      | _, _, _, _, _ => None
      end
  | _ => None
  end.
Definition ds_desc (x : dspec) : desc := new_desc (ds_fq x) (ds_help x) (ds_vars x) (ds_consts x).

(* ---------- equalities on observables ---------- *)
Fixpoint list_eqb {A} (eqb : A -> A -> bool) (a b : list A) : bool :=
  match a, b with
  | [], [] => true
  | x :: a', y :: b' => eqb x y && list_eqb eqb a' b'
  | _, _ => false
  end.
Definition lps_eqb := list_eqb lpair_eqb.
Definition zz_eqb (a b : Z * Z) : bool := (fst a =? fst b) && (snd a =? snd b).
Definition ex_eqb (a b : exemplar) : bool := fbits_eq (ex_value a) (ex_value b) && lps_eqb (ex_labels a) (ex_labels b).
Definition oex_eqb (a b : option exemplar) : bool :=
  match a, b with None, None => true | Some x, Some y => ex_eqb x y | _, _ => false end.
Definition bucket_eqb (a b : bucket) : bool :=
  fbits_eq (b_bound a) (b_bound b) && (b_cum a =? b_cum b) && oex_eqb (b_ex a) (b_ex b).

(* ---------- what the specification accepts ---------- *)
Definition lvs_ok_spec (x : dspec) : bool :=
  Nat.eqb (length (ds_lvs x)) (length (ds_vars x)) && forallb utf8_valid (ds_lvs x).
Definition dspec_ok_spec (x : dspec) : bool := desc_ok_spec (ds_fq x) (ds_vars x) (ds_consts x) && lvs_ok_spec x.
Definition labels_ok_spec (x : dspec) (out : list lpair) : bool := label_pairs_spec (ds_vars x) (ds_lvs x) (ds_consts x) out.

Definition d_exemplar (s : sx) : option exemplar :=
  match dP dF dLP s with Some (v, l) => Some (mkEx v l) | None => None end.
Definition d_bucket (s : sx) : option bucket :=
  match s with
  | SL [b; SZ c; e] =>
      match dF b, dOpt d_exemplar e with Some b, Some e => Some (mkBucket b c e) | _, _ => None end
  | _ => None
  end.

Definition faulty_pairs (exs : list (f64 * list lpair)) : nat :=
  length (filter (fun p => negb (check_label_name (fst p)) || negb (utf8_valid (snd p))) (flat_map snd exs)).
(* which of "name invalid" / "value invalid" is reported depends on Go's map order when several pairs are faulty *)
Definition norm_code (exs : list (f64 * list lpair)) (c : Z) : Z :=
  if Nat.ltb 1 (faulty_pairs exs) && (c =? 11) then 10 else c.
Definition exs_ok_spec (exs : list (f64 * list lpair)) : bool :=
  negb (Nat.eqb (length exs) 0) && forallb (fun p => exemplar_ok_spec (snd p)) exs.
Definition mk_exs (exs : list (f64 * list lpair)) : list exemplar := map (fun p => mkEx (fst p) (snd p)) exs.

Definition kind_reserved (k : Z) : option str :=
  if (k =? 7) || (k =? 8) then Some bucket_label else if (k =? 9) || (k =? 10) then Some quantile_label else None.
Definition kind_is_vec (k : Z) : bool := (k =? 5) || (k =? 6) || (k =? 8) || (k =? 10).

Definition check (s : sx) : Z :=
  match s with
  (* ---- BuildFQName ---- *)
  | SL [SZ 0; ns; sub; name; impl] =>
      match dStr ns, dStr sub, dStr name, dStr impl with
      | Some ns, Some sub, Some name, Some i =>
          both (str_eqb (fq_spec ns sub name) i && Bool.eqb (is_empty i) (is_empty name)) (str_eqb (build_fq_name ns sub name) i)
      | _, _, _, _ => code_decode_error
      end
  (* ---- NewDesc + NewConstMetric + Write ---- *)
  | SL [SZ 1; SZ variant; ds; SZ vt; v; impl] =>
      match d_dspec ds, dF v with
      | Some x, Some v =>
          (* variant: 0 New, 1 Must, 2 NewWithCreatedTimestamp, 3 MustNewWithCreatedTimestamp *)
          let is_ct := 2 <=? variant in
          let acceptable := dspec_ok_spec x && (if is_ct then vt =? 1 else in_rng 1 3 vt) in
          let mo := if is_ct then new_const_metric_ct (ds_desc x) vt v (ds_lvs x)
                    else new_const_metric (ds_desc x) vt v (ds_lvs x) in
          match impl with
          | SL [SZ 0; SZ code] =>
              both (negb acceptable) (match mo with Err e => err_code e =? code | Ok _ => false end)
          | SL [SZ 1; labels; SZ ivt; iv; SZ ctok] =>
              match dLP labels, dF iv with
              | Some labels, Some iv =>
                  both (acceptable && labels_ok_spec x labels && (ivt =? vt) && fbits_eq iv v && (ctok =? 1))
                       (match mo with
                        | Ok o => lps_eqb (so_labels o) labels && (so_type o =? ivt) && fbits_eq (so_value o) iv
                        | Err _ => false end)
              | _, _ => code_decode_error
              end
          | _ => code_decode_error
          end
      | _, _ => code_decode_error
      end
  (* ---- live constructors ---- *)
  | SL [SZ 2; SZ kind; SZ _; ns; sub; name; help; vars; consts; lvs; impl] =>
      match dStr ns, dStr sub, dStr name, dStr help, dL dStr vars, dLP consts, dL dStr lvs with
      | Some ns, Some sub, Some name, Some help, Some vars, Some consts, Some lvs =>
          let fq := build_fq_name ns sub name in
          let x := mkDspec fq help vars consts lvs in
          let dok := desc_ok_spec (fq_spec ns sub name) vars consts in
          let card_ok := Nat.eqb (length lvs) (length vars) && (negb (kind_is_vec kind) || forallb utf8_valid lvs) in
          let has_res := match kind_reserved kind with
                         | Some r => str_in r (vars ++ map fst consts) | None => false end in
          let mo := new_live (kind_reserved kind) (kind_is_vec kind) (kind =? 10) ns sub name help vars consts lvs in
          match impl with
          | SL [SZ 3] => code_spec_violation   (* the vector stayed blocked after a recovered child-creation panic *)
          | SL [SZ 0] => both (negb card_ok || negb dok || has_res) (match mo with LivePanicLabel => true | _ => false end)
          | SL [SZ 1] => both (negb card_ok) (match mo with LivePanicOther => true | _ => false end)
          | SL [SZ 2; SZ derr; labels] =>
              match dLP labels with
              | Some labels =>
                  both (card_ok && (if derr =? 0 then dok && negb has_res && labels_ok_spec x labels else negb dok))
                       (match mo with
                        | LiveOk d l => (match d_err d with Some e => err_code e =? derr | None => (derr =? 0) && lps_eqb l labels end)
                        | _ => false end)
              | None => code_decode_error
              end
          | _ => code_decode_error
          end
      | _, _, _, _, _, _, _ => code_decode_error
      end
  (* ---- NewConstHistogram ---- *)
  | SL [SZ 3; SZ _; ds; SZ count; sum; buckets; impl] =>
      match d_dspec ds, dF sum, dFZ buckets with
      | Some x, Some sum, Some buckets =>
          let acceptable := dspec_ok_spec x in
          let mo := new_const_histogram (ds_desc x) count sum buckets (ds_lvs x) in
          match impl with
          | SL [SZ 0; SZ code] => both (negb acceptable) (match mo with Err e => err_code e =? code | Ok _ => false end)
          | SL [SZ 1; labels; SZ icount; isum; ibk; SZ ctok] =>
              match dLP labels, dF isum, dFZ ibk with
              | Some labels, Some isum, Some ibk =>
                  both (acceptable && labels_ok_spec x labels && (icount =? count) && fbits_eq isum sum && buckets_spec buckets ibk && (ctok =? 1))
                       (match mo with
                        | Ok o => lps_eqb (ho_labels o) labels && (ho_count o =? icount) && fbits_eq (ho_sum o) isum &&
                                  list_eqb fz_eqb (ho_buckets o) ibk
                        | Err _ => false end)
              | _, _, _ => code_decode_error
              end
          | _ => code_decode_error
          end
      | _, _, _ => code_decode_error
      end
  (* ---- NewConstSummary ---- *)
  | SL [SZ 4; SZ _; ds; SZ count; sum; qs; impl] =>
      match d_dspec ds, dF sum, dFF qs with
      | Some x, Some sum, Some qs =>
          let acceptable := dspec_ok_spec x in
          let mo := new_const_summary (ds_desc x) count sum qs (ds_lvs x) in
          match impl with
          | SL [SZ 0; SZ code] => both (negb acceptable) (match mo with Err e => err_code e =? code | Ok _ => false end)
          | SL [SZ 1; labels; SZ icount; isum; iqs; SZ ctok] =>
              match dLP labels, dF isum, dFF iqs with
              | Some labels, Some isum, Some iqs =>
                  both (acceptable && labels_ok_spec x labels && (icount =? count) && fbits_eq isum sum && quantiles_spec qs iqs && (ctok =? 1))
                       (match mo with
                        | Ok o => lps_eqb (su_labels o) labels && (su_count o =? icount) && fbits_eq (su_sum o) isum &&
                                  list_eqb ff_eqb (su_quantiles o) iqs
                        | Err _ => false end)
              | _, _, _ => code_decode_error
              end
          | _ => code_decode_error
          end
      | _, _, _ => code_decode_error
      end
  (* ---- NewConstNativeHistogram ---- *)
  | SL [SZ 5; SZ _; ds; SZ count; sum; pos; neg; SZ zero; SZ schema; zt; impl] =>
      match d_dspec ds, dF sum, dZZ pos, dZZ neg, dF zt with
      | Some x, Some sum, Some pos, Some neg, Some zt =>
          let acceptable := dspec_ok_spec x && in_rng schema_min schema_max schema &&
                            count_consistent_spec sum count neg pos zero &&
                            gaps_spec (sort_ints (map fst neg)) 0 && gaps_spec (sort_ints (map fst pos)) 0 in
          let mo := new_const_native_histogram (ds_desc x) count sum pos neg zero schema zt (ds_lvs x) in
          match impl with
          | SL [SZ 0; SZ code] => both (negb acceptable) (match mo with Err e => err_code e =? code | Ok _ => false end)
          | SL [SZ 1; labels; SZ icount; isum; SZ izero; SZ ischema; izt; ps; pd; ns; nd] =>
              match dLP labels, dF isum, dF izt, dZZ ps, dL dZ pd, dZZ ns, dL dZ nd with
              | Some labels, Some isum, Some izt, Some ps, Some pd, Some ns, Some nd =>
                  both (acceptable && labels_ok_spec x labels && (icount =? count) && fbits_eq isum sum && (izero =? zero) &&
                        (ischema =? schema) && fbits_eq izt zt && pops_spec pos ps pd && pops_spec neg ns nd)
                       (match mo with
                        | Ok o => lps_eqb (no_labels o) labels && (no_count o =? icount) && fbits_eq (no_sum o) isum &&
                                  (no_zero o =? izero) && (no_schema o =? ischema) && fbits_eq (no_zt o) izt &&
                                  list_eqb zz_eqb (no_pos_spans o) ps && list_eqb Z.eqb (no_pos_deltas o) pd &&
                                  list_eqb zz_eqb (no_neg_spans o) ns && list_eqb Z.eqb (no_neg_deltas o) nd
                        | Err _ => false end)
              | _, _, _, _, _, _, _ => code_decode_error
              end
          | _ => code_decode_error
          end
      | _, _, _, _, _ => code_decode_error
      end
  (* ---- NewMetricWithTimestamp ---- *)
  | SL [SZ 6; SZ sec; SZ nsec; SZ ms; same] =>
      match dB same with
      | Some same => both ((ms =? timestamp_spec sec nsec) && same) (ms =? timestamp_ms sec nsec)
      | None => code_decode_error
      end
  (* ---- the process switched to model.LegacyValidation: NewDesc + NewConstMetric(GaugeValue) ---- *)
  | SL [SZ 10; SZ 0; ds; impl] =>
      match d_dspec ds with
      | Some x =>
          let acceptable := desc_ok_spec_legacy (ds_fq x) (ds_vars x) (ds_consts x) && lvs_ok_spec x in
          let mo := new_const_metric (new_desc_legacy (ds_fq x) (ds_help x) (ds_vars x) (ds_consts x)) 2 pzero (ds_lvs x) in
          match impl with
          | SL [SZ 0; SZ code] => both (negb acceptable) (match mo with Err e => err_code e =? code | Ok _ => false end)
          | SL [SZ 1; labels] =>
              match dLP labels with
              | Some labels => both (acceptable && labels_ok_spec x labels)
                                    (match mo with Ok o => lps_eqb (so_labels o) labels | Err _ => false end)
              | None => code_decode_error
              end
          | _ => code_decode_error
          end
      | None => code_decode_error
      end
  (* ---- model.LegacyValidation: NewMetricWithExemplars over a const counter, accept / error kind ---- *)
  | SL [SZ 10; SZ 1; exs; SZ code] =>
      match dExIn exs with
      | Some exs =>
          let acceptable := negb (Nat.eqb (length exs) 0) && forallb (fun p => exemplar_ok_spec_legacy (snd p)) exs in
          let mc := match exs with [] => 13 | _ => match new_exemplars_legacy exs with Some e => err_code e | None => 0 end end in
          both (Bool.eqb acceptable (code =? 0)) (norm_code exs mc =? norm_code exs code)
      | None => code_decode_error
      end
  (* ---- stacks of timestamp wrappers (innermost first), inner metrics that write their own timestamp ---- *)
  | SL [SZ 9; inner; layers; ms; same] =>
      match dOpt dZ inner, dZZ layers, dOpt dZ ms, dB same with
      | Some inner, Some layers, Some ms, Some same =>
          let oeq (a b : option Z) := match a, b with Some x, Some y => x =? y | None, None => true | _, _ => false end in
          both (oeq ms (nested_timestamp_spec inner layers) && same) (oeq ms (nested_timestamp inner layers))
      | _, _, _, _ => code_decode_error
      end
  (* ---- NewMetricWithExemplars over a const counter / gauge / untyped ---- *)
  | SL [SZ 7; SZ _; SZ vt; v; exs; impl] =>
      match dF v, dExIn exs with
      | Some v, Some exs =>
          let acceptable := exs_ok_spec exs && (vt =? 1) in
          let mo := new_metric_with_exemplars (if vt =? 1 then PCounter v None else POther) exs in
          match impl with
          | SL [SZ 0; SZ code] =>
              both (negb acceptable) (match mo with Err e => norm_code exs (err_code e) =? norm_code exs code | Ok _ => false end)
          | SL [SZ 1; iv; ie; unchanged] =>
              match dF iv, d_exemplar ie, dB unchanged with
              | Some iv, Some ie, Some unchanged =>
                  both (acceptable && unchanged && fbits_eq iv v && oex_eqb (Some ie) (Some (last (mk_exs exs) (mkEx fnan []))))
                       (match mo with
                        | Ok (PCounter mv me) => fbits_eq mv iv && oex_eqb me (Some ie)
                        | _ => false end)
              | _, _, _ => code_decode_error
              end
          | _ => code_decode_error
          end
      | _, _ => code_decode_error
      end
  (* ---- NewMetricWithExemplars over a const (native) histogram ---- *)
  | SL [SZ 8; SZ _; SZ count; buckets; exs; impl] =>
      match dFZ buckets, dExIn exs with
      | Some buckets, Some exs =>
          let acceptable := exs_ok_spec exs in
          let sorted := map (fun p => mkBucket (fst p) (snd p) None) (sort_by fpair_lt buckets) in
          let mo := new_metric_with_exemplars (PHistogram count sorted) exs in
          match impl with
          | SL [SZ 0; SZ code] =>
              both (negb acceptable) (match mo with Err e => norm_code exs (err_code e) =? norm_code exs code | Ok _ => false end)
          | SL [SZ 1; ibk; unchanged] =>
              match dL d_bucket ibk, dB unchanged with
              | Some ibk, Some unchanged =>
                  let has_nan := existsb (fun p => is_nan (fst p)) exs in
                  both (acceptable && unchanged &&
                        (has_nan || list_eqb bucket_eqb (spec_place sorted count (mk_exs exs)) ibk))
                       (match mo with
                        | Ok (PHistogram _ mb) => list_eqb bucket_eqb mb ibk
                        | _ => false end)
              | _, _ => code_decode_error
              end
          | _ => code_decode_error
          end
      | _, _ => code_decode_error
      end
  | _ => code_decode_error
  end.

(* ---------- explain: what model and spec say ---------- *)
Definition eLP (l : list lpair) : sx := eL (fun p => SL [eStr (fst p); eStr (snd p)]) l.
Definition eZZ (l : list (Z * Z)) : sx := eL (fun p => SL [SZ (fst p); SZ (snd p)]) l.
Definition eEx (e : exemplar) : sx := SL [eF (ex_value e); eLP (ex_labels e)].
Definition eBucket (b : bucket) : sx := SL [eF (b_bound b); SZ (b_cum b); eOpt eEx (b_ex b)].
Definition eRes {A} (e : A -> sx) (r : res A) : sx :=
  match r with Ok a => SL [SZ 1; e a] | Err x => SL [SZ 0; SZ (err_code x)] end.
Definition ePayload (p : payload) : sx :=
  match p with
  | PCounter v e => SL [eF v; eOpt eEx e]
  | PHistogram c bs => SL [SZ c; eL eBucket bs]
  | POther => SL []
  end.

Definition explain (s : sx) : sx :=
  match s with
  | SL [SZ 0; ns; sub; name; _] =>
      match dStr ns, dStr sub, dStr name with
      | Some ns, Some sub, Some name => SL [eStr (build_fq_name ns sub name); eStr (fq_spec ns sub name)]
      | _, _, _ => SL []
      end
  | SL [SZ 1; SZ variant; ds; SZ vt; v; _] =>
      match d_dspec ds, dF v with
      | Some x, Some v =>
          SL [eRes (fun o => SL [eLP (so_labels o); SZ (so_type o); eF (so_value o)])
                   (if 2 <=? variant then new_const_metric_ct (ds_desc x) vt v (ds_lvs x) else new_const_metric (ds_desc x) vt v (ds_lvs x));
              eB (dspec_ok_spec x)]
      | _, _ => SL []
      end
  | SL [SZ 2; SZ kind; SZ _; ns; sub; name; help; vars; consts; lvs; _] =>
      match dStr ns, dStr sub, dStr name, dStr help, dL dStr vars, dLP consts, dL dStr lvs with
      | Some ns, Some sub, Some name, Some help, Some vars, Some consts, Some lvs =>
          match new_live (kind_reserved kind) (kind_is_vec kind) (kind =? 10) ns sub name help vars consts lvs with
          | LivePanicLabel => SL [SZ 0]
          | LivePanicOther => SL [SZ 1]
          | LiveOk d l => SL [SZ 2; SZ (match d_err d with Some e => err_code e | None => 0 end); eLP l;
                              eB (desc_ok_spec (fq_spec ns sub name) vars consts)]
          end
      | _, _, _, _, _, _, _ => SL []
      end
  | SL [SZ 3; SZ _; ds; SZ count; sum; buckets; _] =>
      match d_dspec ds, dF sum, dFZ buckets with
      | Some x, Some sum, Some buckets =>
          SL [eRes (fun o => SL [eLP (ho_labels o); eL (fun p => SL [eF (fst p); SZ (snd p)]) (ho_buckets o)])
                   (new_const_histogram (ds_desc x) count sum buckets (ds_lvs x)); eB (dspec_ok_spec x)]
      | _, _, _ => SL []
      end
  | SL [SZ 4; SZ _; ds; SZ count; sum; qs; _] =>
      match d_dspec ds, dF sum, dFF qs with
      | Some x, Some sum, Some qs =>
          SL [eRes (fun o => SL [eLP (su_labels o); eL (fun p => SL [eF (fst p); eF (snd p)]) (su_quantiles o)])
                   (new_const_summary (ds_desc x) count sum qs (ds_lvs x)); eB (dspec_ok_spec x)]
      | _, _, _ => SL []
      end
  | SL [SZ 5; SZ _; ds; SZ count; sum; pos; neg; SZ zero; SZ schema; zt; _] =>
      match d_dspec ds, dF sum, dZZ pos, dZZ neg, dF zt with
      | Some x, Some sum, Some pos, Some neg, Some zt =>
          SL [eRes (fun o => SL [eLP (no_labels o); eZZ (no_pos_spans o); eL SZ (no_pos_deltas o); eZZ (no_neg_spans o); eL SZ (no_neg_deltas o);
                                 eZZ (decode_spans (no_pos_spans o) (no_pos_deltas o)); eZZ (decode_spans (no_neg_spans o) (no_neg_deltas o))])
                   (new_const_native_histogram (ds_desc x) count sum pos neg zero schema zt (ds_lvs x));
              eB (dspec_ok_spec x); eB (count_consistent_spec sum count neg pos zero);
              eB (gaps_spec (sort_ints (map fst neg)) 0 && gaps_spec (sort_ints (map fst pos)) 0)]
      | _, _, _, _, _ => SL []
      end
  | SL [SZ 6; SZ sec; SZ nsec; _; _] => SL [SZ (timestamp_ms sec nsec); SZ (timestamp_spec sec nsec)]
  | SL [SZ 9; inner; layers; _; _] =>
      match dOpt dZ inner, dZZ layers with
      | Some inner, Some layers => SL [eOpt SZ (nested_timestamp inner layers); eOpt SZ (nested_timestamp_spec inner layers)]
      | _, _ => SL []
      end
  | SL [SZ 7; SZ _; SZ vt; v; exs; _] =>
      match dF v, dExIn exs with
      | Some v, Some exs => SL [eRes ePayload (new_metric_with_exemplars (if vt =? 1 then PCounter v None else POther) exs); eB (exs_ok_spec exs)]
      | _, _ => SL []
      end
  | SL [SZ 8; SZ _; SZ count; buckets; exs; _] =>
      match dFZ buckets, dExIn exs with
      | Some buckets, Some exs =>
          let sorted := map (fun p => mkBucket (fst p) (snd p) None) (sort_by fpair_lt buckets) in
          SL [eRes ePayload (new_metric_with_exemplars (PHistogram count sorted) exs); eB (exs_ok_spec exs);
              eL eBucket (spec_place sorted count (mk_exs exs))]
      | _, _ => SL []
      end
  | _ => SL []
  end.
