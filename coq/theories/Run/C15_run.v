(* Run/C15_run.v -- correspondence runner for C15 (harness/cmd/c15/main.go).
   wire:
     (0 url route_prefix job (step...) (err_after_New (sobs...)))        a Pusher's life on the real code:
                                                                          step = (0 bop) | (1 call) in any interleaving,
                                                                          sobs = (0 berr?) error recorded after the builder call | (1 obs)
     (1 s enc is_b64)                                                     encodeComponent
     (2 s pct b64)                                                        the decoder of the specification against Go's
                                                                          url.PathUnescape / base64.RawURLEncoding (pct, b64 = () | (bytes))
   bop  = (0 name value) | (1 register_fails) | (2) | (3 hdr?) | (4 user pass) | (5 format);  hdr = ((key (value...))...)
   call = (kind gather? transport); kind 0 Push 1 Add 2 Delete; gather = ((name (((lname lvalue)...)...))...); transport = (0 status) | (1)
   berr = (1) | (2 name) | (3);  cerr = (0) | (1 berr) | (2) | (3) | (4) | (6) | (7 status) | (8)
   obs  = (cerr sent req? body_ok);  req = (method escaped_path hdr) *)
From Coq Require Import ZArith List Bool.
From Verif Require Import Base.Str Base.Sx Model.Push.
Import ListNotations.
Open Scope Z_scope.

Definition d_hdr : sx -> option header := dL (dP dStr (dL dStr)).

Definition d_bop (s : sx) : option bop :=
  match s with
  | SL [SZ 0; n; v] => match dStr n, dStr v with Some n, Some v => Some (BGrouping n v) | _, _ => None end
  | SL [SZ 1; b] => option_map BCollector (dB b)
  | SL [SZ 2] => Some BNoop
  | SL [SZ 3; h] => option_map BHeader (dOpt d_hdr h)
  | SL [SZ 4; u; pw] => match dStr u, dStr pw with Some u, Some pw => Some (BBasicAuth u pw) | _, _ => None end
  | SL [SZ 5; f] => option_map BFormat (dStr f)
  | _ => None
  end.

Definition d_family : sx -> option family := dP dStr (dL (dL (dP dStr dStr))).
Definition d_kind (s : sx) : option ckind :=
  match s with SZ 0 => Some KPush | SZ 1 => Some KAdd | SZ 2 => Some KDelete | _ => None end.
Definition d_tr (s : sx) : option transport :=
  match s with SL [SZ 0; SZ st] => Some (TStatus st) | SL [SZ 1] => Some TFail | _ => None end.
Definition d_call (s : sx) : option call :=
  match s with
  | SL [k; g; t] => match d_kind k, dOpt (dL d_family) g, d_tr t with
                    | Some k, Some g, Some t => Some (mkC k g t) | _, _, _ => None end
  | _ => None
  end.

Definition d_berr (s : sx) : option berr :=
  match s with
  | SL [SZ 1] => Some EJobEmpty
  | SL [SZ 2; n] => option_map EBadName (dStr n)
  | SL [SZ 3] => Some ERegister
  | _ => None
  end.
Definition d_cerr (s : sx) : option cerr :=
  match s with
  | SL [SZ 0] => Some CNone
  | SL [SZ 1; e] => option_map CBuilder (d_berr e)
  | SL [SZ 2] => Some CGather
  | SL [SZ 3] => Some CJobLabel
  | SL [SZ 4] => Some CGroupLabel
  | SL [SZ 6] => Some CTransport
  | SL [SZ 7; SZ st] => Some (CStatus st)
  | SL [SZ 8] => Some COther
  | _ => None
  end.
Definition d_obs (s : sx) : option obs :=
  match s with
  | SL [e; SZ sent; r; b] =>
      match d_cerr e, dOpt (dT3 dZ dStr d_hdr) r, dB b with
      | Some e, Some r, Some b => Some (mkObs e sent r b)
      | _, _, _ => None
      end
  | _ => None
  end.

Definition both (spec_ok model_ok : bool) : Z :=
  if negb spec_ok then code_spec_violation else if negb model_ok then code_model_mismatch else code_ok.

(* ---- comparison of a request with the model's, up to map iteration order ---- *)
Fixpoint insert_by {A} (x : str * A) (l : list (str * A)) : list (str * A) :=
  match l with
  | [] => [x]
  | y :: r => if str_ltb (fst y) (fst x) then y :: insert_by x r else x :: l
  end.
Definition sort_by {A} (l : list (str * A)) : list (str * A) := fold_right insert_by [] l.

Fixpoint pair_up (l : list str) : option (list (str * str)) :=
  match l with
  | [] => Some []
  | a :: r1 => match r1 with
               | [] => None
               | b :: r => option_map (cons (a, b)) (pair_up r)
               end
  end.
Fixpoint pairs_eqb (a b : list (str * str)) : bool :=
  match a, b with
  | [], [] => true
  | x :: a', y :: b' => str_eqb (fst x) (fst y) && str_eqb (snd x) (snd y) && pairs_eqb a' b'
  | _, _ => false
  end.
Fixpoint hdr_eqb (a b : header) : bool :=
  match a, b with
  | [], [] => true
  | x :: a', y :: b' => str_eqb (fst x) (fst y) && strs_eqb (snd x) (snd y) && hdr_eqb a' b'
  | _, _ => false
  end.

(* the observed path is the model's URL path for some iteration order of the grouping map *)
Definition path_matches (p : pusher) (path : str) : bool :=
  match strip_prefix (url_path (p_url p) ++ s_metrics) path with
  | Some rest =>
    match pair_up (split47 rest) with
    | Some (jp :: gps) =>
        pairs_eqb [jp] [component_pair s_job (p_job p)] &&
        pairs_eqb (sort_by gps) (sort_by (map (fun nv => component_pair (fst nv) (snd nv)) (p_grouping p)))
    | _ => false
    end
  | None => false
  end.

Definition opt_berr_eqb (a b : option berr) : bool :=
  match a, b with
  | None, None => true
  | Some x, Some y => berr_eqb x y
  | _, _ => false
  end.

Definition call_model_ok (p : pusher) (c : call) (mo : outcome) (o : obs) : bool :=
  cerr_eqb (o_err mo) (ob_err o) &&
  match o_req mo, ob_req o with
  | None, None => ob_sent o =? 0
  | Some r, Some (m, path, h) =>
      (m =? r_method r) && path_matches p path && hdr_eqb (sort_by (r_hdr r)) h && ob_body_ok o &&
      match c_tr c with TFail => true | TStatus _ => ob_sent o =? 1 end
  | Some _, None => match c_tr c with TFail => true | TStatus _ => false end
  | None, Some _ => false
  end.

Inductive step := SB (b : bop) | SC (c : call).
Inductive sobs := OBld (e : option berr) | OCall (o : obs).
Definition d_step (s : sx) : option step :=
  match s with
  | SL [SZ 0; b] => option_map SB (d_bop b)
  | SL [SZ 1; c] => option_map SC (d_call c)
  | _ => None
  end.
Definition d_sobs (s : sx) : option sobs :=
  match s with
  | SL [SZ 0; e] => option_map OBld (dOpt d_berr e)
  | SL [SZ 1; o] => option_map OCall (d_obs o)
  | _ => None
  end.

(* returns (spec_ok, model_ok) over the steps of one Pusher; ops = the builder calls made so far *)
Fixpoint check_steps (pre job : str) (ops : list bop) (p : pusher) (ss : list step) (os : list sobs) : bool * bool :=
  match ss, os with
  | [], [] => (true, true)
  | SB b :: sr, OBld e :: or_ =>
      let p1 := apply_bop p b in
      let ops1 := ops ++ [b] in
      let (s, m) := check_steps pre job ops1 p1 sr or_ in
      (opt_berr_eqb (spec_first_error job ops1) e && s, opt_berr_eqb (p_err p1) e && m)
  | SC c :: sr, OCall o :: or_ =>
      let (p1, mo) := do_call p (p_grouping p) c in
      let (s, m) := check_steps pre job ops p1 sr or_ in
      (spec_call_ok pre job ops c o && s, call_model_ok p c mo o && m)
  | _, _ => (false, false)
  end.

Definition opt_str_eqb (a b : option str) : bool :=
  match a, b with
  | None, None => true
  | Some x, Some y => str_eqb x y
  | _, _ => false
  end.

Definition check (s : sx) : Z :=
  match s with
  | SL [SZ 0; url; pre; job; steps; SL [ib; iobs]] =>
      match dStr url, dStr pre, dStr job, dL d_step steps, dOpt d_berr ib, dL d_sobs iobs with
      | Some url, Some pre, Some job, Some steps, Some ib, Some iobs =>
          if negb (Nat.eqb (length steps) (length iobs)) then code_decode_error else
          let p0 := new url job in
          let (sp, mo) := check_steps pre job [] p0 steps iobs in
          both (opt_berr_eqb (spec_first_error job []) ib && sp)
               (opt_berr_eqb (p_err p0) ib && str_eqb (url_path (p_url p0)) pre && mo)
      | _, _, _, _, _, _ => code_decode_error
      end
  | SL [SZ 1; s; enc; b] =>
      match dStr s, dStr enc, dB b with
      | Some s, Some enc, Some b =>
          both (negb (is_nil enc) && negb (contains_byte 47 enc) &&
                opt_str_eqb (if b then b64url_decode enc else pct_decode enc) (Some s))
               (str_eqb (fst (encode_component s)) enc && Bool.eqb (snd (encode_component s)) b)
      | _, _, _ => code_decode_error
      end
  | SL [SZ 2; s; pct; b64] =>
      match dStr s, dOpt dStr pct, dOpt dStr b64 with
      | Some s, Some pct, Some b64 =>
          both true (opt_str_eqb (pct_decode s) pct && opt_str_eqb (b64url_decode s) b64)
      | _, _, _ => code_decode_error
      end
  | _ => code_decode_error
  end.

(* ---- explain ---- *)
Definition e_berr (e : berr) : sx :=
  match e with EJobEmpty => SL [SZ 1] | EBadName n => SL [SZ 2; eStr n] | ERegister => SL [SZ 3] end.
Definition e_cerr (e : cerr) : sx :=
  match e with
  | CNone => SL [SZ 0] | CBuilder b => SL [SZ 1; e_berr b] | CGather => SL [SZ 2] | CJobLabel => SL [SZ 3]
  | CGroupLabel => SL [SZ 4] | CTransport => SL [SZ 6] | CStatus s => SL [SZ 7; SZ s] | COther => SL [SZ 8]
  end.
Definition e_hdr (h : header) : sx := eL (fun kv => SL [eStr (fst kv); eL eStr (snd kv)]) h.
Definition e_outcome (o : outcome) : sx :=
  SL [e_cerr (o_err o);
      eOpt (fun r => SL [SZ (r_method r); eStr (url_path (r_url r)); e_hdr (sort_by (r_hdr r))]) (o_req o)].
Definition e_key (k : option (str * list (str * str))) : sx :=
  eOpt (fun jk => SL [eStr (fst jk); eL (fun nv => SL [eStr (fst nv); eStr (snd nv)]) (snd jk)]) k.

(* per step: builder call -> (model's recorded error, specification's); call -> (model outcome, spec verdict on the
   implementation's observation, model verdict, key decoded from the observed path) *)
Fixpoint explain_steps (pre job : str) (ops : list bop) (p : pusher) (ss : list step) (os : list sobs) : list sx :=
  match ss, os with
  | SB b :: sr, _ :: or_ =>
      let p1 := apply_bop p b in
      SL [eOpt e_berr (p_err p1); eOpt e_berr (spec_first_error job (ops ++ [b]))] :: explain_steps pre job (ops ++ [b]) p1 sr or_
  | SC c :: sr, OCall o :: or_ =>
      let (p1, mo) := do_call p (p_grouping p) c in
      SL [e_outcome mo; eB (spec_call_ok pre job ops c o); eB (call_model_ok p c mo o);
          match ob_req o with Some (_, path, _) => e_key (decode_path pre path) | None => SL [] end]
      :: explain_steps pre job ops p1 sr or_
  | _, _ => []
  end.

Definition explain (s : sx) : sx :=
  match s with
  | SL [SZ 0; url; pre; job; steps; SL [ib; iobs]] =>
      match dStr url, dStr pre, dStr job, dL d_step steps, dL d_sobs iobs with
      | Some url, Some pre, Some job, Some steps, Some iobs =>
          let p0 := new url job in
          SL [eOpt e_berr (p_err p0); eStr (url_path (p_url p0)); SL (explain_steps pre job [] p0 steps iobs)]
      | _, _, _, _, _ => SL []
      end
  | SL [SZ 1; s; _; _] =>
      match dStr s with
      | Some s => SL [eStr (fst (encode_component s)); eB (snd (encode_component s))]
      | None => SL []
      end
  | SL [SZ 2; s; _; _] =>
      match dStr s with
      | Some s => SL [eOpt eStr (pct_decode s); eOpt eStr (b64url_decode s)]
      | None => SL []
      end
  | _ => SL []
  end.
