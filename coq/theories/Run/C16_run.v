(* Run/C16_run.v -- correspondence runner for C16 (harness/cmd/c16/main.go).
   wire:
     (0 sec nsec bits)                                   formatTime(time.Unix(sec,nsec)) parsed back with ParseFloat
     (1 prefix call script precancelled requests result) one API call against a scripted peer
   call    = (tag args...) in the order of api_call's constructors; time = (sec nsec);
   opt     = (0 ns) timeout | (1 ns) lookback | (2 str) stats | (3 n) limit
   script  = list of (0 code parsed?) | (1) drop | (2) cancel before header | (3 code) cancel in body | (4 code) transport fails in body
   parsed  = () | ((status errorType error (warnings...) data_ok))
   request = (post path-segments query form form-content-type); pair = (key value);
   value   = (0 bytes) | (1 float-bits) | (2 nanoseconds)
   result  = (kind type msg (warnings...)), kind 0 nil / 1 *v1.Error / 2 any other error *)
From Coq Require Import ZArith List Bool.
From Verif Require Import Base.F64 Base.Str Base.Sx Model.ApiClient.
Import ListNotations.
Open Scope Z_scope.

Definition d_time (s : sx) : option gotime :=
  match s with SL [SZ a; SZ b] => Some {| t_sec := a; t_nsec := b |} | _ => None end.

Definition d_opt (s : sx) : option opt :=
  match s with
  | SL [SZ 0; SZ d] => Some (OTimeout d)
  | SL [SZ 1; SZ d] => Some (OLookback d)
  | SL [SZ 2; x] => option_map OStats (dStr x)
  | SL [SZ 3; SZ n] => Some (OLimit n)
  | _ => None
  end.

Definition d_call (s : sx) : option api_call :=
  match s with
  | SL [SZ 0] => Some CAlerts
  | SL [SZ 1] => Some CAlertManagers
  | SL [SZ 2] => Some CCleanTombstones
  | SL [SZ 3] => Some CConfig
  | SL [SZ 4; ms; st; en] =>
      match dL dStr ms, d_time st, d_time en with
      | Some ms, Some st, Some en => Some (CDeleteSeries ms st en) | _, _, _ => None end
  | SL [SZ 5] => Some CFlags
  | SL [SZ 6; ms; st; en; opts] =>
      match dL dStr ms, d_time st, d_time en, dL d_opt opts with
      | Some ms, Some st, Some en, Some opts => Some (CLabelNames ms st en opts) | _, _, _, _ => None end
  | SL [SZ 7; label; ms; st; en; opts] =>
      match dStr label, dL dStr ms, d_time st, d_time en, dL d_opt opts with
      | Some label, Some ms, Some st, Some en, Some opts => Some (CLabelValues label ms st en opts) | _, _, _, _, _ => None end
  | SL [SZ 8; q; ts; opts] =>
      match dStr q, d_time ts, dL d_opt opts with
      | Some q, Some ts, Some opts => Some (CQuery q ts opts) | _, _, _ => None end
  | SL [SZ 9; q; st; en; SZ step; opts] =>
      match dStr q, d_time st, d_time en, dL d_opt opts with
      | Some q, Some st, Some en, Some opts => Some (CQueryRange q st en step opts) | _, _, _, _ => None end
  | SL [SZ 10; q; st; en] =>
      match dStr q, d_time st, d_time en with
      | Some q, Some st, Some en => Some (CQueryExemplars q st en) | _, _, _ => None end
  | SL [SZ 11] => Some CBuildinfo
  | SL [SZ 12] => Some CRuntimeinfo
  | SL [SZ 13; ms; st; en; opts] =>
      match dL dStr ms, d_time st, d_time en, dL d_opt opts with
      | Some ms, Some st, Some en, Some opts => Some (CSeries ms st en opts) | _, _, _, _ => None end
  | SL [SZ 14; b] => option_map CSnapshot (dB b)
  | SL [SZ 15] => Some CRules
  | SL [SZ 16] => Some CTargets
  | SL [SZ 17; a; b; c] =>
      match dStr a, dStr b, dStr c with
      | Some a, Some b, Some c => Some (CTargetsMetadata a b c) | _, _, _ => None end
  | SL [SZ 18; a; b] =>
      match dStr a, dStr b with Some a, Some b => Some (CMetadata a b) | _, _ => None end
  | SL [SZ 19; opts] => option_map CTSDB (dL d_opt opts)
  | SL [SZ 20] => Some CWalReplay
  | _ => None
  end.

Definition d_env (s : sx) : option envelope :=
  match s with
  | SL [st; et; er; ws; ok] =>
      match dStr st, dStr et, dStr er, dL dStr ws, dB ok with
      | Some st, Some et, Some er, Some ws, Some ok =>
          Some {| env_status := st; env_etype := et; env_error := er; env_warnings := ws; env_data_ok := ok |}
      | _, _, _, _, _ => None
      end
  | _ => None
  end.

Definition d_beh (s : sx) : option behaviour :=
  match s with
  | SL [SZ 0; SZ code; p] => option_map (SResp code) (dOpt d_env p)
  | SL [SZ 1] => Some SDrop
  | SL [SZ 2] => Some SCancelHdr
  | SL [SZ 3; SZ code] => Some (SCancelBody code)
  | SL [SZ 4; SZ code] => Some (SCutBody code)
  | _ => None
  end.

Definition d_pval (s : sx) : option pval :=
  match s with
  | SL [SZ 0; x] => option_map VStr (dStr x)
  | SL [SZ 1; SZ b] => Some (VFloat (of_bits b))
  | SL [SZ 2; SZ n] => Some (VDur n)
  | _ => None
  end.

Definition d_req (s : sx) : option request :=
  match s with
  | SL [post; path; query; form; ct] =>
      match dB post, dL dStr path, dL (dP dStr d_pval) query, dL (dP dStr d_pval) form, dB ct with
      | Some post, Some path, Some query, Some form, Some ct =>
          Some {| rq_post := post; rq_path := path; rq_query := query; rq_form := form; rq_form_ctype := ct |}
      | _, _, _, _, _ => None
      end
  | _ => None
  end.

Definition d_result (s : sx) : option result :=
  match s with
  | SL [SZ k; ty; msg; ws] =>
      match dStr ty, dStr msg, dL dStr ws with
      | Some ty, Some msg, Some ws =>
          if k =? 0 then Some {| r_err := None; r_warn := ws |}
          else if k =? 1 then Some {| r_err := Some (EApi ty (MText msg)); r_warn := ws |}
          else if k =? 2 then Some {| r_err := Some EOther; r_warn := ws |}
          else None
      | _, _, _ => None
      end
  | _ => None
  end.

Definition both (spec_ok model_ok : bool) : Z :=
  if negb spec_ok then code_spec_violation else if negb model_ok then code_model_mismatch else code_ok.

(* model error against the implementation's: the text of a JSON syntax error is not modelled *)
Definition err_matches (m i : option api_err) : bool :=
  match m, i with
  | None, None => true
  | Some EOther, Some EOther => true
  | Some (EApi t MJson), Some (EApi t' _) => str_eqb t t'
  | Some (EApi t (MText x)), Some (EApi t' (MText y)) => str_eqb t t' && str_eqb x y
  | _, _ => false
  end.

Definition prefix_segments (prefix : str) : list str := if is_empty prefix then [] else path_segments prefix.


Definition check (s : sx) : Z :=
  match s with
  | SL [SZ 0; SZ sec; SZ nsec; SZ bits] =>
      let t := {| t_sec := sec; t_nsec := nsec |} in
      both (if ms_range sec then within_ms (of_bits bits) sec nsec else true)
           (Z.eqb (to_bits (format_time t)) bits)
  | SL [SZ 1; prefix; call; script; pre; reqs; res] =>
      match dStr prefix, d_call call, dL d_beh script, dB pre, dL d_req reqs, d_result res with
      | Some prefix, Some c, Some script, Some pre, Some ireqs, Some ires =>
          let (mres, mnet) := run_call prefix c (start_net script pre) in
          let mreqs := rev (n_seen mnet) in
          let sreqs := spec_requests (prefix_segments prefix) c script pre in
          both (list_eqb request_equiv ireqs sreqs && spec_result_ok c (spec_final c script pre) ires)
               (list_eqb request_eqb ireqs mreqs && err_matches (r_err mres) (r_err ires) &&
                list_eqb str_eqb (r_warn mres) (r_warn ires))
      | _, _, _, _, _, _ => code_decode_error
      end
  | _ => code_decode_error
  end.

(* ---- replay printing ---- *)
Definition e_pval (v : pval) : sx :=
  match v with VStr x => SL [SZ 0; eStr x] | VFloat f => SL [SZ 1; eF f] | VDur n => SL [SZ 2; SZ n] end.
Definition e_kv (kv : str * pval) : sx := SL [eStr (fst kv); e_pval (snd kv)].
Definition e_req (r : request) : sx :=
  SL [eB (rq_post r); eL eStr (rq_path r); eL e_kv (rq_query r); eL e_kv (rq_form r); eB (rq_form_ctype r)].
Definition e_err (e : option api_err) : sx :=
  match e with
  | None => SL [SZ 0]
  | Some EOther => SL [SZ 2]
  | Some (EApi t MJson) => SL [SZ 1; eStr t; SL []]
  | Some (EApi t (MText m)) => SL [SZ 1; eStr t; eStr m]
  end.
Definition e_result (r : result) : sx := SL [e_err (r_err r); eL eStr (r_warn r)].

(* explain = (model: requests result) (spec: requests expected-error-type-or-() ) *)
Definition explain (s : sx) : sx :=
  match s with
  | SL [SZ 0; SZ sec; SZ nsec; _] =>
      SL [SZ (to_bits (format_time {| t_sec := sec; t_nsec := nsec |})); eB (ms_range sec)]
  | SL (SZ 1 :: prefix :: call :: script :: pre :: _) =>
      match dStr prefix, d_call call, dL d_beh script, dB pre with
      | Some prefix, Some c, Some script, Some pre =>
          let (mres, mnet) := run_call prefix c (start_net script pre) in
          SL [SL [eL e_req (rev (n_seen mnet)); e_result mres];
              SL [eL e_req (spec_requests (prefix_segments prefix) c script pre);
                  match spec_final c script pre with
                  | Some (SResp code p) => SL [SZ code; eOpt eStr (spec_expect code p); eL eStr (spec_warnings code p)]
                  | _ => SL []
                  end]]
      | _, _, _, _ => SL []
      end
  | _ => SL []
  end.
