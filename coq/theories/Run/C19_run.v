(* Run/C19_run.v -- correspondence runner for C19 (harness/cmd/c19/main.go).
   The program interpreted is Gen_Textfile.write_to_textfile_ops (regenerated from the Go source).

   wire:
   (0 old nfam site panic (res tclass tmode same temps others_ok snap reader_bad))   one sequential call
      old = () | (mode)      site = (0) none | (1) create | (2) gather | (3 k) encode family k | (4) close | (5) chmod | (6) rename
      res = 0 nil | 1 error | 2 panic      tclass = 0 absent | 1 old-complete | 2 new-complete | 3 anything else
      same = target is the same inode as before (or absent before and after)
      temps = entries left in the directory beyond the target and the bystander files
      snap = () | ((ntemps tmp_mode tmp_empty tclass tmode))   what the gatherer saw while it ran
      reader_bad = bit set of forbidden observations of the concurrent polling reader (0 = none)
   (1 nfam site panic (token ...))     system calls seen by strace on the temp/target paths
   (2 old (nfam ...) (res ...) (tclass winner tmode temps reader_bad))   concurrent calls on one path (specification only) *)
From Coq Require Import ZArith List Bool Arith.
From Verif Require Import Base.Sx Gen.Gen_Textfile Model.Textfile.
Import ListNotations.
Open Scope Z_scope.

Definition prog := write_to_textfile_ops.

Definition d_site (s : sx) : option site :=
  match s with
  | SL [SZ 0] => Some SNone
  | SL [SZ 1] => Some SCreate
  | SL [SZ 2] => Some SGather
  | SL [SZ 3; k] => option_map SEncode (dNat k)
  | SL [SZ 4] => Some SClose
  | SL [SZ 5] => Some SChmod
  | SL [SZ 6] => Some SRename
  | _ => None
  end.

Definition both (spec_ok model_ok : bool) : Z :=
  if negb spec_ok then code_spec_violation else if negb model_ok then code_model_mismatch else code_ok.

Definition res_code (r : result) : Z := match r with ROk => 0 | RErr => 1 | RPanic => 2 end.
Definition d_res (z : Z) : option result :=
  if Z.eqb z 0 then Some ROk else if Z.eqb z 1 then Some RErr else if Z.eqb z 2 then Some RPanic else None.
Definition class_code (t : tstate) : Z := match t with TAbsent => 0 | TOldFile _ => 1 | TNewFile _ _ => 2 | TPartial => 3 end.
Definition mode_of (t : tstate) : Z := match t with TOldFile m => m | TNewFile _ m => m | _ => 0 end.
(* the observation of the driver as a tstate (writer 0) *)
Definition mk_tstate (c m : Z) : tstate :=
  if Z.eqb c 0 then TAbsent else if Z.eqb c 1 then TOldFile m else if Z.eqb c 2 then TNewFile 0%nat m else TPartial.

Record snap := mk_snap { sn_temps : Z; sn_tmode : Z; sn_tempty : bool; sn_class : Z; sn_mode : Z }.
Definition d_snap (s : sx) : option snap :=
  match s with
  | SL [SZ a; SZ b; c; SZ d; SZ e] => option_map (fun c => mk_snap a b c d e) (dB c)
  | _ => None
  end.
Definition snap_eqb (a b : snap) : bool :=
  Z.eqb (sn_temps a) (sn_temps b) && Z.eqb (sn_tmode a) (sn_tmode b) && Bool.eqb (sn_tempty a) (sn_tempty b) &&
  Z.eqb (sn_class a) (sn_class b) && Z.eqb (sn_mode a) (sn_mode b).
Definition osnap_eqb (a b : option snap) : bool :=
  match a, b with None, None => true | Some x, Some y => snap_eqb x y | _, _ => false end.

Definition model_snap (n : nat) (st : site) (panic : bool) (old : option Z) : option snap :=
  match until_gather n st panic (solo_fuel prog n) (init_writer prog, init_fs old) with
  | None => None
  | Some (_, s) =>
      let t := classify (fun _ => n) s (dir s NTarget) in
      Some (match dir s (NTemp 0%nat) with
            | None => mk_snap 0 0 false (class_code t) (mode_of t)
            | Some i => mk_snap 1 (i_mode (inodes s i))
                                (match i_data (inodes s i) with DNew _ O false => true | _ => false end)
                                (class_code t) (mode_of t)
            end)
  end.

Record solo_out := mk_out { o_res : Z; o_class : Z; o_mode : Z; o_same : bool; o_temps : Z; o_snap : option snap }.

Definition model_solo (n : nat) (st : site) (panic : bool) (old : option Z) : solo_out * bool :=
  let p := exec_solo prog n st panic old in
  let t := classify (fun _ => n) (snd p) (dir (snd p) NTarget) in
  (mk_out (res_code (w_res (fst p))) (class_code t) (mode_of t)
          (match dir (snd p) NTarget, old with
           | Some i, Some _ => Nat.eqb i old_ino
           | None, None => true
           | _, _ => false
           end)
          (match dir (snd p) (NTemp 0%nat) with None => 0 | Some _ => 1 end)
          (model_snap n st panic old),
   match w_status (fst p) with Returned => true | _ => false end).

(* the specification applied to what the implementation did (no reference to the program) *)
Definition spec_solo (old : option Z) (o : solo_out) (others_ok : bool) (reader_bad : Z) : bool :=
  match d_res (o_res o) with
  | None => false
  | Some r =>
      spec_after_return old 0%nat r (mk_tstate (o_class o) (o_mode o)) (if Z.eqb (o_temps o) 0 then TAbsent else TPartial) &&
      others_ok && Z.eqb reader_bad 0 &&
      match o_snap o with
      | None => true
      | Some sn => target_ok old (mk_tstate (sn_class sn) (sn_mode sn))
      end
  end.

Definition out_eqb (a b : solo_out) : bool :=
  Z.eqb (o_res a) (o_res b) && Z.eqb (o_class a) (o_class b) && Z.eqb (o_mode a) (o_mode b) &&
  Bool.eqb (o_same a) (o_same b) && Z.eqb (o_temps a) (o_temps b) && osnap_eqb (o_snap a) (o_snap b).

Definition drop_writes (l : list Z) : list Z := filter (fun t => negb (Z.eqb t 4)) l.
Definition model_tokens (n : nat) (st : site) (panic : bool) : list Z :=
  collapse (solo_tokens n st panic (solo_fuel prog n) (init_writer prog, init_fs None)).

Fixpoint zlist_eqb (a b : list Z) : bool :=
  match a, b with
  | [], [] => true
  | x :: a', y :: b' => Z.eqb x y && zlist_eqb a' b'
  | _, _ => false
  end.

Fixpoint all_some {A} (l : list (option A)) : option (list A) :=
  match l with
  | [] => Some []
  | Some x :: r => option_map (cons x) (all_some r)
  | None :: _ => None
  end.

Definition check (s : sx) : Z :=
  match s with
  | SL [SZ 0; old; nfam; st; panic; SL [SZ res; SZ tclass; SZ tmode; same; SZ temps; others; sn; SZ rbad]] =>
      match dOpt dZ old, dNat nfam, d_site st, dB panic, dB same, dB others, dOpt d_snap sn with
      | Some old, Some n, Some st, Some panic, Some same, Some others, Some sn =>
          let o := mk_out res tclass tmode same temps sn in
          let '(m, returned) := model_solo n st panic old in
          both (spec_solo old o others rbad) (returned && out_eqb m o)
      | _, _, _, _, _, _, _ => code_decode_error
      end
  | SL [SZ 1; nfam; st; panic; toks] =>
      match dNat nfam, d_site st, dB panic, dL dZ toks with
      | Some n, Some st, Some panic, Some toks =>
          let i := collapse toks in
          let m := model_tokens n st panic in
          let faulted := site_reachable n st in
          both (trace_ok i)
               (if faulted then zlist_eqb (collapse (drop_writes i)) (collapse (drop_writes m))
                else zlist_eqb i m)
      | _, _, _, _ => code_decode_error
      end
  | SL [SZ 2; old; nfams; ress; SL [SZ tclass; SZ winner; SZ tmode; SZ temps; SZ rbad]] =>
      match dOpt dZ old, dL dNat nfams, dL dZ ress with
      | Some old, Some nfams, Some ress =>
          match all_some (map d_res ress) with
          | None => code_decode_error
          | Some rs =>
              let any_ok := existsb (result_eqb ROk) rs in
              both (Z.eqb temps 0 && Z.eqb rbad 0 && Nat.eqb (length nfams) (length rs) &&
                    (if any_ok then
                       Z.eqb tclass 2 && Z.eqb tmode new_mode && Z.leb 0 winner &&
                       result_eqb ROk (nth (Z.to_nat winner) rs RErr)
                     else tstate_eqb (mk_tstate tclass tmode) (old_state old)))
                   true
          end
      | _, _, _ => code_decode_error
      end
  | _ => code_decode_error
  end.

Definition e_snap (o : option snap) : sx :=
  eOpt (fun sn => SL [SZ (sn_temps sn); SZ (sn_tmode sn); eB (sn_tempty sn); SZ (sn_class sn); SZ (sn_mode sn)]) o.
Definition e_out (o : solo_out) : sx :=
  SL [SZ (o_res o); SZ (o_class o); SZ (o_mode o); eB (o_same o); SZ (o_temps o); e_snap (o_snap o)].
Definition e_tstate (t : tstate) : sx := SL [SZ (class_code t); SZ (mode_of t)].

(* model outcome, then what the specification demands: (result target temp) *)
Definition explain (s : sx) : sx :=
  match s with
  | SL (SZ 0 :: old :: nfam :: st :: panic :: _) =>
      match dOpt dZ old, dNat nfam, d_site st, dB panic with
      | Some old, Some n, Some st, Some panic =>
          let '(r, t, tmp) := spec_outcome old n st panic in
          SL [e_out (fst (model_solo n st panic old)); SL [SZ (res_code r); e_tstate t; e_tstate tmp]]
      | _, _, _, _ => SL []
      end
  | SL (SZ 1 :: nfam :: st :: panic :: _) =>
      match dNat nfam, d_site st, dB panic with
      | Some n, Some st, Some panic => SL [eL SZ (model_tokens n st panic)]
      | _, _, _ => SL []
      end
  | _ => SL []
  end.
