(* Run/C06_run.v -- correspondence runner for C06 (summary with objectives).
   wire: (opts t0 ops impl)
     opts = (vars consts nvalues ((q eps)...) maxage agebuckets bufcap)   vars/consts: lists of byte strings
     op   = (0 v) Observe | (1 dt) Advance | (2) Write
     impl = (0 k)  construction ended without a summary: k = 0 cardinality panic, 1 quantile-label panic,
                   2 max-age panic, 3 summary without objectives (C02), 5 any other panic
          | (1 ((count sum ((q isnan value)...))...))  one entry per Write
          | (2)    an operation did not return (watchdog)
          | (3 ((count sum nquantiles)...))  a summary WITHOUT objectives (nil/empty map), one entry per Write:
                   count and sum must be exact (left fold of fadd), no quantile is exposed
   Oracles: (2) specification: construction refused exactly when the text says so; every operation returns;
   count/sum exact; quantile ranks are the objectives in increasing order; a quantile is NaN only if no
   observation is younger than (n-1)*d, and otherwise is a value whose rank is tolerated (rank_tol_ok in
   Model/SummaryWindow.v) in SOME admissible window (the newest m observations, every "younger" one
   included, none "older than MaxAge"); histories containing a NaN observation are compared on count and
   sum only;  (1) model: the same against the model's exact head-stream contents. *)
From Coq Require Import ZArith List Bool.
From Verif Require Import Base.F64 Base.Str Base.Sx Model.SummaryWindow.
From Verif Require Base.Conc Model.HotCold Model.SummaryConc.
Import ListNotations.
Open Scope Z_scope.

Definition iq := (f64 * bool * f64)%type.                 (* rank, isNaN, value *)
Definition iw := (Z * f64 * list iq)%type.
Inductive impl := INone (k : Z) | IWrites (ws : list iw) | IHung | INoObj (ws : list (Z * f64 * Z)).
Definition case := (opts * Z * list op * impl)%type.

Definition d_opts (s : sx) : option opts :=
  match s with
  | SL [vars; consts; nv; objs; ma; ab; bc] =>
      match dL dStr vars, dL dStr consts, dNat nv, dL (dP dF dF) objs, dZ ma, dZ ab, dZ bc with
      | Some a, Some b, Some c, Some d, Some e, Some f, Some g => Some (mkOpts a b c d e f g)
      | _, _, _, _, _, _, _ => None
      end
  | _ => None
  end.
Definition d_op (s : sx) : option op :=
  match s with
  | SL [SZ 0; v] => option_map OObserve (dF v)
  | SL [SZ 1; SZ dt] => Some (OAdvance dt)
  | SL [SZ 2] => Some OWrite
  | _ => None
  end.
Definition d_impl (s : sx) : option impl :=
  match s with
  | SL [SZ 0; SZ k] => Some (INone k)
  | SL [SZ 1; ws] => option_map IWrites (dL (dT3 dZ dF (dL (dT3 dF dB dF))) ws)
  | SL [SZ 2] => Some IHung
  | SL [SZ 3; ws] => option_map INoObj (dL (dT3 dZ dF dZ) ws)
  | _ => None
  end.
Definition d_case (s : sx) : option case :=
  match s with
  | SL [o; SZ t0; ops; i] =>
      match d_opts o, dL d_op ops, d_impl i with
      | Some a, Some b, Some c => Some (a, t0, b, c)
      | _, _, _ => None
      end
  | _ => None
  end.

(* ---- specification side ---- *)
Definition spec_refused (o : opts) : bool :=
  negb (Nat.eqb (length (o_vars o)) (o_nvalues o)) || str_in quantile_label (o_vars o)
  || str_in quantile_label (o_consts o) || (o_max_age o <? 0).

(* clock, log (NEWEST FIRST), count, running sum and NaN flag at every Write; the running values are
   length / fold_left fadd / existsb is_nan of the log, computed incrementally *)
Record wp := mkWp { p_t : Z; p_rlog : list (Z * f64); p_n : Z; p_sum : f64; p_nan : bool }.

Fixpoint write_points (now : Z) (rlog : list (Z * f64)) (n : Z) (sm : f64) (nan : bool) (ops : list op) : list wp :=
  match ops with
  | [] => []
  | OObserve v :: r => write_points now ((now, v) :: rlog) (n + 1) (fadd sm v) (nan || is_nan v) r
  | OAdvance dt :: r => write_points (now + dt) rlog n sm nan r
  | OWrite :: r => mkWp now rlog n sm nan :: write_points now rlog n sm nan r
  end.

Definition b2z (b : bool) : Z := if b then 1 else 0.

(* newest-first scan over the admissible windows: the newest m observations, lo <= m <= hi *)
Fixpoint scan (l : list (Z * f64)) (m lt le lo hi : Z) (p : Z * Z * Z) (x : f64) : bool :=
  match l with
  | [] => false
  | y :: r =>
      let m' := m + 1 in
      let lt' := lt + b2z (flt (snd y) x) in
      let le' := le + b2z (fle (snd y) x) in
      if hi <? m' then false
      else if (lo <=? m') && rank_ok_counts p m' lt' le' then true
      else scan r m' lt' le' lo hi p x
  end.

Definition spec_quantile_ok (pt : wp) (lo hi : Z) (obj : f64 * f64) (i : iq) : bool :=
  let '(r, isn, x) := i in
  fbits_eq r (fst obj) &&
  (if p_nan pt then true
   else if isn then lo =? 0
   else negb (is_nan x) &&
        match scaled (fst obj) (snd obj) with
        | Some p => scan (p_rlog pt) 0 0 0 (Z.max 1 lo) hi p x
        | None => false
        end).

Fixpoint forallb2 {A B} (f : A -> B -> bool) (a : list A) (b : list B) : bool :=
  match a, b with
  | [], [] => true
  | x :: a', y :: b' => f x y && forallb2 f a' b'
  | _, _ => false
  end.

Definition spec_write_ok (c : cfg) (objs : list (f64 * f64)) (pt : wp) (w : iw) : bool :=
  let '(n, s, qs) := w in
  let lo := Z.of_nat (length (filter (younger c (p_t pt)) (p_rlog pt))) in
  let hi := Z.of_nat (length (filter (not_older c (p_t pt)) (p_rlog pt))) in
  (n =? p_n pt) && fbits_eq s (p_sum pt) && forallb2 (spec_quantile_ok pt lo hi) objs qs.

(* ---- model side ---- *)
Definition model_quantile_ok (nan_seen : bool) (m : f64 * qval) (eps : f64) (i : iq) : bool :=
  let '(r, isn, x) := i in
  fbits_eq r (fst m) &&
  (if nan_seen then true
   else match snd m with
        | QNaN => isn
        | QQuery w => negb isn && negb (is_nan x) && rank_check w (fst m) eps x
        end).

Definition model_write_ok (objs : list (f64 * f64)) (pt : wp) (m : wout) (w : iw) : bool :=
  let '(n, s, qs) := w in
  (n =? w_count m) && fbits_eq s (w_sum m)
  && forallb2 (fun mq_e i => model_quantile_ok (p_nan pt) (fst mq_e) (snd mq_e) i)
       (combine (w_quantiles m) (map snd objs)) qs
  && Nat.eqb (length (w_quantiles m)) (length qs).

Fixpoint forallb3 {A B C} (f : A -> B -> C -> bool) (a : list A) (b : list B) (c : list C) : bool :=
  match a, b, c with
  | [], [], [] => true
  | x :: a', y :: b', z :: c' => f x y z && forallb3 f a' b' c'
  | _, _, _ => false
  end.

Definition kind_of (r : newres) : Z :=
  match r with
  | NPanicCardinality => 0 | NPanicQuantileLabel => 1 | NPanicMaxAge => 2 | NNoObjectives => 3 | NSummary _ _ _ => 4
  end.

Definition check_case (cs : case) : Z :=
  let '(o, t0, ops, i) := cs in
  let m := new_summary o t0 in
  match i with
  | IHung => code_spec_violation                      (* every Observe/Write must return *)
  | INone k =>
      let panicked := negb (k =? 3) in
      if negb (Bool.eqb panicked (spec_refused o)) then code_spec_violation
      else if k =? kind_of m then code_ok else code_model_mismatch
  | INoObj ws =>
      if spec_refused o then code_spec_violation
      else if negb (forallb2 (fun (pt : wp) (w : Z * f64 * Z) => let '(n, sm, nq) := w in
                               (n =? p_n pt) && fbits_eq sm (p_sum pt) && (nq =? 0))
                             (write_points t0 [] 0 pzero false ops) ws) then code_spec_violation
      else if kind_of m =? 3 then code_ok else code_model_mismatch
  | IWrites ws =>
      if spec_refused o then code_spec_violation
      else match m with
      | NSummary c objs s =>
          let pts := write_points t0 [] 0 pzero false ops in
          if negb (forallb2 (spec_write_ok c objs) pts ws) then code_spec_violation
          else match run c objs t0 ops with
               | Ok outs => if forallb3 (model_write_ok objs) pts outs ws then code_ok else code_model_mismatch
               | _ => code_model_mismatch
               end
      | _ => code_model_mismatch
      end
  end.

Definition check_seq (s : sx) : Z :=
  match d_case s with Some c => check_case c | None => code_decode_error end.

(* ---- explain: model outputs and specification windows per Write ---- *)
Definition e_q (m : f64 * qval) : sx :=
  SL [eF (fst m); match snd m with QNaN => SL [] | QQuery w => SL [SZ (Z.of_nat (length w))] end].
Definition e_w (m : wout) : sx := SL [SZ (w_count m); eF (w_sum m); SZ (Z.of_nat (length (w_window m))); eL e_q (w_quantiles m)].
Definition explain_seq (s : sx) : sx :=
  match d_case s with
  | Some (o, t0, ops, _) =>
      match new_summary o t0 with
      | NSummary c objs st =>
          SL [SZ 4; SL [SZ (c_d c); SZ (Z.of_nat (c_n c)); SZ (c_cap c)];
              match run c objs t0 ops with
              | Ok outs => SL [SZ 1; eL e_w outs]
              | OutOfFuel => SL [SZ 2]
              | Panic => SL [SZ 3]
              end;
              eL (fun p => SL [SZ (p_n p); eF (p_sum p);
                               SZ (Z.of_nat (length (spec_window c t0 (rev (p_rlog p)) (p_t p))));
                               SZ (Z.of_nat (length (filter (younger c (p_t p)) (p_rlog p))));
                               SZ (Z.of_nat (length (filter (not_older c (p_t p)) (p_rlog p))))])
                 (write_points t0 [] 0 pzero false ops)]
      | r => SL [SZ (kind_of r); SZ (b2z (spec_refused o))]
      end
  | None => SL []
  end.

(* ================================================================== *)
(* stream sched: the REAL summary (instrumented: every Mutex operation and the start of asyncFlush's
   goroutine is a schedule point) under explored schedules, against the step machine of
   Model/SummaryConc.v run under the same schedule.
   wire: (7 opts t0 rate progs sched trace calls flags)
     the injected clock is t0 + rate * (number of scheduler steps so far);  progs = ((op...)...) with
     op = (0 v) | (1);  sched = (tid...);  trace = ((tid label)...);  calls = ((tid idx ret inv res)...)
     with ret = (0) | (1 (count sum ((q isnan value)...)));  flags: 1 deadlock, 2 step limit, 4 panic.
   code 2: flags <> 0, a call is missing, or the history of calls is not explained by the snapshot
           checker (Model/HotCold.v snapshot_check: the observation values are distinct powers of two, so the
           float sum of a Write identifies the set M of observations it reports; count = |M|,
           returned-before-invocation <= M <= invoked-before-response, nested for ordered Writes);
   code 1: the machine, run under the same schedule, differs in the per-step (thread, operation) labels, in a
           call's invocation/response time, in count / sum bits, or the returned quantile is not tolerated
           for the machine's window. *)
Module Sched.
Import Conc HotCold SummaryConc.

Definition d_uop (s : sx) : option uop :=
  match s with
  | SL [SZ 0; v] => option_map UObserve (dF v)
  | SL [SZ 1] => Some UWrite
  | _ => None
  end.

Inductive iret := IUnit | IOut (w : iw).
Definition d_iret (s : sx) : option iret :=
  match s with
  | SL [SZ 0] => Some IUnit
  | SL [SZ 1; w] => option_map IOut (dT3 dZ dF (dL (dT3 dF dB dF)) w)
  | _ => None
  end.
Definition icall := (Z * Z * iret * Z * Z)%type.
Definition d_icall (s : sx) : option icall :=
  match s with
  | SL [SZ t; SZ i; r; SZ a; SZ b] => option_map (fun r => (t, i, r, a, b)) (d_iret r)
  | _ => None
  end.

Fixpoint trace_eqb (a b : list (Z * list Z)) : bool :=
  match a, b with
  | [], [] => true
  | (t, l) :: a', (t', l') :: b' => Z.eqb t t' && str_eqb l l' && trace_eqb a' b'
  | _, _ => false
  end.

(* the implementation's history as calls of the (classic) history checker: count, sum, no buckets *)
Definition to_hist (progs : list (list uop)) (ih : list icall) : option (list (call hist_machine)) :=
  mapM (fun ic : icall => let '(t, i, r, a, b) := ic in
    match nth_error progs (Z.to_nat t) with
    | Some p =>
        match nth_error p (Z.to_nat i), r with
        | Some (UObserve v), IUnit => Some (mkCall (M := hist_machine) t i (HObserve v) HUnit a b)
        | Some UWrite, IOut (n, sm, _) => Some (mkCall (M := hist_machine) t i HWrite (HOut (mkHOut n sm [])) a b)
        | _, _ => None
        end
    | None => None
    end) ih.

Definition ret_ok (objs : list (f64 * f64)) (m : sret) (i : iret) : bool :=
  match m, i with
  | RUnit, IUnit => true
  | ROut w, IOut (n, sm, qs) =>
      (n =? w_count w) && fbits_eq sm (w_sum w) &&
      forallb2 (fun mq_e q => model_quantile_ok false (fst mq_e) (snd mq_e) q) (combine (w_quantiles w) (map snd objs)) qs &&
      Nat.eqb (length (w_quantiles w)) (length qs)
  | _, _ => false
  end.

Definition check_sched (o : opts) (t0 rate : Z) (progs : list (list uop)) (sched : list Z)
  (tr : list (Z * list Z)) (calls : list icall) (flags : Z) : Z :=
  match to_hist progs calls with
  | None => code_spec_violation        (* a result of the wrong kind, or a call that is not in the program *)
  | Some ih =>
      let spec_ok := Z.eqb flags 0 && Nat.eqb (length calls) (length (concat progs)) &&
                     snapshot_check (M := hist_machine) (fun x => x) (fun x => x) [] ih in
      if negb spec_ok then code_spec_violation
      else match new_summary o t0 with
      | NSummary c objs _ =>
          let clk := fun n => t0 + rate * n in
          let cf := crun c objs clk t0 progs sched in
          let nuser := Z.of_nat (length progs) in
          let mcalls := filter (fun k : call (summ_obj_machine c objs clk) => c_tid k <? nuser) (hist cf) in
          if trace_eqb (trace cf) tr && Nat.eqb (length mcalls) (length calls) &&
             forallb (fun ic : icall => let '(t, i, r, a, b) := ic in
                        existsb (fun k : call (summ_obj_machine c objs clk) => Z.eqb (c_tid k) t && Z.eqb (c_idx k) i && Z.eqb (c_inv k) a && Z.eqb (c_res k) b
                                          && ret_ok objs (c_ret k : sret) r) mcalls) calls
          then code_ok else code_model_mismatch
      | _ => code_model_mismatch
      end
  end.

Definition check (s : sx) : Z :=
  match s with
  | SL [SZ 7; o; SZ t0; SZ rate; progs; sched; tr; calls; SZ flags] =>
      match d_opts o, dL (dL d_uop) progs, dL dZ sched, dL (dP dZ dStr) tr, dL d_icall calls with
      | Some o, Some progs, Some sched, Some tr, Some calls => check_sched o t0 rate progs sched tr calls flags
      | _, _, _, _, _ => code_decode_error
      end
  | _ => code_decode_error
  end.

Definition e_sret (r : sret) : sx := match r with RUnit => SL [SZ 0] | ROut w => SL [SZ 1; e_w w] end.
Definition explain (s : sx) : sx :=
  match s with
  | SL [SZ 7; o; SZ t0; SZ rate; progs; sched; _; _; _] =>
      match d_opts o, dL (dL d_uop) progs, dL dZ sched with
      | Some o, Some progs, Some sched =>
          match new_summary o t0 with
          | NSummary c objs _ =>
              let clk := fun n => t0 + rate * n in
              let cf := crun c objs clk t0 progs sched in
              SL [eL (fun p => SL [SZ (fst p); eStr (snd p)]) (trace cf);
                  eL (fun k : call (summ_obj_machine c objs clk) => SL [SZ (c_tid k); SZ (c_idx k); e_sret (c_ret k : sret); SZ (c_inv k); SZ (c_res k)]) (hist cf)]
          | _ => SL []
          end
      | _, _, _ => SL []
      end
  | _ => SL []
  end.
End Sched.

Definition check (s : sx) : Z :=
  match s with SL (SZ 7 :: _) => Sched.check s | _ => check_seq s end.
Definition explain (s : sx) : sx :=
  match s with SL (SZ 7 :: _) => Sched.explain s | _ => explain_seq s end.
