(* Run/C06_run.v -- correspondence runner for C06 (summary with objectives).
   wire: (opts t0 ops impl)
     opts = (vars consts nvalues ((q eps)...) maxage agebuckets bufcap)   vars/consts: lists of byte strings
     op   = (0 v) Observe | (1 dt) Advance | (2) Write
     impl = (0 k)  construction ended without a summary: k = 0 cardinality panic, 1 quantile-label panic,
                   2 max-age panic, 3 summary without objectives (C02), 5 any other panic
          | (1 ((count sum ((q isnan value)...))...))  one entry per Write
          | (2)    an operation did not return (watchdog)
   Oracles: (2) specification: construction refused exactly when the text says so; every operation returns;
   count/sum exact; quantile ranks are the objectives in increasing order; a quantile is NaN only if no
   observation is younger than (n-1)*d, and otherwise is a value whose rank is tolerated (rank_tol_ok in
   Model/SummaryWindow.v) in SOME admissible window (the newest m observations, every "younger" one
   included, none "older than MaxAge"); histories containing a NaN observation are compared on count and
   sum only;  (1) model: the same against the model's exact head-stream contents. *)
From Coq Require Import ZArith List Bool.
From Verif Require Import Base.F64 Base.Str Base.Sx Model.SummaryWindow.
Import ListNotations.
Open Scope Z_scope.

Definition iq := (f64 * bool * f64)%type.                 (* rank, isNaN, value *)
Definition iw := (Z * f64 * list iq)%type.
Inductive impl := INone (k : Z) | IWrites (ws : list iw) | IHung.
Definition case := (opts * Z * list op * impl)%type.

Definition d_opts (s : sx) : option opts :=
  match s with
  | SL [vars; consts; nv; objs; ma; ab; bc] =>
      match dL dStr vars, dL dStr consts, dNat nv, dL (dP dF dF) objs, dZ ma, dZ ab, dZ bc with
      | Some a, Some b, Some c, Some d, Some e, Some f, Some g => Some (mkOpts a b c d e f g)
      | _, _, _, _, _, _, _ => None
      end
  | _ => None
  end.
Definition d_op (s : sx) : option op :=
  match s with
  | SL [SZ 0; v] => option_map OObserve (dF v)
  | SL [SZ 1; SZ dt] => Some (OAdvance dt)
  | SL [SZ 2] => Some OWrite
  | _ => None
  end.
Definition d_impl (s : sx) : option impl :=
  match s with
  | SL [SZ 0; SZ k] => Some (INone k)
  | SL [SZ 1; ws] => option_map IWrites (dL (dT3 dZ dF (dL (dT3 dF dB dF))) ws)
  | SL [SZ 2] => Some IHung
  | _ => None
  end.
Definition d_case (s : sx) : option case :=
  match s with
  | SL [o; SZ t0; ops; i] =>
      match d_opts o, dL d_op ops, d_impl i with
      | Some a, Some b, Some c => Some (a, t0, b, c)
      | _, _, _ => None
      end
  | _ => None
  end.

(* ---- specification side ---- *)
Definition spec_refused (o : opts) : bool :=
  negb (Nat.eqb (length (o_vars o)) (o_nvalues o)) || str_in quantile_label (o_vars o)
  || str_in quantile_label (o_consts o) || (o_max_age o <? 0).

(* clock, log (NEWEST FIRST), count, running sum and NaN flag at every Write; the running values are
   length / fold_left fadd / existsb is_nan of the log, computed incrementally *)
Record wp := mkWp { p_t : Z; p_rlog : list (Z * f64); p_n : Z; p_sum : f64; p_nan : bool }.

Fixpoint write_points (now : Z) (rlog : list (Z * f64)) (n : Z) (sm : f64) (nan : bool) (ops : list op) : list wp :=
  match ops with
  | [] => []
  | OObserve v :: r => write_points now ((now, v) :: rlog) (n + 1) (fadd sm v) (nan || is_nan v) r
  | OAdvance dt :: r => write_points (now + dt) rlog n sm nan r
  | OWrite :: r => mkWp now rlog n sm nan :: write_points now rlog n sm nan r
  end.

Definition b2z (b : bool) : Z := if b then 1 else 0.

(* newest-first scan over the admissible windows: the newest m observations, lo <= m <= hi *)
Fixpoint scan (l : list (Z * f64)) (m lt le lo hi : Z) (p : Z * Z * Z) (x : f64) : bool :=
  match l with
  | [] => false
  | y :: r =>
      let m' := m + 1 in
      let lt' := lt + b2z (flt (snd y) x) in
      let le' := le + b2z (fle (snd y) x) in
      if hi <? m' then false
      else if (lo <=? m') && rank_ok_counts p m' lt' le' then true
      else scan r m' lt' le' lo hi p x
  end.

Definition spec_quantile_ok (pt : wp) (lo hi : Z) (obj : f64 * f64) (i : iq) : bool :=
  let '(r, isn, x) := i in
  fbits_eq r (fst obj) &&
  (if p_nan pt then true
   else if isn then lo =? 0
   else negb (is_nan x) &&
        match scaled (fst obj) (snd obj) with
        | Some p => scan (p_rlog pt) 0 0 0 (Z.max 1 lo) hi p x
        | None => false
        end).

Fixpoint forallb2 {A B} (f : A -> B -> bool) (a : list A) (b : list B) : bool :=
  match a, b with
  | [], [] => true
  | x :: a', y :: b' => f x y && forallb2 f a' b'
  | _, _ => false
  end.

Definition spec_write_ok (c : cfg) (objs : list (f64 * f64)) (pt : wp) (w : iw) : bool :=
  let '(n, s, qs) := w in
  let lo := Z.of_nat (length (filter (younger c (p_t pt)) (p_rlog pt))) in
  let hi := Z.of_nat (length (filter (not_older c (p_t pt)) (p_rlog pt))) in
  (n =? p_n pt) && fbits_eq s (p_sum pt) && forallb2 (spec_quantile_ok pt lo hi) objs qs.

(* ---- model side ---- *)
Definition model_quantile_ok (nan_seen : bool) (m : f64 * qval) (eps : f64) (i : iq) : bool :=
  let '(r, isn, x) := i in
  fbits_eq r (fst m) &&
  (if nan_seen then true
   else match snd m with
        | QNaN => isn
        | QQuery w => negb isn && negb (is_nan x) && rank_check w (fst m) eps x
        end).

Definition model_write_ok (objs : list (f64 * f64)) (pt : wp) (m : wout) (w : iw) : bool :=
  let '(n, s, qs) := w in
  (n =? w_count m) && fbits_eq s (w_sum m)
  && forallb2 (fun mq_e i => model_quantile_ok (p_nan pt) (fst mq_e) (snd mq_e) i)
       (combine (w_quantiles m) (map snd objs)) qs
  && Nat.eqb (length (w_quantiles m)) (length qs).

Fixpoint forallb3 {A B C} (f : A -> B -> C -> bool) (a : list A) (b : list B) (c : list C) : bool :=
  match a, b, c with
  | [], [], [] => true
  | x :: a', y :: b', z :: c' => f x y z && forallb3 f a' b' c'
  | _, _, _ => false
  end.

Definition kind_of (r : newres) : Z :=
  match r with
  | NPanicCardinality => 0 | NPanicQuantileLabel => 1 | NPanicMaxAge => 2 | NNoObjectives => 3 | NSummary _ _ _ => 4
  end.

Definition check_case (cs : case) : Z :=
  let '(o, t0, ops, i) := cs in
  let m := new_summary o t0 in
  match i with
  | IHung => code_spec_violation                      (* every Observe/Write must return *)
  | INone k =>
      let panicked := negb (k =? 3) in
      if negb (Bool.eqb panicked (spec_refused o)) then code_spec_violation
      else if k =? kind_of m then code_ok else code_model_mismatch
  | IWrites ws =>
      if spec_refused o then code_spec_violation
      else match m with
      | NSummary c objs s =>
          let pts := write_points t0 [] 0 pzero false ops in
          if negb (forallb2 (spec_write_ok c objs) pts ws) then code_spec_violation
          else match run c objs t0 ops with
               | Ok outs => if forallb3 (model_write_ok objs) pts outs ws then code_ok else code_model_mismatch
               | _ => code_model_mismatch
               end
      | _ => code_model_mismatch
      end
  end.

Definition check (s : sx) : Z :=
  match d_case s with Some c => check_case c | None => code_decode_error end.

(* ---- explain: model outputs and specification windows per Write ---- *)
Definition e_q (m : f64 * qval) : sx :=
  SL [eF (fst m); match snd m with QNaN => SL [] | QQuery w => SL [SZ (Z.of_nat (length w))] end].
Definition e_w (m : wout) : sx := SL [SZ (w_count m); eF (w_sum m); SZ (Z.of_nat (length (w_window m))); eL e_q (w_quantiles m)].
Definition explain (s : sx) : sx :=
  match d_case s with
  | Some (o, t0, ops, _) =>
      match new_summary o t0 with
      | NSummary c objs st =>
          SL [SZ 4; SL [SZ (c_d c); SZ (Z.of_nat (c_n c)); SZ (c_cap c)];
              match run c objs t0 ops with
              | Ok outs => SL [SZ 1; eL e_w outs]
              | OutOfFuel => SL [SZ 2]
              | Panic => SL [SZ 3]
              end;
              eL (fun p => SL [SZ (p_n p); eF (p_sum p);
                               SZ (Z.of_nat (length (spec_window c t0 (rev (p_rlog p)) (p_t p))));
                               SZ (Z.of_nat (length (filter (younger c (p_t p)) (p_rlog p))));
                               SZ (Z.of_nat (length (filter (not_older c (p_t p)) (p_rlog p))))])
                 (write_points t0 [] 0 pzero false ops)]
      | r => SL [SZ (kind_of r); SZ (b2z (spec_refused o))]
      end
  | None => SL []
  end.
