(* Run/C17_run.v -- correspondence runner for C17 (harness/cmd/c17/main.go).

   The expfmt encoder/parser are external; their answers are recorded by the driver and handed to the
   model as oracles (DESIGN 3.4): a family is represented by a token whose help field carries
   (encodable?, payload) where payload is the 64-bit hash of its text (compare cases) or its encoded
   bytes (format cases); `enc` reads the payload back, `parse` maps the text tokens [0] (scraped body)
   and [1] (expected text) to the families the driver's own expfmt parse produced (in map order).
   The decision "changed" is computed by the driver from the parsed families, independently of the
   helpers under test.

   case :=
     (0 helper pkind names (reg_err gerr get_err status) body_parse exp_parse got changed impl_class)
        helper 0 GatherAndCompare 1 CollectAndCompare 2 TransactionalGatherAndCompare 3 ScrapeAndCompare
        *_parse := () | ((fam ...))   fam := (name ok payload)    got := (fam ...)
     (1 helper names (reg_err gerr) ((name n) ...) impl)       impl := (0 n) | (1) error | (2) panic
     (2 ((write) ...) expected impl)   write := () | ((g c u s h))   expected, impl := (0 bits) | (1) panic
     (3 format names (reg_err gerr) (fam ...) impl)            impl := (0 bytes) | (1) error
     (4 (pfam ...) (pfam ...))   pfam := (name help? ((labels ts?) ...)), parser map / real convert output *)
From Coq Require Import ZArith List Bool.
From Verif Require Import Base.F64 Base.Str Base.Sx Model.TestUtil.
Import ListNotations.
Open Scope Z_scope.

Definition dummy_metric : metric :=
  {| m_labels := []; m_ts := None; m_gauge := None; m_counter := None; m_untyped := Some pzero;
     m_summary := None; m_histogram := None |}.

(* oracle token: help = ok :: payload *)
Definition token (name : str) (ok : bool) (payload : str) : family :=
  {| f_name := name; f_help := Some ((if ok then 1 else 0) :: payload); f_type := TUntyped; f_metrics := [dummy_metric] |}.
Definition oracle_enc (f : family) : option str :=
  match f_help f with
  | Some (1 :: payload) => Some payload
  | _ => None
  end.

Definition d_fam (s : sx) : option family :=
  match s with
  | SL [n; ok; p] => match dStr n, dB ok, dStr p with Some n, Some ok, Some p => Some (token n ok p) | _, _, _ => None end
  | _ => None
  end.
Definition d_names (s : sx) : option (option (list str)) := dOpt (dL dStr) s.

Definition class_of (r : result) : Z :=
  match r with
  | RNil => 0 | RDiff _ _ => 1 | RErrParse => 2 | RErrGather => 3 | RErrEncodeGot => 4 | RErrEncodeWant => 5
  | RErrRegister => 6 | RErrScrape => 7 | RErrStatus _ => 8
  end.

Definition oracle_parse (body expected : option (list family)) (t : str) : option (list family) :=
  match t with [0] => body | _ => expected end.

Definition run_helper (helper : Z) (reg_err gerr get_err : bool) (status : Z)
           (body expected : option (list family)) (got : list family) (names : option (list str)) : result :=
  let parse := oracle_parse body expected in
  if helper =? 0 then gather_and_compare oracle_enc parse (got, gerr) [1] names
  else if helper =? 1 then collect_and_compare oracle_enc parse reg_err (got, gerr) [1] names
  else if helper =? 2 then transactional_gather_and_compare oracle_enc parse (got, gerr) [1] names
  else scrape_and_compare oracle_enc parse get_err status [0] [1] names.

(* what the property demands: nil iff nothing failed before the comparison, the expected text (and
   for a scrape the body) parses, and the restricted families are unchanged *)
Definition spec_nil (helper : Z) (reg_err gerr get_err : bool) (status : Z) (body_ok exp_ok changed : bool) : bool :=
  let pre_ok :=
    if helper =? 1 then negb reg_err && negb gerr
    else if helper =? 3 then negb get_err && (status =? 200) && body_ok
    else negb gerr in
  pre_ok && spec_expect_nil exp_ok changed.

Definition both (spec_ok model_ok : bool) : Z :=
  if negb spec_ok then code_spec_violation else if negb model_ok then code_model_mismatch else code_ok.

Definition is_some {A} (o : option A) : bool := match o with Some _ => true | None => false end.

(* kind 1 *)
Definition d_count_fam (s : sx) : option family :=
  match s with
  | SL [n; SZ k] => match dStr n with
                    | Some n => if 0 <=? k then Some {| f_name := n; f_help := Some []; f_type := TUntyped;
                                                         f_metrics := repeat dummy_metric (Z.to_nat k) |} else None
                    | None => None
                    end
  | _ => None
  end.
Definition e_cresult (r : cresult) : sx := match r with CVal n => SL [SZ 0; SZ n] | CErr => SL [SZ 1] | CPanic => SL [SZ 2] end.
Definition sx_eqb_flat (a b : sx) : bool :=
  match a, b with
  | SL [SZ x], SL [SZ y] => x =? y
  | SL [SZ x; SZ u], SL [SZ y; SZ v] => (x =? y) && (u =? v)
  | _, _ => false
  end.

(* kind 2 *)
Definition d_write (s : sx) : option (option metric) :=
  match s with
  | SL [] => Some None
  | SL [SL [g; c; u; sm; h]] =>
      match dOpt dF g, dOpt dF c, dOpt dF u, dB sm, dB h with
      | Some g, Some c, Some u, Some sm, Some h =>
          Some (Some {| m_labels := []; m_ts := None; m_gauge := g; m_counter := c; m_untyped := u;
                        m_summary := if sm then Some (0, pzero, []) else None;
                        m_histogram := if h then Some (0, pzero, []) else None |})
      | _, _, _, _, _ => None
      end
  | _ => None
  end.
Definition e_fresult (r : fresult) : sx := match r with FVal v => SL [SZ 0; SZ (to_bits v)] | _ => SL [SZ 1] end.

(* kind 3 *)
Definition e_bresult (r : bresult) : sx := match r with BVal b => SL [SZ 0; eStr b] | _ => SL [SZ 1] end.
Definition d_bimpl (s : sx) : option (option str) :=
  match s with
  | SL [SZ 0; b] => match dStr b with Some b => Some (Some b) | None => None end
  | SL [SZ 1] => Some None
  | _ => None
  end.
Definition ostr_eqb (a b : option str) : bool :=
  match a, b with Some x, Some y => str_eqb x y | None, None => true | _, _ => false end.

(* kind 4 *)
Definition d_pmetric (s : sx) : option metric :=
  match s with
  | SL [ls; ts] =>
      match dL (dP dStr dStr) ls, dOpt dZ ts with
      | Some ls, Some ts => Some {| m_labels := ls; m_ts := ts; m_gauge := None; m_counter := None; m_untyped := None;
                                    m_summary := None; m_histogram := None |}
      | _, _ => None
      end
  | _ => None
  end.
Definition d_pfam (s : sx) : option family :=
  match s with
  | SL [n; h; ms] =>
      match dStr n, dOpt dStr h, dL d_pmetric ms with
      | Some n, Some h, Some ms => Some {| f_name := n; f_help := h; f_type := TUntyped; f_metrics := ms |}
      | _, _, _ => None
      end
  | _ => None
  end.
Fixpoint list_eqb {A} (eqb : A -> A -> bool) (a b : list A) : bool :=
  match a, b with
  | [], [] => true
  | x :: a', y :: b' => eqb x y && list_eqb eqb a' b'
  | _, _ => false
  end.
Definition oz_eqb (a b : option Z) : bool := match a, b with Some x, Some y => x =? y | None, None => true | _, _ => false end.
Definition pmetric_eqb (a b : metric) : bool :=
  list_eqb (fun p q => str_eqb (fst p) (fst q) && str_eqb (snd p) (snd q)) (m_labels a) (m_labels b) && oz_eqb (m_ts a) (m_ts b).
Definition pfam_eqb (a b : family) : bool :=
  str_eqb (f_name a) (f_name b) && ostr_eqb (f_help a) (f_help b) && list_eqb pmetric_eqb (f_metrics a) (f_metrics b).
Definition e_pfam (f : family) : sx :=
  SL [eStr (f_name f); eOpt eStr (f_help f);
      eL (fun m => SL [eL (fun p => SL [eStr (fst p); eStr (snd p)]) (m_labels m); eOpt SZ (m_ts m)]) (f_metrics f)].
(* spec for the normalisation: normalised, and the same families (by name) as the non-empty ones of the input *)
Definition norm_spec (input output : list family) : bool :=
  spec_normalized output &&
  forallb (fun o => existsb (fun i => str_eqb (f_name i) (f_name o) &&
                                      (Z.of_nat (length (f_metrics i)) =? Z.of_nat (length (f_metrics o)))) input) output &&
  (Z.of_nat (length output) =? Z.of_nat (length (filter (fun i => negb (is_nil (f_metrics i))) input))).

Definition check (s : sx) : Z :=
  match s with
  | SL [SZ 0; SZ helper; SZ _; names; SL [re; ge; gte; SZ status]; bp; ep; got; ch; SZ impl_class] =>
      match d_names names, dB re, dB ge, dB gte, dOpt (dL d_fam) bp, dOpt (dL d_fam) ep, dL d_fam got, dB ch with
      | Some names, Some re, Some ge, Some gte, Some bp, Some ep, Some got, Some ch =>
          let model := run_helper helper re ge gte status bp ep got names in
          let want_nil := spec_nil helper re ge gte status (is_some bp) (is_some ep) ch in
          both (Bool.eqb (impl_class =? 0) want_nil) (impl_class =? class_of model)
      | _, _, _, _, _, _, _, _ => code_decode_error
      end
  | SL [SZ 1; SZ helper; names; SL [re; ge]; fams; impl] =>
      match d_names names, dB re, dB ge, dL d_count_fam fams with
      | Some names, Some re, Some ge, Some fams =>
          let model := if helper =? 0 then gather_and_count (fams, ge) names else collect_and_count re (fams, ge) names in
          let spec := if (if helper =? 0 then false else re) || ge
                      then (if helper =? 0 then SL [SZ 1] else SL [SZ 2])
                      else SL [SZ 0; SZ (spec_count names fams)] in
          both (sx_eqb_flat impl spec) (sx_eqb_flat impl (e_cresult model))
      | _, _, _, _ => code_decode_error
      end
  | SL [SZ 2; ws; expected; impl] =>
      match dL d_write ws with
      | Some ws => both (sx_eqb_flat impl expected) (sx_eqb_flat impl (e_fresult (to_float64 ws)))
      | None => code_decode_error
      end
  | SL [SZ 3; SZ format; names; SL [re; ge]; fams; impl] =>
      match d_names names, dB re, dB ge, dL d_fam fams, d_bimpl impl with
      | Some names, Some re, Some ge, Some fams, Some impl =>
          let model := match collect_and_format (fun _ => oracle_enc) format re (fams, ge) names with BVal b => Some b | _ => None end in
          let spec := if re || ge then None
                      else spec_encoding oracle_enc (spec_restrict (Some (match names with Some ns => ns | None => [] end)) fams) in
          both (ostr_eqb impl spec) (ostr_eqb impl model)
      | _, _, _, _, _ => code_decode_error
      end
  | SL [SZ 4; parsed; impl] =>
      match dL d_pfam parsed, dL d_pfam impl with
      | Some parsed, Some impl =>
          both (norm_spec parsed impl) (list_eqb pfam_eqb impl (normalize (map fill_help parsed)))
      | _, _ => code_decode_error
      end
  | _ => code_decode_error
  end.

Definition explain (s : sx) : sx :=
  match s with
  | SL [SZ 0; SZ helper; SZ _; names; SL [re; ge; gte; SZ status]; bp; ep; got; ch; SZ _] =>
      match d_names names, dB re, dB ge, dB gte, dOpt (dL d_fam) bp, dOpt (dL d_fam) ep, dL d_fam got, dB ch with
      | Some names, Some re, Some ge, Some gte, Some bp, Some ep, Some got, Some ch =>
          SL [SZ (class_of (run_helper helper re ge gte status bp ep got names));
              eB (spec_nil helper re ge gte status (is_some bp) (is_some ep) ch)]
      | _, _, _, _, _, _, _, _ => SL []
      end
  | SL [SZ 1; SZ helper; names; SL [re; ge]; fams; _] =>
      match d_names names, dB re, dB ge, dL d_count_fam fams with
      | Some names, Some re, Some ge, Some fams =>
          SL [e_cresult (if helper =? 0 then gather_and_count (fams, ge) names else collect_and_count re (fams, ge) names);
              SZ (spec_count names fams)]
      | _, _, _, _ => SL []
      end
  | SL [SZ 2; ws; expected; _] =>
      match dL d_write ws with Some ws => SL [e_fresult (to_float64 ws); expected] | None => SL [] end
  | SL [SZ 3; SZ format; names; SL [re; ge]; fams; _] =>
      match d_names names, dB re, dB ge, dL d_fam fams with
      | Some names, Some re, Some ge, Some fams => SL [e_bresult (collect_and_format (fun _ => oracle_enc) format re (fams, ge) names)]
      | _, _, _, _ => SL []
      end
  | SL [SZ 4; parsed; _] =>
      match dL d_pfam parsed with
      | Some parsed => SL [eL e_pfam (normalize (map fill_help parsed))]
      | None => SL []
      end
  | _ => SL []
  end.
