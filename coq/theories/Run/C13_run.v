(* Run/C13_run.v -- correspondence runner for C13 (harness/cmd/c13/main.go).
   Streams (first element of a case):
   0 desc   : (0 ctor layers (orig wrapped native_same panicked))   wrapDesc on one descriptor
   1 write  : (1 arrays metrics ops (outs final_arrays))            wrappingMetric.Write over shared label slices
   2 reg    : (2 collectors ops results)                            Register/Unregister through wrappers vs natively declared
              (5 layers (register_kind mustregister_panicked unregister))  wrappers over a nil Registerer (same stream file)
   3 gather : (3 layers fams0 fams1 fams2 unreg_ok n_after)         Gather unwrapped / wrapped / unwrapped again
   4 gather-broken : (4 layers ninvalid fams0 fams1 fams2 fams_native (e0 e1 e2 en))
                                                                    collectors emitting broken metrics in the middle *)
From Coq Require Import ZArith List Bool.
From Verif Require Import Base.Str Base.Sx Model.Wrap.
Import ListNotations.
Open Scope Z_scope.

Definition both (spec_ok model_ok : bool) : Z :=
  if negb spec_ok then code_spec_violation else if negb model_ok then code_model_mismatch else code_ok.

(* ---------- decoders ---------- *)
Definition d_lp : sx -> option lp := dP dStr dStr.
Definition d_labels : sx -> option labels := dL d_lp.
Definition d_layer : sx -> option layer := dP dStr d_labels.
Definition dec_var : sx -> option (option (list str)) := dOpt (dL dStr).

Record pdesc := mkP { p_fq : str; p_help : str; p_const : labels; p_var : option (list str); p_kind : Z; p_id : Z }.
Definition d_pdesc (s : sx) : option pdesc :=
  match s with
  | SL [fq; help; cst; var; SL [SZ k; SZ i]] =>
      match dStr fq, dStr help, d_labels cst, dec_var var with
      | Some fq, Some help, Some cst, Some var => Some (mkP fq help cst var k i)
      | _, _, _, _ => None
      end
  | _ => None
  end.

Definition err_kind (e : option derr) : Z * Z :=
  match e with
  | None => (0, 0)
  | Some (EUser i) => (1, i)
  | Some (EWrapDup _) => (2, 0)
  | Some EBadMetricName => (3, 0)
  | Some (EBadLabelName _) => (4, 0)
  | Some EBadLabelValue => (5, 0)
  | Some EDupLabels => (6, 0)
  end.
Definition err_of_kind (k i : Z) : option derr :=
  if k =? 0 then None else if k =? 1 then Some (EUser i) else if k =? 2 then Some (EWrapDup [])
  else if k =? 3 then Some EBadMetricName else if k =? 4 then Some (EBadLabelName [])
  else if k =? 5 then Some EBadLabelValue else Some EDupLabels.

Fixpoint strs_eqb (a b : list str) : bool :=
  match a, b with
  | [], [] => true
  | x :: a', y :: b' => str_eqb x y && strs_eqb a' b'
  | _, _ => false
  end.
Definition var_eqb (a b : option (list str)) : bool :=
  match a, b with
  | None, None => true
  | Some x, Some y => strs_eqb x y
  | _, _ => false
  end.
Definition fields_eqb (fq help : str) (cst : labels) (var : option (list str)) (p : pdesc) : bool :=
  str_eqb fq (p_fq p) && str_eqb help (p_help p) && labels_eqb cst (p_const p) && var_eqb var (p_var p).
Definition proj_eqb (d : desc) (p : pdesc) : bool :=
  fields_eqb (d_fq d) (d_help d) (d_const d) (d_var d) p &&
  (fst (err_kind (d_err d)) =? p_kind p) && (snd (err_kind (d_err d)) =? p_id p).

(* ---------- stream 0: descriptors ---------- *)
Inductive ctor := KNew (fq help : str) (var : list str) (cl : labels) | KInvalid (id : Z).
Definition d_ctor (s : sx) : option ctor :=
  match s with
  | SL [SZ 0; fq; help; var; cl] =>
      match dStr fq, dStr help, dL dStr var, d_labels cl with
      | Some fq, Some help, Some var, Some cl => Some (KNew fq help var cl)
      | _, _, _, _ => None
      end
  | SL [SZ 1; SZ i] => Some (KInvalid i)
  | _ => None
  end.
Definition ctor_model (k : ctor) : wres :=
  match k with KNew fq help var cl => new_desc fq help (Some var) cl | KInvalid i => WDesc (invalid_desc i) end.
Definition ctor_spec (k : ctor) : sdesc :=
  match k with KNew fq help var cl => spec_native fq help var cl | KInvalid i => SUserErr i [] [] [] None end.

Definition sdesc_ok (s : sdesc) (w : pdesc) (native_same panicked : Z) : bool :=
  (panicked =? 0) &&
  match s with
  | SPanic => false
  | SReject => negb (p_kind w =? 0)
  | SUserErr i fq help cst var => (p_kind w =? 1) && (p_id w =? i) && fields_eqb fq help cst var w
  | SAccept fq help cst var => (p_kind w =? 0) && fields_eqb fq help cst (Some var) w && (native_same =? 1)
  end.

Definition check_desc (k : ctor) (ly : list layer) (orig wrapped : pdesc) (native_same panicked : Z) : Z :=
  let d0 := ctor_model k in
  let mw := fold_left wrap_step ly d0 in
  let model_ok :=
    match d0 with WDesc d => proj_eqb d orig | WPanic => false end &&
    match mw with
    | WPanic => panicked =? 1
    | WDesc w => (panicked =? 0) && proj_eqb w wrapped &&
                 (native_same =? (match d_err w with None => 1 | Some _ => 2 end))
    end in
  both (sdesc_ok (spec_wrap (ctor_spec k) ly) wrapped native_same panicked) model_ok.

(* ---------- stream 1: Write over shared label slices ---------- *)
Definition d_metric (s : sx) : option (nat * nat * bool * Z) :=
  match s with
  | SL [a; l; w; SZ pay] =>
      match dNat a, dNat l, dB w with
      | Some a, Some l, Some w => Some (a, l, w, pay)
      | _, _, _ => None
      end
  | _ => None
  end.
Definition dummy_desc : desc := mkDesc [] [] [] (Some []) None None None.
Definition mk_metric (m : nat * nat * bool * Z) : metric :=
  let '(a, l, w, pay) := m in MBase dummy_desc w (mkSlice a l) pay.
Definition dflt_metric : nat * nat * bool * Z := (O, O, true, 0).

Definition out_t := option (labels * Z).
Fixpoint run_writes (h : heap) (ms : list (nat * nat * bool * Z)) (ops : list (nat * list layer)) : heap * list out_t :=
  match ops with
  | [] => (h, [])
  | (mi, ly) :: rest =>
      let '(h1, r) := m_write h (wrap_metric (mk_metric (nth mi ms dflt_metric)) ly) in
      let o := option_map (fun sp => (s_read h1 (fst sp), snd sp)) r in
      let '(h2, os) := run_writes h1 ms rest in
      (h2, o :: os)
  end.

Definition labels_same (a b : labels) : bool :=
  if nodup_str (map fst a) then labels_eqb a b else Nat.eqb (length a) (length b) && is_perm a b.
Definition out_eqb (a b : out_t) : bool :=
  match a, b with
  | None, None => true
  | Some (l1, p1), Some (l2, p2) => labels_same l1 l2 && (p1 =? p2)
  | _, _ => false
  end.
Fixpoint list_eqb {A} (e : A -> A -> bool) (a b : list A) : bool :=
  match a, b with
  | [], [] => true
  | x :: a', y :: b' => e x y && list_eqb e a' b'
  | _, _ => false
  end.
Definition heap_eqb (a b : heap) : bool := list_eqb labels_eqb a b.

Definition spec_write_ok (arrays : heap) (ms : list (nat * nat * bool * Z)) (op : nat * list layer) (o : out_t) : bool :=
  let '(a, l, w, pay) := nth (fst op) ms dflt_metric in
  if w then match o with None => true | Some _ => false end
  else match o with
       | None => false
       | Some (lbl, p) => (p =? pay) && labels_ok (firstn l (nth a arrays [])) (all_added (snd op)) lbl
       end.

Definition check_write (arrays : heap) (ms : list (nat * nat * bool * Z)) (ops : list (nat * list layer))
           (outs : list out_t) (finals : heap) : Z :=
  let '(hf, mouts) := run_writes arrays ms ops in
  let spec_ok := Nat.eqb (length ops) (length outs) &&
                 forallb (fun p => spec_write_ok arrays ms (fst p) (snd p)) (combine ops outs) &&
                 heap_eqb arrays finals in
  let model_ok := list_eqb out_eqb mouts outs && heap_eqb (firstn (length arrays) hf) finals in
  both spec_ok model_ok.

(* ---------- stream 2: registration ---------- *)
(* the runner's stand-in for xxhash: an injective encoding of byte strings *)
Definition poly_hash (s : str) : Z := fold_left (fun a b => a * 257 + b + 1) s 0.

Definition desc_of_pdesc (p : pdesc) : desc :=
  let raw := mkDesc (p_fq p) (p_help p) (p_const p) (p_var p) None None (err_of_kind (p_kind p) (p_id p)) in
  if p_kind p =? 0 then
    match new_desc (p_fq p) (p_help p) (p_var p) (p_const p) with
    | WDesc d => d
    | WPanic => raw
    end
  else raw.

Inductive rop :=
| ORegister (ci : nat) (ly : list layer)
| OUnregister (ci : nat) (ly : list layer)
| OMustRegister (cis : list nat) (ly : list layer).   (* MustRegister(c1..cn) through one wrapper chain *)
Definition d_rop (s : sx) : option rop :=
  match s with
  | SL [SZ 0; ci; ly] => match dNat ci, dL d_layer ly with Some ci, Some ly => Some (ORegister ci ly) | _, _ => None end
  | SL [SZ 1; ci; ly] => match dNat ci, dL d_layer ly with Some ci, Some ly => Some (OUnregister ci ly) | _, _ => None end
  | SL [SZ 2; cis; ly] => match dL dNat cis, dL d_layer ly with Some cis, Some ly => Some (OMustRegister cis ly) | _, _ => None end
  | _ => None
  end.
Definition d_coll (s : sx) : option (bool * list pdesc) := dP dB (dL d_pdesc) s.
Definition d_res (s : sx) : option (Z * Z * Z) := dT3 dZ dZ dZ s.

Definition rres_kind (r : rres) : Z * Z :=
  match r with
  | ROk => (0, -1) | RInvalid _ => (1, -1) | RDimExisting => (2, -1) | RDimNew => (3, -1)
  | RAlready ex => (4, ex) | RDupDesc => (5, -1)
  end.

Definition mk_coll (colls : list (bool * list pdesc)) (ci : nat) (ly : list layer) : collector :=
  wrap_collector (CBase (Z.of_nat ci) (map desc_of_pdesc (snd (nth ci colls (false, [])))) []) ly.

(* wrappingRegisterer.MustRegister (wrap.go:132-141): Register one after the other, panic with the
   first error; what was registered before stays registered, nothing after it is attempted *)
Fixpoint must_register (colls : list (bool * list pdesc)) (r : registry) (cis : list nat) (ly : list layer)
  : registry * (Z * Z) :=
  match cis with
  | [] => (r, (0, -1))
  | ci :: rest =>
      match register_collector poly_hash r (mk_coll colls ci ly) with
      | None => (r, (6, -1))
      | Some (r', ROk) => must_register colls r' rest ly
      | Some (r', res) => (r', rres_kind res)
      end
  end.

Fixpoint run_reg (colls : list (bool * list pdesc)) (r : registry) (ops : list rop) : list (Z * Z) :=
  match ops with
  | [] => []
  | ORegister ci ly :: rest =>
      match register_collector poly_hash r (mk_coll colls ci ly) with
      | None => (6, -1) :: run_reg colls r rest
      | Some (r', res) => rres_kind res :: run_reg colls r' rest
      end
  | OUnregister ci ly :: rest =>
      match unregister_collector poly_hash r (mk_coll colls ci ly) with
      | None => (6, -1) :: run_reg colls r rest
      | Some (r', b) => ((if b then 1 else 0), -1) :: run_reg colls r' rest
      end
  | OMustRegister cis ly :: rest =>
      let '(r', res) := must_register colls r cis ly in res :: run_reg colls r' rest
  end.

Definition op_unordered (colls : list (bool * list pdesc)) (o : rop) : bool :=
  match o with
  | ORegister ci _ | OUnregister ci _ => fst (nth ci colls (false, []))
  | OMustRegister cis _ => existsb (fun ci => fst (nth ci colls (false, []))) cis
  end.
Definition is_reg (o : rop) : bool := match o with OUnregister _ _ => false | _ => true end.
Definition kind_same (unordered : bool) (a b : Z) : bool :=
  if unordered then Bool.eqb (a =? 0) (b =? 0) && Bool.eqb (a =? 6) (b =? 6) else a =? b.

(* result = (wrapped outcome, existing collector index, natively declared outcome or 9 when no
   native equivalent exists because an added label is already a constant label) *)
Definition reg_spec_ok (colls : list (bool * list pdesc)) (o : rop) (res : Z * Z * Z) : bool :=
  let '(w, ex, n) := res in
  let un := op_unordered colls o in
  if is_reg o then
    (* an AlreadyRegisteredError names one of the user's own collectors, as it was provided *)
    (if w =? 4 then 0 <=? ex else true) &&
    (if n =? 9 then negb (w =? 0) && negb (w =? 6) else kind_same un w n)
  else
    if n =? 9 then true else w =? n.
Definition reg_model_ok (colls : list (bool * list pdesc)) (o : rop) (m : Z * Z) (res : Z * Z * Z) : bool :=
  let '(w, ex, _) := res in
  let un := op_unordered colls o in
  if is_reg o then kind_same un (fst m) w && (if (w =? 4) && (fst m =? 4) then snd m =? ex else true)
  else fst m =? w.

Definition check_reg (colls : list (bool * list pdesc)) (ops : list rop) (res : list (Z * Z * Z)) : Z :=
  let m := run_reg colls (empty_registry) ops in
  both (Nat.eqb (length ops) (length res) &&
        forallb (fun p => reg_spec_ok colls (fst p) (snd p)) (combine ops res))
       (forallb (fun p => reg_model_ok colls (fst (fst p)) (snd (fst p)) (snd p)) (combine (combine ops m) res)).

(* ---------- stream 3: gather ---------- *)
Record fam := mkFam { f_name : str; f_help : str; f_type : Z; f_metrics : list (labels * str) }.
Definition d_fam (s : sx) : option fam :=
  match s with
  | SL [n; h; SZ t; ms] =>
      match dStr n, dStr h, dL (dP d_labels dStr) ms with
      | Some n, Some h, Some ms => Some (mkFam n h t ms)
      | _, _, _ => None
      end
  | _ => None
  end.
Definition metric_eqb (a b : labels * str) : bool := labels_eqb (fst a) (fst b) && str_eqb (snd a) (snd b).
Definition fam_eqb (a b : fam) : bool :=
  str_eqb (f_name a) (f_name b) && str_eqb (f_help a) (f_help b) && (f_type a =? f_type b) &&
  list_eqb metric_eqb (f_metrics a) (f_metrics b).

(* the specification: a pure renaming *)
Definition spec_rename (ly : list layer) (f : fam) : fam :=
  mkFam (all_prefix ly ++ f_name f) (f_help f) (f_type f)
        (map (fun m => (spec_labels (fst m) (all_added ly), snd m)) (f_metrics f)).
(* the model: every metric written through the wrappers over a heap holding its label slice *)
Definition model_labels (ly : list layer) (l : labels) : labels :=
  let h := [l] in
  match m_write h (wrap_metric (MBase dummy_desc false (mkSlice O (length l)) 0) ly) with
  | (h1, Some (s, _)) => s_read h1 s
  | (_, None) => []
  end.
Definition model_name (ly : list layer) (n : str) : str :=
  fold_left (fun acc l => fst l ++ acc) ly n.
Definition model_rename (ly : list layer) (f : fam) : fam :=
  mkFam (model_name ly (f_name f)) (f_help f) (f_type f)
        (map (fun m => (model_labels ly (fst m), snd m)) (f_metrics f)).

Definition check_gather (ly : list layer) (f0 f1 f2 : list fam) (unreg_ok n_after : Z) : Z :=
  both (list_eqb fam_eqb (map (spec_rename ly) f0) f1 && list_eqb fam_eqb f0 f2 && (unreg_ok =? 1) && (n_after =? 0))
       (list_eqb fam_eqb (map (model_rename ly) f0) f1).

(* ---------- stream 4: gather with broken metrics in the middle ---------- *)
(* a collected metric whose wrapped descriptor is refused (it already carries an added label) is
   reported by Gather and dropped, exactly as a natively declared collector reporting that metric
   as invalid; every other metric is exposed, wherever it comes in the collection order *)
Definition spec_keeps (ly : list layer) (f : fam) (m : labels * str) : bool :=
  match spec_wrap (SAccept (f_name f) (f_help f) (fst m) []) ly with SAccept _ _ _ _ => true | _ => false end.
Definition model_keeps (ly : list layer) (f : fam) (m : labels * str) : bool :=
  match new_desc (f_name f) (f_help f) (Some []) (fst m) with
  | WDesc d => match wrap_layers d ly with
               | WDesc d' => match d_err d' with None => true | Some _ => false end
               | WPanic => false
               end
  | WPanic => false
  end.
Definition filter_fams (keep : fam -> labels * str -> bool) (fs : list fam) : list fam :=
  filter (fun f => negb (is_nil (f_metrics f)))
         (map (fun f => mkFam (f_name f) (f_help f) (f_type f) (filter (keep f) (f_metrics f))) fs).
Definition count_metrics (fs : list fam) : nat := fold_left (fun a f => (a + length (f_metrics f))%nat) fs O.

Definition check_gather_broken (ly : list layer) (ninv : Z) (f0 f1 f2 fn : list fam) (e0 e1 e2 en : bool) : Z :=
  let sf := filter_fams (spec_keeps ly) f0 in
  let dropped := negb (Nat.eqb (count_metrics sf) (count_metrics f0)) in
  both (list_eqb fam_eqb (map (spec_rename ly) sf) f1 && list_eqb fam_eqb f1 fn && list_eqb fam_eqb f0 f2 &&
        Bool.eqb e1 ((0 <? ninv) || dropped) && Bool.eqb e1 en && Bool.eqb e0 (0 <? ninv) && Bool.eqb e2 (0 <? ninv))
       (list_eqb fam_eqb (map (model_rename ly) (filter_fams (model_keeps ly) f0)) f1).

(* ---------- stream 2, nil Registerer: wrappers over a nil Registerer are no-ops ---------- *)
(* documented (wrap.go:31,57): Register returns nil, MustRegister does not panic, Unregister returns
   false, at every nesting depth; res = (Register kind, MustRegister panicked, Unregister result) *)
Definition nil_registerer_model (ly : list layer) : Z * Z * Z := (0, 0, 0).
Definition check_nil_registerer (ly : list layer) (res : Z * Z * Z) : Z :=
  let '(rk, mp, un) := res in
  both ((rk =? 0) && (mp =? 0) && (un =? 0))
       (let '(a, b, c) := nil_registerer_model ly in (rk =? a) && (mp =? b) && (un =? c)).

(* ---------- entry points ---------- *)
Definition check (s : sx) : Z :=
  match s with
  | SL [SZ 0; k; ly; SL [orig; wrapped; SZ ns; SZ pk]] =>
      match d_ctor k, dL d_layer ly, d_pdesc orig, d_pdesc wrapped with
      | Some k, Some ly, Some orig, Some wrapped => check_desc k ly orig wrapped ns pk
      | _, _, _, _ => code_decode_error
      end
  | SL [SZ 1; arrays; ms; ops; SL [outs; finals]] =>
      match dL d_labels arrays, dL d_metric ms, dL (dP dNat (dL d_layer)) ops,
            dL (dOpt (dP d_labels dZ)) outs, dL d_labels finals with
      | Some arrays, Some ms, Some ops, Some outs, Some finals => check_write arrays ms ops outs finals
      | _, _, _, _, _ => code_decode_error
      end
  | SL [SZ 2; colls; ops; res] =>
      match dL d_coll colls, dL d_rop ops, dL d_res res with
      | Some colls, Some ops, Some res => check_reg colls ops res
      | _, _, _ => code_decode_error
      end
  | SL [SZ 3; ly; f0; f1; f2; SZ u; SZ n] =>
      match dL d_layer ly, dL d_fam f0, dL d_fam f1, dL d_fam f2 with
      | Some ly, Some f0, Some f1, Some f2 => check_gather ly f0 f1 f2 u n
      | _, _, _, _ => code_decode_error
      end
  | SL [SZ 5; ly; res] =>
      match dL d_layer ly, d_res res with
      | Some ly, Some res => check_nil_registerer ly res
      | _, _ => code_decode_error
      end
  | SL [SZ 4; ly; SZ ninv; f0; f1; f2; fn; SL [e0; e1; e2; en]] =>
      match dL d_layer ly, dL d_fam f0, dL d_fam f1, dL d_fam f2, dL d_fam fn, dB e0, dB e1, dB e2, dB en with
      | Some ly, Some f0, Some f1, Some f2, Some fn, Some e0, Some e1, Some e2, Some en =>
          check_gather_broken ly ninv f0 f1 f2 fn e0 e1 e2 en
      | _, _, _, _, _, _, _, _, _ => code_decode_error
      end
  | _ => code_decode_error
  end.

(* replays: what model and specification say *)
Definition e_lp (p : lp) : sx := SL [eStr (fst p); eStr (snd p)].
Definition e_desc (d : desc) : sx :=
  SL [eStr (d_fq d); eStr (d_help d); eL e_lp (d_const d); eOpt (eL eStr) (d_var d);
      SL [SZ (fst (err_kind (d_err d))); SZ (snd (err_kind (d_err d)))]].
Definition e_wres (w : wres) : sx := match w with WPanic => SL [SZ 6] | WDesc d => e_desc d end.
Definition e_sdesc (s : sdesc) : sx :=
  match s with
  | SPanic => SL [SZ 6]
  | SReject => SL [SZ 2]
  | SUserErr i fq help cst var => SL [SZ 1; SZ i; eStr fq; eStr help; eL e_lp cst; eOpt (eL eStr) var]
  | SAccept fq help cst var => SL [SZ 0; eStr fq; eStr help; eL e_lp cst; eL eStr var]
  end.
Definition e_out (o : out_t) : sx := eOpt (fun p => SL [eL e_lp (fst p); SZ (snd p)]) o.
Definition e_fam (f : fam) : sx :=
  SL [eStr (f_name f); eStr (f_help f); SZ (f_type f); eL (fun m => SL [eL e_lp (fst m); eStr (snd m)]) (f_metrics f)].

Definition explain (s : sx) : sx :=
  match s with
  | SL [SZ 0; k; ly; _] =>
      match d_ctor k, dL d_layer ly with
      | Some k, Some ly => SL [e_wres (fold_left wrap_step ly (ctor_model k)); e_sdesc (spec_wrap (ctor_spec k) ly)]
      | _, _ => SL []
      end
  | SL [SZ 1; arrays; ms; ops; _] =>
      match dL d_labels arrays, dL d_metric ms, dL (dP dNat (dL d_layer)) ops with
      | Some arrays, Some ms, Some ops =>
          let '(hf, mouts) := run_writes arrays ms ops in
          SL [eL e_out mouts; eL (eL e_lp) (firstn (length arrays) hf)]
      | _, _, _ => SL []
      end
  | SL [SZ 2; colls; ops; _] =>
      match dL d_coll colls, dL d_rop ops with
      | Some colls, Some ops => eL (fun p => SL [SZ (fst p); SZ (snd p)]) (run_reg colls empty_registry ops)
      | _, _ => SL []
      end
  | SL [SZ 3; ly; f0; _; _; _; _] =>
      match dL d_layer ly, dL d_fam f0 with
      | Some ly, Some f0 => SL [eL e_fam (map (model_rename ly) f0); eL e_fam (map (spec_rename ly) f0)]
      | _, _ => SL []
      end
  | SL [SZ 4; ly; _; f0; _; _; _; _] =>
      match dL d_layer ly, dL d_fam f0 with
      | Some ly, Some f0 => SL [eL e_fam (map (model_rename ly) (filter_fams (model_keeps ly) f0));
                                eL e_fam (map (spec_rename ly) (filter_fams (spec_keeps ly) f0))]
      | _, _ => SL []
      end
  | _ => SL []
  end.
