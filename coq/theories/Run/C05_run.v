(* Run/C05_run.v -- conservative-accounting checker for concurrent native histograms (harness/cmd/c05).
   case = (kind classic_bounds observations scrapes final flags)
     observation = (value inv res), scrape = (expo inv res), expo = (schema zt zero_count count sum pos neg classic_cum)
   kind 0/1: no reset is configured (NativeHistogramMinResetDuration = 0), so nothing may ever be dropped.
   kind 2: delayed resets are scheduled and fired by a timer thread; resets drop observations, so the MUST set is
   empty (only upper bounds, self-consistency and liveness are demanded).
   For a scrape over [inv,res]: MUST = observations returned before inv, MAY = observations invoked before res.
   The boundary law (want_bucket / want_zero, exact dyadic comparison against the generated table) is C04's. *)
From Coq Require Import ZArith List Bool.
From Verif Require Import Base.F64 Base.Str Base.Sx Base.Conc Model.NativeHist Model.NativeConc.
Import ListNotations.
Open Scope Z_scope.

Record cexpo := mkC { x : expo; x_classic : list Z }.

Definition d_expo (s : sx) : option cexpo :=
  match s with
  | SL [SZ sc; zt; SZ zc; SZ cnt; sm; pos; neg; cum] =>
      match dF zt, dF sm, dL (dP dZ dZ) pos, dL (dP dZ dZ) neg, dL dZ cum with
      | Some zt, Some sm, Some pos, Some neg, Some cum => Some (mkC (mkExpo sc zt zc cnt sm 0 pos neg) cum)
      | _, _, _, _, _ => None
      end
  | _ => None
  end.
Definition d_obs (s : sx) : option (f64 * Z * Z) :=
  match s with SL [v; SZ a; SZ b] => option_map (fun v => (v, a, b)) (dF v) | _ => None end.
Definition d_scrape (s : sx) : option (cexpo * Z * Z) :=
  match s with SL [e; SZ a; SZ b] => option_map (fun e => (e, a, b)) (d_expo e) | _ => None end.

(* Under concurrency a value that is within the (possibly just widened) zero threshold may legitimately sit
   either in the zero bucket or in the regular bucket whose range contains it (an observer that took its
   ticket before the widening computes its key against the old threshold; the widening merge keeps such a
   late bucket as a regular bucket). The property's wording for C05 is "lies in a bucket that, at the exposed
   schema and zero threshold, contains it", so both places are accepted; values above the threshold must be in
   their regular bucket, zeros in the zero bucket. *)
Definition in_key (s k : Z) (neg : bool) (v : f64) : bool :=
  negb (is_nan v) && negb (feq v pzero) && Bool.eqb (signbit v) neg &&
  in_bucket s k (exact_B s (k - 1)) (exact_B s k) (fabs v).
Definition key_count (G : list f64) (s k : Z) (neg : bool) : Z := zlen (filter (in_key s k neg) G).
Definition key_count_strict (G : list f64) (s : Z) (z : f64) (k : Z) (neg : bool) : Z :=
  zlen (filter (fun v => in_key s k neg v && negb (in_zero z v)) G).
Definition zero_values (G : list f64) : Z := zlen (filter (fun v => feq v pzero) G).

Definition covered (G : list f64) (s : Z) (z : f64) (neg : bool) (pops : list (Z * Z)) : bool :=
  forallb (fun v =>
    is_nan v || in_zero z v || negb (Bool.eqb (signbit v) neg) ||
    existsb (fun p => Z.ltb 0 (snd p) && in_key s (fst p) neg v) pops) G.

Definition side_between (must may : list f64) (s : Z) (z : f64) (neg : bool) (pops : list (Z * Z)) : bool :=
  keys_increasing pops &&
  forallb (fun p => Z.leb 0 (snd p) &&
                    Z.leb (key_count_strict must s z (fst p) neg) (snd p) &&
                    Z.leb (snd p) (key_count may s (fst p) neg)) pops &&
  covered must s z neg pops.

Definition classic_between (bounds : list f64) (must may : list f64) (cum : list Z) (count : Z) : bool :=
  match bounds with
  | [] => true   (* default classic buckets are not requested by the driver; nothing to compare *)
  | _ =>
      Nat.eqb (length cum) (length bounds) &&
      forallb (fun bc => Z.leb (zlen (filter (fun v => fle v (fst bc)) must)) (snd bc) &&
                         Z.leb (snd bc) (zlen (filter (fun v => fle v (fst bc)) may)) &&
                         Z.leb (snd bc) count) (combine bounds cum)
  end.

Definition scrape_ok (bounds : list f64) (must may : list f64) (c : cexpo) : bool :=
  let e := x c in
  let s := e_schema e in
  let z := e_zt e in
  let rest := zsum (map snd (e_pos e)) + zsum (map snd (e_neg e)) + e_zc e in
  let nanc := e_count e - rest in
  Z.leb (-4) s && Z.leb s 8 &&
  Z.leb (zlen must) (e_count e) && Z.leb (e_count e) (zlen may) &&
  Z.leb (zero_values must) (e_zc e) && Z.leb (e_zc e) (want_zero may z) &&
  Z.leb (nan_count must) nanc && Z.leb nanc (nan_count may) &&
  side_between must may s z false (e_pos e) &&
  side_between must may s z true (e_neg e) &&
  classic_between bounds must may (x_classic c) (e_count e).

(* the strict placement rule (C04's law as a sandwich): values within the exposed zero threshold are in the zero
   bucket, not in a regular bucket. It holds for the code as it is now (the widening merge absorbs late buckets at
   or below the merged key); kept separate from scrape_ok, whose weaker rule is what Proofs/C05_proofs.v reasons about. *)
Definition strict_ok (must may : list f64) (c : cexpo) : bool :=
  let e := x c in
  let s := e_schema e in
  let z := e_zt e in
  Z.leb (want_zero must z) (e_zc e) && Z.leb (e_zc e) (want_zero may z) &&
  forallb (fun p => Z.leb (want_bucket must s z false (fst p)) (snd p) && Z.leb (snd p) (want_bucket may s z false (fst p))) (e_pos e) &&
  forallb (fun p => Z.leb (want_bucket must s z true (fst p)) (snd p) && Z.leb (snd p) (want_bucket may s z true (fst p))) (e_neg e).

(* Classic and native buckets of ONE exposition describe the same observations (also across resets): for a finite
   positive classic bound b, everything the native side places at or below b (negative buckets, the zero bucket when
   its threshold is at most b, positive buckets whose upper boundary is at most b) is counted by the classic
   cumulative count, and nothing the native side places above b (NaN, +Inf, positive buckets whose lower boundary
   is at least b) is. *)
Definition classic_native_ok (bounds : list f64) (c : cexpo) : bool :=
  let e := x c in
  let s := e_schema e in
  let rest := zsum (map snd (e_pos e)) + zsum (map snd (e_neg e)) + e_zc e in
  let nanc := e_count e - rest in
  match bounds with
  | [] => true
  | _ =>
      forallb (fun bc =>
        let b := fst bc in
        if is_fin b && flt pzero b then
          let below := (if fle (e_zt e) b then e_zc e else 0) + zsum (map snd (e_neg e)) +
                       zsum (map snd (filter (fun p => Z.leb (fst p) (max_key s) && dy_le (exact_B s (fst p)) (dy_of b)) (e_pos e))) in
          let above := nanc +
                       zsum (map snd (filter (fun p => Z.ltb (max_key s) (fst p) || dy_le (dy_of b) (exact_B s (fst p - 1))) (e_pos e))) in
          Z.leb below (snd bc) && Z.leb (snd bc) (e_count e - above)
        else true) (combine bounds (x_classic c))
  end.

Definition check_hist (s : sx) : Z :=
  match s with
  | SL [SZ kind; bounds; obs; scr; final; SZ flags] =>
      match dL dF bounds, dL d_obs obs, dL d_scrape scr, d_expo final with
      | Some bounds, Some obs, Some scr, Some final =>
          let all := map (fun o => fst (fst o)) obs in
          let ok :=
            Z.eqb flags 0 &&
            forallb (fun sc => let '(e, a, b) := sc in
               let must := if Z.eqb kind 2 then [] else map (fun o => fst (fst o)) (filter (fun o => Z.leb (snd o) a) obs) in
               let may := map (fun o => fst (fst o)) (filter (fun o => Z.ltb (snd (fst o)) b) obs) in
               scrape_ok bounds must may e && strict_ok must may e && classic_native_ok bounds e) scr &&
            (if Z.eqb kind 2 then scrape_ok bounds [] all final && strict_ok [] all final
             else scrape_ok bounds all all final && strict_ok all all final) &&
            classic_native_ok bounds final in
          if ok then code_ok else code_spec_violation
      | _, _, _, _ => code_decode_error
      end
  | _ => code_decode_error
  end.

Definition explain_hist (s : sx) : sx :=
  match s with
  | SL [SZ kind; bounds; obs; scr; final; SZ flags] =>
      match dL dF bounds, dL d_obs obs, dL d_scrape scr, d_expo final with
      | Some bounds, Some obs, Some scr, Some final =>
          let all := map (fun o => fst (fst o)) obs in
          SL [SZ flags; eB (scrape_ok bounds all all final);
              eL (fun sc => let '(e, a, b) := sc in
                   eB (scrape_ok bounds (map (fun o => fst (fst o)) (filter (fun o => Z.leb (snd o) a) obs))
                                        (map (fun o => fst (fst o)) (filter (fun o => Z.ltb (snd (fst o)) b) obs)) e)) scr]
      | _, _, _, _ => SL []
      end
  | _ => SL []
  end.

(* ---- stream tie (kind 3): case = (3 cfg progs sched trace calls flags), cfg = (schema zero_threshold_option
   max_buckets max_zero_threshold).  The step machine of Model/NativeConc.v (zmachine: integer counters) runs under
   the SAME schedule as the real instrumented native-only histogram; every executed schedule point must carry the
   same canonical label, every call must return at the same logical time with the same result (expositions are
   compared on schema, zero threshold bits, zero count, sample count, sum bits - NaN = NaN - and the non-zero
   populations).  Code 1 on any difference. *)
Definition d_nop (s : sx) : option nop :=
  match s with
  | SL [SZ 0; v] => option_map NObserve (dF v)
  | SL [SZ 1] => Some NWrite
  | SL [SZ 2] => Some NFire
  | SL [SZ 3; SZ d] => Some (NAdvance d)
  | _ => None
  end.
Definition d_tcfg (s : sx) : option NativeHist.config :=
  match s with
  | SL [SZ sc; zt; SZ mb; mz] =>
      match dF zt, dF mz with Some zt, Some mz => Some (NativeHist.mkConfig sc zt mb mz 0 (-1) 0) | _, _ => None end
  | SL [SZ sc; zt; SZ mb; mz; SZ mr] =>
      match dF zt, dF mz with Some zt, Some mz => Some (NativeHist.mkConfig sc zt mb mz mr (-1) 0) | _, _ => None end
  | _ => None
  end.
Definition texpo := (Z * f64 * Z * Z * f64 * list (Z * Z) * list (Z * Z))%type.
Definition d_tret (s : sx) : option (option texpo) :=
  match s with
  | SL [SZ 0] => Some None
  | SL [SZ 1; SL [SZ sc; zt; SZ zc; SZ cnt; sm; pos; neg]] =>
      match dF zt, dF sm, dL (dP dZ dZ) pos, dL (dP dZ dZ) neg with
      | Some zt, Some sm, Some pos, Some neg => Some (Some (sc, zt, zc, cnt, sm, pos, neg))
      | _, _, _, _ => None
      end
  | _ => None
  end.
Definition d_tcall (s : sx) : option (Z * Z * option texpo * Z * Z) :=
  match s with
  | SL [SZ t; SZ i; r; SZ a; SZ b] => option_map (fun r => (t, i, r, a, b)) (d_tret r)
  | _ => None
  end.
Fixpoint trace_eqb (a b : list (Z * list Z)) : bool :=
  match a, b with
  | [], [] => true
  | (t, l) :: a', (t', l') :: b' => Z.eqb t t' && str_eqb l l' && trace_eqb a' b'
  | _, _ => false
  end.
Definition nz (l : list (Z * Z)) : list (Z * Z) := filter (fun p => negb (Z.eqb (snd p) 0)) l.
Fixpoint pops_eqb (a b : list (Z * Z)) : bool :=
  match a, b with
  | [], [] => true
  | p :: a', q :: b' => Z.eqb (fst p) (fst q) && Z.eqb (snd p) (snd q) && pops_eqb a' b'
  | _, _ => false
  end.
Definition sum_eqb (a b : f64) : bool := fbits_eq a b || (is_nan a && is_nan b).
Definition ret_agree (m : nret Z) (i : option texpo) : bool :=
  match m, i with
  | NUnit _, None => true
  | NOut _ o, Some (sc, zt, zc, cnt, sm, pos, neg) =>
      Z.eqb (no_sch Z o) sc && fbits_eq (no_zt Z o) zt && Z.eqb (no_zc Z o) zc && Z.eqb (no_count Z o) cnt &&
      sum_eqb (no_sum Z o) sm && pops_eqb (nz (no_pos Z o)) (nz pos) && pops_eqb (nz (no_neg Z o)) (nz neg)
  | _, _ => false
  end.
Definition tie_run (g : NativeHist.config) (progs : list (list nop)) (sched : list Z) : Conc.config zmachine :=
  run_sched zmachine (init_config zmachine (ninit Z 0 g) progs) sched.
Definition calls_agree (mh : list (call zmachine)) (ih : list (Z * Z * option texpo * Z * Z)) : bool :=
  Nat.eqb (length mh) (length ih) &&
  forallb (fun ic => let '(t, i, r, a, b) := ic in
    existsb (fun c : call zmachine => Z.eqb (c_tid c) t && Z.eqb (c_idx c) i && ret_agree (c_ret c) r &&
                                      Z.eqb (c_inv c) a && Z.eqb (c_res c) b) mh) ih.

Definition check (s : sx) : Z :=
  match s with
  | SL [SZ 3; cfg; progs; sched; tr; calls; SZ flags] =>
      match d_tcfg cfg, dL (dL d_nop) progs, dL dZ sched, dL (dP dZ dStr) tr, dL d_tcall calls with
      | Some g, Some progs, Some sched, Some tr, Some calls =>
          if negb (Z.eqb flags 0) then code_spec_violation
          else
            let c := tie_run g progs sched in
            if all_done zmachine c && trace_eqb (trace c) tr && calls_agree (Conc.hist c) calls
            then code_ok else code_model_mismatch
      | _, _, _, _, _ => code_decode_error
      end
  | _ => check_hist s
  end.

Definition e_tret (r : nret Z) : sx :=
  match r with
  | NUnit _ => SL [SZ 0]
  | NOut _ o => SL [SZ 1; SL [SZ (no_sch Z o); eF (no_zt Z o); SZ (no_zc Z o); SZ (no_count Z o); eF (no_sum Z o);
                              eL (fun p => SL [SZ (fst p); SZ (snd p)]) (nz (no_pos Z o));
                              eL (fun p => SL [SZ (fst p); SZ (snd p)]) (nz (no_neg Z o))]]
  | NPanic _ => SL [SZ 2]
  end.
Definition explain (s : sx) : sx :=
  match s with
  | SL [SZ 3; cfg; progs; sched; tr; calls; SZ flags] =>
      match d_tcfg cfg, dL (dL d_nop) progs, dL dZ sched with
      | Some g, Some progs, Some sched =>
          let c := tie_run g progs sched in
          SL [eB (all_done zmachine c); eL (fun p => SL [SZ (fst p); eStr (snd p)]) (trace c);
              eL (fun k : call zmachine => SL [SZ (c_tid k); SZ (c_idx k); e_tret (c_ret k); SZ (c_inv k); SZ (c_res k)]) (Conc.hist c)]
      | _, _, _ => SL []
      end
  | _ => explain_hist s
  end.
