(* Run/C05_run.v -- conservative-accounting checker for concurrent native histograms (harness/cmd/c05).
   case = (kind classic_bounds observations scrapes final flags)
     observation = (value inv res), scrape = (expo inv res), expo = (schema zt zero_count count sum pos neg classic_cum)
   kind 0/1: no reset is configured (NativeHistogramMinResetDuration = 0), so nothing may ever be dropped.
   kind 2: delayed resets are scheduled and fired by a timer thread; resets drop observations, so the MUST set is
   empty (only upper bounds, self-consistency and liveness are demanded).
   For a scrape over [inv,res]: MUST = observations returned before inv, MAY = observations invoked before res.
   The boundary law (want_bucket / want_zero, exact dyadic comparison against the generated table) is C04's. *)
From Coq Require Import ZArith List Bool.
From Verif Require Import Base.F64 Base.Sx Model.NativeHist.
Import ListNotations.
Open Scope Z_scope.

Record cexpo := mkC { x : expo; x_classic : list Z }.

Definition d_expo (s : sx) : option cexpo :=
  match s with
  | SL [SZ sc; zt; SZ zc; SZ cnt; sm; pos; neg; cum] =>
      match dF zt, dF sm, dL (dP dZ dZ) pos, dL (dP dZ dZ) neg, dL dZ cum with
      | Some zt, Some sm, Some pos, Some neg, Some cum => Some (mkC (mkExpo sc zt zc cnt sm 0 pos neg) cum)
      | _, _, _, _, _ => None
      end
  | _ => None
  end.
Definition d_obs (s : sx) : option (f64 * Z * Z) :=
  match s with SL [v; SZ a; SZ b] => option_map (fun v => (v, a, b)) (dF v) | _ => None end.
Definition d_scrape (s : sx) : option (cexpo * Z * Z) :=
  match s with SL [e; SZ a; SZ b] => option_map (fun e => (e, a, b)) (d_expo e) | _ => None end.

(* Under concurrency a value that is within the (possibly just widened) zero threshold may legitimately sit
   either in the zero bucket or in the regular bucket whose range contains it (an observer that took its
   ticket before the widening computes its key against the old threshold; the widening merge keeps such a
   late bucket as a regular bucket). The property's wording for C05 is "lies in a bucket that, at the exposed
   schema and zero threshold, contains it", so both places are accepted; values above the threshold must be in
   their regular bucket, zeros in the zero bucket. *)
Definition in_key (s k : Z) (neg : bool) (v : f64) : bool :=
  negb (is_nan v) && negb (feq v pzero) && Bool.eqb (signbit v) neg &&
  in_bucket s k (exact_B s (k - 1)) (exact_B s k) (fabs v).
Definition key_count (G : list f64) (s k : Z) (neg : bool) : Z := zlen (filter (in_key s k neg) G).
Definition key_count_strict (G : list f64) (s : Z) (z : f64) (k : Z) (neg : bool) : Z :=
  zlen (filter (fun v => in_key s k neg v && negb (in_zero z v)) G).
Definition zero_values (G : list f64) : Z := zlen (filter (fun v => feq v pzero) G).

Definition covered (G : list f64) (s : Z) (z : f64) (neg : bool) (pops : list (Z * Z)) : bool :=
  forallb (fun v =>
    is_nan v || in_zero z v || negb (Bool.eqb (signbit v) neg) ||
    existsb (fun p => Z.ltb 0 (snd p) && in_key s (fst p) neg v) pops) G.

Definition side_between (must may : list f64) (s : Z) (z : f64) (neg : bool) (pops : list (Z * Z)) : bool :=
  keys_increasing pops &&
  forallb (fun p => Z.leb 0 (snd p) &&
                    Z.leb (key_count_strict must s z (fst p) neg) (snd p) &&
                    Z.leb (snd p) (key_count may s (fst p) neg)) pops &&
  covered must s z neg pops.

Definition classic_between (bounds : list f64) (must may : list f64) (cum : list Z) (count : Z) : bool :=
  match bounds with
  | [] => true   (* default classic buckets are not requested by the driver; nothing to compare *)
  | _ =>
      Nat.eqb (length cum) (length bounds) &&
      forallb (fun bc => Z.leb (zlen (filter (fun v => fle v (fst bc)) must)) (snd bc) &&
                         Z.leb (snd bc) (zlen (filter (fun v => fle v (fst bc)) may)) &&
                         Z.leb (snd bc) count) (combine bounds cum)
  end.

Definition scrape_ok (bounds : list f64) (must may : list f64) (c : cexpo) : bool :=
  let e := x c in
  let s := e_schema e in
  let z := e_zt e in
  let rest := zsum (map snd (e_pos e)) + zsum (map snd (e_neg e)) + e_zc e in
  let nanc := e_count e - rest in
  Z.leb (-4) s && Z.leb s 8 &&
  Z.leb (zlen must) (e_count e) && Z.leb (e_count e) (zlen may) &&
  Z.leb (zero_values must) (e_zc e) && Z.leb (e_zc e) (want_zero may z) &&
  Z.leb (nan_count must) nanc && Z.leb nanc (nan_count may) &&
  side_between must may s z false (e_pos e) &&
  side_between must may s z true (e_neg e) &&
  classic_between bounds must may (x_classic c) (e_count e).

(* the strict placement rule (C04's law as a sandwich): values within the exposed zero threshold are in the zero
   bucket, not in a regular bucket. It holds for the code as it is now (the widening merge absorbs late buckets at
   or below the merged key); kept separate from scrape_ok, whose weaker rule is what Proofs/C05_proofs.v reasons about. *)
Definition strict_ok (must may : list f64) (c : cexpo) : bool :=
  let e := x c in
  let s := e_schema e in
  let z := e_zt e in
  Z.leb (want_zero must z) (e_zc e) && Z.leb (e_zc e) (want_zero may z) &&
  forallb (fun p => Z.leb (want_bucket must s z false (fst p)) (snd p) && Z.leb (snd p) (want_bucket may s z false (fst p))) (e_pos e) &&
  forallb (fun p => Z.leb (want_bucket must s z true (fst p)) (snd p) && Z.leb (snd p) (want_bucket may s z true (fst p))) (e_neg e).

Definition check (s : sx) : Z :=
  match s with
  | SL [SZ kind; bounds; obs; scr; final; SZ flags] =>
      match dL dF bounds, dL d_obs obs, dL d_scrape scr, d_expo final with
      | Some bounds, Some obs, Some scr, Some final =>
          let all := map (fun o => fst (fst o)) obs in
          let ok :=
            Z.eqb flags 0 &&
            forallb (fun sc => let '(e, a, b) := sc in
               let must := if Z.eqb kind 2 then [] else map (fun o => fst (fst o)) (filter (fun o => Z.leb (snd o) a) obs) in
               let may := map (fun o => fst (fst o)) (filter (fun o => Z.ltb (snd (fst o)) b) obs) in
               scrape_ok bounds must may e && strict_ok must may e) scr &&
            (if Z.eqb kind 2 then scrape_ok bounds [] all final && strict_ok [] all final
             else scrape_ok bounds all all final && strict_ok all all final) in
          if ok then code_ok else code_spec_violation
      | _, _, _, _ => code_decode_error
      end
  | _ => code_decode_error
  end.

Definition explain (s : sx) : sx :=
  match s with
  | SL [SZ kind; bounds; obs; scr; final; SZ flags] =>
      match dL dF bounds, dL d_obs obs, dL d_scrape scr, d_expo final with
      | Some bounds, Some obs, Some scr, Some final =>
          let all := map (fun o => fst (fst o)) obs in
          SL [SZ flags; eB (scrape_ok bounds all all final);
              eL (fun sc => let '(e, a, b) := sc in
                   eB (scrape_ok bounds (map (fun o => fst (fst o)) (filter (fun o => Z.leb (snd o) a) obs))
                                        (map (fun o => fst (fst o)) (filter (fun o => Z.ltb (snd (fst o)) b) obs)) e)) scr]
      | _, _, _, _ => SL []
      end
  | _ => SL []
  end.
