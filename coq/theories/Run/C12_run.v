(* Run/C12_run.v -- correspondence runner for C12 (harness/cmd/implrun/c12.go). *)
From Coq Require Import ZArith List Bool.
From Verif Require Import Base.Str Base.Sx Model.Instrument Gen.Gen_Delegators.
Import ListNotations.
Open Scope Z_scope.

Definition d_act (s : sx) : option act :=
  match s with
  | SL [SZ 0; SZ c] => Some (AWriteHeader c)
  | SL [SZ 1; SZ n; SZ k] => Some (AWrite n k)
  | SL [SZ 2] => Some AFlush
  | SL [SZ 3; SZ n; SZ k] => Some (AReadFrom n k)
  | _ => None
  end.

Definition both (spec_ok model_ok : bool) : Z :=
  if negb spec_ok then code_spec_violation else if negb model_ok then code_model_mismatch else code_ok.

Definition opt_code_list (o : option Z) (f : Z -> str) : list str := match o with Some c => [f c] | None => [] end.

Fixpoint strs_eqb (a b : list str) : bool :=
  match a, b with
  | [], [] => true
  | x :: a', y :: b' => str_eqb x y && strs_eqb a' b'
  | _, _ => false
  end.

Definition check (s : sx) : Z :=
  match s with
  | SL [SZ 0; SZ c; impl] =>
      match dStr impl with
      | Some i => both (str_eqb (code_spec c) i) (str_eqb (sanitize_code c) i)
      | None => code_decode_error
      end
  | SL [SZ 1; m; extra; impl] =>
      match dStr m, dL dStr extra, dStr impl with
      | Some m, Some ex, Some i =>
          if is_ascii m && forallb is_ascii ex then both (str_eqb (method_spec m ex) i) (str_eqb (sanitize_method m ex) i)
          else code_ok (* non-ASCII methods are outside the model (strings.EqualFold's Unicode folding) *)
      | _, _, _ => code_decode_error
      end
  | SL [SZ 2; SZ bits; SZ offered_bits; SZ fwd_bits] =>
      both (Z.eqb offered_bits bits && Z.eqb fwd_bits bits)
           (match offered (has_of_bits bits) with
            | Some l => Z.eqb (fold_left (fun a p => a + spec_bit (fst p)) l 0) offered_bits &&
                        Z.eqb (fold_left (fun a p => if iface_eqb (fst p) (snd p) then a + spec_bit (fst p) else a) l 0) fwd_bits
            | None => false
            end)
  | SL [SZ 3; m; extra; acts; panics; real; SL [icode; imeth; SZ icount; SZ ibytes; SZ iafter; SZ iin; ittwh; SZ ipeer; iident; SZ idur]] =>
      match dStr m, dL dStr extra, dL d_act acts, dB panics, dB real, dStr icode, dStr imeth, dL dStr ittwh, dB iident with
      | Some m, Some ex, Some acts, Some panics, Some real, Some icode, Some imeth, Some ittwh, Some iident =>
          let sp := spec_middleware m ex acts in
          let mo := run_middleware m ex acts in
          if panics then
            (* documented: nothing is counted/observed on panic; the in-flight gauge must be restored *)
            both (Z.eqb iafter 0 && Z.eqb iin 1 && Z.eqb ipeer (peer_status acts)) (Z.eqb icount 0 && Z.eqb idur 0)
          else
            both (str_eqb (o_code sp) icode && str_eqb (o_method sp) imeth && Z.eqb icount 1 && Z.eqb idur 1 &&
                  Z.eqb ibytes (o_bytes sp) && Z.eqb iafter 0 && Z.eqb iin 1 && Z.eqb ipeer (peer_status acts) && iident &&
                  strs_eqb ittwh (opt_code_list (o_observed_first sp) code_spec))
                 (str_eqb (o_code mo) icode && str_eqb (o_method mo) imeth && Z.eqb ibytes (o_bytes mo) &&
                  strs_eqb ittwh (opt_code_list (o_observed_first mo) sanitize_code))
      | _, _, _, _, _, _, _, _, _ => code_decode_error
      end
  | SL [SZ 5; m; SZ status; fail; reqnil; SL [SZ icount; icode; imeth; iwho; ipanicked; ierr; SZ idur; SZ igauge]] =>
      match dStr m, dB fail, dB reqnil, dStr icode, dStr imeth, dStr iwho, dB ipanicked, dB ierr with
      | Some m, Some fail, Some reqnil, Some icode, Some imeth, Some iwho, Some ipanicked, Some ierr =>
          if fail then both (negb ipanicked && ierr && Z.eqb icount 0 && Z.eqb idur 0 && Z.eqb igauge 0) true
          else both (negb ipanicked && negb ierr && Z.eqb icount 1 && Z.eqb idur 1 && Z.eqb igauge 0 &&
                     str_eqb icode (code_spec status) && str_eqb imeth (method_spec m []) && str_eqb iwho [109; 101])
                    (str_eqb icode (sanitize_code status) && str_eqb imeth (sanitize_method m []))
      | _, _, _, _, _, _, _, _ => code_decode_error
      end
  | SL [SZ 6; free; consts; curried; ipanicked] =>
      match dL dStr free, dB ipanicked with
      | Some free, Some ipanicked =>
          both (Bool.eqb ipanicked (match check_labels free with None => true | Some _ => false end)) true
      | _, _ => code_decode_error
      end
  | _ => code_decode_error
  end.

Definition e_mw (o : mw_out) : sx :=
  SL [eStr (o_code o); eStr (o_method o); SZ (o_count o); SZ (o_bytes o); eOpt SZ (o_observed_first o)].

Definition explain (s : sx) : sx :=
  match s with
  | SL [SZ 0; SZ c; _] => SL [eStr (sanitize_code c); eStr (code_spec c)]
  | SL [SZ 1; m; extra; _] =>
      match dStr m, dL dStr extra with
      | Some m, Some ex => SL [eStr (sanitize_method m ex); eStr (method_spec m ex)]
      | _, _ => SL []
      end
  | SL (SZ 3 :: m :: extra :: acts :: _) =>
      match dStr m, dL dStr extra, dL d_act acts with
      | Some m, Some ex, Some acts => SL [e_mw (run_middleware m ex acts); e_mw (spec_middleware m ex acts); SZ (peer_status acts)]
      | _, _, _ => SL []
      end
  | _ => SL []
  end.
