(* Run/C12_run.v -- correspondence runner for C12 (harness/cmd/implrun/c12.go). *)
From Coq Require Import ZArith List Bool.
From Verif Require Import Base.Str Base.Sx Model.Instrument Gen.Gen_Delegators.
Import ListNotations.
Open Scope Z_scope.

Definition d_act (s : sx) : option act :=
  match s with
  | SL [SZ 0; SZ c] => Some (AWriteHeader c)
  | SL [SZ 1; SZ n; SZ k] => Some (AWrite n k)
  | SL [SZ 2] => Some AFlush
  | SL [SZ 3; SZ n; SZ k] => Some (AReadFrom n k)
  | _ => None
  end.

Definition both (spec_ok model_ok : bool) : Z :=
  if negb spec_ok then code_spec_violation else if negb model_ok then code_model_mismatch else code_ok.

Definition opt_code_list (o : option Z) (f : Z -> str) : list str := match o with Some c => [f c] | None => [] end.

Fixpoint strs_eqb (a b : list str) : bool :=
  match a, b with
  | [], [] => true
  | x :: a', y :: b' => str_eqb x y && strs_eqb a' b'
  | _, _ => false
  end.

(* ---- stacked middlewares: (7 (layout ...) extra (request ...) (panicked ((child ...) ...)))
   layout = (code? method? (ctxname ...)), request = (method status ((name value) ...)), child = (((name value) ...) count) *)
Definition d_pair (s : sx) : option (str * str) :=
  match s with SL [a; b] => match dStr a, dStr b with Some a, Some b => Some (a, b) | _, _ => None end | _ => None end.
Definition d_layout (s : sx) : option layout :=
  match s with
  | SL [c; m; ns] => match dB c, dB m, dL dStr ns with Some c, Some m, Some ns => Some (mkLay c m ns) | _, _, _ => None end
  | _ => None
  end.
Definition d_request (s : sx) : option request :=
  match s with
  | SL [m; SZ st; ctx] => match dStr m, dL d_pair ctx with Some m, Some ctx => Some (mkReq m st ctx) | _, _ => None end
  | _ => None
  end.
Definition d_child (s : sx) : option (list (str * str) * Z) :=
  match s with SL [ls; SZ n] => option_map (fun ls => (ls, n)) (dL d_pair ls) | _ => None end.
Definition pair_eqb (a b : str * str) : bool := str_eqb (fst a) (fst b) && str_eqb (snd a) (snd b).
(* label tuples compared as sets (the exposition sorts label pairs by name; names are distinct within a layout) *)
Definition labels_set_eqb (a b : list (str * str)) : bool :=
  Nat.eqb (List.length a) (List.length b) && forallb (fun p => existsb (pair_eqb p) b) a.
(* the specification's label tuple: code_spec / method_spec instead of the transcribed sanitisers *)
Definition req_labels_spec (lay : layout) (extra : list str) (q : request) : list (str * str) :=
  (if l_code lay then [(s_code, code_spec (r_status q))] else []) ++
  (if l_method lay then [(s_method, method_spec (r_method q) extra)] else []) ++
  map (fun n => (n, ctx_value (r_ctx q) n)) (l_ctx lay).

Definition check (s : sx) : Z :=
  match s with
  | SL [SZ 0; SZ c; impl] =>
      match dStr impl with
      | Some i => both (str_eqb (code_spec c) i) (str_eqb (sanitize_code c) i)
      | None => code_decode_error
      end
  | SL [SZ 1; m; extra; impl] =>
      match dStr m, dL dStr extra, dStr impl with
      | Some m, Some ex, Some i =>
          if is_ascii m && forallb is_ascii ex then both (str_eqb (method_spec m ex) i) (str_eqb (sanitize_method m ex) i)
          else code_ok (* non-ASCII methods are outside the model (strings.EqualFold's Unicode folding) *)
      | _, _, _ => code_decode_error
      end
  | SL [SZ 2; SZ bits; SZ offered_bits; SZ fwd_bits] =>
      both (Z.eqb offered_bits bits && Z.eqb fwd_bits bits)
           (match offered (has_of_bits bits) with
            | Some l => Z.eqb (fold_left (fun a p => a + spec_bit (fst p)) l 0) offered_bits &&
                        Z.eqb (fold_left (fun a p => if iface_eqb (fst p) (snd p) then a + spec_bit (fst p) else a) l 0) fwd_bits
            | None => false
            end)
  | SL [SZ 3; m; extra; acts; panics; real; SL [icode; imeth; SZ icount; SZ ibytes; SZ iafter; SZ iin; ittwh; SZ ipeer; iident; SZ idur]] =>
      match dStr m, dL dStr extra, dL d_act acts, dB panics, dB real, dStr icode, dStr imeth, dL dStr ittwh, dB iident with
      | Some m, Some ex, Some acts, Some panics, Some real, Some icode, Some imeth, Some ittwh, Some iident =>
          let sp := spec_middleware m ex acts in
          let mo := run_middleware m ex acts in
          if panics then
            (* documented: nothing is counted/observed on panic; the in-flight gauge must be restored *)
            both (Z.eqb iafter 0 && Z.eqb iin 1 && Z.eqb ipeer (peer_status acts)) (Z.eqb icount 0 && Z.eqb idur 0)
          else
            both (str_eqb (o_code sp) icode && str_eqb (o_method sp) imeth && Z.eqb icount 1 && Z.eqb idur 1 &&
                  Z.eqb ibytes (o_bytes sp) && Z.eqb iafter 0 && Z.eqb iin 1 && Z.eqb ipeer (peer_status acts) && iident &&
                  strs_eqb ittwh (opt_code_list (o_observed_first sp) code_spec))
                 (str_eqb (o_code mo) icode && str_eqb (o_method mo) imeth && Z.eqb ibytes (o_bytes mo) &&
                  strs_eqb ittwh (opt_code_list (o_observed_first mo) sanitize_code))
      | _, _, _, _, _, _, _, _, _ => code_decode_error
      end
  | SL [SZ 5; m; extra; SZ status; fail; reqnil; SL [SZ icount; icode; imeth; iwho; ipanicked; ierr; SZ idur; SZ igauge]] =>
      match dStr m, dL dStr extra, dB fail, dB reqnil, dStr icode, dStr imeth, dStr iwho, dB ipanicked, dB ierr with
      | Some m, Some extra, Some fail, Some reqnil, Some icode, Some imeth, Some iwho, Some ipanicked, Some ierr =>
          if fail then both (negb ipanicked && ierr && Z.eqb icount 0 && Z.eqb idur 0 && Z.eqb igauge 0) true
          else both (negb ipanicked && negb ierr && Z.eqb icount 1 && Z.eqb idur 1 && Z.eqb igauge 0 &&
                     str_eqb icode (code_spec status) && str_eqb imeth (method_spec m extra) && str_eqb iwho [109; 101])
                    (str_eqb icode (sanitize_code status) && str_eqb imeth (sanitize_method m extra))
      | _, _, _, _, _, _, _, _, _ => code_decode_error
      end
  | SL [SZ 6; free; consts; curried; ipanicked] =>
      match dL dStr free, dB ipanicked with
      | Some free, Some ipanicked =>
          both (Bool.eqb ipanicked (match check_labels free with None => true | Some _ => false end)) true
      | _, _ => code_decode_error
      end
  | SL [SZ 7; lays; extra; reqs; SL [ipanicked; impl]] =>
      match dL d_layout lays, dL dStr extra, dL d_request reqs, dB ipanicked, dL (dL d_child) impl with
      | Some lays, Some extra, Some reqs, Some ipanicked, Some impl =>
          let model := stack_children lays extra reqs in
          both (negb ipanicked &&
                Nat.eqb (List.length impl) (List.length lays) &&
                forallb (fun lc => let '(lay, cs) := lc in
                   Z.eqb (fold_right Z.add 0 (map snd cs)) (Z.of_nat (List.length reqs)) &&
                   forallb (fun q => existsb (fun c => labels_set_eqb (fst c) (req_labels_spec lay extra q)) cs) reqs)
                  (combine lays impl))
               (Nat.eqb (List.length impl) (List.length model) &&
                forallb (fun mc => let '(m, cs) := mc in
                   Nat.eqb (List.length m) (List.length cs) &&
                   forallb (fun c => existsb (fun k => labels_set_eqb (fst c) (fst k) && Z.eqb (snd c) (snd k)) m) cs)
                  (combine model impl))
      | _, _, _, _, _ => code_decode_error
      end
  | _ => code_decode_error
  end.

Definition e_mw (o : mw_out) : sx :=
  SL [eStr (o_code o); eStr (o_method o); SZ (o_count o); SZ (o_bytes o); eOpt SZ (o_observed_first o)].

Definition explain (s : sx) : sx :=
  match s with
  | SL [SZ 0; SZ c; _] => SL [eStr (sanitize_code c); eStr (code_spec c)]
  | SL [SZ 1; m; extra; _] =>
      match dStr m, dL dStr extra with
      | Some m, Some ex => SL [eStr (sanitize_method m ex); eStr (method_spec m ex)]
      | _, _ => SL []
      end
  | SL (SZ 3 :: m :: extra :: acts :: _) =>
      match dStr m, dL dStr extra, dL d_act acts with
      | Some m, Some ex, Some acts => SL [e_mw (run_middleware m ex acts); e_mw (spec_middleware m ex acts); SZ (peer_status acts)]
      | _, _, _ => SL []
      end
  | _ => SL []
  end.
