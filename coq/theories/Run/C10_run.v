(* Run/C10_run.v -- checker for the Register/Unregister/Gather histories recorded by harness/cmd/c10
   (free-running goroutines under the race detector; logical clock). *)
From Coq Require Import ZArith List Bool.
From Verif Require Import Base.Sx Model.RegistryConc.
Import ListNotations.
Open Scope Z_scope.

Definition d_ev (s : sx) : option revent :=
  match s with
  | SL [SZ k; SZ c; ok; names; SZ a; SZ b; SZ e] =>
      match dB ok, dL dZ names with Some ok, Some names => Some (mkEv k c ok names a b e) | _, _ => None end
  | _ => None
  end.

Definition check (s : sx) : Z :=
  match s with
  | SL [SZ n; evs] =>
      match dL d_ev evs with
      | Some h => if gather_check n h then code_ok else code_spec_violation
      | None => code_decode_error
      end
  | _ => code_decode_error
  end.

Definition explain (s : sx) : sx :=
  match s with
  | SL [SZ n; evs] =>
      match dL d_ev evs with
      | Some h => eL (fun g => SL [SZ (e_inv g); SZ (e_res g);
                     eL SZ (filter (fun k => stably_registered h g k && negb (mem k (e_names g))) (map Z.of_nat (seq 0 (Z.to_nat n))))])
                     (filter (fun g => Z.eqb (e_kind g) 2) h)
      | None => SL []
      end
  | _ => SL []
  end.
