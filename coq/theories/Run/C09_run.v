(* Run/C09_run.v -- correspondence runner for C09 (harness/cmd/c09/main.go).
   case 0 (Registry.Gather):   (0 legacy pedantic reg_ids arrivals impl_families impl_errors)
     arrivals are in the order in which processMetric saw them (the driver logs the Desc() calls)
   case 1 (Gatherers.Gather):  (1 legacy ((families errors) ...) impl_families impl_errors)
   case 2 (two arrival orders of the same metrics):
                               (2 legacy pedantic reg_ids arrivals1 families1 errors1 arrivals2 families2 errors2)
   emitted := (checked (desc_err name help id ((n v) ...) (var ...)) write_err dmetric)
   dmetric := (((n v) ...) gauge counter summary untyped histogram (ts)? val)
   family  := (name help type (dmetric ...)) ; errors := list of error kinds (Model/Gather.v) *)
From Coq Require Import ZArith List Bool.
From Verif Require Import Base.Str Base.Sx Model.Gather.
Import ListNotations.
Open Scope Z_scope.

Definition d_label (s : sx) : option label := dP dStr dStr s.

Definition d_dmetric (s : sx) : option dmetric :=
  match s with
  | SL [ls; g; c; su; u; h; ts; SZ v] =>
      match dL d_label ls, dB g, dB c, dB su, dB u, dB h, dOpt dZ ts with
      | Some ls, Some g, Some c, Some su, Some u, Some h, Some ts => Some (mkD ls g c su u h ts v)
      | _, _, _, _, _, _, _ => None
      end
  | _ => None
  end.

Definition d_desc (s : sx) : option desc :=
  match s with
  | SL [er; n; h; SZ id; cs; vs] =>
      match dB er, dStr n, dStr h, dL d_label cs, dL dStr vs with
      | Some er, Some n, Some h, Some cs, Some vs => Some (mkDesc er n h id cs vs)
      | _, _, _, _, _ => None
      end
  | _ => None
  end.

Definition d_emitted (s : sx) : option emitted :=
  match s with
  | SL [ck; d; we; m] =>
      match dB ck, d_desc d, dB we, d_dmetric m with
      | Some ck, Some d, Some we, Some m => Some (mkE ck d we m)
      | _, _, _, _ => None
      end
  | _ => None
  end.

Definition d_family (s : sx) : option family :=
  match s with
  | SL [n; h; SZ t; ms] =>
      match dStr n, dStr h, dL d_dmetric ms with
      | Some n, Some h, Some ms => Some (mkF n h t ms)
      | _, _, _ => None
      end
  | _ => None
  end.

Definition d_gatherer (s : sx) : option (list family * list Z) := dP (dL d_family) (dL dZ) s.

(* comparison of results: families and the metrics inside a family in order.  MetricSorter.Less is a strict total order
   on metrics with distinct (labels, timestamp), so sort.Sort has exactly one possible outcome (metric_lt_* lemmas). *)
Definition multiset_eqb {A} (eqb : A -> A -> bool) (a b : list A) : bool :=
  match sub_multiset eqb a b with Some [] => true | _ => false end.

Fixpoint list_eqb {A} (eqb : A -> A -> bool) (a b : list A) : bool :=
  match a, b with
  | [], [] => true
  | x :: a', y :: b' => eqb x y && list_eqb eqb a' b'
  | _, _ => false
  end.

Fixpoint fams_eqb (a b : list family) : bool :=
  match a, b with
  | [], [] => true
  | f :: a', g :: b' =>
      str_eqb (f_name f) (f_name g) && str_eqb (f_help f) (f_help g) && (f_type f =? f_type g) &&
      list_eqb dmetric_eqb (f_metrics f) (f_metrics g) && fams_eqb a' b'
  | _, _ => false
  end.

(* error kinds are derived by the driver from the error TEXT; an error whose text the driver does not recognise
   (kind 99, e.g. after a harmless rewording in the library) only has to be matched by some error of the model at
   the same position - the number and order of errors still has to agree exactly *)
Fixpoint kinds_agree (impl model : list Z) : bool :=
  match impl, model with
  | [], [] => true
  | x :: a', y :: b' => ((x =? y) || (x =? 99)) && kinds_agree a' b'
  | _, _ => false
  end.

Fixpoint zs_eqb (a b : list Z) : bool :=
  match a, b with
  | [], [] => true
  | x :: a', y :: b' => (x =? y) && zs_eqb a' b'
  | _, _ => false
  end.

Definition both (spec_ok model_ok : bool) : Z :=
  if negb spec_ok then code_spec_violation else if negb model_ok then code_model_mismatch else code_ok.


Definition is_nil {A} (l : list A) : bool := match l with [] => true | _ => false end.

(* one Registry.Gather run against model and specification *)
Definition check_gather (lg ped : bool) (ids : list Z) (arr : list emitted) (ifams : list family) (ierrs : list Z) : Z :=
  let (mfams, merrs) := gather lg ped ids arr in
  both (valid_result lg ifams && family_names_ok lg ifams && no_empty_family ifams && metrics_sorted ifams &&
        complete_or_reported arr ifams (length ierrs))
       (fams_eqb ifams mfams && kinds_agree ierrs merrs).

Definition check (s : sx) : Z :=
  match s with
  | SL [SZ 0; lg; ped; ids; arr; ifams; ierrs] =>
      match dB lg, dB ped, dL dZ ids, dL d_emitted arr, dL d_family ifams, dL dZ ierrs with
      | Some lg, Some ped, Some ids, Some arr, Some ifams, Some ierrs => check_gather lg ped ids arr ifams ierrs
      | _, _, _, _, _, _ => code_decode_error
      end
  | SL [SZ 1; lg; gs; ifams; ierrs] =>
      match dB lg, dL d_gatherer gs, dL d_family ifams, dL dZ ierrs with
      | Some lg, Some gs, Some ifams, Some ierrs =>
          let (mfams, merrs) := gatherers_gather lg gs in
          (* the validity clauses are demanded when every merged gatherer hands in well-typed, named families *)
          let typed := forallb (fun g => forallb (fun f => (0 <=? f_type f) && (f_type f <=? 4) &&
                                   match f_name f with [] => false | _ => true end) (fst g)) gs in
          both (metrics_sorted ifams && (negb typed || (valid_result lg ifams && no_empty_family ifams)))
               (fams_eqb ifams mfams && kinds_agree ierrs merrs)
      | _, _, _, _ => code_decode_error
      end
  (* the same metrics gathered in two arrival orders: whenever no error is reported the result must not depend on the order *)
  | SL [SZ 2; lg; ped; ids; arr1; ifams1; ierrs1; arr2; ifams2; ierrs2] =>
      match dB lg, dB ped, dL dZ ids, dL d_emitted arr1, dL d_family ifams1, dL dZ ierrs1,
            dL d_emitted arr2, dL d_family ifams2, dL dZ ierrs2 with
      | Some lg, Some ped, Some ids, Some arr1, Some ifams1, Some ierrs1, Some arr2, Some ifams2, Some ierrs2 =>
          let c1 := check_gather lg ped ids arr1 ifams1 ierrs1 in
          let c2 := check_gather lg ped ids arr2 ifams2 ierrs2 in
          if negb (multiset_eqb nm_eqb (map emitted_as arr1) (map emitted_as arr2)) then code_decode_error
          else if (is_nil ierrs1 || is_nil ierrs2) && negb (is_nil ierrs1 && is_nil ierrs2 && fams_eqb ifams1 ifams2)
          then code_spec_violation
          else if (c1 =? code_spec_violation) || (c2 =? code_spec_violation) then code_spec_violation
          else if (c1 =? code_ok) && (c2 =? code_ok) then code_ok else code_model_mismatch
      | _, _, _, _, _, _, _, _, _ => code_decode_error
      end
  | _ => code_decode_error
  end.

Definition e_label (l : label) : sx := SL [eStr (fst l); eStr (snd l)].
Definition e_dmetric (m : dmetric) : sx :=
  SL [eL e_label (d_labels m); eB (d_gauge m); eB (d_counter m); eB (d_summary m); eB (d_untyped m); eB (d_hist m);
      eOpt SZ (d_ts m); SZ (d_val m)].
Definition e_family (f : family) : sx := SL [eStr (f_name f); eStr (f_help f); SZ (f_type f); eL e_dmetric (f_metrics f)].

(* (model families, model errors, valid_result of the implementation's families, no_empty, complete_or_reported,
   family_names_ok, metrics_sorted); for a pair of orders (case 2): the explanation of both runs *)
Definition explain_gather (lg ped ids arr ifams ierrs : sx) : sx :=
  match dB lg, dB ped, dL dZ ids, dL d_emitted arr, dL d_family ifams, dL dZ ierrs with
  | Some lg, Some ped, Some ids, Some arr, Some ifams, Some ierrs =>
      let (mfams, merrs) := gather lg ped ids arr in
      SL [eL e_family mfams; eL SZ merrs; eB (valid_result lg ifams); eB (no_empty_family ifams);
          eB (complete_or_reported arr ifams (length ierrs)); eB (family_names_ok lg ifams); eB (metrics_sorted ifams)]
  | _, _, _, _, _, _ => SL []
  end.

Definition explain (s : sx) : sx :=
  match s with
  | SL [SZ 0; lg; ped; ids; arr; ifams; ierrs] => explain_gather lg ped ids arr ifams ierrs
  | SL [SZ 2; lg; ped; ids; arr1; ifams1; ierrs1; arr2; ifams2; ierrs2] =>
      SL [explain_gather lg ped ids arr1 ifams1 ierrs1; explain_gather lg ped ids arr2 ifams2 ierrs2]
  | SL [SZ 1; lg; gs; ifams; ierrs] =>
      match dB lg, dL d_gatherer gs, dL d_family ifams with
      | Some lg, Some gs, Some ifams =>
          let (mfams, merrs) := gatherers_gather lg gs in
          SL [eL e_family mfams; eL SZ merrs; eB (valid_result lg ifams); eB (no_empty_family ifams)]
      | _, _, _ => SL []
      end
  | _ => SL []
  end.
