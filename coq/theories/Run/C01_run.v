(* Run/C01_run.v -- correspondence runner for C01 (harness/cmd/c01/main.go).
   case = (kind progs sched trace calls flags); kind 0 gauge / 1 counter under the deterministic scheduler
   (model is run under the same schedule: trace labels and every call's result and times must agree),
   kind 2 gauge / 3 counter free-running stress histories (history checkers only). *)
From Coq Require Import ZArith List Bool.
From Verif Require Import Base.F64 Base.Str Base.Sx Base.Conc Model.CounterGauge.
Import ListNotations.
Open Scope Z_scope.

Definition d_gop (s : sx) : option gauge_op :=
  match s with
  | SL [SZ 0; v] => option_map GSet (dF v)
  | SL [SZ 1; v] => option_map GAdd (dF v)
  | SL [SZ 2; v] => option_map GSub (dF v)
  | SL [SZ 3] => Some GInc
  | SL [SZ 4] => Some GDec
  | SL [SZ 5] => Some GWrite
  | _ => None
  end.
Definition d_cop (s : sx) : option counter_op :=
  match s with
  | SL [SZ 0] => Some CInc
  | SL [SZ 1; v] => option_map CAdd (dF v)
  | SL [SZ 2] => Some CWrite
  | _ => None
  end.
Definition d_gret (s : sx) : option gauge_ret :=
  match s with SL [SZ 0] => Some GUnit | SL [SZ 2; v] => option_map GValue (dF v) | _ => None end.
Definition d_cret (s : sx) : option counter_ret :=
  match s with SL [SZ 0] => Some CUnit | SL [SZ 1] => Some CPanic | SL [SZ 2; v] => option_map CValue (dF v) | _ => None end.

(* impl call record: (tid idx ret inv res) *)
Definition d_call {R} (dr : sx -> option R) (s : sx) : option (Z * Z * R * Z * Z) :=
  match s with
  | SL [SZ t; SZ i; r; SZ a; SZ b] => option_map (fun r => (t, i, r, a, b)) (dr r)
  | _ => None
  end.

Definition d_trace (s : sx) : option (list (Z * list Z)) := dL (dP dZ dStr) s.

Fixpoint trace_eqb (a b : list (Z * list Z)) : bool :=
  match a, b with
  | [], [] => true
  | (t, l) :: a', (t', l') :: b' => Z.eqb t t' && str_eqb l l' && trace_eqb a' b'
  | _, _ => false
  end.

Definition cret_eqb (a b : counter_ret) : bool :=
  match a, b with
  | CUnit, CUnit | CPanic, CPanic => true
  | CValue x, CValue y => fbits_eq x y
  | _, _ => false
  end.

Section Generic.
Context {M : machine}.
Variable ret_eqb : ret M -> ret M -> bool.

(* every impl call must appear in the model history with equal result and times, and the counts must agree *)
Definition calls_agree (mh : list (call M)) (ih : list (Z * Z * ret M * Z * Z)) : bool :=
  Nat.eqb (length mh) (length ih) &&
  forallb (fun ic => let '(t, i, r, a, b) := ic in
    existsb (fun c => Z.eqb (c_tid c) t && Z.eqb (c_idx c) i && ret_eqb (c_ret c) r && Z.eqb (c_inv c) a && Z.eqb (c_res c) b) mh) ih.

(* rebuild a history (with the ops from the programs) from the implementation's call records *)
Definition impl_history (progs : list (list (op M))) (ih : list (Z * Z * ret M * Z * Z)) : option (list (call M)) :=
  mapM (fun ic => let '(t, i, r, a, b) := ic in
    match nth_error progs (Z.to_nat t) with
    | Some p => match nth_error p (Z.to_nat i) with Some o => Some (mkCall t i o r a b) | None => None end
    | None => None
    end) ih.
End Generic.

Definition total_ops {A} (progs : list (list A)) : nat := length (concat progs).

(* a gauge operation never panics: a recorded panic (result (1)) is a violation by itself *)
Definition has_panic (calls : sx) : bool :=
  match calls with
  | SL cs => existsb (fun c => match c with SL [_; _; SL [SZ 1]; _; _] => true | _ => false end) cs
  | _ => false
  end.

Definition check (s : sx) : Z :=
  match s with
  | SL [SZ kind; progs; sched; tr; calls; SZ flags] =>
      if Z.eqb kind 0 || Z.eqb kind 2 then
        if has_panic calls then code_spec_violation else
        match dL (dL d_gop) progs, dL dZ sched, d_trace tr, dL (d_call d_gret) calls with
        | Some progs, Some sched, Some tr, Some calls =>
            match impl_history (M := gauge_machine) progs calls with
            | None => code_decode_error
            | Some ih =>
                let spec_ok := Z.eqb flags 0 && Nat.eqb (length ih) (total_ops progs) &&
                               lin_check (M := gauge_machine) f64 gauge_spec_step gauge_ret_eqb gauge_init ih in
                if negb spec_ok then code_spec_violation
                else if Z.eqb kind 2 then code_ok
                else
                  let c := run_sched gauge_machine (init_config gauge_machine gauge_init progs) sched in
                  if all_done gauge_machine c && trace_eqb (trace c) tr && calls_agree (M := gauge_machine) gauge_ret_eqb (hist c) calls
                  then code_ok else code_model_mismatch
            end
        | _, _, _, _ => code_decode_error
        end
      else
        match dL (dL d_cop) progs, dL dZ sched, d_trace tr, dL (d_call d_cret) calls with
        | Some progs, Some sched, Some tr, Some calls =>
            match impl_history (M := counter_machine) progs calls with
            | None => code_decode_error
            | Some ih =>
                let spec_ok := Z.eqb flags 0 && Nat.eqb (length ih) (total_ops progs) && counter_check ih in
                if negb spec_ok then code_spec_violation
                else if Z.eqb kind 3 then code_ok
                else
                  let c := run_sched counter_machine (init_config counter_machine counter_init progs) sched in
                  if all_done counter_machine c && trace_eqb (trace c) tr && calls_agree (M := counter_machine) cret_eqb (hist c) calls
                  then code_ok else code_model_mismatch
            end
        | _, _, _, _ => code_decode_error
        end
  | _ => code_decode_error
  end.

Definition e_gret (r : gauge_ret) : sx := match r with GUnit => SL [SZ 0] | GValue v => SL [SZ 2; eF v] end.
Definition e_cret (r : counter_ret) : sx := match r with CUnit => SL [SZ 0] | CPanic => SL [SZ 1] | CValue v => SL [SZ 2; eF v] end.

Definition explain (s : sx) : sx :=
  match s with
  | SL [SZ kind; progs; sched; tr; calls; SZ flags] =>
      if Z.eqb kind 0 then
        match dL (dL d_gop) progs, dL dZ sched with
        | Some progs, Some sched =>
            let c := run_sched gauge_machine (init_config gauge_machine gauge_init progs) sched in
            SL [eL (fun p => SL [SZ (fst p); eStr (snd p)]) (trace c);
                eL (fun k : call gauge_machine => SL [SZ (c_tid k); SZ (c_idx k); e_gret (c_ret k); SZ (c_inv k); SZ (c_res k)]) (hist c)]
        | _, _ => SL []
        end
      else if Z.eqb kind 1 then
        match dL (dL d_cop) progs, dL dZ sched with
        | Some progs, Some sched =>
            let c := run_sched counter_machine (init_config counter_machine counter_init progs) sched in
            SL [eL (fun p => SL [SZ (fst p); eStr (snd p)]) (trace c);
                eL (fun k : call counter_machine => SL [SZ (c_tid k); SZ (c_idx k); e_cret (c_ret k); SZ (c_inv k); SZ (c_res k)]) (hist c)]
        | _, _ => SL []
        end
      else SL []
  | _ => SL []
  end.
