(* Run/C03_run.v -- correspondence runner for C03: compares the implementation's observables
   (recorded by harness/cmd/implrun/c03.go) with the model and with the specification. *)
From Coq Require Import ZArith List Bool.
From Verif Require Import Base.F64 Base.Sx Model.ClassicHist.
Import ListNotations.
Open Scope Z_scope.

Inductive impl := IPanic | IOk (ws : list (Z * f64 * list (f64 * Z))).
Definition case := (list f64 * list op * impl)%type.

(* wire: (bounds ops impl); op = (0 v) | (1); impl = (0) | (1 (count sum ((bound cum)...))...) *)
Definition d_op (s : sx) : option op :=
  match s with
  | SL [SZ 0; v] => option_map OObs (dF v)
  | SL [SZ 1] => Some OWrite
  | _ => None
  end.
Definition d_impl (s : sx) : option impl :=
  match s with
  | SL [SZ 0] => Some IPanic
  | SL [SZ 1; ws] => option_map IOk (dL (dT3 dZ dF (dL (dP dF dZ))) ws)
  | _ => None
  end.
Definition d_case : sx -> option case := dT3 (dL dF) (dL d_op) d_impl.

Definition wout_eqb (w : wout) (o : Z * f64 * list (f64 * Z)) : bool :=
  let '(c, s, bk) := o in
  Z.eqb (w_count w) c && fbits_eq (w_sum w) s &&
  Nat.eqb (length (w_cum w)) (length bk) &&
  forallb (fun p => fbits_eq (fst (fst p)) (fst (snd p)) && Z.eqb (snd (fst p)) (snd (snd p))) (combine (w_cum w) bk).

Definition out_eqb (m : option (list wout)) (i : impl) : bool :=
  match m, i with
  | None, IPanic => true
  | Some ws, IOk os => Nat.eqb (length ws) (length os) && forallb (fun p => wout_eqb (fst p) (snd p)) (combine ws os)
  | _, _ => false
  end.

Definition check_case (c : case) : Z :=
  let '(bounds, ops, i) := c in
  if negb (out_eqb (spec_run bounds ops) i) then code_spec_violation
  else if negb (out_eqb (run bounds ops) i) then code_model_mismatch else code_ok.

Definition check (s : sx) : Z :=
  match d_case s with Some c => check_case c | None => code_decode_error end.

(* what the model / the specification say for a case (printed into replays) *)
Definition e_out (m : option (list wout)) : sx :=
  match m with
  | None => SL [SZ 0]
  | Some ws => SL [SZ 1; eL (fun w => SL [SZ (w_count w); eF (w_sum w); eL (fun p => SL [eF (fst p); SZ (snd p)]) (w_cum w)]) ws]
  end.
Definition explain (s : sx) : sx :=
  match d_case s with
  | Some (bounds, ops, _) => SL [e_out (run bounds ops); e_out (spec_run bounds ops)]
  | None => SL []
  end.
