(* Run/C20_run.v -- correspondence runner for C20 (harness/cmd/c20/main.go; formats documented there). *)
From Coq Require Import ZArith List Bool.
From Verif Require Import Base.Str Base.Sx Model.RemoteWrite.
Import ListNotations.
Open Scope Z_scope.

Definition both (spec_ok model_ok : bool) : Z :=
  if negb spec_ok then code_spec_violation else if negb model_ok then code_model_mismatch else code_ok.

(* ---------- decoders ---------- *)
Definition d_outcome (s : sx) : option outcome :=
  match s with
  | SL [SZ 0] => Some OTransport
  | SL [SZ 1] => Some OBodyErr
  | SL [SZ 2; SZ st; a; b; c; ra; rd] =>
      match dStr a, dStr b, dStr c, dStr ra, dOpt dZ rd with
      | Some a, Some b, Some c, Some ra, Some rd => Some (OResp (mkResp st a b c ra rd))
      | _, _, _, _, _ => None
      end
  | _ => None
  end.
Definition d_cancel (s : sx) : option cancel :=
  match s with
  | SZ 0 => Some CNone | SZ 1 => Some CBefore | SZ 2 => Some CAfter | SZ 3 => Some CInWait | _ => None
  end.
Definition d_kind (s : sx) : option msgkind :=
  match s with
  | SZ 0 => Some MVt | SZ 1 => Some MGogo | SZ 2 => Some MGeneric | SZ 3 => Some MNotProto | SZ 4 => Some MMarshalErr
  | _ => None
  end.
(* the SET of retry-related options the API value was built with (canonical order; the driver applies them,
   together with the path / logger / http client options, in a seeded order) *)
Definition d_option (s : sx) : option api_option :=
  match s with
  | SL [SZ 0; SZ mn; SZ mx; SZ mr] => Some (OBackoff mn mx mr)
  | SL [SZ 1] => Some ONoRetry429
  | _ => None
  end.
Definition d_cfg (s : sx) : option wcfg :=
  match dL d_option s with Some l => Some (apply_options l) | None => None end.
Definition d_req (s : sx) : option oreq :=
  match s with
  | SL [ct; ce; v; rt; ok] =>
      match dStr ct, dStr ce, dStr v, dOpt dStr rt, dB ok with
      | Some ct, Some ce, Some v, Some rt, Some ok => Some (mkOReq (mkReq ct ce v rt) ok)
      | _, _, _, _, _ => None
      end
  | _ => None
  end.
(* error codes of the driver's classification; 10 = not classified (never equal to a model error) *)
Definition d_err (s : sx) : option werr :=
  match s with
  | SL [SZ 0; _] => Some WNil | SL [SZ 1; _] => Some WValidate | SL [SZ 2; _] => Some WUnknownMsg
  | SL [SZ 3; _] => Some WEncode | SL [SZ 4; _] => Some WTransport | SL [SZ 5; _] => Some WBody
  | SL [SZ 6; SZ c] => Some (WStatus c) | SL [SZ 7; _] => Some WV2Unconfirmed | SL [SZ 8; _] => Some WCanceled
  | SL [SZ 10; _] => Some WExhausted
  | _ => None
  end.
Definition d_obs (s : sx) : option wobs :=
  match s with
  | SL [rq; e; SL [SZ a; SZ b; SZ c]; gaps] =>
      match dL d_req rq, d_err e, dL dZ gaps with
      | Some rq, Some e, Some gaps => Some (mkObs rq e a b c gaps)
      | _, _, _ => None
      end
  | _ => None
  end.

Fixpoint reqs_eqb (a : list wreq) (b : list oreq) : bool :=
  match a, b with
  | [], [] => true
  | x :: a', y :: b' => wreq_eqb x (oq y) && oq_body_ok y && reqs_eqb a' b'
  | _, _ => false
  end.
(* delays computed by the model (jitter 0) bound the measured gaps from below *)
Fixpoint gaps_ge (gaps delays : list Z) : bool :=
  match gaps, delays with
  | g :: gr, d :: dr => (d <=? g) && gaps_ge gr dr
  | _, _ => true
  end.
Definition model_write_ok (m : wres) (ob : wobs) : bool :=
  reqs_eqb (w_reqs m) (ob_reqs ob) && werr_eqb (w_err m) (ob_err ob) &&
  eq3 (s_samples (w_stats m), s_hist (w_stats m), s_exem (w_stats m)) (ob_samples ob, ob_hist ob, ob_exem ob) &&
  gaps_ge (ob_gaps ob) (w_delays m) &&
  negb (werr_eqb (w_err m) WExhausted).

(* ---------- concurrent writers: id even = v2, id mod 3 = 0 answered 503 (samples 2) once, then 200 (samples 1) ---------- *)
Fixpoint expected_recv (fuel : nat) (id : Z) : list (Z * Z * Z) :=
  match fuel with
  | O => []
  | S f => (if id mod 3 =? 0 then [(id, 0, 0); (id, 1, 1)] else [(id, 0, 0)]) ++ expected_recv f (id + 1)
  end.
Fixpoint expected_results (fuel : nat) (id : Z) : list (Z * Z * Z * Z * Z) :=
  match fuel with
  | O => []
  | S f => (id, 0, (if id mod 2 =? 0 then (if id mod 3 =? 0 then 3 else 1) else 0), 0, 0) :: expected_results f (id + 1)
  end.
Definition d_t3 (s : sx) : option (Z * Z * Z) := match s with SL [SZ a; SZ b; SZ c] => Some (a, b, c) | _ => None end.
Definition d_t5 (s : sx) : option (Z * Z * Z * Z * Z) :=
  match s with SL [SZ a; SZ b; SZ c; SZ d; SZ e] => Some (a, b, c, d, e) | _ => None end.
Fixpoint list_eqb {A} (eq : A -> A -> bool) (a b : list A) : bool :=
  match a, b with
  | [], [] => true
  | x :: a', y :: b' => eq x y && list_eqb eq a' b'
  | _, _ => false
  end.
Definition t5_eqb (x y : Z * Z * Z * Z * Z) : bool :=
  match x, y with (a, b, c, d, e), (a', b', c', d', e') => (a =? a') && (b =? b') && (c =? c') && (d =? d') && (e =? e') end.

(* ---------- handler ---------- *)
Definition d_mtype (s : sx) : option mtype := match s with SZ 1 => Some V1 | SZ 2 => Some V2 | _ => None end.
Definition d_sb (s : sx) : option store_beh :=
  match s with
  | SL [n; SZ st; SZ a; SZ b; SZ c; e] =>
      match dB n, dB e with Some n, Some e => Some (mkSB n st a b c e) | _, _ => None end
  | _ => None
  end.
Definition d_param (s : sx) : option ct_param :=
  match s with
  | SL [a; b; c; d] =>
      match dStr a, dStr b, dStr c, dStr d with
      | Some a, Some b, Some c, Some d => Some (mkParam a b c d)
      | _, _, _, _ => None
      end
  | _ => None
  end.
Definition d_ast (s : sx) : option ct_ast :=
  match s with
  | SL [l; m; ps; t] =>
      match dStr l, dStr m, dL d_param ps, dStr t with
      | Some l, Some m, Some ps, Some t => Some (mkAst l m ps t)
      | _, _, _, _ => None
      end
  | _ => None
  end.
Definition d_call (s : sx) : option (option mtype * str) :=
  match s with
  | SL [t; p] => match dStr t, dStr p with Some t, Some p => Some (validate t, p) | _, _ => None end
  | _ => None
  end.
(* written headers arrive as strings; they must be the decimal rendering of the numbers *)
Definition d_written (s : sx) : option (str * str * str) :=
  match s with
  | SL [a; b; c] => match dStr a, dStr b, dStr c with Some a, Some b, Some c => Some (a, b, c) | _, _, _ => None end
  | _ => None
  end.
Definition und (s : str) : Z := match atoi s with Some v => if str_eqb (decimal v) s then v else -999999 | None => -999999 end.
Definition to_hout (panic : bool) (status : Z) (written : option (str * str * str)) (call : option (option mtype * str)) : option hout :=
  let w := option_map (fun x => match x with (a, b, c) => (und a, und b, und c) end) written in
  match call with
  | Some (None, _) => None     (* the store saw an invalid message type: reported as a violation below *)
  | Some (Some t, p) => Some (if panic then HPanic (t, p) else HOut status w (Some (t, p)))
  | None => if panic then None else Some (HOut status w None)
  end.
Definition hout_eqb (a b : hout) : bool :=
  match a, b with
  | HPanic (t, p), HPanic (t', p') => mtype_eqb t t' && str_eqb p p'
  | HOut s w c, HOut s' w' c' =>
      (s =? s') && opt3_eqb w w' &&
      match c, c' with
      | None, None => true
      | Some (t, p), Some (t', p') => mtype_eqb t t' && str_eqb p p'
      | _, _ => false
      end
  | _, _ => false
  end.

Definition check (s : sx) : Z :=
  match s with
  | SL [SZ 0; cfg; ty; k; script; impl] =>
      match d_cfg cfg, dStr ty, d_kind k, dL (dP d_outcome d_cancel) script, d_obs impl with
      | Some cfg, Some ty, Some k, Some script, Some ob =>
          both (spec_write_ok cfg ty k script ob) (model_write_ok (write cfg ty k (fun _ => 0) script) ob)
      | _, _, _, _, _ => code_decode_error
      end
  | SL [SZ 1; SZ n; recv; results; SZ corrupt] =>
      match dL d_t3 recv, dL d_t5 results with
      | Some recv, Some results =>
          both ((corrupt =? 0) &&
                list_eqb (fun x y => eq3 x y) recv (expected_recv (Z.to_nat n) 0) &&
                list_eqb t5_eqb results (expected_results (Z.to_nat n) 0)) true
      | _, _ => code_decode_error
      end
  | SL [SZ 2; acc; m; ct; ce; dec; berr; sb; ast; impl] =>
      match dL d_mtype acc, dStr m, dStr ct, dStr ce, dOpt dStr dec, d_sb sb, dOpt d_ast ast, dB berr with
      | Some acc, Some m, Some ct, Some ce, Some dec, Some sb, Some ast, Some berr =>
          let r := mkHReq m ct ce [] berr in
          let decode := fun _ : str => dec in
          let o := match impl with
                   | SL [SZ 0; call] => match dOpt d_call call with Some c => Some (to_hout true 0 None c) | None => None end
                   | SL [SZ 1; SZ st; w; call] =>
                       match dOpt d_written w, dOpt d_call call with
                       | Some w, Some c => Some (to_hout false st w c)
                       | _, _ => None
                       end
                   | _ => None
                   end in
          match o with
          | None => code_decode_error
          | Some None => code_spec_violation
          | Some (Some o) =>
              (* a Content-Type built from the grammar must also render to the header that was sent *)
              match ast with
              | Some a => if negb (str_eqb (render a) ct) then code_decode_error
                          else both (handler_spec_ok decode acc sb r ast o) (hout_eqb (serve decode acc sb r) o)
              | None => both (handler_spec_ok decode acc sb r ast o) (hout_eqb (serve decode acc sb r) o)
              end
          end
      | _, _, _, _, _, _, _, _ => code_decode_error
      end
  | SL [SZ 3; h; ast; SZ res] =>
      match dStr h, dOpt d_ast ast with
      | Some h, Some ast =>
          let impl := if res =? 1 then Some (Some V1) else if res =? 2 then Some (Some V2) else if res =? 0 then Some None else None in
          match impl with
          | None => code_spec_violation
          | Some i =>
              let eqo := fun a b : option mtype => match a, b with None, None => true | Some x, Some y => mtype_eqb x y | _, _ => false end in
              match ast with
              | Some a => if negb (str_eqb (render a) h) then code_decode_error
                          else both (eqo (ct_spec a) i) (eqo (parse_proto_msg h) i)
              | None => both true (eqo (parse_proto_msg h) i)
              end
          end
      | _, _ => code_decode_error
      end
  | SL [SZ 4; h; SZ ns] =>
      match dStr h with
      | Some h => both true (retry_after_ns (mkResp 0 [] [] [] h None) =? ns)
      | None => code_decode_error
      end
  | SL [SZ 5; a; b; c; SL [SZ s1; SZ s2; SZ s3; conf; failed]] =>
      match dStr a, dStr b, dStr c, dB conf, dB failed with
      | Some a, Some b, Some c, Some conf, Some failed =>
          let st := parse_stats (mkResp 0 a b c [] None) in
          let bad := fun h : str => negb (is_empty h) && match atoi h with None => true | Some _ => false end in
          (* spec: absent = 0, confirmed iff at least one header present *)
          both (Bool.eqb conf (negb (is_empty a && is_empty b && is_empty c)))
               ((s_samples st =? s1) && (s_hist st =? s2) && (s_exem st =? s3) && Bool.eqb (s_confirmed st) conf &&
                Bool.eqb failed (bad a || bad b || bad c))
      | _, _, _, _, _ => code_decode_error
      end
  | _ => code_decode_error
  end.

Definition e_stats (s : stats) : sx := SL [SZ (s_samples s); SZ (s_hist s); SZ (s_exem s); eB (s_confirmed s)].
Definition e_err (e : werr) : sx :=
  match e with
  | WNil => SL [SZ 0; SZ 0] | WValidate => SL [SZ 1; SZ 0] | WUnknownMsg => SL [SZ 2; SZ 0] | WEncode => SL [SZ 3; SZ 0]
  | WTransport => SL [SZ 4; SZ 0] | WBody => SL [SZ 5; SZ 0] | WStatus c => SL [SZ 6; SZ c] | WV2Unconfirmed => SL [SZ 7; SZ 0]
  | WCanceled => SL [SZ 8; SZ 0] | WExhausted => SL [SZ 10; SZ 0]
  end.
Definition e_req (q : wreq) : sx := SL [eStr (q_ctype q); eStr (q_cenc q); eStr (q_version q); eOpt eStr (q_retry q)].
Definition e_mtype (t : mtype) : sx := match t with V1 => SZ 1 | V2 => SZ 2 end.
Definition e_hout (o : hout) : sx :=
  match o with
  | HPanic (t, p) => SL [SZ 0; e_mtype t; eStr p]
  | HOut s w c => SL [SZ 1; SZ s; eOpt (fun x => match x with (a, b, c) => SL [SZ a; SZ b; SZ c] end) w;
                      eOpt (fun x => SL [e_mtype (fst x); eStr (snd x)]) c]
  end.

(* model output, then what the specification checker says about the implementation's observables *)
Definition explain (s : sx) : sx :=
  match s with
  | SL [SZ 0; cfg; ty; k; script; impl] =>
      match d_cfg cfg, dStr ty, d_kind k, dL (dP d_outcome d_cancel) script, d_obs impl with
      | Some cfg, Some ty, Some k, Some script, Some ob =>
          let m := write cfg ty k (fun _ => 0) script in
          SL [eL e_req (w_reqs m); e_err (w_err m); e_stats (w_stats m); eL SZ (w_delays m); eB (spec_write_ok cfg ty k script ob)]
      | _, _, _, _, _ => SL []
      end
  | SL [SZ 1; SZ n; _; _; _] => SL [SZ (Z.of_nat (length (expected_recv (Z.to_nat n) 0)))]
  | SL [SZ 2; acc; m; ct; ce; dec; berr; sb; ast; _] =>
      match dL d_mtype acc, dStr m, dStr ct, dStr ce, dOpt dStr dec, d_sb sb, dB berr with
      | Some acc, Some m, Some ct, Some ce, Some dec, Some sb, Some berr =>
          SL [e_hout (serve (fun _ => dec) acc sb (mkHReq m ct ce [] berr))]
      | _, _, _, _, _, _, _ => SL []
      end
  | SL [SZ 3; h; ast; _] =>
      match dStr h, dOpt d_ast ast with
      | Some h, Some ast => SL [eOpt e_mtype (parse_proto_msg h); eOpt (fun a => eOpt e_mtype (ct_spec a)) ast]
      | _, _ => SL []
      end
  | SL [SZ 4; h; _] =>
      match dStr h with Some h => SL [SZ (retry_after_ns (mkResp 0 [] [] [] h None))] | None => SL [] end
  | SL [SZ 5; a; b; c; _] =>
      match dStr a, dStr b, dStr c with
      | Some a, Some b, Some c => SL [e_stats (parse_stats (mkResp 0 a b c [] None))]
      | _, _, _ => SL []
      end
  | _ => SL []
  end.
