(* Run/C11_run.v -- correspondence runner for C11 (harness/cmd/c11/main.go).
   Wire format, one case per line:
   (0 vals offers ((value qbits)...) selected)
        header.ParseAccept over the Accept-Encoding values + NegotiateContentEncoding
   (1 policy disable offered ae zstd ct ((id encfail)...) gerr closefail limit inflight trailer registry
      (status ct_hdr cenc plain decomp_ok chunks complete counters gathers done panic))
        one request through HandlerFor / HandlerForTransactional
   (2 limit ((0 t)|(1 t p)|(2 t) ...) (outcome...) peak gathers dones n503)
        a scripted schedule of concurrent requests against a blocking gatherer
   (3 limit reqs n200 n503 peak gathers dones)
        free-running concurrent requests (specification only)
   (4 ((own_gathering own_encoding ()|((gathering encoding)))...))
        several handlers on different registries in one process (specification only) *)
From Coq Require Import ZArith List Bool.
From Verif Require Import Base.F64 Base.Str Base.Sx Model.Handler.
Import ListNotations.
Open Scope Z_scope.

Definition both (spec_ok model_ok : bool) : Z :=
  if negb spec_ok then code_spec_violation else if negb model_ok then code_model_mismatch else code_ok.

Definition d_policy (s : sx) : option policy :=
  match s with
  | SZ 0 => Some PHttpError | SZ 1 => Some PContinue | SZ 2 => Some PPanic | SZ _ => Some POther
  | _ => None
  end.
Definition d_zstd (s : sx) : option zstd_state :=
  match s with SZ 0 => Some ZAbsent | SZ 1 => Some ZOk | SZ 2 => Some ZFail | _ => None end.
Definition d_ev (s : sx) : option ev :=
  match s with
  | SL [SZ 0; SZ t] => Some (Start t)
  | SL [SZ 1; SZ t; p] => option_map (End t) (dB p)
  | SL [SZ 2; SZ t] => Some (TimedOut t)
  | _ => None
  end.

Definition fam := (Z * bool)%type.

Definition d_in (policy disable offered ae zstd ct mfs gerr closefail limit inflight : sx) : option (hin fam) :=
  match d_policy policy, dB disable, dL dStr offered, dL dStr ae, d_zstd zstd, dStr ct, dL (dP dZ dB) mfs, dB gerr, dB closefail,
        dZ limit, dZ inflight with
  | Some p, Some dis, Some off, Some ae, Some z, Some ct, Some mfs, Some ge, Some cf, Some lim, Some inf =>
      Some (mkIn p dis off ae z ct mfs ge (@snd Z bool) cf lim inf)
  | _, _, _, _, _, _, _, _, _, _, _ => None
  end.

(* impl observables; the Content-Type header is compared with the library's answer here *)
Definition d_obs (ct : str) (s : sx) : option obs :=
  match s with
  | SL [SZ status; ct_hdr; cenc; plain; decomp; chunks; complete; counters; SZ gathers; SZ done; panic] =>
      match dStr ct_hdr, dOpt dStr cenc, dB plain, dB decomp, dL dZ chunks, dB complete, dOpt (dP dZ dZ) counters, dB panic with
      | Some cth, Some ce, Some pl, Some de, Some ch, Some co, Some cn, Some pa =>
          Some (mkObs status (str_eqb cth ct) ce pl de ch co cn gathers done pa)
      | _, _, _, _, _, _, _, _ => None
      end
  | _ => None
  end.

Definition ostr_eqb (a b : option str) : bool :=
  match a, b with
  | None, None => true
  | Some x, Some y => str_eqb x y
  | _, _ => false
  end.
Definition ocnt_eqb (a b : option (Z * Z)) : bool :=
  match a, b with
  | None, None => true
  | Some (x, y), Some (u, v) => (x =? u) && (y =? v)
  | _, _ => false
  end.

Definition obs_eqb (m b : obs) : bool :=
  Bool.eqb (b_panic m) (b_panic b) && ocnt_eqb (b_counters m) (b_counters b) &&
  (b_gathers m =? b_gathers b) && (b_done m =? b_done b) &&
  (if b_panic m then true
   else (b_status m =? b_status b) && Bool.eqb (b_plain m) (b_plain b) && ostr_eqb (b_cenc m) (b_cenc b) &&
        zs_eqb (b_chunks m) (b_chunks b) &&
        (if b_status m =? 200
         then Bool.eqb (b_ct_ok m) (b_ct_ok b) && Bool.eqb (b_decomp_ok m) (b_decomp_ok b) && Bool.eqb (b_complete m) (b_complete b)
         else true)).

Definition spec_eqb (a : aspec) (b : str * f64) : bool := str_eqb (sv a) (fst b) && fbits_eq (sq a) (snd b).
Fixpoint specs_eqb (a : list aspec) (b : list (str * f64)) : bool :=
  match a, b with
  | [], [] => true
  | x :: a', y :: b' => spec_eqb x y && specs_eqb a' b'
  | _, _ => false
  end.

(* clause "identity or an offered compression accepted with non-zero quality" for a bare negotiation *)
Definition spec_selected (specs : list aspec) (offers : list str) (sel : str) : bool :=
  match sel with
  | [] => true
  | _ => str_eqb sel s_identity || (str_in sel offers && accepted_nonzero specs sel)
  end.

Definition count_z (z : Z) (l : list Z) : Z := Z.of_nat (List.length (filter (Z.eqb z) l)).

Definition check (s : sx) : Z :=
  match s with
  | SL [SZ 0; vals; offers; ispecs; isel] =>
      match dL dStr vals, dL dStr offers, dL (dP dStr dF) ispecs, dStr isel with
      | Some vals, Some offers, Some ispecs, Some isel =>
          let specs := parse_accept vals in
          both (spec_selected specs offers isel)
               (specs_eqb specs ispecs && str_eqb (negotiate_ce specs offers) isel)
      | _, _, _, _ => code_decode_error
      end
  | SL [SZ 1; policy; disable; offered; ae; zstd; ct; mfs; gerr; closefail; limit; inflight; trailer; registry; impl] =>
      match d_in policy disable offered ae zstd ct mfs gerr closefail limit inflight, dB trailer, dB registry with
      | Some i, Some tr, Some rg =>
          match d_obs (h_ct i) impl with
          | Some b => both (spec_ok i b) (obs_eqb (obs_of i tr rg (handle i)) b)
          | None => code_decode_error
          end
      | _, _, _ => code_decode_error
      end
  | SL [SZ 2; SZ limit; evs; outs; SZ peak; SZ gathers; SZ dones; SZ n503] =>
      match dL d_ev evs, dL dZ outs with
      | Some evs, Some outs =>
          let m := sem_run limit evs in
          let n200 := count_z 1 outs in
          both (spec_conc limit (n200 + count_z 2 outs) n200 n503 peak gathers dones && (count_z 2 outs =? n503) &&
                spec_sched limit [] evs outs)
               (zs_eqb (sem_outcomes limit sem0 evs) outs && (m_peak m =? peak) && (m_gathers m =? gathers) &&
                (m_dones m =? dones) && (m_503 m =? n503))
      | _, _ => code_decode_error
      end
  | SL [SZ 4; hs] =>
      match dL (dT3 dZ dZ (dOpt (dP dZ dZ))) hs with
      | Some hs => both (spec_counters_own hs) true
      | None => code_decode_error
      end
  | SL [SZ 3; SZ limit; SZ reqs; SZ n200; SZ n503; SZ peak; SZ gathers; SZ dones] =>
      both (spec_conc limit reqs n200 n503 peak gathers dones) true
  | _ => code_decode_error
  end.

Definition e_spec (a : aspec) : sx := SL [eStr (sv a); eF (sq a)].
Definition e_obs (b : obs) : sx :=
  SL [SZ (b_status b); eB (b_ct_ok b); eOpt eStr (b_cenc b); eB (b_plain b); eB (b_decomp_ok b); eL SZ (b_chunks b);
      eB (b_complete b); eOpt (fun p => SL [SZ (fst p); SZ (snd p)]) (b_counters b); SZ (b_gathers b); SZ (b_done b); eB (b_panic b)].

(* model answer, then what the specification says about the implementation's answer *)
Definition explain (s : sx) : sx :=
  match s with
  | SL [SZ 0; vals; offers; _; isel] =>
      match dL dStr vals, dL dStr offers, dStr isel with
      | Some vals, Some offers, Some isel =>
          let specs := parse_accept vals in
          SL [eL e_spec specs; eStr (negotiate_ce specs offers); eB (spec_selected specs offers isel)]
      | _, _, _ => SL []
      end
  | SL [SZ 1; policy; disable; offered; ae; zstd; ct; mfs; gerr; closefail; limit; inflight; trailer; registry; impl] =>
      match d_in policy disable offered ae zstd ct mfs gerr closefail limit inflight, dB trailer, dB registry with
      | Some i, Some tr, Some rg =>
          SL [e_obs (obs_of i tr rg (handle i)); eL e_spec (parse_accept (h_ae i));
              match d_obs (h_ct i) impl with Some b => SL [e_obs b; eB (spec_ok i b)] | None => SL [] end]
      | _, _, _ => SL []
      end
  | SL [SZ 2; SZ limit; evs; _; _; _; _; _] =>
      match dL d_ev evs with
      | Some evs => let m := sem_run limit evs in
                    SL [eL SZ (sem_outcomes limit sem0 evs); SZ (m_peak m); SZ (m_gathers m); SZ (m_dones m); SZ (m_503 m)]
      | None => SL []
      end
  | _ => SL []
  end.
