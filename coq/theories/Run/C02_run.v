(* Run/C02_run.v -- correspondence runner for C02 (harness/cmd/c02/main.go).
   case = (kind bounds progs sched trace calls flags); kind 0 histogram / 1 summary under the deterministic
   scheduler (the step machine runs under the same schedule: canonical per-step labels, every call's result and
   its invocation/response times must agree); kind 2 / 3 free-running stress histories (snapshot checker only). *)
From Coq Require Import ZArith List Bool.
From Verif Require Import Base.F64 Base.Str Base.Sx Base.Conc Model.HotCold.
Import ListNotations.
Open Scope Z_scope.

Definition d_op (s : sx) : option hop :=
  match s with
  | SL [SZ 0; v] => option_map HObserve (dF v)
  | SL [SZ 1] => Some HWrite
  | _ => None
  end.
Definition d_ret (s : sx) : option hret :=
  match s with
  | SL [SZ 0] => Some HUnit
  | SL [SZ 1; SL [SZ c; sm; cum; _]] =>
      match dF sm, dL dZ cum with Some sm, Some cum => Some (HOut (mkHOut c sm cum)) | _, _ => None end
  | _ => None
  end.
(* the explicit +Inf bucket (exposed only when it carries an exemplar) must repeat the sample count *)
Definition inf_bucket_ok (s : sx) : bool :=
  match s with
  | SL [_; _; SL [SZ 1; SL [SZ c; _; _; SL infs]]; _; _] => forallb (fun i => match i with SZ z => Z.eqb z c | _ => false end) infs
  | _ => true
  end.

Definition d_call (s : sx) : option (Z * Z * hret * Z * Z) :=
  match s with
  | SL [SZ t; SZ i; r; SZ a; SZ b] => option_map (fun r => (t, i, r, a, b)) (d_ret r)
  | _ => None
  end.

Fixpoint trace_eqb (a b : list (Z * list Z)) : bool :=
  match a, b with
  | [], [] => true
  | (t, l) :: a', (t', l') :: b' => Z.eqb t t' && str_eqb l l' && trace_eqb a' b'
  | _, _ => false
  end.

Fixpoint zs_eqb (a b : list Z) : bool :=
  match a, b with
  | [], [] => true
  | x :: a', y :: b' => Z.eqb x y && zs_eqb a' b'
  | _, _ => false
  end.
Definition hret_eqb (a b : hret) : bool :=
  match a, b with
  | HUnit, HUnit => true
  | HOut x, HOut y => Z.eqb (ho_count x) (ho_count y) && fbits_eq (ho_sum x) (ho_sum y) && zs_eqb (ho_cum x) (ho_cum y)
  | _, _ => false
  end.

Section G.
Variable M : machine.
Variable to_hop : hop -> Conc.op M.
Variable of_ret : Conc.ret M -> hret.
Variable to_ret : hret -> Conc.ret M.

Definition calls_agree (mh : list (call M)) (ih : list (Z * Z * hret * Z * Z)) : bool :=
  Nat.eqb (length mh) (length ih) &&
  forallb (fun ic => let '(t, i, r, a, b) := ic in
    existsb (fun c => Z.eqb (c_tid c) t && Z.eqb (c_idx c) i && hret_eqb (of_ret (c_ret c)) r && Z.eqb (c_inv c) a && Z.eqb (c_res c) b) mh) ih.

Definition impl_history (progs : list (list hop)) (ih : list (Z * Z * hret * Z * Z)) : option (list (call M)) :=
  mapM (fun ic => let '(t, i, r, a, b) := ic in
    match nth_error progs (Z.to_nat t) with
    | Some p => match nth_error p (Z.to_nat i) with Some o => Some (mkCall t i (to_hop o) (to_ret r) a b) | None => None end
    | None => None
    end) ih.
End G.

Definition run_kind (summary : bool) (bounds : list f64) (progs : list (list hop)) (sched : list Z) :
  bool * list (Z * list Z) * list (Z * Z * hret * Z * Z) :=
  if summary then
    let c := run_sched summ_machine (init_config summ_machine (hinit bounds) progs) sched in
    (all_done summ_machine c, trace c, map (fun k : call summ_machine => (c_tid k, c_idx k, (c_ret k : hret), c_inv k, c_res k)) (hist c))
  else
    let c := run_sched hist_machine (init_config hist_machine (hinit bounds) progs) sched in
    (all_done hist_machine c, trace c, map (fun k : call hist_machine => (c_tid k, c_idx k, (c_ret k : hret), c_inv k, c_res k)) (hist c)).

Definition model_agrees (m : list (Z * Z * hret * Z * Z)) (i : list (Z * Z * hret * Z * Z)) : bool :=
  Nat.eqb (length m) (length i) &&
  forallb (fun ic => let '(t, k, r, a, b) := ic in
    existsb (fun mc => let '(t', k', r', a', b') := mc in
      Z.eqb t t' && Z.eqb k k' && hret_eqb r r' && Z.eqb a a' && Z.eqb b b') m) i.

Definition check (s : sx) : Z :=
  match s with
  | SL [SZ kind; bounds; progs; sched; tr; calls_sx; SZ flags] =>
      match dL dF bounds, dL (dL d_op) progs, dL dZ sched, dL (dP dZ dStr) tr, dL d_call calls_sx with
      | Some bounds, Some progs, Some sched, Some tr, Some calls =>
          let summary := Z.eqb kind 1 || Z.eqb kind 3 in
          match impl_history hist_machine (fun o => o) (fun r => r) progs calls with
          | None => code_decode_error
          | Some ih =>
              let spec_ok := Z.eqb flags 0 && Nat.eqb (length ih) (length (concat progs)) &&
                             (match calls_sx with SL l => forallb inf_bucket_ok l | _ => false end) &&
                             snapshot_check (M := hist_machine) (fun o => o) (fun r => r) bounds ih in
              if negb spec_ok then code_spec_violation
              else if Z.leb 2 kind then code_ok
              else
                let '(done, mtr, mcalls) := run_kind summary bounds progs sched in
                if done && trace_eqb mtr tr && model_agrees mcalls calls then code_ok else code_model_mismatch
          end
      | _, _, _, _, _ => code_decode_error
      end
  | _ => code_decode_error
  end.

Definition e_ret (r : hret) : sx :=
  match r with HUnit => SL [SZ 0] | HOut o => SL [SZ 1; SL [SZ (ho_count o); eF (ho_sum o); eL SZ (ho_cum o)]] end.

Definition explain (s : sx) : sx :=
  match s with
  | SL [SZ kind; bounds; progs; sched; tr; calls; SZ flags] =>
      match dL dF bounds, dL (dL d_op) progs, dL dZ sched with
      | Some bounds, Some progs, Some sched =>
          let '(done, mtr, mcalls) := run_kind (Z.eqb kind 1) bounds progs sched in
          SL [eB done; eL (fun p => SL [SZ (fst p); eStr (snd p)]) mtr;
              eL (fun c => let '(t, k, r, a, b) := c in SL [SZ t; SZ k; e_ret r; SZ a; SZ b]) mcalls]
      | _, _, _ => SL []
      end
  | _ => SL []
  end.
