(* Run/C07_run.v -- correspondence runner for C07 (harness/cmd/c07/main.go).
   case := (0 hmode names conscodes ops results)   operation sequence on one vector and its curried views
         | (1 tuples children)                      final-state figures of a stress run
         | (2 bytes valid)                          utf8.ValidString micro-correspondence
         | (3 hmode names progs sched results flags times)  one explored interleaving of concurrent callers:
             progs per thread ((0 tuple) | (1 tuple) | (2 labels) | (3)), sched = thread ids in the order
             their critical sections (RLock / Lock) were granted, results per thread in program order,
             times per thread ((inv res) ...) = scheduler step counts at invocation and response
         | (5 hmode names conscodes ops results n1 collected)  Collect through an unbuffered channel, paused
             after its first sends while the operations ops[n1:] run in another goroutine (they only get
             through if Collect does not hold the read lock any more); collected = what Collect delivered
             ((values id) ..., a nil Metric as (() 999997))
         | (4 names progs results times)             a free-running race of real goroutines on a small
             program; times from an atomic logical clock (ticked before invocation and after response)
   op     := (0 v must lvs) | (1 v must labels) | (2 v must labels) | (3 v lvs) | (4 v labels)
           | (5 v labels) | (6 v) | (7 v)           labels := ((name value) ...)
   result := (0 id) | (1 err panicked) | (2 bool) | (3 n) | (4) | (5 ((values id) ...)) | (6) *)
From Coq Require Import ZArith List Bool Arith.
From Verif Require Import Base.Str Base.Sx Gen.Gen_Consts Base.Conc Model.CounterGauge Model.Vec Model.VecConc.
Import ListNotations.
Open Scope Z_scope.

Definition d_lbls : sx -> option lbls := dL (dP dStr dStr).
Definition d_entry : sx -> option entry := dP (dL dStr) dNat.

Definition d_op (s : sx) : option op :=
  match s with
  | SL [SZ 0; v; m; x] => match dNat v, dB m, dL dStr x with Some v, Some m, Some x => Some (OGetLV v m x) | _, _, _ => None end
  | SL [SZ 1; v; m; x] => match dNat v, dB m, d_lbls x with Some v, Some m, Some x => Some (OGetL v m x) | _, _, _ => None end
  | SL [SZ 2; v; m; x] => match dNat v, dB m, d_lbls x with Some v, Some m, Some x => Some (OCurry v m x) | _, _, _ => None end
  | SL [SZ 3; v; x] => match dNat v, dL dStr x with Some v, Some x => Some (ODelLV v x) | _, _ => None end
  | SL [SZ 4; v; x] => match dNat v, d_lbls x with Some v, Some x => Some (ODelL v x) | _, _ => None end
  | SL [SZ 5; v; x] => match dNat v, d_lbls x with Some v, Some x => Some (ODelPartial v x) | _, _ => None end
  | SL [SZ 6; v] => match dNat v with Some v => Some (OReset v) | None => None end
  | SL [SZ 7; v] => match dNat v with Some v => Some (OCollect v) | None => None end
  | _ => None
  end.

Definition d_result (s : sx) : option result :=
  match s with
  | SL [SZ 0; i] => match dNat i with Some i => Some (RId i) | None => None end
  | SL [SZ 1; SZ e; p] => match dB p with Some p => Some (RErr e p) | None => None end
  | SL [SZ 2; b] => match dB b with Some b => Some (RBool b) | None => None end
  | SL [SZ 3; SZ n] => Some (RNum n)
  | SL [SZ 4] => Some RUnit
  | SL [SZ 5; l] => match dL d_entry l with Some l => Some (RColl l) | None => None end
  | SL [SZ 6] => Some RView
  | _ => None
  end.

Definition result_eqb (a b : result) : bool :=
  match a, b with
  | RId x, RId y => Nat.eqb x y
  | RErr e p, RErr e' p' => (e =? e') && Bool.eqb p p'
  | RBool x, RBool y => Bool.eqb x y
  | RNum x, RNum y => x =? y
  | RUnit, RUnit => true
  | RColl x, RColl y => entries_eqb x y
  | RView, RView => true
  | _, _ => false
  end.

Fixpoint results_eqb (a b : list result) : bool :=
  match a, b with
  | [], [] => true
  | x :: a', y :: b' => result_eqb x y && results_eqb a' b'
  | _, _ => false
  end.

Definition both (spec_good model_good : bool) : Z :=
  if negb spec_good then code_spec_violation else if negb model_good then code_model_mismatch else code_ok.

Record scase := mkCase { k_hm : Z; k_names : list str; k_codes : list Z; k_ops : list op; k_res : list result }.

Definition d_case (s : sx) : option scase :=
  match s with
  | SL [SZ 0; SZ hm; nm; codes; ops; res] =>
      match dL dStr nm, dL dZ codes, dL d_op ops, dL d_result res with
      | Some nm, Some codes, Some ops, Some res => Some (mkCase hm nm codes ops res)
      | _, _, _, _ => None
      end
  | _ => None
  end.

Definition model_results (k : scase) : list result :=
  fst (run fnv_offset64 (hmode_add (k_hm k)) (hmode_addb (k_hm k)) (k_names k) (mk_cstr (k_names k) (k_codes k))
           init_world (k_ops k)).


(* ---- explored interleavings (stream sched) ---- *)
Definition d_creq (names : list str) (s : sx) : option creq :=
  match s with
  | SL [SZ 0; t] => match dL dStr t with Some t => Some (QGet t) | None => None end
  | SL [SZ 1; t] => match dL dStr t with Some t => Some (QDel t) | None => None end
  | SL [SZ 2; l] => match d_lbls l with Some l => Some (QPartial (sel_partial names [] [] l)) | None => None end
  | SL [SZ 3] => Some QReset
  | SL [SZ 4] => Some QCollect
  | _ => None
  end.

(* take the next result of thread tid *)
Fixpoint pop_nth (l : list (list result)) (tid : nat) : option (result * list (list result)) :=
  match l, tid with
  | [], _ => None
  | rs :: r, O => match rs with x :: rs' => Some (x, rs' :: r) | [] => None end
  | rs :: r, S k => match pop_nth r k with Some (x, r') => Some (x, rs :: r') | None => None end
  end.

(* the model's history (calls in the order of their last critical section) carrying the results the
   implementation returned; None when the implementation made fewer calls than the model *)
Fixpoint impl_history (h : list cevent) (rem : list (list result)) : option (list cevent * list (list result)) :=
  match h with
  | [] => Some ([], rem)
  | e :: r =>
    match pop_nth rem (e_tid e) with
    | Some (x, rem') =>
      match impl_history r rem' with
      | Some (h', rem'') => Some (mkE (e_tid e) (e_req e) x :: h', rem'')
      | None => None
      end
    | None => None
    end
  end.

Fixpoint events_eqb (a b : list cevent) : bool :=
  match a, b with
  | [], [] => true
  | x :: a', y :: b' => result_eqb (e_res x) (e_res y) && events_eqb a' b'
  | _, _ => false
  end.

(* does the schedule fit the model's critical-section structure: every entry runs a section of a
   thread that still has work, and at the end every thread is done *)
Fixpoint sched_fits (H : values -> Z) (c : cstate) (sched : list nat) : bool :=
  match sched with
  | [] => forallb (fun th => match t_todo th with [] => true | _ => false end) (c_thr c)
  | tid :: r =>
    match nth_error (c_thr c) tid with
    | Some th => match t_todo th with [] => false | _ => sched_fits H (fst (cstep H c tid)) r end
    | None => false
    end
  end.

(* the implementation's history as calls with invocation and response times *)
Definition dummyH : values -> Z := fun _ => 0.
Fixpoint thread_calls (tid idx : Z) (ops : list creq) (rs : list result) (ts : list (Z * Z))
  : option (list (Conc.call (vec_machine dummyH))) :=
  match ops, rs, ts with
  | [], [], [] => Some []
  | o :: ops', r :: rs', (i, e) :: ts' =>
      match thread_calls tid (idx + 1) ops' rs' ts' with
      | Some l => Some (Conc.mkCall (M := vec_machine dummyH) tid idx o r i e :: l)
      | None => None
      end
  | _, _, _ => None
  end.
Fixpoint all_calls (tid : Z) (progs : list (list creq)) (res : list (list result)) (times : list (list (Z * Z)))
  : option (list (Conc.call (vec_machine dummyH))) :=
  match progs, res, times with
  | [], [], [] => Some []
  | p :: progs', r :: res', t :: times' =>
      match thread_calls tid 0 p r t, all_calls (tid + 1) progs' res' times' with
      | Some a, Some b => Some (a ++ b)
      | _, _ => None
      end
  | _, _, _ => None
  end.

(* real-time linearizability of the implementation's history (None: some call did not complete) *)
Definition impl_linearizable (progs : list (list creq)) (res : list (list result)) (times : list (list (Z * Z))) : bool :=
  match all_calls 0 progs res times with
  | Some h => forallb (fun k => Conc.c_inv k <=? Conc.c_res k) h && vec_lin_check dummyH h
  | None => false
  end.

(* 0: the implementation's history is linearizable in real time, the schedule fits the model's
   critical sections and the results are the model's; 2: the scheduler reported a deadlock/panic, or NO
   order of the calls that respects real time (a call that returned before another was invoked comes
   first) is explained by the plain map (vec_lin_check; sound by theorem vec_lin_check_sound, accepts
   every history of the model by vec_lin_check_complete); 1: linearizable, but results or lock structure
   differ from the model *)
Definition check_sched (hm : Z) (names : list str) (progs : list (list creq)) (sched : list nat)
           (res : list (list result)) (flags : Z) (times : list (list (Z * Z))) : Z :=
  let H := Hfold fnv_offset64 (hmode_add hm) (hmode_addb hm) in
  let hist := snd (crun H (cinit_run progs) sched) in
  let model_good :=
    sched_fits H (cinit_run progs) sched &&
    match impl_history hist res with
    | Some (ih, rem) => forallb (fun l => match l with [] => true | _ => false end) rem &&
                        events_eqb hist ih && lin_ok init_sworld ih
    | None => false
    end in
  let spec_good := (flags =? 0) && impl_linearizable progs res times in
  if negb spec_good then code_spec_violation
  else if negb model_good then code_model_mismatch
  else code_ok.

Definition d_triple (s : sx) : option (Z * Z * Z) := dT3 dZ dZ dZ s.

Definition check (s : sx) : Z :=
  match s with
  | SL (SZ 0 :: _) =>
      match d_case s with
      | Some k =>
          both (spec_ok (k_names k) (mk_cstr (k_names k) (k_codes k)) init_sworld (k_ops k) (k_res k))
               (results_eqb (model_results k) (k_res k))
      | None => code_decode_error
      end
  | SL [SZ 1; tuples; children] =>
      match dL d_triple tuples, dL (dP dZ dZ) children with
      | Some t, Some c => both (stress_ok t c) true
      | _, _ => code_decode_error
      end
  | SL [SZ 2; bytes; valid] =>
      match dStr bytes, dB valid with
      | Some b, Some v => both true (Bool.eqb (utf8_valid b) v)
      | _, _ => code_decode_error
      end
  | SL [SZ 3; SZ hm; nm; progs; sched; res; SZ flags; times] =>
      match dL dStr nm with
      | Some nm =>
          match dL (dL (d_creq nm)) progs, dL dNat sched, dL (dL d_result) res, dL (dL (dP dZ dZ)) times with
          | Some progs, Some sched, Some res, Some times => check_sched hm nm progs sched res flags times
          | _, _, _, _ => code_decode_error
          end
      | None => code_decode_error
      end
  | SL [SZ 5; SZ hm; nm; codes; ops; res; n1; coll] =>
      match d_case (SL [SZ 0; SZ hm; nm; codes; ops; res]), dNat n1, dL d_entry coll with
      | Some k, Some n1, Some coll =>
          let cstr := mk_cstr (k_names k) (k_codes k) in
          (* specification: the operations behave as on the plain map and the collected children are
             exactly the children of ONE state the map passes through while Collect is in progress *)
          let spec_good :=
            spec_ok (k_names k) cstr init_sworld (k_ops k) (k_res k) &&
            existsb (fun j => coll_ok (s_map (snd (spec_run (k_names k) cstr init_sworld (firstn (n1 + j) (k_ops k))))) coll)
                    (seq 0 (S (length (k_ops k) - n1))) in
          (* model: Collect holds the read lock until its last send, the other operations come after it *)
          let model_good :=
            results_eqb (model_results k) (k_res k) &&
            entries_eqb (collect (w_st (snd (run fnv_offset64 (hmode_add hm) (hmode_addb hm) (k_names k) cstr
                                             init_world (firstn n1 (k_ops k)))))) coll in
          both spec_good model_good
      | _, _, _ => code_decode_error
      end
  | SL [SZ 4; nm; progs; res; times] =>
      match dL dStr nm with
      | Some nm =>
          match dL (dL (d_creq nm)) progs, dL (dL d_result) res, dL (dL (dP dZ dZ)) times with
          | Some progs, Some res, Some times => both (impl_linearizable progs res times) true
          | _, _, _ => code_decode_error
          end
      | None => code_decode_error
      end
  | _ => code_decode_error
  end.

Definition e_entry (e : entry) : sx := SL [eL eStr (fst e); SZ (Z.of_nat (snd e))].
Definition e_result (r : result) : sx :=
  match r with
  | RId i => SL [SZ 0; SZ (Z.of_nat i)]
  | RErr e p => SL [SZ 1; SZ e; eB p]
  | RBool b => SL [SZ 2; eB b]
  | RNum n => SL [SZ 3; SZ n]
  | RUnit => SL [SZ 4]
  | RColl l => SL [SZ 5; eL e_entry l]
  | RView => SL [SZ 6]
  end.
Definition e_sres (r : sres) : sx :=
  match r with
  | SId i => SL [SZ 0; SZ (Z.of_nat i)]
  | SFail => SL [SZ 1]
  | SBool b => SL [SZ 2; eB b]
  | SNum n => SL [SZ 3; SZ n]
  | SUnit => SL [SZ 4]
  | SColl l => SL [SZ 5; eL e_entry l]
  | SView => SL [SZ 6]
  end.

(* (model results, specification results) *)
Definition explain (s : sx) : sx :=
  match s with
  | SL (SZ 0 :: _) =>
      match d_case s with
      | Some k =>
          SL [eL e_result (model_results k);
              eL e_sres (fst (spec_run (k_names k) (mk_cstr (k_names k) (k_codes k)) init_sworld (k_ops k)))]
      | None => SL []
      end
  | SL [SZ 2; bytes; _] => match dStr bytes with Some b => SL [eB (utf8_valid b)] | None => SL [] end
  | SL [SZ 3; SZ hm; nm; progs; sched; _; _; _] =>
      match dL dStr nm with
      | Some nm =>
          match dL (dL (d_creq nm)) progs, dL dNat sched with
          | Some progs, Some sched =>
              let H := Hfold fnv_offset64 (hmode_add hm) (hmode_addb hm) in
              (* the model's history: (thread, result) in the order of the last critical sections *)
              eL (fun e => SL [SZ (Z.of_nat (e_tid e)); e_result (e_res e)]) (snd (crun H (cinit_run progs) sched))
          | _, _ => SL []
          end
      | None => SL []
      end
  | _ => SL []
  end.
