(* Base/Conc.v -- interleaving semantics of small-step machines (DESIGN 4, Conc.v).
   A machine gives, for each API call, a start state (or an immediate result when the call
   performs no shared operation at all) and a step function executing ONE shared operation.
   A schedule is a list of thread ids; each entry lets that thread execute its pending shared
   operation and the thread-local code up to its next one - exactly the granularity of the
   instrumented Go code under the vsched scheduler. *)
From Coq Require Import ZArith List Bool.
Import ListNotations.
Open Scope Z_scope.

Record machine := mkMachine {
  shared : Type; local : Type; op : Type; ret : Type;
  start : op -> local + ret;                          (* inr: returns without touching shared state *)
  step : shared -> local -> option (shared * (local + ret));  (* None: not enabled (blocked) *)
  label : local -> list Z                             (* name of the pending shared operation *)
}.

Section Run.
Variable M : machine.

(* one finished call: thread, index of the call in the thread's program, op, result, invocation and response time
   (time = number of steps executed so far) *)
Record call := mkCall { c_tid : Z; c_idx : Z; c_op : op M; c_ret : ret M; c_inv : Z; c_res : Z }.

Record thread := mkThread {
  t_todo : list (op M);                 (* calls not yet started *)
  t_cur : option (op M * local M * Z);  (* call in progress: op, local state, invocation time *)
  t_idx : Z                             (* index of the call in progress / next call *)
}.

Record config := mkConfig { sh : shared M; thr : list thread; now : Z; hist : list call; trace : list (Z * list Z) }.

(* after a call returned (or at thread start): start following calls until one has a pending shared
   operation; calls that return immediately are recorded with inv = res = the current time. *)
Fixpoint advance (tid : Z) (todo : list (op M)) (idx : Z) (time : Z) : thread * list call :=
  match todo with
  | [] => (mkThread [] None idx, [])
  | o :: rest =>
      match start M o with
      | inl l => (mkThread rest (Some (o, l, time)) idx, [])
      | inr r => let '(t, cs) := advance tid rest (idx + 1) time in
                 (t, mkCall tid idx o r time time :: cs)
      end
  end.

Definition init_config (s0 : shared M) (progs : list (list (op M))) : config :=
  let tcs := map (fun p => advance (fst p) (snd p) 0 0) (combine (map Z.of_nat (seq 0 (length progs))) progs) in
  mkConfig s0 (map fst tcs) 0 (concat (map snd tcs)) [].

Fixpoint set_nth {A} (l : list A) (n : nat) (x : A) : list A :=
  match l, n with
  | [], _ => []
  | _ :: r, O => x :: r
  | y :: r, S n' => y :: set_nth r n' x
  end.

(* one schedule entry; None when the thread does not exist, has nothing to do, or is blocked *)
Definition sched_step (c : config) (tid : Z) : option config :=
  match nth_error (thr c) (Z.to_nat tid) with
  | Some t =>
      match t_cur t with
      | Some (o, l, inv) =>
          match step M (sh c) l with
          | Some (s', nxt) =>
              let time' := now c + 1 in
              let tr := trace c ++ [(tid, label M l)] in
              match nxt with
              | inl l' => Some (mkConfig s' (set_nth (thr c) (Z.to_nat tid) (mkThread (t_todo t) (Some (o, l', inv)) (t_idx t))) time' (hist c) tr)
              | inr r =>
                  let '(t', cs) := advance tid (t_todo t) (t_idx t + 1) time' in
                  Some (mkConfig s' (set_nth (thr c) (Z.to_nat tid) t') time'
                                 (hist c ++ mkCall tid (t_idx t) o r inv time' :: cs) tr)
              end
          | None => None
          end
      | None => None
      end
  | None => None
  end.

(* run a schedule; entries that are not executable are skipped (the Go scheduler never emits them) *)
Fixpoint run_sched (c : config) (sched : list Z) : config :=
  match sched with
  | [] => c
  | t :: r => match sched_step c t with Some c' => run_sched c' r | None => run_sched c r end
  end.

Definition all_done (c : config) : bool :=
  forallb (fun t => match t_cur t with None => true | Some _ => false end) (thr c).

End Run.

Arguments mkCall {M}. Arguments c_tid {M}. Arguments c_idx {M}. Arguments c_op {M}. Arguments c_ret {M}.
Arguments c_inv {M}. Arguments c_res {M}. Arguments sh {M}. Arguments thr {M}. Arguments now {M}. Arguments hist {M}.
Arguments trace {M}. Arguments t_cur {M}. Arguments t_todo {M}. Arguments t_idx {M}.
