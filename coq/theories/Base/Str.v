(* Base/Str.v -- byte strings as lists of Z (each element a byte value 0..255). *)
From Coq Require Import ZArith List Bool.
Import ListNotations.
Open Scope Z_scope.

Definition str := list Z.

Fixpoint str_eqb (a b : str) : bool :=
  match a, b with
  | [], [] => true
  | x :: a', y :: b' => Z.eqb x y && str_eqb a' b'
  | _, _ => false
  end.

(* lexicographic byte order = Go's string < *)
Fixpoint str_ltb (a b : str) : bool :=
  match a, b with
  | [], [] => false
  | [], _ :: _ => true
  | _ :: _, [] => false
  | x :: a', y :: b' => if Z.ltb x y then true else if Z.ltb y x then false else str_ltb a' b'
  end.
Definition str_leb (a b : str) : bool := negb (str_ltb b a).

Fixpoint has_prefix (s p : str) : bool :=
  match p, s with
  | [], _ => true
  | y :: p', x :: s' => Z.eqb x y && has_prefix s' p'
  | _ :: _, [] => false
  end.

Definition has_suffix (s p : str) : bool := has_prefix (rev s) (rev p).

Definition lower_byte (c : Z) : Z := if (65 <=? c) && (c <=? 90) then c + 32 else c.
Definition upper_byte (c : Z) : Z := if (97 <=? c) && (c <=? 122) then c - 32 else c.
Definition lower_ascii (s : str) : str := map lower_byte s.
Definition upper_ascii (s : str) : str := map upper_byte s.
(* strings.EqualFold restricted to ASCII input *)
Definition equal_fold_ascii (a b : str) : bool := str_eqb (lower_ascii a) (lower_ascii b).
Definition is_ascii (s : str) : bool := forallb (fun c => (0 <=? c) && (c <? 128)) s.

(* strconv.Itoa for non-negative numbers: decimal digits, most significant first *)
Fixpoint digits_fuel (fuel : nat) (n : Z) (acc : str) : str :=
  match fuel with
  | O => acc
  | S f => let acc' := (48 + n mod 10) :: acc in
           if n <? 10 then acc' else digits_fuel f (n / 10) acc'
  end.
Definition decimal (n : Z) : str :=
  if n <? 0 then 45 :: digits_fuel (S (Z.to_nat (Z.log2 (- n)))) (- n) []
  else digits_fuel (S (Z.to_nat (Z.log2 n))) n [].

Definition str_in (s : str) (l : list str) : bool := existsb (str_eqb s) l.

(* string literals for models: "abc" as bytes *)
From Coq Require Import Strings.String Strings.Ascii.
Fixpoint of_string (s : string) : str :=
  match s with
  | EmptyString => []
  | String c r => Z.of_N (N_of_ascii c) :: of_string r
  end.
