(* Base/Sx.v -- the wire format between the Go harness and the (extracted) model:
   S-expressions over integers.  Decoders are ordinary total Coq functions. *)
From Coq Require Import ZArith List Bool.
From Verif Require Import Base.F64.
Import ListNotations.
Open Scope Z_scope.

Inductive sx := SZ (z : Z) | SL (l : list sx).

Definition dZ (s : sx) : option Z := match s with SZ z => Some z | _ => None end.
Definition dF (s : sx) : option f64 := match s with SZ z => Some (of_bits z) | _ => None end.
Definition dB (s : sx) : option bool := match s with SZ 0 => Some false | SZ 1 => Some true | _ => None end.
Definition dNat (s : sx) : option nat := match s with SZ z => if Z.leb 0 z then Some (Z.to_nat z) else None | _ => None end.

Fixpoint mapM {A B} (f : A -> option B) (l : list A) : option (list B) :=
  match l with
  | [] => Some []
  | x :: r => match f x, mapM f r with Some y, Some ys => Some (y :: ys) | _, _ => None end
  end.

Definition dL {A} (d : sx -> option A) (s : sx) : option (list A) :=
  match s with SL l => mapM d l | _ => None end.

Definition dStr (s : sx) : option (list Z) := dL dZ s.

Definition dP {A B} (da : sx -> option A) (db : sx -> option B) (s : sx) : option (A * B) :=
  match s with
  | SL [a; b] => match da a, db b with Some x, Some y => Some (x, y) | _, _ => None end
  | _ => None
  end.

Definition dT3 {A B C} (da : sx -> option A) (db : sx -> option B) (dc : sx -> option C) (s : sx) : option (A * B * C) :=
  match s with
  | SL [a; b; c] => match da a, db b, dc c with Some x, Some y, Some z => Some (x, y, z) | _, _, _ => None end
  | _ => None
  end.

Definition dOpt {A} (d : sx -> option A) (s : sx) : option (option A) :=
  match s with
  | SL [] => Some None
  | SL [a] => match d a with Some x => Some (Some x) | None => None end
  | _ => None
  end.

(* encoders (for printing model outputs in replays) *)
Definition eF (x : f64) : sx := SZ (to_bits x).
Definition eB (b : bool) : sx := SZ (if b then 1 else 0).
Definition eL {A} (e : A -> sx) (l : list A) : sx := SL (map e l).
Definition eStr (s : list Z) : sx := SL (map SZ s).
Definition eOpt {A} (e : A -> sx) (o : option A) : sx := match o with None => SL [] | Some x => SL [e x] end.

(* result codes of every check_case:
   0 ok; 1 implementation differs from the model (specification still satisfied);
   2 implementation violates the specification; 9 case could not be decoded (harness defect) *)
Definition code_ok : Z := 0.
Definition code_model_mismatch : Z := 1.
Definition code_spec_violation : Z := 2.
Definition code_decode_error : Z := 9.
