(* Base/F64.v -- IEEE-754 binary64 as used by Go's float64, on top of Flocq's
   BinarySingleNaN (a single NaN: Go comparisons and the exposition formats
   never observe NaN payloads).  Executable definitions first, lemmas after. *)
From Coq Require Import ZArith List Bool Lia Reals.
From Flocq Require Import Core.Core IEEE754.Binary IEEE754.Bits IEEE754.BinarySingleNaN.
Import ListNotations.
Open Scope Z_scope.

Definition f64 := BinarySingleNaN.binary_float 53 1024.

Lemma Hprec64 : (0 < 53)%Z. Proof. reflexivity. Qed.
Lemma Hmax64 : (53 < 1024)%Z. Proof. reflexivity. Qed.
Lemma Hprec_emax64 : Prec_lt_emax 53 1024. Proof. reflexivity. Qed.
Lemma Hprec_gt0_64 : Prec_gt_0 53. Proof. reflexivity. Qed.

(* ---------- bits ---------- *)
Definition of_bits (z : Z) : f64 := B2BSN 53 1024 (b64_of_bits z).

Definition go_nan_bits : Z := 0x7FF8000000000001.

Definition to_bits (x : f64) : Z :=
  match x with
  | B754_nan => go_nan_bits
  | B754_zero s => if s then 0x8000000000000000 else 0
  | B754_infinity s => if s then 0xFFF0000000000000 else 0x7FF0000000000000
  | B754_finite s m e _ =>
      (* same layout as Bits.bits_of_binary_float *)
      let sb := if s then 0x8000000000000000 else 0 in
      if Z.leb (2^52) (Zpos m)
      then sb + ((e + 1075) * 2^52) + (Zpos m - 2^52)   (* normal: biased exponent e+1023+52 *)
      else sb + Zpos m                                    (* subnormal, e = -1074 *)
  end.

(* ---------- constants ---------- *)
Definition pzero : f64 := B754_zero false.
Definition nzero : f64 := B754_zero true.
Definition pinf : f64 := B754_infinity false.
Definition ninf : f64 := B754_infinity true.
Definition fnan : f64 := B754_nan.
Definition fone : f64 := @Bone 53 1024 Hprec_gt0_64 Hprec_emax64.
Definition max_float : f64 := of_bits 0x7FEFFFFFFFFFFFFF.

(* ---------- arithmetic (round to nearest even, as Go) ---------- *)
Definition fadd (x y : f64) : f64 := @Bplus 53 1024 Hprec_gt0_64 Hprec_emax64 mode_NE x y.
Definition fsub (x y : f64) : f64 := @Bminus 53 1024 Hprec_gt0_64 Hprec_emax64 mode_NE x y.
Definition fmul (x y : f64) : f64 := @Bmult 53 1024 Hprec_gt0_64 Hprec_emax64 mode_NE x y.
Definition fdiv (x y : f64) : f64 := @Bdiv 53 1024 Hprec_gt0_64 Hprec_emax64 mode_NE x y.
Definition fneg (x : f64) : f64 := Bopp x.
Definition fabs (x : f64) : f64 := Babs x.

(* ---------- comparisons (Go semantics: NaN compares false, -0 = +0) ---------- *)
Definition fcmp (x y : f64) : option comparison := Bcompare x y.
Definition flt (x y : f64) : bool := match fcmp x y with Some Lt => true | _ => false end.
Definition fle (x y : f64) : bool := match fcmp x y with Some Lt | Some Eq => true | _ => false end.
Definition feq (x y : f64) : bool := match fcmp x y with Some Eq => true | _ => false end.
Definition fgt (x y : f64) : bool := flt y x.
Definition fge (x y : f64) : bool := fle y x.
Definition is_nan (x : f64) : bool := BinarySingleNaN.is_nan x.
Definition is_inf (x : f64) : bool := match x with B754_infinity _ => true | _ => false end.
Definition is_pinf (x : f64) : bool := match x with B754_infinity false => true | _ => false end.
Definition is_ninf (x : f64) : bool := match x with B754_infinity true => true | _ => false end.
Definition is_fin (x : f64) : bool := BinarySingleNaN.is_finite x.
Definition signbit (x : f64) : bool := match x with B754_nan => false | _ => Bsign x end.

(* ---------- frexp / ldexp / nextafter ---------- *)
(* Go's math.Frexp: for finite non-zero x returns frac in [1/2,1) and exp with x = frac*2^exp;
   for 0, Inf, NaN returns (x, 0). *)
Definition frexp (x : f64) : f64 * Z :=
  match x with
  | B754_finite _ _ _ _ => @Bfrexp 53 1024 Hprec_gt0_64 x
  | _ => (x, 0)
  end.
Definition ldexp (x : f64) (e : Z) : f64 := @Bldexp 53 1024 Hprec_gt0_64 Hprec_emax64 mode_NE x e.

Definition fsucc (x : f64) : f64 := @Bsucc 53 1024 Hprec_gt0_64 Hprec_emax64 x.
Definition fpred (x : f64) : f64 := @Bpred 53 1024 Hprec_gt0_64 Hprec_emax64 x.
(* math.Nextafter(x, +Inf) for non-NaN x (Go returns x when x == y) *)
Definition nextafter_up (x : f64) : f64 :=
  match x with
  | B754_nan => fnan
  | B754_infinity false => pinf
  | _ => fsucc x
  end.

(* ---------- integer conversions ---------- *)
(* uint64 -> float64 (round to nearest even). *)
Definition of_Z (z : Z) : f64 :=
  binary_normalize 53 1024 Hprec_gt0_64 Hprec_emax64 mode_NE z 0 false.
Definition of_N (n : N) : f64 := of_Z (Z.of_N n).

(* the integer value of a finite float when it is integral, else None *)
Definition to_Z_exact (x : f64) : option Z :=
  match x with
  | B754_zero _ => Some 0
  | B754_finite s m e _ =>
      let zm := if s then Z.neg m else Z.pos m in
      if Z.leb 0 e then Some (zm * 2 ^ e)
      else if Z.eqb (Z.pos m mod 2 ^ (- e)) 0 then Some (zm / 2 ^ (- e)) else None
  | _ => None
  end.

(* truncation toward zero of a finite float (math.Trunc as integer) *)
Definition trunc_Z (x : f64) : Z :=
  match x with
  | B754_finite s m e _ =>
      let q := if Z.leb 0 e then Z.pos m * 2 ^ e else Z.pos m / 2 ^ (- e) in
      if s then - q else q
  | _ => 0
  end.

(* Go: uint64(v) for float64 v on amd64; in range [0,2^64) truncation, otherwise 2^63. *)
Definition to_u64_amd64 (x : f64) : Z :=
  match x with
  | B754_zero _ => 0
  | B754_finite _ _ _ _ =>
      let t := trunc_Z x in
      if (Z.leb 0 t && Z.ltb t (2^64))%bool then t
      else if (Z.ltb (-(2^63)) t && Z.ltb t 0)%bool then (t + 2^64) (* negative in int64 range: wraps *)
      else 2^63
  | _ => 2^63
  end.

Definition fbits_eq (x y : f64) : bool := Z.eqb (to_bits x) (to_bits y).

(* a small decimal constructor for tests: m * 2^e exactly rounded *)
Definition of_ZE (m e : Z) : f64 :=
  binary_normalize 53 1024 Hprec_gt0_64 Hprec_emax64 mode_NE m e false.
