(* Model/TestUtil.v -- executable model of prometheus/testutil/testutil.go (C17) and of
   internal.NormalizeMetricFamilies (prometheus/internal/metric.go), plus the much simpler
   specification functions the property text demands.

   The text encoder and parser are github.com/prometheus/common/expfmt (external).  They are
   Section variables here: every function of the model takes them as arguments after End Section,
   and every theorem of Proofs/C17_proofs.v is universally quantified over them.

   The model transcribes the control flow of the Go code (loops as folds with the same
   accumulators, the same order of error checks, the same `metricNames != nil` tests); it does not
   say what the helpers "should" do.  That is the job of the spec_* functions at the end. *)
From Coq Require Import ZArith List Bool.
From Verif Require Import Base.F64 Base.Str.
Import ListNotations.
Open Scope Z_scope.

(* ---------------- dto.MetricFamily / dto.Metric, as far as testutil looks at them ---------------- *)
Inductive mtype := TCounter | TGauge | TSummary | TUntyped | THistogram.

Record metric := {
  m_labels : list (str * str);          (* Label: (name, value) in slice order *)
  m_ts : option Z;                      (* TimestampMs (nil / value) *)
  m_gauge : option f64;                 (* pb.Gauge   != nil, with GetValue() *)
  m_counter : option f64;               (* pb.Counter != nil, with GetValue() *)
  m_untyped : option f64;               (* pb.Untyped != nil, with GetValue() *)
  m_summary : option (Z * f64 * list (f64 * f64));   (* count, sum, (quantile, value) *)
  m_histogram : option (Z * f64 * list (f64 * Z))    (* count, sum, (upper bound, cumulative count) *)
}.

Record family := {
  f_name : str;                         (* GetName() *)
  f_help : option str;                  (* Help *string *)
  f_type : mtype;
  f_metrics : list metric
}.

Definition set_help (f : family) (h : option str) : family :=
  {| f_name := f_name f; f_help := h; f_type := f_type f; f_metrics := f_metrics f |}.
Definition set_metrics (f : family) (ms : list metric) : family :=
  {| f_name := f_name f; f_help := f_help f; f_type := f_type f; f_metrics := ms |}.

(* ---------------- internal/metric.go ---------------- *)

(* the `for n, lp := range s[i].Label` loop of MetricSorter.Less: Some b = returned b inside the loop *)
Fixpoint label_loop (li lj : list (str * str)) : option bool :=
  match li, lj with
  | (ni, vi) :: ri, (nj, vj) :: rj =>
      if negb (str_eqb ni nj) then Some (str_ltb ni nj)          (* label NAME first ... *)
      else if negb (str_eqb vi vj) then Some (str_ltb vi vj)     (* ... then the value *)
      else label_loop ri rj
  | _, _ => None
  end.

Definition metric_less (a b : metric) : bool :=
  if negb (Z.of_nat (length (m_labels a)) =? Z.of_nat (length (m_labels b)))
  then Z.of_nat (length (m_labels a)) <? Z.of_nat (length (m_labels b))
  else match label_loop (m_labels a) (m_labels b) with
       | Some r => r
       | None =>
           match m_ts a with
           | None => false
           | Some ta => match m_ts b with None => true | Some tb => ta <? tb end
           end
       end.

(* sort.Sort / sort.Strings: modelled by a stable insertion sort.  (Go's sort.Sort is not stable; the
   result is the same whenever no two elements compare equal, which holds for parsed text without
   duplicated sample lines.) *)
Fixpoint insert_by {A} (less : A -> A -> bool) (x : A) (l : list A) : list A :=
  match l with
  | [] => [x]
  | y :: r => if less y x then y :: insert_by less x r else x :: l
  end.
Definition sort_by {A} (less : A -> A -> bool) (l : list A) : list A := fold_right (insert_by less) [] l.

Definition is_nil {A} (l : list A) : bool := match l with [] => true | _ => false end.

(* NormalizeMetricFamilies(metricFamiliesByName map[string]*dto.MetricFamily): the map is an
   association list with distinct names, in any order *)
Definition normalize (by_name : list family) : list family :=
  let sorted := map (fun mf => set_metrics mf (sort_by metric_less (f_metrics mf))) by_name in
  let names := map f_name (filter (fun mf => negb (is_nil (f_metrics mf))) sorted) in
  let names := sort_by str_ltb names in
  flat_map (fun n => match find (fun mf => str_eqb (f_name mf) n) sorted with Some mf => [mf] | None => [] end) names.

(* ---------------- testutil.go ---------------- *)

(* filterMetrics: outer loop over metrics, inner loop over names with append + break *)
Fixpoint names_loop (n : str) (names : list str) : bool :=
  match names with
  | [] => false
  | x :: r => if str_eqb n x then true (* append; break *) else names_loop n r
  end.
Definition filter_metrics (metrics : list family) (names : list str) : list family :=
  fold_left (fun filtered m => if names_loop (f_name m) names then filtered ++ [m] else filtered) metrics [].

(* what the comparison helpers return *)
Inductive result :=
| RNil
| RDiff (got want : str)      (* errors.New(diff.Diff(got, want)), diff <> "" *)
| RErrRegister                (* "registering collector failed" *)
| RErrGather                  (* "gathering metrics failed" *)
| RErrParse                   (* "converting reader to metric families failed" *)
| RErrEncodeGot               (* "encoding gathered metrics failed" *)
| RErrEncodeWant              (* "encoding expected metrics failed" *)
| RErrScrape                  (* "scraping metrics failed" *)
| RErrStatus (code : Z).      (* "the scraping target returned a status code other than 200" *)

Inductive fresult := FVal (v : f64) | FPanicCount (n : Z) | FPanicWrite | FPanicType.
Inductive cresult := CVal (n : Z) | CErr | CPanic.
Inductive bresult := BVal (b : str) | BErrRegister | BErrGather | BErrEncode.

(* ToFloat64.  A collected prometheus.Metric is represented by what its Write produces:
   None = Write returns an error.  `for m = range mChan { mCount++ }` keeps the LAST metric. *)
Definition range_loop {A} (ch : list A) : option A * Z :=
  fold_left (fun st x => (Some x, snd st + 1)) ch (None, 0).

Definition to_float64 (collected : list (option metric)) : fresult :=
  let '(m, m_count) := range_loop collected in
  if negb (m_count =? 1) then FPanicCount m_count
  else match m with
       | None => FPanicCount m_count          (* not reachable: m_count = 1 *)
       | Some None => FPanicWrite
       | Some (Some pb) =>
           match m_gauge pb with
           | Some v => FVal v
           | None => match m_counter pb with
                     | Some v => FVal v
                     | None => match m_untyped pb with
                               | Some v => FVal v
                               | None => FPanicType
                               end
                     end
           end
       end.

(* a Gatherer's answer: (families, err != nil) *)
Definition gathered := (list family * bool)%type.

(* GatherAndCount *)
Definition gather_and_count (g : gathered) (names : option (list str)) : cresult :=
  let '(got, err) := g in
  if err then CErr
  else let got := match names with Some ns => filter_metrics got ns | None => got end in
       CVal (fold_left (fun result mf => result + Z.of_nat (length (f_metrics mf))) got 0).

(* CollectAndCount: reg_err = Register failed; g = what the pedantic registry gathers *)
Definition collect_and_count (reg_err : bool) (g : gathered) (names : option (list str)) : cresult :=
  if reg_err then CPanic
  else match gather_and_count g names with
       | CErr => CPanic
       | r => r
       end.

Section Expfmt.
  (* expfmt text encoder (NoEscaping) for one family: enc.Encode(mf); None = error *)
  Variable encode_family : family -> option str.
  (* expfmt encoder for an arbitrary format (CollectAndFormat) *)
  Variable encode_family_fmt : Z -> family -> option str.
  (* expfmt.TextParser.TextToMetricFamilies: None = error; Some = the map, as an association list *)
  Variable parse : str -> option (list family).

  (* the `for _, mf := range fs { enc.Encode(mf) }` loops, appending to a buffer *)
  Fixpoint encode_loop (enc : family -> option str) (fs : list family) (buf : str) : option str :=
    match fs with
    | [] => Some buf
    | mf :: r => match enc mf with None => None | Some t => encode_loop enc r (buf ++ t) end
    end.

  (* convertReaderToMetricFamily *)
  Definition fill_help (mf : family) : family :=
    match f_help mf with None => set_help mf (Some []) | Some _ => mf end.
  Definition convert (text : str) : option (list family) :=
    match parse text with
    | None => None
    | Some not_normalized => Some (normalize (map fill_help not_normalized))
    end.

  (* compare *)
  Definition compare (got want : list family) : result :=
    match encode_loop encode_family got [] with
    | None => RErrEncodeGot
    | Some got_buf =>
        match encode_loop encode_family want [] with
        | None => RErrEncodeWant
        | Some want_buf => if str_eqb got_buf want_buf then RNil else RDiff got_buf want_buf
        end
    end.

  (* compareMetricFamilies *)
  Definition compare_metric_families (got expected : list family) (names : option (list str)) : result :=
    match names with
    | Some ns => compare (filter_metrics got ns) (filter_metrics expected ns)
    | None => compare got expected
    end.

  (* TransactionalGatherAndCompare *)
  Definition transactional_gather_and_compare (g : gathered) (expected : str) (names : option (list str)) : result :=
    let '(got, err) := g in
    if err then RErrGather
    else match convert expected with
         | None => RErrParse
         | Some wanted => compare_metric_families got wanted names
         end.

  (* GatherAndCompare = TransactionalGatherAndCompare (ToTransactionalGatherer g) *)
  Definition gather_and_compare := transactional_gather_and_compare.

  (* CollectAndCompare *)
  Definition collect_and_compare (reg_err : bool) (g : gathered) (expected : str) (names : option (list str)) : result :=
    if reg_err then RErrRegister else gather_and_compare g expected names.

  (* ScrapeAndCompare: get_err = http.Get failed; status; body *)
  Definition scrape_and_compare (get_err : bool) (status : Z) (body expected : str) (names : option (list str)) : result :=
    if get_err then RErrScrape
    else if negb (status =? 200) then RErrStatus status
    else match convert body with
         | None => RErrParse
         | Some scraped =>
             match convert expected with
             | None => RErrParse
             | Some wanted => compare_metric_families scraped wanted names
             end
         end.

  (* CollectAndFormat: filterMetrics is called unconditionally; a nil metricNames is ranged over as
     an empty slice, so without names NO family survives *)
  Definition collect_and_format (format : Z) (reg_err : bool) (g : gathered) (names : option (list str)) : bresult :=
    if reg_err then BErrRegister
    else let '(got, err) := g in
         if err then BErrGather
         else let got_filtered := filter_metrics got (match names with Some ns => ns | None => [] end) in
              match encode_loop (encode_family_fmt format) got_filtered [] with
              | None => BErrEncode
              | Some b => BVal b
              end.
End Expfmt.

(* ======================= SPECIFICATION (what the property text demands) ======================= *)

(* "restricted to the given metric names when names are passed" *)
Definition spec_restrict (names : option (list str)) (fs : list family) : list family :=
  match names with
  | None => fs
  | Some ns => filter (fun f => str_in (f_name f) ns) fs
  end.

(* "the number of metrics (for the given names)" *)
Definition spec_count (names : option (list str)) (fs : list family) : Z :=
  Z.of_nat (length (flat_map f_metrics (spec_restrict names fs))).

(* "the value of the single collected Counter/Gauge/Untyped metric" *)
Inductive simple_value : metric -> f64 -> Prop :=
| SVGauge m v : m_gauge m = Some v -> m_counter m = None -> m_untyped m = None ->
                m_summary m = None -> m_histogram m = None -> simple_value m v
| SVCounter m v : m_counter m = Some v -> m_gauge m = None -> m_untyped m = None ->
                  m_summary m = None -> m_histogram m = None -> simple_value m v
| SVUntyped m v : m_untyped m = Some v -> m_gauge m = None -> m_counter m = None ->
                  m_summary m = None -> m_histogram m = None -> simple_value m v.
Definition not_simple (m : metric) : Prop := m_gauge m = None /\ m_counter m = None /\ m_untyped m = None.

(* "the encoding of the filtered families": concatenation of the per-family encodings, None if one fails *)
Fixpoint spec_encoding (enc : family -> option str) (fs : list family) : option str :=
  match fs with
  | [] => Some []
  | f :: r => match enc f, spec_encoding enc r with Some a, Some b => Some (a ++ b) | _, _ => None end
  end.

(* decision used by the correspondence runner: the helper returns nil iff the expected text parses
   and the (restricted) families it denotes are the gathered ones *)
Definition spec_expect_nil (parse_ok changed : bool) : bool := parse_ok && negb changed.

(* normalisation: sorted, pruned, helps filled *)
Fixpoint sorted_by {A} (less : A -> A -> bool) (l : list A) : bool :=
  match l with
  | [] => true
  | x :: r => match r with [] => true | y :: _ => negb (less y x) && sorted_by less r end
  end.
Definition spec_normalized (fs : list family) : bool :=
  sorted_by str_ltb (map f_name fs) &&
  forallb (fun f => negb (is_nil (f_metrics f)) && sorted_by metric_less (f_metrics f) &&
                    match f_help f with Some _ => true | None => false end) fs.
