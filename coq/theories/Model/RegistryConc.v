(* Model/RegistryConc.v -- lock-granularity machine of Registry.Register / Unregister / Gather
   (prometheus/registry.go:270-448): every critical section is one atomic step.
   Register: one section under the write lock. Unregister: a check under the read lock, then the deletion
   under the write lock (two sections: two racing Unregister calls may both report true - noted in DESIGN 9).
   Gather: snapshots the registered collectors under the read lock and collects them after releasing it.
   Collectors are identified by a number; descriptor-level rules are C08's. *)
From Coq Require Import ZArith List Bool Strings.String.
From Verif Require Import Base.Str Base.Conc.
Import ListNotations.
Open Scope Z_scope.

Definition lbl (s : string) : list Z := of_string s.
Arguments lbl s%string.

Inductive rop := RRegister (c : Z) | RUnregister (c : Z) | RGather.
Inductive rret := RBool (b : bool) | RSnapshot (cs : list Z).
Inductive rpc := pReg (c : Z) | pUnregCheck (c : Z) | pUnregDelete (c : Z) | pGather.

Definition mem (c : Z) (s : list Z) : bool := existsb (Z.eqb c) s.
Definition remove_all (c : Z) (s : list Z) : list Z := filter (fun x => negb (Z.eqb x c)) s.

Definition rstart (o : rop) : rpc + rret :=
  match o with RRegister c => inl (pReg c) | RUnregister c => inl (pUnregCheck c) | RGather => inl pGather end.

Definition rstep (s : list Z) (pc : rpc) : option (list Z * (rpc + rret)) :=
  match pc with
  | pReg c => if mem c s then Some (s, inr (RBool false)) else Some (c :: s, inr (RBool true))
  | pUnregCheck c => if mem c s then Some (s, inl (pUnregDelete c)) else Some (s, inr (RBool false))
  | pUnregDelete c => Some (remove_all c s, inr (RBool true))
  | pGather => Some (s, inr (RSnapshot s))
  end.

Definition rlabel (pc : rpc) : list Z :=
  match pc with
  | pReg _ => lbl "Lock;register;Unlock"
  | pUnregCheck _ => lbl "RLock;check;RUnlock"
  | pUnregDelete _ => lbl "Lock;delete;Unlock"
  | pGather => lbl "RLock;snapshot;RUnlock"
  end.

Definition reg_machine : machine := mkMachine (list Z) rpc rop rret rstart rstep rlabel.

(* ---- specification checker on observed histories (sound: it only demands what holds for every interleaving) ----
   event = (kind coll ok names inv res): kind 0 Register, 1 Unregister, 2 Gather (names = collectors seen). *)
Record revent := mkEv { e_kind : Z; e_coll : Z; e_ok : bool; e_names : list Z; e_inv : Z; e_res : Z; e_errs : Z }.

(* collector k stayed registered throughout gather g: some successful Register of k returned before g started and
   every Unregister of k either returned before that Register was invoked or was invoked after g returned *)
Definition stably_registered (h : list revent) (g : revent) (k : Z) : bool :=
  existsb (fun r => Z.eqb (e_kind r) 0 && Z.eqb (e_coll r) k && e_ok r && (e_res r <=? e_inv g) &&
                    forallb (fun u => negb (Z.eqb (e_kind u) 1 && Z.eqb (e_coll u) k) ||
                                      (e_res u <=? e_inv r) || (e_res g <=? e_inv u)) h) h.

Definition may_be_registered (h : list revent) (g : revent) (k : Z) : bool :=
  existsb (fun r => Z.eqb (e_kind r) 0 && Z.eqb (e_coll r) k && (e_inv r <? e_res g)) h.

Definition gather_check (ncoll : Z) (h : list revent) : bool :=
  forallb (fun g =>
    negb (Z.eqb (e_kind g) 2) ||
    (Z.eqb (e_errs g) 0 &&
     forallb (fun k => (negb (stably_registered h g k) || mem k (e_names g)) &&
                       (negb (mem k (e_names g)) || may_be_registered h g k))
             (map Z.of_nat (seq 0 (Z.to_nat ncoll))))) h.
