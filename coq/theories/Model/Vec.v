(* Model/Vec.v -- metric vectors (prometheus/vec.go, labels.go:126-184, fnv.go).
   Part 1: helpers (utf8.ValidString, association lists).
   Part 2: MODEL, a transcription of the Go control flow (Section Vec): hash buckets
           map[uint64][]metricWithLabelValues, curried views, validation order, error enum.
   Part 3: SPECIFICATION, a plain association map from the FULL label-value tuple to the child
           id (Section Spec) and boolean checkers.
   Part 4: the lock-granularity machine for concurrent callers.
   Part 5: instances (production FNV-1a hash, planted hashes, constraint functions).
   Executable definitions only; proofs are in Proofs/C07_proofs.v. *)
From Coq Require Import ZArith List Bool Arith.
From Verif Require Import Base.Str Gen.Gen_Consts.
Import ListNotations.
Open Scope Z_scope.

(* ------------------------------------------------------------------------------------------ *)
(* Part 1: helpers                                                                             *)
(* ------------------------------------------------------------------------------------------ *)

Definition in_rng (lo hi b : Z) : bool := (lo <=? b) && (b <=? hi).
Definition cont_byte (b : Z) : bool := in_rng 128 191 b.

(* unicode/utf8.ValidString: RFC 3629 (no overlong forms, no surrogates, at most U+10FFFF) *)
Fixpoint utf8_valid (s : str) : bool :=
  match s with
  | [] => true
  | b0 :: r =>
    if in_rng 0 127 b0 then utf8_valid r
    else if in_rng 194 223 b0 then
      match r with
      | b1 :: r1 => cont_byte b1 && utf8_valid r1
      | _ => false
      end
    else if in_rng 224 239 b0 then
      match r with
      | b1 :: b2 :: r2 =>
          (if b0 =? 224 then in_rng 160 191 b1 else if b0 =? 237 then in_rng 128 159 b1 else cont_byte b1)
          && cont_byte b2 && utf8_valid r2
      | _ => false
      end
    else if in_rng 240 244 b0 then
      match r with
      | b1 :: b2 :: b3 :: r3 =>
          (if b0 =? 240 then in_rng 144 191 b1 else if b0 =? 244 then in_rng 128 143 b1 else cont_byte b1)
          && cont_byte b2 && cont_byte b3 && utf8_valid r3
      | _ => false
      end
    else false
  end.

Definition values := list str.                 (* label values in label order *)
Definition curry := list (nat * str).          (* []curriedLabelValue{index, value}, ascending index *)
Definition lbls := list (str * str).           (* prometheus.Labels: a Go map, keys pairwise distinct *)
Definition entry := (values * nat)%type.       (* metricWithLabelValues{values, metric}; metric = creation index *)

Fixpoint vals_eqb (a b : values) : bool :=
  match a, b with
  | [], [] => true
  | x :: a', y :: b' => str_eqb x y && vals_eqb a' b'
  | _, _ => false
  end.

(* labels[name] with the comma-ok form *)
Fixpoint lget (k : str) (l : lbls) : option str :=
  match l with
  | [] => None
  | (k', v) :: r => if str_eqb k' k then Some v else lget k r
  end.

Fixpoint cget (i : nat) (c : curry) : option str :=
  match c with
  | [] => None
  | (j, v) :: r => if Nat.eqb j i then Some v else cget i r
  end.

(* lookup of a tuple in an association list of children *)
Fixpoint alookup (t : values) (l : list entry) : option nat :=
  match l with
  | [] => None
  | (v, id) :: r => if vals_eqb v t then Some id else alookup t r
  end.

(* indexOf (vec.go:463-470) *)
Fixpoint index_of (target : str) (items : list str) : option nat :=
  match items with
  | [] => None
  | l :: r => if str_eqb l target then Some O
              else match index_of target r with Some i => Some (S i) | None => None end
  end.

(* compiledLabels.constrain (labels.go:126-131); cstr = the labelConstraints map *)
Fixpoint cstr_get (n : str) (cstr : list (str * (str -> str))) : option (str -> str) :=
  match cstr with
  | [] => None
  | (k, f) :: r => if str_eqb k n then Some f else cstr_get n r
  end.
Definition constrain (cstr : list (str * (str -> str))) (n v : str) : str :=
  match cstr_get n cstr with Some f => f v | None => v end.

(* error enum shared with the Go driver *)
Definition e_arity : Z := 1.     (* errInconsistentCardinality *)
Definition e_utf8 : Z := 2.      (* "... is not valid UTF-8" *)
Definition e_curried : Z := 3.   (* "label name %q is already curried" *)
Definition e_missing : Z := 4.   (* "label name %q missing in label map" *)
Definition e_panic : Z := 5.     (* runtime panic (index out of range) *)
Definition e_unknown : Z := 6.   (* "%d unknown label(s) found during currying" *)

Inductive result :=
| RId (id : nat)                      (* child returned; id = index of creation *)
| RErr (e : Z) (panicked : bool)      (* error returned (panicked=false) or panic raised (With*, Must*, runtime) *)
| RBool (b : bool)                    (* Delete / DeleteLabelValues *)
| RNum (n : Z)                        (* DeletePartialMatch *)
| RUnit                               (* Reset *)
| RColl (l : list entry)              (* Collect: children sorted by id *)
| RView.                              (* CurryWith succeeded: a new view *)

Inductive op :=
| OGetLV (v : nat) (must : bool) (lvs : list str)   (* GetMetricWithLabelValues / WithLabelValues *)
| OGetL (v : nat) (must : bool) (ls : lbls)         (* GetMetricWith / With *)
| OCurry (v : nat) (must : bool) (ls : lbls)        (* CurryWith / MustCurryWith *)
| ODelLV (v : nat) (lvs : list str)                 (* DeleteLabelValues *)
| ODelL (v : nat) (ls : lbls)                       (* Delete *)
| ODelPartial (v : nat) (ls : lbls)                 (* DeletePartialMatch *)
| OReset (v : nat)                                  (* Reset *)
| OCollect (v : nat).                               (* Collect *)

(* insertion sort of children by id (canonical order of Collect output) *)
Fixpoint ins_by_id (e : entry) (l : list entry) : list entry :=
  match l with
  | [] => [e]
  | x :: r => if Nat.leb (snd e) (snd x) then e :: l else x :: ins_by_id e r
  end.
Fixpoint sort_by_id (l : list entry) : list entry :=
  match l with [] => [] | e :: r => ins_by_id e (sort_by_id r) end.

(* ------------------------------------------------------------------------------------------ *)
(* Part 2: the model                                                                           *)
(* ------------------------------------------------------------------------------------------ *)

Record mstate := mkM {
  mm : list (Z * list entry);    (* metricMap.metrics: hash -> bucket *)
  next : nat                     (* number of children created so far (newMetric calls) *)
}.

Definition entries (m : list (Z * list entry)) : list entry := concat (map snd m).

(* the loop idiom `if iCurry < len(curry) && curry[iCurry].index == i`: c is curry[iCurry:] *)
Definition curry_head (i : nat) (c : curry) : option str * curry :=
  match c with
  | (j, v) :: c' => if Nat.eqb j i then (Some v, c') else (None, c)
  | [] => (None, c)
  end.

Section Vec.
Variable H0 : Z.                         (* hashNew() *)
Variable hadd : Z -> str -> Z.           (* MetricVec.hashAdd (replaceable field) *)
Variable haddb : Z -> Z -> Z.            (* MetricVec.hashAddByte (replaceable field) *)
Variable names : list str.               (* desc.variableLabels.names *)
Variable cstr : list (str * (str -> str)).  (* desc.variableLabels.labelConstraints *)

Definition sep : Z := 255.               (* model.SeparatorByte *)

(* the hash of a FULL tuple: fold of hashAdd / hashAddByte(sep) over the values in label order *)
Definition Hfold (vals : values) : Z := fold_left (fun h v => haddb (hadd h v) sep) vals H0.

Definition no_constraints : bool := match cstr with [] => true | _ => false end.

(* constrainLabels (vec.go:684-701) *)
Definition constrain_labels (ls : lbls) : lbls :=
  if no_constraints then ls else map (fun kv => (fst kv, constrain cstr (fst kv) (snd kv))) ls.

(* constrainLabelValues (vec.go:701-733); n = iterations left, nm = names[i:], rest = lvs[iLVs:].
   None = index out of range (lvs[iLVs] with iLVs = len(lvs)).  Slots of the result that the loop
   never writes keep the zero value "". *)
Fixpoint constrain_lvs_loop (n i : nat) (nm : list str) (c : curry) (rest : list str) : option (list str) :=
  match n with
  | O => Some (map (fun _ => []) rest)
  | S n' =>
    match curry_head i c with
    | (Some _, c') => constrain_lvs_loop n' (S i) (tl nm) c' rest
    | (None, _) =>
      match rest with
      | [] => None
      | x :: rest' =>
        let y := match nm with n0 :: _ => constrain cstr n0 x | [] => x end in
        match constrain_lvs_loop n' (S i) (tl nm) c rest' with
        | Some r => Some (y :: r)
        | None => None
        end
      end
    end
  end.
Definition constrain_lvs (c : curry) (lvs : list str) : option (list str) :=
  if no_constraints then Some lvs
  else if negb (Nat.eqb (length lvs + length c) (length names)) then Some lvs   (* wrong number: left alone *)
  else constrain_lvs_loop (length lvs + length c) 0 names c lvs.

(* expected number of values: len(names) - len(curry) *)
Definition expected (c : curry) : Z := Z.of_nat (length names) - Z.of_nat (length c).

(* validateLabelValues (labels.go:166-184) *)
Definition validate_lvs (vals : list str) (c : curry) : option Z :=
  if negb (Z.of_nat (length vals) =? expected c) then Some e_arity
  else if negb (forallb utf8_valid vals) then Some e_utf8 else None.

(* validateValuesInLabels (labels.go:148-164) *)
Definition validate_labels (ls : lbls) (c : curry) : option Z :=
  if negb (Z.of_nat (length ls) =? expected c) then Some e_arity
  else if negb (forallb (fun kv => utf8_valid (snd kv)) ls) then Some e_utf8 else None.

(* hashLabelValues (vec.go:254-275) *)
Fixpoint hash_lvs_loop (i : nat) (nm : list str) (c : curry) (vals : list str) (h : Z) : Z + Z :=
  match nm with
  | [] => inr h
  | _ :: nm' =>
    match curry_head i c with
    | (Some v, c') => hash_lvs_loop (S i) nm' c' vals (haddb (hadd h v) sep)
    | (None, _) =>
      match vals with
      | x :: vals' => hash_lvs_loop (S i) nm' c vals' (haddb (hadd h x) sep)
      | [] => inl e_panic
      end
    end
  end.
Definition hash_lvs (c : curry) (vals : list str) : Z + Z :=
  match validate_lvs vals c with
  | Some e => inl e
  | None => hash_lvs_loop 0 names c vals H0
  end.

(* hashLabels (vec.go:277-304) *)
Fixpoint hash_labels_loop (i : nat) (nm : list str) (c : curry) (ls : lbls) (h : Z) : Z + Z :=
  match nm with
  | [] => inr h
  | n :: nm' =>
    match curry_head i c with
    | (Some v, c') =>
      match lget n ls with
      | Some _ => inl e_curried
      | None => hash_labels_loop (S i) nm' c' ls (haddb (hadd h v) sep)
      end
    | (None, _) =>
      match lget n ls with
      | None => inl e_missing
      | Some x => hash_labels_loop (S i) nm' c ls (haddb (hadd h x) sep)
      end
    end
  end.
Definition hash_labels (c : curry) (ls : lbls) : Z + Z :=
  match validate_labels ls c with
  | Some e => inl e
  | None => hash_labels_loop 0 names c ls H0
  end.

(* matchLabelValues (vec.go:608-627).  lvs[iLVs] out of range cannot happen after the length check
   when the curried indices are below len(values); the model answers false there. *)
Fixpoint match_lvs_loop (i : nat) (vals : values) (c : curry) (lvs : list str) : bool :=
  match vals with
  | [] => true
  | v :: vals' =>
    match curry_head i c with
    | (Some cv, c') => if str_eqb v cv then match_lvs_loop (S i) vals' c' lvs else false
    | (None, _) =>
      match lvs with
      | x :: lvs' => if str_eqb v x then match_lvs_loop (S i) vals' c lvs' else false
      | [] => false
      end
    end
  end.
Definition match_lvs (vals : values) (lvs : list str) (c : curry) : bool :=
  if negb (Nat.eqb (length vals) (length lvs + length c)) then false
  else match_lvs_loop 0 vals c lvs.

Definition lget0 (k : str) (ls : lbls) : str := match lget k ls with Some x => x | None => [] end.

(* matchLabels (vec.go:629-647); values[i] is read in step with names[i] *)
Fixpoint match_labels_loop (i : nat) (nm : list str) (vals : values) (c : curry) (ls : lbls) : bool :=
  match nm with
  | [] => true
  | k :: nm' =>
    match vals with
    | [] => false
    | v :: vals' =>
      match curry_head i c with
      | (Some cv, c') => if str_eqb v cv then match_labels_loop (S i) nm' vals' c' ls else false
      | (None, _) => if str_eqb v (lget0 k ls) then match_labels_loop (S i) nm' vals' c ls else false
      end
    end
  end.
Definition match_labels (vals : values) (ls : lbls) (c : curry) : bool :=
  if negb (Nat.eqb (length vals) (length ls + length c)) then false
  else match_labels_loop 0 names vals c ls.

(* valueMatchesVariableOrCurriedValue + matchPartialLabels (vec.go:472-502) *)
Definition match_partial (vals : values) (ls : lbls) (c : curry) : bool :=
  forallb (fun kv =>
    match index_of (fst kv) names with
    | Some idx =>
      match cget idx c with
      | Some cv => false                                   (* curried: matches && !curried is false *)
      | None => str_eqb (nth idx vals []) (snd kv)
      end
    | None => false
    end) ls.

(* extractLabelValues (vec.go:649-661) *)
Fixpoint extract_loop (i : nat) (nm : list str) (c : curry) (ls : lbls) : values :=
  match nm with
  | [] => []
  | k :: nm' =>
    match curry_head i c with
    | (Some cv, c') => cv :: extract_loop (S i) nm' c' ls
    | (None, _) => lget0 k ls :: extract_loop (S i) nm' c ls
    end
  end.
Definition extract_lvs (ls : lbls) (c : curry) : values := extract_loop 0 names c ls.

(* inlineLabelValues (vec.go:663-676); n = len(lvs)+len(curry) - i *)
Fixpoint inline_loop (n i : nat) (c : curry) (lvs : list str) : values :=
  match n with
  | O => []
  | S n' =>
    match curry_head i c with
    | (Some cv, c') => cv :: inline_loop n' (S i) c' lvs
    | (None, _) =>
      match lvs with
      | x :: lvs' => x :: inline_loop n' (S i) c lvs'
      | [] => [] :: inline_loop n' (S i) c []
      end
    end
  end.
Definition inline_lvs (lvs : list str) (c : curry) : values := inline_loop (length lvs + length c) 0 c lvs.

(* ---- the bucket map ---- *)
Fixpoint bucket_get (h : Z) (m : list (Z * list entry)) : option (list entry) :=
  match m with
  | [] => None
  | (k, b) :: r => if Z.eqb k h then Some b else bucket_get h r
  end.

(* m.metrics[h] = b *)
Fixpoint bucket_set (h : Z) (b : list entry) (m : list (Z * list entry)) : list (Z * list entry) :=
  match m with
  | [] => [(h, b)]
  | (k, b0) :: r => if Z.eqb k h then (k, b) :: r else (k, b0) :: bucket_set h b r
  end.

(* delete(m.metrics, h) *)
Fixpoint bucket_del (h : Z) (m : list (Z * list entry)) : list (Z * list entry) :=
  match m with
  | [] => []
  | (k, b0) :: r => if Z.eqb k h then r else (k, b0) :: bucket_del h r
  end.

(* find*: index of the first matching metric or len(metrics) *)
Fixpoint find_idx (p : values -> bool) (b : list entry) : nat :=
  match b with
  | [] => O
  | e :: r => if p (fst e) then O else S (find_idx p r)
  end.

(* getMetricWithHashAnd* (vec.go:556-580) *)
Definition probe (h : Z) (p : values -> bool) (st : mstate) : option nat :=
  match bucket_get h (mm st) with
  | Some b => let i := find_idx p b in
              if Nat.ltb i (length b) then option_map snd (nth_error b i) else None
  | None => None
  end.

(* the write-locked section of getOrCreateMetricWith* (vec.go:518-526, 543-551) *)
Definition sec_create (h : Z) (p : values -> bool) (newvals : values) (st : mstate) : nat * mstate :=
  match probe h p st with
  | Some id => (id, st)
  | None =>
    let id := next st in
    let b := match bucket_get h (mm st) with Some b => b | None => [] end in
    (id, mkM (bucket_set h (b ++ [(newvals, id)]) (mm st)) (S id))
  end.

(* getOrCreateMetricWith*: read-locked probe, then write-locked re-check and create (sequential net effect) *)
Definition get_or_create (h : Z) (p : values -> bool) (newvals : values) (st : mstate) : nat * mstate :=
  match probe h p st with
  | Some id => (id, st)
  | None => sec_create h p newvals st
  end.

(* deleteByHashWith* (vec.go:359-411) *)
Definition delete_by_hash (h : Z) (p : values -> bool) (st : mstate) : bool * mstate :=
  match bucket_get h (mm st) with
  | None => (false, st)
  | Some b =>
    let i := find_idx p b in
    if negb (Nat.ltb i (length b)) then (false, st)
    else if Nat.ltb 1 (length b)
         then (true, mkM (bucket_set h (firstn i b ++ skipn (S i) b) (mm st)) (next st))
         else (true, mkM (bucket_del h (mm st)) (next st))
  end.

(* deleteByLabels (vec.go:414-446): every bucket is visited once *)
Fixpoint delete_partial_loop (p : values -> bool) (m : list (Z * list entry)) : Z * list (Z * list entry) :=
  match m with
  | [] => (0, [])
  | (h, b) :: r =>
    let '(n, r') := delete_partial_loop p r in
    let i := find_idx p b in
    if negb (Nat.ltb i (length b)) then (n, (h, b) :: r')
    else
      let rest := skipn (S i) b in
      let kept := firstn i b ++ filter (fun e => negb (p (fst e))) rest in
      let nd := 1 + Z.of_nat (length (filter (fun e => p (fst e)) rest)) in
      match kept with
      | [] => (n + nd, r')
      | _ => (n + nd, (h, kept) :: r')
      end
  end.
Definition delete_partial (p : values -> bool) (st : mstate) : Z * mstate :=
  let '(n, m') := delete_partial_loop p (mm st) in (n, mkM m' (next st)).

(* CurryWith (vec.go:149-187) *)
Fixpoint curry_loop (i : nat) (nm : list str) (old : curry) (ls : lbls) : Z + curry :=
  match nm with
  | [] => inr []
  | n :: nm' =>
    match curry_head i old with
    | (Some v, old') =>
      match lget n ls with
      | Some _ => inl e_curried
      | None => match curry_loop (S i) nm' old' ls with inr r => inr ((i, v) :: r) | inl e => inl e end
      end
    | (None, _) =>
      match lget n ls with
      | None => curry_loop (S i) nm' old ls
      | Some val =>
        let val' := constrain cstr n val in
        if negb (utf8_valid val') then inl e_utf8
        else match curry_loop (S i) nm' old ls with
             | inr r => inr ((i, val') :: r)
             | inl e => inl e
             end
      end
    end
  end.
Definition curry_with (old : curry) (ls : lbls) : Z + curry :=
  match curry_loop 0 names old ls with
  | inl e => inl e
  | inr new =>
    if 0 <? Z.of_nat (length old) + Z.of_nat (length ls) - Z.of_nat (length new) then inl e_unknown
    else inr new
  end.

(* ---- the public methods on a view with curry c ---- *)
Definition mk_err (e : Z) (must : bool) : result := RErr e (must || (e =? e_panic)).

Definition get_lvs (c : curry) (must : bool) (lvs : list str) (st : mstate) : result * mstate :=
  match constrain_lvs c lvs with
  | None => (RErr e_panic true, st)
  | Some lvs' =>
    match hash_lvs c lvs' with
    | inl e => (mk_err e must, st)
    | inr h =>
      let '(id, st') := get_or_create h (fun vals => match_lvs vals lvs' c) (inline_lvs lvs' c) st in
      (RId id, st')
    end
  end.

Definition get_labels (c : curry) (must : bool) (ls : lbls) (st : mstate) : result * mstate :=
  let ls' := constrain_labels ls in
  match hash_labels c ls' with
  | inl e => (mk_err e must, st)
  | inr h =>
    let '(id, st') := get_or_create h (fun vals => match_labels vals ls' c) (extract_lvs ls' c) st in
    (RId id, st')
  end.

Definition del_lvs (c : curry) (lvs : list str) (st : mstate) : result * mstate :=
  match constrain_lvs c lvs with
  | None => (RErr e_panic true, st)
  | Some lvs' =>
    match hash_lvs c lvs' with
    | inl e => if e =? e_panic then (RErr e_panic true, st) else (RBool false, st)
    | inr h => let '(b, st') := delete_by_hash h (fun vals => match_lvs vals lvs' c) st in (RBool b, st')
    end
  end.

Definition del_labels (c : curry) (ls : lbls) (st : mstate) : result * mstate :=
  let ls' := constrain_labels ls in
  match hash_labels c ls' with
  | inl e => (RBool false, st)
  | inr h => let '(b, st') := delete_by_hash h (fun vals => match_labels vals ls' c) st in (RBool b, st')
  end.

Definition del_partial (c : curry) (ls : lbls) (st : mstate) : result * mstate :=
  let ls' := constrain_labels ls in
  let '(n, st') := delete_partial (fun vals => match_partial vals ls' c) st in (RNum n, st').

Definition reset (st : mstate) : mstate := mkM [] (next st).

Definition collect (st : mstate) : list entry := sort_by_id (entries (mm st)).

(* ---- a vector together with the views derived from it so far (view 0 = the base vector) ---- *)
Record world := mkW { w_st : mstate; w_views : list curry }.
Definition view_of (views : list curry) (v : nat) : curry := nth v views [].
Definition init_world : world := mkW (mkM [] 0) [[]].

Definition step (w : world) (o : op) : result * world :=
  match o with
  | OGetLV v must lvs =>
      let '(r, st') := get_lvs (view_of (w_views w) v) must lvs (w_st w) in (r, mkW st' (w_views w))
  | OGetL v must ls =>
      let '(r, st') := get_labels (view_of (w_views w) v) must ls (w_st w) in (r, mkW st' (w_views w))
  | OCurry v must ls =>
      match curry_with (view_of (w_views w) v) ls with
      | inl e => (mk_err e must, w)
      | inr c => (RView, mkW (w_st w) (w_views w ++ [c]))
      end
  | ODelLV v lvs =>
      let '(r, st') := del_lvs (view_of (w_views w) v) lvs (w_st w) in (r, mkW st' (w_views w))
  | ODelL v ls =>
      let '(r, st') := del_labels (view_of (w_views w) v) ls (w_st w) in (r, mkW st' (w_views w))
  | ODelPartial v ls =>
      let '(r, st') := del_partial (view_of (w_views w) v) ls (w_st w) in (r, mkW st' (w_views w))
  | OReset _ => (RUnit, mkW (reset (w_st w)) (w_views w))
  | OCollect _ => (RColl (collect (w_st w)), w)
  end.

Fixpoint run (w : world) (ops : list op) : list result * world :=
  match ops with
  | [] => ([], w)
  | o :: r => let '(x, w') := step w o in let '(xs, w'') := run w' r in (x :: xs, w'')
  end.

End Vec.

(* ------------------------------------------------------------------------------------------ *)
(* Part 3: the specification -- a plain map from the full label-value tuple to the child       *)
(* ------------------------------------------------------------------------------------------ *)

Record sworld := mkS {
  s_map : list entry;        (* full tuple -> child id, keys pairwise distinct *)
  s_next : nat;              (* ids handed out so far *)
  s_views : list curry
}.

Inductive sres :=
| SId (id : nat) | SFail | SBool (b : bool) | SNum (n : Z) | SUnit | SColl (l : list entry) | SView.

Section Spec.
Variable names : list str.
Variable cstr : list (str * (str -> str)).

(* full tuple of a request by ordered values: walk the label names; a curried position takes the
   curried value, any other position consumes the next given value (normalised by the label's
   constraint); every given value must be consumed *)
Fixpoint stuple_lv (i : nat) (nm : list str) (c : curry) (lvs : list str) : option values :=
  match nm with
  | [] => match lvs with [] => Some [] | _ => None end
  | n :: nm' =>
    match cget i c with
    | Some v => option_map (cons v) (stuple_lv (S i) nm' c lvs)
    | None =>
      match lvs with
      | [] => None
      | x :: lvs' => option_map (cons (constrain cstr n x)) (stuple_lv (S i) nm' c lvs')
      end
    end
  end.

(* full tuple of a request by label map: every non-curried name present, no curried name present *)
Fixpoint stuple_l (i : nat) (nm : list str) (c : curry) (ls : lbls) : option values :=
  match nm with
  | [] => Some []
  | n :: nm' =>
    match cget i c, lget n ls with
    | Some v, None => option_map (cons v) (stuple_l (S i) nm' c ls)
    | None, Some x => option_map (cons (constrain cstr n x)) (stuple_l (S i) nm' c ls)
    | _, _ => None
    end
  end.

Definition valid_tuple (o : option values) : option values :=
  match o with Some t => if forallb utf8_valid t then Some t else None | None => None end.

(* None = malformed request *)
Definition req_lv (c : curry) (lvs : list str) : option values := valid_tuple (stuple_lv 0 names c lvs).
Definition req_l (c : curry) (ls : lbls) : option values :=
  if forallb (fun kv => str_in (fst kv) names) ls then valid_tuple (stuple_l 0 names c ls) else None.

(* children selected by a partial match: every given pair names a non-curried label whose value
   in the tuple equals the (normalised) given value *)
Definition sel_partial (c : curry) (ls : lbls) (t : values) : bool :=
  forallb (fun kv =>
    match index_of (fst kv) names with
    | Some i => match cget i c with
                | Some _ => false
                | None => str_eqb (nth i t []) (constrain cstr (fst kv) (snd kv))
                end
    | None => false
    end) ls.

(* currying: every given name is a known, not yet curried label and every normalised value is
   valid UTF-8; the new view binds the old and the new labels *)
Definition curry_ok (c : curry) (ls : lbls) : bool :=
  forallb (fun kv =>
    match index_of (fst kv) names with
    | Some i => (match cget i c with Some _ => false | None => true end)
                && utf8_valid (constrain cstr (fst kv) (snd kv))
    | None => false
    end) ls.
Fixpoint curry_build (i : nat) (nm : list str) (c : curry) (ls : lbls) : curry :=
  match nm with
  | [] => []
  | n :: nm' =>
    match cget i c with
    | Some v => (i, v) :: curry_build (S i) nm' c ls
    | None => match lget n ls with
              | Some x => (i, constrain cstr n x) :: curry_build (S i) nm' c ls
              | None => curry_build (S i) nm' c ls
              end
    end
  end.

Definition s_get (t : values) (s : sworld) : sres * sworld :=
  match alookup t (s_map s) with
  | Some id => (SId id, s)
  | None => (SId (s_next s), mkS (s_map s ++ [(t, s_next s)]) (S (s_next s)) (s_views s))
  end.

Definition s_remove (t : values) (l : list entry) : list entry := filter (fun e => negb (vals_eqb (fst e) t)) l.

Definition s_del (t : values) (s : sworld) : sres * sworld :=
  match alookup t (s_map s) with
  | Some _ => (SBool true, mkS (s_remove t (s_map s)) (s_next s) (s_views s))
  | None => (SBool false, s)
  end.

Definition sstep (s : sworld) (o : op) : sres * sworld :=
  match o with
  | OGetLV v _ lvs =>
      match req_lv (view_of (s_views s) v) lvs with Some t => s_get t s | None => (SFail, s) end
  | OGetL v _ ls =>
      match req_l (view_of (s_views s) v) ls with Some t => s_get t s | None => (SFail, s) end
  | OCurry v _ ls =>
      let c := view_of (s_views s) v in
      if curry_ok c ls then (SView, mkS (s_map s) (s_next s) (s_views s ++ [curry_build 0 names c ls]))
      else (SFail, s)
  | ODelLV v lvs =>
      match req_lv (view_of (s_views s) v) lvs with Some t => s_del t s | None => (SBool false, s) end
  | ODelL v ls =>
      match req_l (view_of (s_views s) v) ls with Some t => s_del t s | None => (SBool false, s) end
  | ODelPartial v ls =>
      let sel := fun e : entry => sel_partial (view_of (s_views s) v) ls (fst e) in
      (SNum (Z.of_nat (length (filter sel (s_map s)))),
       mkS (filter (fun e => negb (sel e)) (s_map s)) (s_next s) (s_views s))
  | OReset _ => (SUnit, mkS [] (s_next s) (s_views s))
  | OCollect _ => (SColl (s_map s), s)
  end.

End Spec.

Definition init_sworld : sworld := mkS [] 0 [[]].

Definition entry_eqb (a b : entry) : bool := vals_eqb (fst a) (fst b) && Nat.eqb (snd a) (snd b).
Definition entry_in (e : entry) (l : list entry) : bool := existsb (entry_eqb e) l.
Fixpoint entries_eqb (a b : list entry) : bool :=
  match a, b with
  | [], [] => true
  | x :: a', y :: b' => entry_eqb x y && entries_eqb a' b'
  | _, _ => false
  end.
Fixpoint nodup_keys (l : list entry) : bool :=
  match l with
  | [] => true
  | e :: r => negb (existsb (fun x => vals_eqb (fst x) (fst e)) r) && nodup_keys r
  end.

(* the collected children are exactly the map's pairs, none twice *)
Definition coll_ok (a l : list entry) : bool :=
  forallb (fun e => entry_in e a) l && forallb (fun e => entry_in e l) a && nodup_keys l.

Definition op_must (o : op) : bool :=
  match o with OGetLV _ m _ | OGetL _ m _ | OCurry _ m _ => m | _ => false end.

(* does an observed result satisfy what the specification prescribes for op o? *)
Definition res_ok (o : op) (s : sres) (r : result) : bool :=
  match s, r with
  | SId a, RId b => Nat.eqb a b
  | SFail, RErr e p => negb (e =? e_panic) && Bool.eqb p (op_must o)   (* an error, not a crash *)
  | SBool a, RBool b => Bool.eqb a b
  | SNum a, RNum b => a =? b
  | SUnit, RUnit => true
  | SColl a, RColl l => coll_ok a l
  | SView, RView => true
  | _, _ => false
  end.

Section SpecOk.
Variable names : list str.
Variable cstr : list (str * (str -> str)).
Fixpoint spec_ok (s : sworld) (ops : list op) (rs : list result) : bool :=
  match ops, rs with
  | [], [] => true
  | o :: ops', r :: rs' =>
      let '(x, s') := sstep names cstr s o in res_ok o x r && spec_ok s' ops' rs'
  | _, _ => false
  end.
Fixpoint spec_run (s : sworld) (ops : list op) : list sres * sworld :=
  match ops with
  | [] => ([], s)
  | o :: r => let '(x, s') := sstep names cstr s o in let '(xs, s'') := spec_run s' r in (x :: xs, s'')
  end.
End SpecOk.

(* ------------------------------------------------------------------------------------------ *)
(* Part 4: concurrent callers at lock granularity                                              *)
(* Validation, constraining and hashing touch no shared state, so a request reaches the        *)
(* metricMap as a full tuple t.  A lookup is TWO critical sections (RLock probe; Lock re-check  *)
(* and create), every other call is one.  A schedule is a list of thread indices; each entry    *)
(* runs the next critical section of that thread.                                              *)
(* ------------------------------------------------------------------------------------------ *)

Inductive creq := QGet (t : values) | QDel (t : values) | QPartial (q : values -> bool) | QReset | QCollect.

Record cthread := mkT { t_pending : bool; t_todo : list creq }.  (* pending: first section of head request done, missed *)
Record cevent := mkE { e_tid : nat; e_req : creq; e_res : result }.
Record cstate := mkC { c_st : mstate; c_thr : list cthread }.

Fixpoint set_nth {A} (l : list A) (n : nat) (x : A) : list A :=
  match l, n with
  | [], _ => []
  | _ :: r, O => x :: r
  | y :: r, S n' => y :: set_nth r n' x
  end.

Section Concurrent.
Variable H : values -> Z.     (* any hash of the full tuple *)

(* one critical section of thread tid; Some event when the call returns in this section *)
Definition cstep (c : cstate) (tid : nat) : cstate * option cevent :=
  match nth_error (c_thr c) tid with
  | None => (c, None)
  | Some th =>
    match t_todo th with
    | [] => (c, None)
    | q :: rest =>
      let st := c_st c in
      match q with
      | QGet t =>
        if t_pending th then
          let '(id, st') := sec_create (H t) (vals_eqb t) t st in
          (mkC st' (set_nth (c_thr c) tid (mkT false rest)), Some (mkE tid q (RId id)))
        else
          match probe (H t) (vals_eqb t) st with
          | Some id => (mkC st (set_nth (c_thr c) tid (mkT false rest)), Some (mkE tid q (RId id)))
          | None => (mkC st (set_nth (c_thr c) tid (mkT true (q :: rest))), None)
          end
      | QDel t =>
        let '(b, st') := delete_by_hash (H t) (vals_eqb t) st in
        (mkC st' (set_nth (c_thr c) tid (mkT false rest)), Some (mkE tid q (RBool b)))
      | QPartial p =>
        let '(n, st') := delete_partial p st in
        (mkC st' (set_nth (c_thr c) tid (mkT false rest)), Some (mkE tid q (RNum n)))
      | QReset =>
        (mkC (reset st) (set_nth (c_thr c) tid (mkT false rest)), Some (mkE tid q RUnit))
      | QCollect =>   (* the read lock is held until the last child has been sent: ONE section *)
        (mkC st (set_nth (c_thr c) tid (mkT false rest)), Some (mkE tid q (RColl (collect st))))
      end
    end
  end.

Fixpoint crun (c : cstate) (sched : list nat) : cstate * list cevent :=
  match sched with
  | [] => (c, [])
  | tid :: r =>
    let '(c', ev) := cstep c tid in
    let '(c'', evs) := crun c' r in
    (c'', match ev with Some e => e :: evs | None => evs end)
  end.

End Concurrent.

(* all threads at the start of their programs, empty vector *)
Definition cinit_run (progs : list (list creq)) : cstate := mkC (mkM [] 0) (map (mkT false) progs).

Definition init_sworld_c : sworld := mkS [] 0 [[]].

(* the sequential specification of a request on the plain map *)
Definition sreq (s : sworld) (q : creq) : sres * sworld :=
  match q with
  | QGet t => s_get t s
  | QDel t => s_del t s
  | QPartial p => (SNum (Z.of_nat (length (filter (fun e => p (fst e)) (s_map s)))),
                   mkS (filter (fun e => negb (p (fst e))) (s_map s)) (s_next s) (s_views s))
  | QReset => (SUnit, mkS [] (s_next s) (s_views s))
  | QCollect => (SColl (sort_by_id (s_map s)), s)   (* the children of ONE state of the map *)
  end.

Definition sres_eq (s : sres) (r : result) : bool :=
  match s, r with
  | SId a, RId b => Nat.eqb a b
  | SBool a, RBool b => Bool.eqb a b
  | SNum a, RNum b => a =? b
  | SUnit, RUnit => true
  | SColl a, RColl b => entries_eqb a b
  | _, _ => false
  end.

(* a history (calls in the order of their last critical section) replayed on the plain map *)
Fixpoint lin_ok (s : sworld) (h : list cevent) : bool :=
  match h with
  | [] => true
  | e :: r => let '(x, s') := sreq s (e_req e) in sres_eq x (e_res e) && lin_ok s' r
  end.
Fixpoint lin_final (s : sworld) (h : list cevent) : sworld :=
  match h with [] => s | e :: r => lin_final (snd (sreq s (e_req e))) r end.

(* stress-run oracle (sound for every interleaving): per tuple, children created = successful
   deletions + live children, at most one live child; per child, increments applied = value read *)
Definition stress_ok (tuples : list (Z * Z * Z)) (children : list (Z * Z)) : bool :=
  forallb (fun x => let '(created, deleted, live) := x in
                    (created =? deleted + live) && ((live =? 0) || (live =? 1))) tuples
  && forallb (fun x => fst x =? snd x) children.

(* ------------------------------------------------------------------------------------------ *)
(* Part 5: instances                                                                           *)
(* ------------------------------------------------------------------------------------------ *)

Definition two64 : Z := 18446744073709551616.

(* fnv.go: hashAdd / hashAddByte on uint64 *)
Definition fnv_addb (h b : Z) : Z := (Z.lxor h b * fnv_prime64) mod two64.
Definition fnv_add (h : Z) (s : str) : Z := fold_left fnv_addb s h.
(* FNV-1a of a byte string *)
Definition fnv1a (s : str) : Z := fold_left fnv_addb s fnv_offset64.

(* hash modes of the harness: 0 production; 1 constant; 2 low entropy (sum of lengths mod 4);
   3 FNV without separator *)
Definition hmode_add (m : Z) : Z -> str -> Z :=
  if m =? 0 then fnv_add
  else if m =? 1 then (fun h _ => h)
  else if m =? 2 then (fun h s => (h + Z.of_nat (length s)) mod 4)
  else fnv_add.
Definition hmode_addb (m : Z) : Z -> Z -> Z :=
  if m =? 0 then fnv_addb else (fun h _ => h).

(* constraint functions of the harness by code; 0 = no constraint on that label *)
Definition cons_fn (code : Z) : option (str -> str) :=
  if code =? 1 then Some lower_ascii
  else if code =? 2 then Some (firstn 2)
  else if code =? 3 then Some (fun _ => [99])
  else if code =? 4 then Some (fun s => s ++ [33])
  else if code =? 5 then Some (fun s => s)
  else None.
Fixpoint mk_cstr (nm : list str) (codes : list Z) : list (str * (str -> str)) :=
  match nm, codes with
  | n :: nm', c :: codes' =>
      match cons_fn c with Some f => (n, f) :: mk_cstr nm' codes' | None => mk_cstr nm' codes' end
  | _, _ => []
  end.
