(* Model/CounterGauge.v -- step machines for prometheus.Counter and prometheus.Gauge
   (prometheus/counter.go:126-170, prometheus/gauge.go:106-139): one step per sync/atomic operation. *)
From Coq Require Import ZArith List Bool.
From Verif Require Import Base.F64 Base.Conc.
Import ListNotations.
Open Scope Z_scope.

Definition two64 : Z := 2 ^ 64.

(* ---------------- counter ---------------- *)
Record counter_sh := mkCS { valBits : f64; valInt : Z (* 0 <= valInt < 2^64 *) }.
Inductive counter_op := CInc | CAdd (v : f64) | CWrite.
Inductive counter_ret := CUnit | CPanic | CValue (v : f64).
Inductive counter_pc :=
| cAddInt (d : Z)            (* atomic.AddUint64(&c.valInt, d) *)
| cLoad (v : f64)            (* atomic.LoadUint64(&c.valBits) *)
| cCas (old v : f64)         (* atomic.CompareAndSwapUint64(&c.valBits, old, old+v) *)
| cWBits                     (* get(): load valBits *)
| cWInt (f : f64).           (* get(): load valInt *)

Definition counter_start (o : counter_op) : counter_pc + counter_ret :=
  match o with
  | CInc => inl (cAddInt 1)
  | CAdd v =>
      if flt v pzero then inr CPanic
      else let ival := to_u64_amd64 v in
           if feq (of_Z ival) v then inl (cAddInt ival) else inl (cLoad v)
  | CWrite => inl cWBits
  end.

Definition counter_step (s : counter_sh) (pc : counter_pc) : option (counter_sh * (counter_pc + counter_ret)) :=
  match pc with
  | cAddInt d => Some (mkCS (valBits s) ((valInt s + d) mod two64), inr CUnit)
  | cLoad v => Some (s, inl (cCas (valBits s) v))
  | cCas old v =>
      if fbits_eq (valBits s) old then Some (mkCS (fadd old v) (valInt s), inr CUnit)
      else Some (s, inl (cLoad v))
  | cWBits => Some (s, inl (cWInt (valBits s)))
  | cWInt f => Some (s, inr (CValue (fadd f (of_Z (valInt s)))))
  end.

(* labels as produced by the instrumenter: "<atomic function> <operand>" *)
From Verif Require Import Base.Str.
From Coq Require Import Strings.String.
Definition lbl (s : string) : list Z := of_string s.
Arguments lbl s%string.
Definition counter_label (pc : counter_pc) : list Z :=
  match pc with
  | cAddInt _ => lbl "AddUint64 valInt"
  | cLoad _ => lbl "LoadUint64 valBits"
  | cCas _ _ => lbl "CompareAndSwapUint64 valBits"
  | cWBits => lbl "LoadUint64 valBits"
  | cWInt _ => lbl "LoadUint64 valInt"
  end.

Definition counter_machine : machine :=
  mkMachine counter_sh counter_pc counter_op counter_ret counter_start counter_step counter_label.
Definition counter_init : counter_sh := mkCS pzero 0.

(* ---------------- gauge ---------------- *)
Inductive gauge_op := GSet (v : f64) | GAdd (v : f64) | GSub (v : f64) | GInc | GDec | GWrite.
Inductive gauge_ret := GUnit | GValue (v : f64).
Inductive gauge_pc := gStore (v : f64) | gLoad (v : f64) | gCas (old v : f64) | gRead.

Definition fminus_one : f64 := fneg fone.
Definition gauge_start (o : gauge_op) : gauge_pc + gauge_ret :=
  match o with
  | GSet v => inl (gStore v)
  | GAdd v => inl (gLoad v)
  | GSub v => inl (gLoad (fmul v fminus_one))
  | GInc => inl (gLoad fone)
  | GDec => inl (gLoad fminus_one)
  | GWrite => inl gRead
  end.

Definition gauge_step (s : f64) (pc : gauge_pc) : option (f64 * (gauge_pc + gauge_ret)) :=
  match pc with
  | gStore v => Some (v, inr GUnit)
  | gLoad v => Some (s, inl (gCas s v))
  | gCas old v => if fbits_eq s old then Some (fadd old v, inr GUnit) else Some (s, inl (gLoad v))
  | gRead => Some (s, inr (GValue s))
  end.

Definition gauge_label (pc : gauge_pc) : list Z :=
  match pc with
  | gStore _ => lbl "StoreUint64 valBits"
  | gLoad _ => lbl "LoadUint64 valBits"
  | gCas _ _ => lbl "CompareAndSwapUint64 valBits"
  | gRead => lbl "LoadUint64 valBits"
  end.

Definition gauge_machine : machine :=
  mkMachine f64 gauge_pc gauge_op gauge_ret gauge_start gauge_step gauge_label.
Definition gauge_init : f64 := pzero.

(* the amount a gauge call adds (Set handled separately) *)
Definition gauge_amount (o : gauge_op) : option f64 :=
  match o with
  | GAdd v => Some v | GSub v => Some (fmul v fminus_one) | GInc => Some fone | GDec => Some fminus_one
  | _ => None
  end.

(* ---------------- sequential specifications ---------------- *)
(* gauge: Set overwrites, the others accumulate with float addition, Write returns the value *)
Definition gauge_spec_step (s : f64) (o : gauge_op) : f64 * gauge_ret :=
  match o with
  | GSet v => (v, GUnit)
  | GWrite => (s, GValue s)
  | _ => match gauge_amount o with Some a => (fadd s a, GUnit) | None => (s, GUnit) end
  end.

Definition gauge_ret_eqb (a b : gauge_ret) : bool :=
  match a, b with
  | GUnit, GUnit => true
  | GValue x, GValue y => fbits_eq x y
  | _, _ => false
  end.

(* ---------------- history checkers (executable; soundness is proved in Proofs/C01_proofs.v) ---------------- *)
Section Lin.
Context {M : machine}.
Variable St : Type.
Variable spec_step : St -> op M -> St * ret M.
Variable ret_eqb : ret M -> ret M -> bool.

Fixpoint remove_nth {A} (l : list A) (n : nat) : list A :=
  match l, n with
  | [], _ => []
  | _ :: r, O => r
  | x :: r, Datatypes.S n' => x :: remove_nth r n'
  end.

(* a call is minimal when no other pending call returned before it was invoked *)
Definition minimal (pending : list (call M)) (c : call M) : bool :=
  forallb (fun d => negb (c_res d <=? c_inv c) || ((c_tid d =? c_tid c) && (c_idx d =? c_idx c))) pending.

(* backtracking search for a linearisation; fuel = number of pending calls *)
Fixpoint lin_search (fuel : nat) (s : St) (pending : list (call M)) : bool :=
  match fuel with
  | O => match pending with [] => true | _ => false end
  | Datatypes.S f =>
      match pending with
      | [] => true
      | _ =>
          existsb (fun k =>
            match nth_error pending k with
            | Some c =>
                minimal pending c &&
                (let '(s', r) := spec_step s (c_op c) in ret_eqb r (c_ret c) && lin_search f s' (remove_nth pending k))
            | None => false
            end) (seq 0 (List.length pending))
      end
  end.
Definition lin_check (s0 : St) (h : list (call M)) : bool := lin_search (List.length h) s0 h.
End Lin.

(* counter checks on a history of complete calls (amounts are non-negative, so values are monotone):
   every Write lies between the sum of the calls that returned before it started and the sum of the
   calls that started before it ended; Writes ordered in real time do not decrease; negative Add panics. *)
Definition counter_amount (o : counter_op) : option f64 :=
  match o with CInc => Some fone | CAdd v => if flt v pzero then None else Some v | CWrite => None end.

Definition sum_amounts (l : list f64) : f64 := fold_left fadd l pzero.

Fixpoint mapM_opt {A B} (f : A -> option B) (l : list A) : option (list B) :=
  match l with
  | [] => Some []
  | x :: r => match f x, mapM_opt f r with Some y, Some ys => Some (y :: ys) | _, _ => None end
  end.

Definition counter_writes (h : list (call counter_machine)) : list (call counter_machine) :=
  filter (fun c : call counter_machine => match c_op c return bool with CWrite => true | _ => false end) h.

(* exactness guard: all amounts are multiples of 2^k and their total is below 2^(k+53), so every partial sum
   in every order is representable and float addition of these amounts is exact (no rounding anywhere).
   Otherwise only monotonicity and the panic rule are checked (rounded sums depend on the order). *)
From Flocq Require Import IEEE754.BinarySingleNaN.
Fixpoint ctz_pos (p : positive) : Z := match p with xO q => 1 + ctz_pos q | _ => 0 end.
Definition scaled (x : f64) : option (Z * Z) :=   (* (value * 2^1100, exponent of the lowest set bit) *)
  match x with
  | B754_zero _ => Some (0, 2000)
  | B754_finite false m e _ => Some (Z.pos m * 2 ^ (e + 1100), e + ctz_pos m)
  | _ => None
  end.
Definition grid_ok (amounts : list f64) : bool :=
  match mapM_opt scaled amounts with
  | None => false
  | Some l =>
      let total := fold_left (fun a p => a + fst p) l 0 in
      let k := fold_left (fun a p => Z.min a (snd p)) l 2000 in
      total <? 2 ^ (k + 53 + 1100)
  end.

Definition counter_check (h : list (call counter_machine)) : bool :=
  let exact := grid_ok (flat_map (fun d : call counter_machine => match counter_amount (c_op d) with Some a => [a] | None => [] end) h) in
  forallb (fun c : call counter_machine =>
    match (c_op c : counter_op), (c_ret c : counter_ret) with
    | CAdd v, r => if flt v pzero then match r with CPanic => true | _ => false end
                   else match r with CUnit => true | _ => false end
    | CInc, CUnit => true
    | CWrite, CValue r =>
        let must := flat_map (fun d : call counter_machine => if c_res d <=? c_inv c then match counter_amount (c_op d) with Some a => [a] | None => [] end else []) h in
        let may := flat_map (fun d : call counter_machine => if c_inv d <? c_res c then match counter_amount (c_op d) with Some a => [a] | None => [] end else []) h in
        negb exact || (fle (sum_amounts must) r && fle r (sum_amounts may))
    | _, _ => false
    end) h &&
  forallb (fun w1 : call counter_machine => forallb (fun w2 : call counter_machine =>
    if c_res w1 <=? c_inv w2 then
      match (c_ret w1 : counter_ret), (c_ret w2 : counter_ret) with CValue a, CValue b => fle a b || is_nan a || is_nan b | _, _ => false end
    else true) (counter_writes h)) (counter_writes h).
