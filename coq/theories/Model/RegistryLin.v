(* Model/RegistryLin.v -- C08, concurrent part: Registry.Register / Registry.Unregister
   (prometheus/registry.go:270-400) as a step machine of Base/Conc.v, one step per operation on r.mtx:
     Register:   c.Describe runs outside the lock (thread-local: the descriptor list is part of the call),
                 then  Lock [validate + commit, the whole sequential register]  ...  deferred Unlock.
     Unregister: Describe outside the lock, then
                 RLock [is the collector id present?]  RUnlock  -> false if absent, otherwise
                 Lock [re-check: absent -> false; else delete collectorsByID[id] and its descIDs -> true]  Unlock.
                 (The re-check under the write lock was added in commit d5949f3; before, the second section
                 deleted unconditionally and answered true - found by this machine, see Properties/C08.v.)
   A Lock step is enabled iff nobody holds the mutex, an RLock step iff no writer holds it (sync.RWMutex is
   trusted; writer preference/fairness does not restrict which interleavings are possible).  The code of a
   critical section runs with the step that acquires the lock (granularity of the instrumented build).
   Also: the sequential specification the histories are checked against (the sequential model itself) and
   an executable real-time linearizability checker.  Executable definitions only. *)
From Coq Require Import ZArith List Bool Strings.String.
From Verif Require Import Base.Str Base.Conc Model.Registry.
Import ListNotations.
Open Scope Z_scope.

Inductive qop := QReg (cid : Z) (ds : list desc) | QUnreg (ds : list desc).
Inductive qret := RReg (e : rres) | RUn (b : bool).

Inductive qlocal :=
| LReg (cid : Z) (ds : list desc)        (* Register, parked before r.mtx.Lock *)
| LRegU (e : rres)                       (* Register, result decided, parked before the deferred Unlock *)
| LUnR (ds : list desc)                  (* Unregister, parked before r.mtx.RLock *)
| LUnRU (ds : list desc) (found : bool)  (* Unregister, parked before r.mtx.RUnlock *)
| LUnL (ds : list desc)                  (* Unregister, id was present, parked before r.mtx.Lock *)
| LUnLU (b : bool).                      (* Unregister, decided under the write lock, parked before the deferred Unlock *)

Record qshared := mkQ { q_reg : registry; q_w : bool; q_n : Z }.   (* registry, writer holds, number of readers *)

Definition lbl_lock : list Z := of_string "RWMutex.Lock"%string.
Definition lbl_unlock : list Z := of_string "RWMutex.Unlock"%string.
Definition lbl_rlock : list Z := of_string "RWMutex.RLock"%string.
Definition lbl_runlock : list Z := of_string "RWMutex.RUnlock"%string.

Definition q_label (l : qlocal) : list Z :=
  match l with
  | LReg _ _ | LUnL _ => lbl_lock
  | LRegU _ | LUnLU _ => lbl_unlock
  | LUnR _ => lbl_rlock
  | LUnRU _ _ => lbl_runlock
  end.

Definition q_start (o : qop) : qlocal + qret :=
  match o with QReg cid ds => inl (LReg cid ds) | QUnreg ds => inl (LUnR ds) end.

Section Hashed.
Variable hash : str -> str.

Definition unreg_found (r : registry) (ds : list desc) : bool :=
  match find_coll (unreg_ids hash ds) (r_colls r) with Some _ => true | None => false end.

Definition free (s : qshared) : bool := negb (q_w s) && (q_n s =? 0).

Definition q_step (s : qshared) (l : qlocal) : option (qshared * (qlocal + qret)) :=
  match l with
  | LReg cid ds =>
      if free s then
        let '(e, r') := register hash (q_reg s) cid ds in Some (mkQ r' true 0, inl (LRegU e))
      else None
  | LRegU e => Some (mkQ (q_reg s) false (q_n s), inr (RReg e))
  | LUnR ds =>
      if negb (q_w s) then Some (mkQ (q_reg s) false (q_n s + 1), inl (LUnRU ds (unreg_found (q_reg s) ds)))
      else None
  | LUnRU ds found =>
      Some (mkQ (q_reg s) (q_w s) (q_n s - 1), if found then inl (LUnL ds) else inr (RUn false))
  | LUnL ds =>
      (* re-check and deletes under the write lock = the whole sequential unregister *)
      if free s then
        let '(b, r') := unregister hash (q_reg s) ds in Some (mkQ r' true 0, inl (LUnLU b))
      else None
  | LUnLU b => Some (mkQ (q_reg s) false (q_n s), inr (RUn b))
  end.

Definition reg_machine : Conc.machine :=
  Conc.mkMachine qshared qlocal qop qret q_start q_step q_label.

Definition q_init : qshared := mkQ empty_registry false 0.

(* the sequential specification: the sequential model (tied to the set-based specification of the
   property by register_spec) *)
Definition reg_spec_step (r : registry) (o : qop) : registry * qret :=
  match o with
  | QReg cid ds => let '(e, r') := register hash r cid ds in (r', RReg e)
  | QUnreg ds => let '(b, r') := unregister hash r ds in (r', RUn b)
  end.
End Hashed.

Definition rres_eqb (a b : rres) : bool :=
  match a, b with
  | RNil, RNil => true | RInvalid, RInvalid => true | RDuplicate, RDuplicate => true
  | RInconsistent, RInconsistent => true
  | RAlready x, RAlready y => Z.eqb x y
  | _, _ => false
  end.
Definition qret_eqb (a b : qret) : bool :=
  match a, b with
  | RReg x, RReg y => rres_eqb x y
  | RUn x, RUn y => Bool.eqb x y
  | _, _ => false
  end.

(* ---------- real-time linearizability checker (backtracking search) ---------- *)
Section Lin.
Context {M : machine}.
Variable St : Type.
Variable spec_step : St -> Conc.op M -> St * Conc.ret M.
Variable ret_eqb : Conc.ret M -> Conc.ret M -> bool.

Fixpoint remove_nth {A} (l : list A) (n : nat) : list A :=
  match l, n with
  | [], _ => []
  | _ :: r, O => r
  | x :: r, S n' => x :: remove_nth r n'
  end.

(* a call may come next when no other pending call returned before it was invoked *)
Definition minimal (pending : list (call M)) (c : call M) : bool :=
  forallb (fun d => negb (c_res d <=? c_inv c) || ((c_tid d =? c_tid c) && (c_idx d =? c_idx c))) pending.

Fixpoint lin_search (fuel : nat) (s : St) (pending : list (call M)) : bool :=
  match fuel with
  | O => match pending with [] => true | _ => false end
  | S f =>
      match pending with
      | [] => true
      | _ =>
          existsb (fun k =>
            match nth_error pending k with
            | Some c =>
                minimal pending c &&
                (let '(s', r) := spec_step s (c_op c) in ret_eqb r (c_ret c) && lin_search f s' (remove_nth pending k))
            | None => false
            end) (seq 0 (List.length pending))
      end
  end.
Definition lin_check (s0 : St) (h : list (call M)) : bool := lin_search (List.length h) s0 h.
End Lin.

Definition reg_lin_check (hash : str -> str) (h : list (Conc.call (reg_machine hash))) : bool :=
  @lin_check (reg_machine hash) registry (reg_spec_step hash) qret_eqb empty_registry h.
