(* Model/SummaryWindow.v -- the summary WITH objectives (type summary) of
   prometheus/summary.go: construction-time validation (194-273, 570-575), Observe (309-321),
   Write (323-362), asyncFlush (369-380), maybeRotateStreams (383-393), flushColdBuf (396-406),
   swapBufs (409-418).  Executable definitions only.

   Modelling decisions (see checks/C06.json):
   * time is Z nanoseconds; the clock is injected (SummaryOpts.now);
   * a quantile stream (beorn7/perks, external) is THE LIST OF VALUES INSERTED SINCE ITS LAST
     RESET, oldest first; Query is not modelled: Write exposes either NaN (Count() = 0) or the
     window handed to the external Query;
   * asyncFlush runs `go func(){ flushColdBuf(); mtx.Unlock() }()` while the caller still holds
     bufMtx; every later access to the cold state first takes mtx, so in a sequential history the
     goroutine's effect is the same as running it synchronously, which is what the model does;
   * the two `for` loops run on fuel with an explicit OutOfFuel result;
   * cnt is uint64 in Go (no wrap below 2^64 observations), unbounded Z here.

   The second half of the file is the SPECIFICATION: what the property text demands, written
   directly over the observation log, without buffers, streams or rotation. *)
From Coq Require Import ZArith List Bool.
From Flocq Require Import IEEE754.BinarySingleNaN.
From Verif Require Import Base.F64 Base.Str.
Import ListNotations.
Open Scope Z_scope.

Inductive res (A : Type) := Ok (a : A) | OutOfFuel | Panic.
Arguments Ok {A} a. Arguments OutOfFuel {A}. Arguments Panic {A}.

Definition bind {A B} (r : res A) (f : A -> res B) : res B :=
  match r with Ok a => f a | OutOfFuel => OutOfFuel | Panic => Panic end.

(* ------------------------------------------------------------------ *)
(* configuration after defaults: d = streamDuration, n = AgeBuckets = len(streams), cap = BufCap *)
Record cfg := mkCfg { c_d : Z; c_n : nat; c_cap : Z }.

Record state := mkSt {
  hot : list f64; cold : list f64;
  hot_exp : Z; head_exp : Z;
  streams : list (list f64); head_idx : nat;
  cnt : Z; sum : f64 }.

(* ---- construction (summary.go:194-273, 570-575) ---- *)
Definition quantile_label : str := [113; 117; 97; 110; 116; 105; 108; 101].  (* "quantile" *)
Definition def_max_age : Z := 600 * 1000000000.   (* 10 * time.Minute *)
Definition def_age_buckets : Z := 5.
Definition def_buf_cap : Z := 500.

Record opts := mkOpts {
  o_vars : list str;            (* desc.variableLabels.names *)
  o_consts : list str;          (* names of desc.constLabelPairs *)
  o_nvalues : nat;              (* len(labelValues) *)
  o_objectives : list (f64 * f64);  (* the Objectives map as (quantile, epsilon) entries, nil = [] *)
  o_max_age : Z; o_age_buckets : Z; o_buf_cap : Z }.

Inductive newres :=
| NPanicCardinality | NPanicQuantileLabel | NPanicMaxAge
| NNoObjectives                                  (* the lock-free summary: property C02 *)
| NSummary (c : cfg) (sorted_objectives : list (f64 * f64)) (s : state).

(* sort.Float64s on the keys: insertion sort by < (keys are non-NaN and distinct map keys) *)
Fixpoint insert_obj (x : f64 * f64) (l : list (f64 * f64)) : list (f64 * f64) :=
  match l with
  | [] => [x]
  | y :: r => if flt (fst y) (fst x) then y :: insert_obj x r else x :: l
  end.
Definition sort_objs (l : list (f64 * f64)) : list (f64 * f64) := fold_right insert_obj [] l.

(* time.Duration division truncates toward zero; both operands are >= 0 here *)
Definition new_summary (o : opts) (now : Z) : newres :=
  if negb (Nat.eqb (length (o_vars o)) (o_nvalues o)) then NPanicCardinality
  else if str_in quantile_label (o_vars o) then NPanicQuantileLabel
  else if str_in quantile_label (o_consts o) then NPanicQuantileLabel
  else if o_max_age o <? 0 then NPanicMaxAge
  else
    let max_age := if o_max_age o =? 0 then def_max_age else o_max_age o in
    let n := if o_age_buckets o =? 0 then def_age_buckets else o_age_buckets o in
    let cap := if o_buf_cap o =? 0 then def_buf_cap else o_buf_cap o in
    match o_objectives o with
    | [] => NNoObjectives
    | _ =>
        let d := Z.quot max_age n in
        NSummary (mkCfg d (Z.to_nat n) cap) (sort_objs (o_objectives o))
          (mkSt [] [] (now + d) (now + d) (repeat [] (Z.to_nat n)) 0 0 pzero)
    end.

(* SummaryVec (570-575): the variable label names are checked before any child exists *)
Definition new_summary_vec_refuses (vars : list str) : bool := str_in quantile_label vars.

(* ---- swapBufs (409-418) ---- *)
Fixpoint swap_loop (fuel : nat) (d now exp : Z) : option Z :=
  match fuel with
  | O => None
  | S f => if now >? exp then swap_loop f d now (exp + d) else Some exp
  end.

Definition swap_bufs (fuel : nat) (c : cfg) (now : Z) (s : state) : res state :=
  match cold s with
  | _ :: _ => Panic                                     (* "coldBuf is not empty" *)
  | [] =>
      match swap_loop fuel (c_d c) now (hot_exp s) with
      | None => OutOfFuel
      | Some e => Ok (mkSt (cold s) (hot s) e (head_exp s) (streams s) (head_idx s) (cnt s) (sum s))
      end
  end.

(* ---- maybeRotateStreams (383-393); headStream is always streams[headStreamIdx] ---- *)
Fixpoint set_nth {A} (i : nat) (x : A) (l : list A) : list A :=
  match l, i with
  | [], _ => []
  | _ :: r, O => x :: r
  | y :: r, S i' => y :: set_nth i' x r
  end.

Definition next_idx (i len : nat) : nat := if Nat.leb len (S i) then O else S i.

Fixpoint rotate_loop (fuel : nat) (d hexp : Z) (st : list (list f64)) (idx : nat) (head : Z)
  : option (list (list f64) * nat * Z) :=
  match fuel with
  | O => None
  | S f =>
      if hexp =? head then Some (st, idx, head)
      else rotate_loop f d hexp (set_nth idx [] st) (next_idx idx (length st)) (head + d)
  end.

(* ---- flushColdBuf (396-406) ---- *)
Definition flush_one (acc : list (list f64) * Z * f64) (v : f64) : list (list f64) * Z * f64 :=
  let '(st, c, s) := acc in (map (fun x => x ++ [v]) st, c + 1, fadd s v).

Definition flush_cold (fuel : nat) (c : cfg) (s : state) : res state :=
  let '(st, n, sm) := fold_left flush_one (cold s) (streams s, cnt s, sum s) in
  match rotate_loop fuel (c_d c) (hot_exp s) st (head_idx s) (head_exp s) with
  | None => OutOfFuel
  | Some (st', i', h') => Ok (mkSt (hot s) [] (hot_exp s) h' st' i' n sm)
  end.

(* ---- asyncFlush (369-380), executed synchronously ---- *)
Definition async_flush (fuel : nat) (c : cfg) (now : Z) (s : state) : res state :=
  bind (swap_bufs fuel c now s) (flush_cold fuel c).

(* ---- Observe (309-321) ---- *)
Definition set_hot (s : state) (h : list f64) : state :=
  mkSt h (cold s) (hot_exp s) (head_exp s) (streams s) (head_idx s) (cnt s) (sum s).

Definition observe_f (fuel : nat) (c : cfg) (now : Z) (v : f64) (s : state) : res state :=
  bind (if now >? hot_exp s then async_flush fuel c now s else Ok s) (fun s1 =>
  let s2 := set_hot s1 (hot s1 ++ [v]) in
  if Z.of_nat (length (hot s2)) =? c_cap c then async_flush fuel c now s2 else Ok s2).

(* ---- Write (323-362) ---- *)
Inductive qval := QNaN | QQuery (window : list f64).
Record wout := mkW { w_count : Z; w_sum : f64; w_window : list f64; w_quantiles : list (f64 * qval) }.

Definition head_stream (s : state) : list f64 := nth (head_idx s) (streams s) [].

Definition expose (head : list f64) (q : f64 * f64) : f64 * qval :=
  (fst q, match head with [] => QNaN | _ => QQuery head end).   (* Count() == 0 ? NaN : Query(rank) *)

Definition write_f (fuel : nat) (c : cfg) (objs : list (f64 * f64)) (now : Z) (s : state) : res (state * wout) :=
  bind (swap_bufs fuel c now s) (fun s1 =>
  bind (flush_cold fuel c s1) (fun s2 =>
  Ok (s2, mkW (cnt s2) (sum s2) (head_stream s2) (map (expose (head_stream s2)) objs)))).

(* fuel: one more than the number of stream durations elapsed since the hot buffer expired *)
Definition need (c : cfg) (now : Z) (s : state) : nat := S (S (Z.to_nat ((now - hot_exp s) / c_d c))).
Definition observe c now v s := observe_f (need c now s) c now v s.
Definition write c objs now s := write_f (need c now s) c objs now s.

(* ---- operation sequences ---- *)
Inductive op := OObserve (v : f64) | OAdvance (dt : Z) | OWrite.

Fixpoint run_from (c : cfg) (objs : list (f64 * f64)) (now : Z) (s : state) (ops : list op) : res (list wout) :=
  match ops with
  | [] => Ok []
  | OObserve v :: r => bind (observe c now v s) (fun s' => run_from c objs now s' r)
  | OAdvance dt :: r => run_from c objs (now + dt) s r
  | OWrite :: r =>
      bind (write c objs now s) (fun sw => bind (run_from c objs now (fst sw) r) (fun ws => Ok (snd sw :: ws)))
  end.

Definition init_state (c : cfg) (t0 : Z) : state :=
  mkSt [] [] (t0 + c_d c) (t0 + c_d c) (repeat [] (c_n c)) 0 0 pzero.

Definition run (c : cfg) (objs : list (f64 * f64)) (t0 : Z) (ops : list op) : res (list wout) :=
  run_from c objs t0 (init_state c t0) ops.

(* ================================================================== *)
(* SPECIFICATION (property text), over the observation log only.       *)
(* An entry of the log is (time of the Observe call, value).           *)

Definition cdiv (a d : Z) : Z := - ((- a) / d).       (* ceiling division, d > 0 *)

(* the exact law: a collection at time t exposes the observations made strictly after
   (ceil((t-t0)/d) - n) * d, all of them while ceil((t-t0)/d) <= n *)
Definition epoch (c : cfg) (t0 t : Z) : Z := Z.max 1 (cdiv (t - t0) (c_d c)).
Definition in_window (c : cfg) (t0 L : Z) (o : Z * f64) : bool := (L <=? 0) || (t0 + L * c_d c <? fst o).
Definition sel (c : cfg) (t0 L : Z) (log : list (Z * f64)) : list f64 := map snd (filter (in_window c t0 L) log).
Definition spec_window (c : cfg) (t0 : Z) (log : list (Z * f64)) (t : Z) : list f64 :=
  sel c t0 (epoch c t0 t - Z.of_nat (c_n c)) log.

(* the two bounds of the property text *)
Definition younger (c : cfg) (t : Z) (o : Z * f64) : bool := t - fst o <? (Z.of_nat (c_n c) - 1) * c_d c.
Definition not_older (c : cfg) (t : Z) (o : Z * f64) : bool := t - fst o <=? Z.of_nat (c_n c) * c_d c.

Record sout := mkS { s_count : Z; s_sum : f64; s_window : list f64 }.

Definition spec_write (c : cfg) (t0 : Z) (log : list (Z * f64)) (t : Z) : sout :=
  mkS (Z.of_nat (length log)) (fold_left fadd (map snd log) pzero) (spec_window c t0 log t).

Fixpoint spec_from (c : cfg) (t0 now : Z) (log : list (Z * f64)) (ops : list op) : list sout :=
  match ops with
  | [] => []
  | OObserve v :: r => spec_from c t0 now (log ++ [(now, v)]) r
  | OAdvance dt :: r => spec_from c t0 (now + dt) log r
  | OWrite :: r => spec_write c t0 log now :: spec_from c t0 now log r
  end.
Definition spec_run (c : cfg) (t0 : Z) (ops : list op) : list sout := spec_from c t0 t0 [] ops.

Definition project (w : wout) : sout := mkS (w_count w) (w_sum w) (w_window w).

(* log and clock reached by an operation sequence *)
Fixpoint log_from (now : Z) (log : list (Z * f64)) (ops : list op) : Z * list (Z * f64) :=
  match ops with
  | [] => (now, log)
  | OObserve v :: r => log_from now (log ++ [(now, v)]) r
  | OAdvance dt :: r => log_from (now + dt) log r
  | OWrite :: r => log_from now log r
  end.
Definition obs_log (t0 : Z) (ops : list op) : list (Z * f64) := snd (log_from t0 [] ops).
Definition end_time (t0 : Z) (ops : list op) : Z := fst (log_from t0 [] ops).

Definition advances_nonneg (ops : list op) : Prop :=
  Forall (fun o => match o with OAdvance dt => 0 <= dt | _ => True end) ops.
Definition valid_cfg (c : cfg) : Prop := 0 < c_d c /\ (0 < c_n c)%nat /\ 0 < c_cap c.

(* ---- rank checker for the value returned by the external Query (TESTED, not proved about perks) ----
   q, eps finite with 0 < q < 1; all arithmetic exact: a finite float is m * 2^e, everything is scaled
   by D = 2^k.  x occupies the ranks lt+1 .. le (1-based) of the sorted window of size N.
   Tolerance (checks/C06.json explains where the numbers come from):
   * N < 500 (perks answers from its unsorted 500-sample buffer, exactly the element of rank
     ceil(q*N)):           |r - q*N| <= eps*N + 1
   * N >= 500 (compressed summary; Query returns an element of rank <= ceil(q*N) + ceil(f/2) with
     f <= 2*eps*ceil(q*N)/q, and at least that minus one invariant gap f(r) = 2*eps*(N-r)/(1-q)):
       r - q*N <= eps*N + 3     and     (q*N - r) * (1 - q - 2*eps) <= (eps*N + 3) * (1 - q) *)
Definition f_num_exp (x : f64) : option (Z * Z) :=
  match x with
  | B754_zero _ => Some (0, 0)
  | B754_finite s m e _ => Some ((if s then Z.neg m else Z.pos m), e)
  | _ => None
  end.

Definition perks_buffer : Z := 500.
Definition big_slack : Z := 3.

(* scaled parameters (D, Q, E) with q = Q/D and eps = E/D *)
Definition scaled (q eps : f64) : option (Z * Z * Z) :=
  match f_num_exp q, f_num_exp eps with
  | Some (mq, eq), Some (me, ee) =>
      let k := - Z.min 0 (Z.min eq ee) in
      Some (2 ^ k, mq * 2 ^ (eq + k), me * 2 ^ (ee + k))
  | _, _ => None
  end.

Definition rank_tol_ok (p : Z * Z * Z) (n r : Z) : bool :=
  let '(D, Q, E) := p in
  if n <? perks_buffer then Z.abs (r * D - Q * n) <=? E * n + D
  else (r * D - Q * n <=? E * n + big_slack * D)
       && ((Q * n <=? r * D) || (D - Q - 2 * E <=? 0)
           || ((Q * n - r * D) * (D - Q - 2 * E) <=? (E * n + big_slack * D) * (D - Q))).

(* some rank in lt+1..le is tolerated: an endpoint, or q*N itself lies between the endpoints *)
Definition rank_ok_counts (p : Z * Z * Z) (n lt le : Z) : bool :=
  let '(D, Q, E) := p in
  (lt <? le) && (rank_tol_ok p n (lt + 1) || rank_tol_ok p n le
                 || (((lt + 1) * D <=? Q * n) && (Q * n <=? le * D))).

Definition count_lt (x : f64) (w : list f64) : Z := Z.of_nat (length (filter (fun y => flt y x) w)).
Definition count_le (x : f64) (w : list f64) : Z := Z.of_nat (length (filter (fun y => fle y x) w)).

Definition rank_check (w : list f64) (q eps : f64) (x : f64) : bool :=
  match scaled q eps with
  | Some p => rank_ok_counts p (Z.of_nat (length w)) (count_lt x w) (count_le x w)
  | None => false
  end.
