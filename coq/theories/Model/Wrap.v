(* Model/Wrap.v -- prefix/label wrapping (prometheus/wrap.go), the part of NewDesc it relies on
   (prometheus/desc.go:92-172), Registry.Register/Unregister (prometheus/registry.go:270-400) and a
   small slice/heap model for wrappingMetric.Write.  First the transcription of the code as it is,
   then (section SPEC) the much simpler statement of what property C13 demands.

   Conventions: a Go string is a list of bytes; a Go map[string]string (Labels) is an association
   list in iteration order (Go's order is arbitrary; the theorems hold for every order, keys are
   unique); a []*dto.LabelPair is a list of pairs; xxhash is a parameter [hash]. *)
From Coq Require Import ZArith List Bool.
From Verif Require Import Base.Str.
Import ListNotations.
Open Scope Z_scope.

Definition lp := (str * str)%type.
Definition labels := list lp.

(* ---------- unicode/utf8.ValidString ---------- *)
Definition in_rng (lo hi b : Z) : bool := (lo <=? b) && (b <=? hi).
Definition cont (b : Z) : bool := in_rng 128 191 b.
Fixpoint utf8_valid (s : str) : bool :=
  match s with
  | [] => true
  | b :: r =>
      if in_rng 0 127 b then utf8_valid r
      else if in_rng 194 223 b then
        match r with c1 :: r1 => cont c1 && utf8_valid r1 | _ => false end
      else if in_rng 224 239 b then
        match r with
        | c1 :: c2 :: r2 =>
            (if b =? 224 then in_rng 160 191 c1 else if b =? 237 then in_rng 128 159 c1 else cont c1)
            && cont c2 && utf8_valid r2
        | _ => false
        end
      else if in_rng 240 244 b then
        match r with
        | c1 :: c2 :: c3 :: r3 =>
            (if b =? 240 then in_rng 144 191 c1 else if b =? 244 then in_rng 128 143 c1 else cont c1)
            && cont c2 && cont c3 && utf8_valid r3
        | _ => false
        end
      else false
  end.

Definition is_nil {A} (l : list A) : bool := match l with [] => true | _ => false end.

(* model.IsValidMetricName / checkLabelName under UTF8Validation (common v0.63 default) *)
Definition valid_metric_name (n : str) : bool := negb (is_nil n) && utf8_valid n.
Definition reserved_prefix : str := [95; 95].
Definition check_label_name (l : str) : bool :=
  negb (is_nil l) && utf8_valid l && negb (has_prefix l reserved_prefix).

(* ---------- Go maps as association lists ---------- *)
Definition map_mem (k : str) (m : labels) : bool := existsb (fun p => str_eqb (fst p) k) m.
Fixpoint map_set (k v : str) (m : labels) : labels :=
  match m with
  | [] => [(k, v)]
  | p :: r => if str_eqb (fst p) k then (k, v) :: r else p :: map_set k v r
  end.
Fixpoint map_get (k : str) (m : labels) : str :=
  match m with
  | [] => []
  | p :: r => if str_eqb (fst p) k then snd p else map_get k r
  end.

(* ---------- sort.Strings / sort.Sort(LabelPairSorter): any correct sort; insertion sort here.
   Proofs/C13_proofs.v sorted_perm_unique: with distinct names every sorting algorithm gives this result. *)
Fixpoint insert_str (x : str) (l : list str) : list str :=
  match l with
  | [] => [x]
  | y :: r => if str_leb x y then x :: l else y :: insert_str x r
  end.
Definition sort_str (l : list str) : list str := fold_right insert_str [] l.
Fixpoint insert_lp (x : lp) (l : labels) : labels :=
  match l with
  | [] => [x]
  | y :: r => if str_leb (fst x) (fst y) then x :: l else y :: insert_lp x r
  end.
Definition sort_lp (l : labels) : labels := fold_right insert_lp [] l.

Fixpoint dedup (l : list str) : list str :=
  match l with
  | [] => []
  | x :: r => if str_in x r then dedup r else x :: dedup r
  end.

(* ---------- descriptors ---------- *)
Inductive derr :=
| EUser (id : Z)            (* an error handed to NewInvalidDesc *)
| EWrapDup (ln : str)       (* "attempted wrapping with already existing label name" *)
| EBadMetricName
| EBadLabelName (ln : str)
| EBadLabelValue
| EDupLabels.

(* d_var = None is a nil *compiledLabels (NewInvalidDesc); d_idsrc/d_dimsrc are the byte strings
   fed to xxhash for id/dimHash, None = the zero value of a Desc that was never hashed *)
Record desc := mkDesc {
  d_fq : str; d_help : str; d_const : labels; d_var : option (list str);
  d_idsrc : option str; d_dimsrc : option str; d_err : option derr }.

Definition set_err (d : desc) (e : derr) : desc :=
  mkDesc (d_fq d) (d_help d) (d_const d) (d_var d) (d_idsrc d) (d_dimsrc d) (Some e).

Inductive wres := WPanic | WDesc (d : desc).

Definition sep : Z := 255.
Definition concat_sep (l : list str) : str := flat_map (fun v => v ++ [sep]) l.

(* V2.NewDesc, desc.go:92-172.  var = None is a nil *compiledLabels: the first dereference is
   d.variableLabels.names at line 106, after the metric name check. *)
Definition new_desc (fq help : str) (var : option (list str)) (cl : labels) : wres :=
  let d := mkDesc fq help [] var None None None in
  if negb (valid_metric_name fq) then WDesc (set_err d EBadMetricName) else
  match var with
  | None => WPanic
  | Some vnames =>
      match find (fun p => negb (check_label_name (fst p))) cl with
      | Some p => WDesc (set_err d (EBadLabelName (fst p)))
      | None =>
          let names := sort_str (map fst cl) in
          let values := fq :: map (fun n => map_get n cl) names in
          if negb (forallb utf8_valid values) then WDesc (set_err d EBadLabelValue) else
          match find (fun l => negb (check_label_name l)) vnames with
          | Some l => WDesc (set_err d (EBadLabelName l))
          | None =>
              let label_names := names ++ map (fun l => 36 :: l) vnames in
              let name_set := dedup (map fst cl ++ vnames) in
              if negb (Nat.eqb (length label_names) (length name_set)) then WDesc (set_err d EDupLabels) else
              WDesc (mkDesc fq help (sort_lp cl) var
                            (Some (concat_sep values))
                            (Some (help ++ [sep] ++ concat_sep (sort_str label_names)))
                            None)
          end
      end
  end.

Definition invalid_desc (id : Z) : desc := mkDesc [] [] [] None None None (Some (EUser id)).

(* wrapDesc, wrap.go:229-260 *)
Fixpoint wrap_loop (ls : labels) (cm : labels) : (labels + str)%type :=
  match ls with
  | [] => inl cm
  | p :: r => if map_mem (fst p) cm then inr (fst p) else wrap_loop r (map_set (fst p) (snd p) cm)
  end.
Definition const_map (d : desc) : labels := fold_left (fun m p => map_set (fst p) (snd p) m) (d_const d) [].
Definition wrap_desc (d : desc) (prefix : str) (ls : labels) : wres :=
  match d_err d with
  | Some _ => WDesc d
  | None =>
      match wrap_loop ls (const_map d) with
      | inr ln => WDesc (mkDesc (d_fq d) (d_help d) (d_const d) (d_var d) None None (Some (EWrapDup ln)))
      | inl cm =>
          match new_desc (prefix ++ d_fq d) (d_help d) (d_var d) cm with
          | WPanic => WPanic
          | WDesc nd => WDesc (match d_err d with Some e => set_err nd e | None => nd end)
          end
      end
  end.

(* the code before commit c91a186 (no early return): kept to show the model can express the defect *)
Definition wrap_desc_old (d : desc) (prefix : str) (ls : labels) : wres :=
  match wrap_loop ls (const_map d) with
  | inr ln => WDesc (mkDesc (d_fq d) (d_help d) (d_const d) (d_var d) None None (Some (EWrapDup ln)))
  | inl cm =>
      match new_desc (prefix ++ d_fq d) (d_help d) (d_var d) cm with
      | WPanic => WPanic
      | WDesc nd => WDesc (match d_err d with Some e => set_err nd e | None => nd end)
      end
  end.

Definition layer := (str * labels)%type.   (* innermost wrapper first *)
Definition wrap_step (w : wres) (l : layer) : wres :=
  match w with WPanic => WPanic | WDesc d => wrap_desc d (fst l) (snd l) end.
Definition wrap_layers (d : desc) (ly : list layer) : wres := fold_left wrap_step ly (WDesc d).

(* ---------- slices over a heap of backing arrays ---------- *)
Definition heap := list (list lp).
Record slice := mkSlice { s_arr : nat; s_len : nat }.   (* offset 0; cap = length of the array *)
Definition nil_lp : lp := ([], []).
Definition h_arr (h : heap) (a : nat) : list lp := nth a h [].
Definition s_cap (h : heap) (s : slice) : nat := length (h_arr h (s_arr s)).
Definition s_read (h : heap) (s : slice) : labels := firstn (s_len s) (h_arr h (s_arr s)).
Fixpoint set_nth {A} (n : nat) (x : A) (l : list A) : list A :=
  match l, n with
  | [], _ => []
  | _ :: r, O => x :: r
  | y :: r, S n' => y :: set_nth n' x r
  end.
(* overwrite the first cells of array a *)
Definition h_put (h : heap) (a : nat) (cells : list lp) : heap :=
  let old := h_arr h a in
  set_nth a (firstn (length old) (cells ++ skipn (length cells) old)) h.
Definition h_make (h : heap) (len cap : nat) : heap * slice :=
  (h ++ [repeat nil_lp cap], mkSlice (length h) len).
Definition h_copy (h : heap) (dst src : slice) : heap :=
  h_put h (s_arr dst) (firstn (Nat.min (s_len dst) (s_len src)) (s_read h src)).
(* append: in place when len < cap, else a new array (the growth factor is unobservable) *)
Definition h_append (h : heap) (s : slice) (x : lp) : heap * slice :=
  if Nat.ltb (s_len s) (s_cap h s) then
    (h_put h (s_arr s) (s_read h s ++ [x]), mkSlice (s_arr s) (S (s_len s)))
  else
    (h ++ [s_read h s ++ [x] ++ repeat nil_lp (s_len s)], mkSlice (length h) (S (s_len s))).
Definition h_sort (h : heap) (s : slice) : heap := h_put h (s_arr s) (sort_lp (s_read h s)).

(* ---------- metrics ---------- *)
(* MBase: a metric whose Write stores its label slice in out.Label (shared, as MakeLabelPairs does
   for metrics without variable labels and as custom metrics may) and an opaque payload (value,
   type, timestamp, exemplars, buckets); werr: Write returns an error. *)
Inductive metric :=
| MBase (d : desc) (werr : bool) (lbl : slice) (payload : Z)
| MWrap (m : metric) (prefix : str) (ls : labels).

Fixpoint m_desc (m : metric) : wres :=
  match m with
  | MBase d _ _ _ => WDesc d
  | MWrap m' p ls => match m_desc m' with WPanic => WPanic | WDesc d => wrap_desc d p ls end
  end.

Definition append_all (h : heap) (s : slice) (ls : labels) : heap * slice :=
  fold_left (fun hs x => h_append (fst hs) (snd hs) x) ls (h, s).

(* wrappingMetric.Write, wrap.go:205-227; None = an error is returned *)
Fixpoint m_write (h : heap) (m : metric) : heap * option (slice * Z) :=
  match m with
  | MBase _ werr lbl pay => if werr then (h, None) else (h, Some (lbl, pay))
  | MWrap m' _ ls =>
      match m_write h m' with
      | (h1, None) => (h1, None)
      | (h1, Some (s, pay)) =>
          if is_nil ls then (h1, Some (s, pay)) else
          let n := s_len s in
          let '(h2, o) := h_make h1 n (n + length ls) in
          let h3 := h_copy h2 o s in
          let '(h4, o4) := append_all h3 o ls in
          (h_sort h4 o4, Some (o4, pay))
      end
  end.

(* the code before commit 5725b9f: append to and sort the wrapped metric's slice directly *)
Fixpoint m_write_old (h : heap) (m : metric) : heap * option (slice * Z) :=
  match m with
  | MBase _ werr lbl pay => if werr then (h, None) else (h, Some (lbl, pay))
  | MWrap m' _ ls =>
      match m_write_old h m' with
      | (h1, None) => (h1, None)
      | (h1, Some (s, pay)) =>
          if is_nil ls then (h1, Some (s, pay)) else
          let '(h4, o4) := append_all h1 s ls in
          (h_sort h4 o4, Some (o4, pay))
      end
  end.

Definition wrap_metric (m : metric) (ly : list layer) : metric :=
  fold_left (fun m l => MWrap m (fst l) (snd l)) ly m.

(* ---------- collectors ---------- *)
Inductive collector :=
| CBase (tag : Z) (descs : list desc) (metrics : list metric)
| CWrap (c : collector) (prefix : str) (ls : labels).

Fixpoint map_wrap (ds : list desc) (p : str) (ls : labels) : option (list desc) :=
  match ds with
  | [] => Some []
  | d :: r =>
      match wrap_desc d p ls, map_wrap r p ls with
      | WDesc d', Some r' => Some (d' :: r')
      | _, _ => None
      end
  end.
(* Describe; None = panic *)
Fixpoint describe (c : collector) : option (list desc) :=
  match c with
  | CBase _ ds _ => Some ds
  | CWrap c' p ls => match describe c' with None => None | Some ds => map_wrap ds p ls end
  end.
Fixpoint collect (c : collector) : list metric :=
  match c with
  | CBase _ _ ms => ms
  | CWrap c' p ls => map (fun m => MWrap m p ls) (collect c')
  end.
Fixpoint unwrap_recursively (c : collector) : Z :=
  match c with CBase t _ _ => t | CWrap c' _ _ => unwrap_recursively c' end.
Definition wrap_collector (c : collector) (ly : list layer) : collector :=
  fold_left (fun c l => CWrap c (fst l) (snd l)) ly c.

(* ---------- Registry.Register / Unregister ---------- *)
Definition zmem (x : Z) (l : list Z) : bool := existsb (Z.eqb x) l.
Fixpoint zassoc {A} (k : Z) (l : list (Z * A)) : option A :=
  match l with [] => None | p :: r => if Z.eqb (fst p) k then Some (snd p) else zassoc k r end.
Fixpoint sassoc {A} (k : str) (l : list (str * A)) : option A :=
  match l with [] => None | p :: r => if str_eqb (fst p) k then Some (snd p) else sassoc k r end.

Section Registry.
Variable hash : str -> Z.   (* xxhash.Sum64 *)

Definition desc_id (d : desc) : Z := match d_idsrc d with Some s => hash s | None => 0 end.
Definition desc_dim (d : desc) : Z := match d_dimsrc d with Some s => hash s | None => 0 end.

Record registry := mkReg {
  r_coll : list (Z * Z);        (* collectorsByID: collector id -> the user's collector (tag) *)
  r_ids : list Z;               (* descIDs *)
  r_dims : list (str * Z);      (* dimHashesByName *)
  r_unchecked : list Z }.
Definition empty_registry : registry := mkReg [] [] [] [].

Inductive rres :=
| ROk | RInvalid (e : derr) | RDimExisting | RDimNew | RAlready (existing : Z) | RDupDesc.

Record lstate := mkL { l_ids : list Z; l_dims : list (str * Z); l_cid : Z; l_dup : bool }.

(* one step of the "all desc IDs XOR'd together" accumulation, shared by Register and Unregister *)
Definition id_step (acc : list Z * Z) (id : Z) : list Z * Z :=
  if zmem id (fst acc) then acc else (id :: fst acc, Z.lxor (snd acc) id).

Fixpoint reg_loop (r : registry) (ds : list desc) (st : lstate) : (rres + lstate)%type :=
  match ds with
  | [] => inr st
  | d :: rest =>
      match d_err d with
      | Some e => inl (RInvalid e)
      | None =>
          let id := desc_id d in
          let dup := l_dup st || zmem id (r_ids r) in
          let acc := id_step (l_ids st, l_cid st) id in
          match sassoc (d_fq d) (r_dims r) with
          | Some dh =>
              if negb (dh =? desc_dim d) then inl RDimExisting
              else reg_loop r rest (mkL (fst acc) (l_dims st) (snd acc) dup)
          | None =>
              match sassoc (d_fq d) (l_dims st) with
              | Some dh =>
                  if negb (dh =? desc_dim d) then inl RDimNew
                  else reg_loop r rest (mkL (fst acc) (l_dims st) (snd acc) dup)
              | None => reg_loop r rest (mkL (fst acc) ((d_fq d, desc_dim d) :: l_dims st) (snd acc) dup)
              end
          end
      end
  end.

Definition register (r : registry) (tag : Z) (ds : list desc) : registry * rres :=
  match reg_loop r ds (mkL [] [] 0 false) with
  | inl e => (r, e)
  | inr st =>
      if is_nil (l_ids st) then (mkReg (r_coll r) (r_ids r) (r_dims r) (r_unchecked r ++ [tag]), ROk)
      else match zassoc (l_cid st) (r_coll r) with
           | Some ex => (r, RAlready ex)
           | None =>
               if l_dup st then (r, RDupDesc)
               else (mkReg ((l_cid st, tag) :: r_coll r) (l_ids st ++ r_ids r) (l_dims st ++ r_dims r) (r_unchecked r), ROk)
           end
  end.

Definition unreg_ids (ds : list desc) : list Z * Z := fold_left id_step (map desc_id ds) ([], 0).
Definition unregister (r : registry) (ds : list desc) : registry * bool :=
  let acc := unreg_ids ds in
  match zassoc (snd acc) (r_coll r) with
  | None => (r, false)
  | Some _ =>
      (mkReg (filter (fun p => negb (Z.eqb (fst p) (snd acc))) (r_coll r))
             (filter (fun i => negb (zmem i (fst acc))) (r_ids r))
             (r_dims r) (r_unchecked r), true)
  end.

(* registering / unregistering a collector; None = panic in Describe *)
Definition register_collector (r : registry) (c : collector) : option (registry * rres) :=
  match describe c with None => None | Some ds => Some (register r (unwrap_recursively c) ds) end.
Definition unregister_collector (r : registry) (c : collector) : option (registry * bool) :=
  match describe c with None => None | Some ds => Some (unregister r ds) end.
End Registry.

(* ====================================================================================== *)
(* SPEC: what C13 demands, independent of how wrap.go computes it.                         *)
(* ====================================================================================== *)

(* what a descriptor exposes: rejected with the user's own error, rejected, or accepted with
   name, help, constant labels (sorted) and variable label names *)
Inductive sdesc :=
| SPanic
| SUserErr (id : Z) (fq help : str) (cst : labels) (var : option (list str))
| SReject
| SAccept (fq help : str) (cst : labels) (var : list str).

Definition abs_desc (d : desc) : sdesc :=
  match d_err d, d_var d with
  | Some (EUser i), _ => SUserErr i (d_fq d) (d_help d) (d_const d) (d_var d)
  | Some _, _ => SReject
  | None, Some v => SAccept (d_fq d) (d_help d) (d_const d) v
  | None, None => SPanic
  end.
Definition abs_wres (w : wres) : sdesc := match w with WPanic => SPanic | WDesc d => abs_desc d end.

(* a collector declaring name fq, constant labels cst and variable labels var natively is refused iff *)
Definition native_reject (fq : str) (cst : labels) (var : list str) : bool :=
  negb (valid_metric_name fq)
  || existsb (fun p => negb (check_label_name (fst p))) cst
  || existsb (fun p => negb (utf8_valid (snd p))) cst
  || existsb (fun l => negb (check_label_name l)) var
  || negb (Nat.eqb (length (dedup (map fst cst ++ var))) (length (map fst cst ++ var))).

(* one wrapper around an exposed descriptor *)
Definition spec_wrap1 (s : sdesc) (p : str) (ls : labels) : sdesc :=
  match s with
  | SAccept fq help cst var =>
      if existsb (fun l => map_mem (fst l) cst) ls then SReject          (* added label already present *)
      else if native_reject (p ++ fq) (cst ++ ls) var then SReject        (* as a native declaration would be *)
      else SAccept (p ++ fq) help (sort_lp (cst ++ ls)) var
  | other => other                                                         (* earlier errors are kept *)
  end.
Definition spec_wrap (s : sdesc) (ly : list layer) : sdesc :=
  fold_left (fun s l => spec_wrap1 s (fst l) (snd l)) ly s.

(* what is exposed by a natively declared descriptor *)
Definition spec_native (fq help : str) (var : list str) (cl : labels) : sdesc :=
  if native_reject fq cl var then SReject else SAccept fq help (sort_lp cl) var.

(* labels of a metric written through wrappers adding [added] (all layers, innermost first) *)
Definition all_added (ly : list layer) : labels := flat_map snd ly.
Definition all_prefix (ly : list layer) : str := fold_left (fun acc l => fst l ++ acc) ly [].
Definition spec_labels (orig added : labels) : labels :=
  if is_nil added then orig else sort_lp (orig ++ added).

(* boolean checkers used on the implementation's output *)
Fixpoint sorted_lp (l : labels) : bool :=
  match l with
  | [] => true
  | x :: r => match r with [] => true | y :: _ => str_leb (fst x) (fst y) && sorted_lp r end
  end.
Definition lp_eqb (a b : lp) : bool := str_eqb (fst a) (fst b) && str_eqb (snd a) (snd b).
Fixpoint labels_eqb (a b : labels) : bool :=
  match a, b with
  | [], [] => true
  | x :: a', y :: b' => lp_eqb x y && labels_eqb a' b'
  | _, _ => false
  end.
Fixpoint remove_one (x : lp) (l : labels) : option labels :=
  match l with
  | [] => None
  | y :: r => if lp_eqb x y then Some r else option_map (cons y) (remove_one x r)
  end.
Fixpoint is_perm (a b : labels) : bool :=
  match a with
  | [] => is_nil b
  | x :: a' => match remove_one x b with Some b' => is_perm a' b' | None => false end
  end.
(* out is "orig plus added, sorted" (unchanged when nothing is added) *)
Definition labels_ok (orig added out : labels) : bool :=
  if is_nil added then labels_eqb orig out else sorted_lp out && is_perm (orig ++ added) out.

Fixpoint nodup_str (l : list str) : bool :=
  match l with [] => true | x :: r => negb (str_in x r) && nodup_str r end.
