(* Model/Gather.v -- C09: executable model of Registry.Gather's metric processing
   (prometheus/registry.go processMetric, checkSuffixCollisions, checkMetricConsistency,
   checkDescConsistency, Gatherers.Gather; prometheus/internal/metric.go NormalizeMetricFamilies),
   followed by a separate, simpler executable SPECIFICATION (valid_result and friends).
   Definitions only; proofs are in Proofs/C09_proofs.v.

   Abstractions (see checks/C09.json):
   * a dto.Metric is the record [dmetric]: label pairs (name, value byte strings), which payloads
     are non-nil, optional timestamp, and one integer [d_val] standing for the numeric payload
     (identity of the sample; never inspected by the code under study);
   * the Go maps metricFamiliesByName / metricHashes are association lists / lists;
   * the xxhash of the serialised (name, sorted labels, timestamp) is replaced by the serialised
     byte string itself ([metric_key]); hash collision freedom is an assumption;
   * the concurrent collection only decides the ARRIVAL ORDER of the metrics at processMetric;
     Gather = run of process_metric over that order. *)
From Coq Require Import ZArith List Bool.
From Verif Require Import Base.Str.
Import ListNotations.
Open Scope Z_scope.

(* ---------- data ---------- *)
Definition label := (str * str)%type.

Record dmetric := mkD {
  d_labels : list label;
  d_gauge : bool; d_counter : bool; d_summary : bool; d_untyped : bool; d_hist : bool;
  d_ts : option Z;
  d_val : Z }.

Record family := mkF { f_name : str; f_help : str; f_type : Z; f_metrics : list dmetric }.

(* prometheus.Desc as far as Gather looks at it *)
Record desc := mkDesc {
  ds_err : bool; ds_name : str; ds_help : str; ds_id : Z;
  ds_const : list label; ds_vars : list str }.

(* one metric sent by a collector: from a checked or unchecked collector, its Desc, whether Write fails,
   and what Write puts into the dto.Metric *)
Record emitted := mkE { e_checked : bool; e_desc : desc; e_write_err : bool; e_dto : dmetric }.

(* dto.MetricType *)
Definition ty_counter : Z := 0.
Definition ty_gauge : Z := 1.
Definition ty_summary : Z := 2.
Definition ty_untyped : Z := 3.
Definition ty_histogram : Z := 4.

(* error kinds (the Go driver classifies error values / messages into the same enum) *)
Definition e_desc_err : Z := 1.       (* desc.err *)
Definition e_write : Z := 2.          (* "error collecting metric" *)
Definition e_help : Z := 3.           (* "has help ... but should have" *)
Definition e_should_be : Z := 4.      (* "should be a Counter/Gauge/..." *)
Definition e_empty : Z := 5.          (* "empty metric collected" *)
Definition e_suffix : Z := 6.         (* "collides with previously collected" *)
Definition e_not_a : Z := 7.          (* "is not a <TYPE>" *)
Definition e_dup_label : Z := 8.      (* "has two or more labels with the same name" *)
Definition e_bad_label : Z := 9.      (* "has a label with an invalid name" *)
Definition e_quantile : Z := 10.      (* explicit quantile label on a summary *)
Definition e_le : Z := 11.            (* explicit le label on a histogram *)
Definition e_non_utf8 : Z := 12.      (* "whose value is not utf8" *)
Definition e_dup_metric : Z := 13.    (* "was collected before with the same name and label values" *)
Definition e_unregistered : Z := 14.  (* "with unregistered descriptor" *)
Definition e_desc_labels : Z := 16.   (* "are inconsistent with descriptor" *)
Definition e_g_help : Z := 17.        (* Gatherers: "gathered metric family ... has help" *)
Definition e_g_type : Z := 18.        (* Gatherers: "gathered metric family ... has type" *)
Definition e_panic : Z := 90.         (* "encountered MetricFamily with invalid type" (panic) *)

(* ---------- Go library functions re-implemented ---------- *)
Definition in_rng (lo hi c : Z) : bool := (lo <=? c) && (c <=? hi).
Definition cont (c : Z) : bool := in_rng 128 191 c.

(* unicode/utf8.ValidString: well-formed UTF-8 (no overlongs, no surrogates, <= U+10FFFF) *)
Fixpoint utf8_valid (s : str) : bool :=
  match s with
  | [] => true
  | c :: r =>
    if in_rng 0 127 c then utf8_valid r
    else if in_rng 194 223 c then
      match r with c1 :: r1 => cont c1 && utf8_valid r1 | _ => false end
    else if in_rng 224 239 c then
      match r with
      | c1 :: c2 :: r2 =>
          (if c =? 224 then in_rng 160 191 c1 else if c =? 237 then in_rng 128 159 c1 else cont c1)
          && cont c2 && utf8_valid r2
      | _ => false
      end
    else if in_rng 240 244 c then
      match r with
      | c1 :: c2 :: c3 :: r3 =>
          (if c =? 240 then in_rng 144 191 c1 else if c =? 244 then in_rng 128 143 c1 else cont c1)
          && cont c2 && cont c3 && utf8_valid r3
      | _ => false
      end
    else false
  end.

Definition is_alpha_us (b : Z) : bool := in_rng 97 122 b || in_rng 65 90 b || (b =? 95).
Definition is_digit (b : Z) : bool := in_rng 48 57 b.

(* model.LabelName.IsValidLegacy *)
Definition label_name_legacy (l : str) : bool :=
  match l with
  | [] => false
  | c :: r => is_alpha_us c && forallb (fun b => is_alpha_us b || is_digit b) r
  end.

(* model.LabelName.IsValid: [lg] = true for model.LegacyValidation, false for UTF8Validation (the default) *)
Definition label_name_is_valid (lg : bool) (l : str) : bool :=
  match l with
  | [] => false
  | _ => if lg then label_name_legacy l else utf8_valid l
  end.

Definition reserved_prefix : str := [95; 95].            (* "__" *)
Definition quantile_label : str := [113; 117; 97; 110; 116; 105; 108; 101].   (* "quantile" *)
Definition bucket_label : str := [108; 101].             (* "le" *)
Definition suf_count : str := [95; 99; 111; 117; 110; 116].   (* "_count" *)
Definition suf_sum : str := [95; 115; 117; 109].   (* "_sum" *)
Definition suf_bucket : str := [95; 98; 117; 99; 107; 101; 116].   (* "_bucket" *)
Definition sep : Z := 255.

(* prometheus/labels.go checkLabelName *)
Definition check_label_name (lg : bool) (l : str) : bool :=
  label_name_is_valid lg l && negb (has_prefix l reserved_prefix).

(* stable insertion sort; [ltb] is the Less function *)
Section Sort.
  Context {A : Type} (ltb : A -> A -> bool).
  Fixpoint insert (x : A) (l : list A) : list A :=
    match l with
    | [] => [x]
    | y :: r => if ltb y x then y :: insert x r else x :: y :: r
    end.
  Definition isort (l : list A) : list A := fold_right insert [] l.
  (* sort.IsSorted: no adjacent pair with Less(i+1, i) *)
  Fixpoint is_sorted (l : list A) : bool :=
    match l with
    | x :: ((y :: _) as r) => negb (ltb y x) && is_sorted r
    | _ => true
    end.
End Sort.

(* internal.LabelPairSorter.Less *)
Definition label_lt (a b : label) : bool := str_ltb (fst a) (fst b).

(* ---------- registry.go ---------- *)
Definition set_labels (m : dmetric) (ls : list label) : dmetric :=
  mkD ls (d_gauge m) (d_counter m) (d_summary m) (d_untyped m) (d_hist m) (d_ts m) (d_val m).

(* the switch on the new metric's payload in processMetric (order matters) *)
Definition first_type (m : dmetric) : option Z :=
  if d_gauge m then Some ty_gauge
  else if d_counter m then Some ty_counter
  else if d_summary m then Some ty_summary
  else if d_untyped m then Some ty_untyped
  else if d_hist m then Some ty_histogram
  else None.

(* payload demanded by a family type; None for a type outside the five *)
Definition payload_for (ty : Z) (m : dmetric) : option bool :=
  if ty =? ty_counter then Some (d_counter m)
  else if ty =? ty_gauge then Some (d_gauge m)
  else if ty =? ty_summary then Some (d_summary m)
  else if ty =? ty_untyped then Some (d_untyped m)
  else if ty =? ty_histogram then Some (d_hist m)
  else None.

Fixpoint find_fam (n : str) (fs : list family) : option family :=
  match fs with
  | [] => None
  | f :: r => if str_eqb (f_name f) n then Some f else find_fam n r
  end.

Definition has_fam (n : str) (fs : list family) : bool :=
  match find_fam n fs with Some _ => true | None => false end.

(* metricFamily.Metric = append(metricFamily.Metric, dtoMetric) on the map entry called n *)
Fixpoint add_metric (n : str) (m : dmetric) (fs : list family) : list family :=
  match fs with
  | [] => []
  | f :: r => if str_eqb (f_name f) n
              then mkF (f_name f) (f_help f) (f_type f) (f_metrics f ++ [m]) :: r
              else f :: add_metric n m r
  end.

Definition strip (s suf : str) : str := firstn (length s - length suf) s.

(* checkSuffixCollisions, first switch: newNameWithoutSuffix ("" when there is no magic suffix) *)
Definition name_without_suffix (n : str) : str :=
  if has_suffix n suf_count then strip n suf_count
  else if has_suffix n suf_sum then strip n suf_sum
  else if has_suffix n suf_bucket then strip n suf_bucket
  else [].

(* checkSuffixCollisions, "if newNameWithoutSuffix != """ block *)
Definition suffix_first (new_name : str) (fs : list family) : option Z :=
  match name_without_suffix new_name with
  | [] => None
  | w => match find_fam w fs with
         | Some ex =>
             if f_type ex =? ty_summary then
               (if negb (has_suffix new_name suf_bucket) then Some e_suffix else None)
             else if f_type ex =? ty_histogram then Some e_suffix
             else None
         | None => None
         end
  end.

(* checkSuffixCollisions *)
Definition check_suffix_collisions (new_name : str) (new_type : Z) (fs : list family) : option Z :=
  match suffix_first new_name fs with
  | Some e => Some e
  | None =>
    if ((new_type =? ty_summary) || (new_type =? ty_histogram)) && has_fam (new_name ++ suf_count) fs then Some e_suffix
    else if ((new_type =? ty_summary) || (new_type =? ty_histogram)) && has_fam (new_name ++ suf_sum) fs then Some e_suffix
    else if (new_type =? ty_histogram) && has_fam (new_name ++ suf_bucket) fs then Some e_suffix
    else None
  end.

(* the label loop of checkMetricConsistency; [seen] is labelNamesSeen *)
Fixpoint check_labels (lg is_sum is_hist : bool) (seen : list str) (ls : list label) : option Z :=
  match ls with
  | [] => None
  | (n, v) :: r =>
      if str_in n seen then Some e_dup_label
      else if negb (check_label_name lg n) then Some e_bad_label
      else if is_sum && str_eqb n quantile_label then Some e_quantile
      else if is_hist && str_eqb n bucket_label then Some e_le
      else if negb (utf8_valid v) then Some e_non_utf8
      else check_labels lg is_sum is_hist (n :: seen) r
  end.

(* "if !sort.IsSorted(...) { copy; sort.Sort }" *)
Definition sort_labels (ls : list label) : list label :=
  if is_sorted label_lt ls then ls else isort label_lt ls.

(* the bytes fed to the hash: name SEP (labelname SEP labelvalue SEP)* [decimal timestamp SEP] *)
Definition metric_key (name : str) (m : dmetric) : str :=
  name ++ sep ::
  flat_map (fun l : label => fst l ++ sep :: snd l ++ [sep]) (d_labels m) ++
  match d_ts m with Some t => decimal t ++ [sep] | None => [] end.

(* checkMetricConsistency: inl error, or inr (metric with sorted labels, metricHashes with the new key) *)
Definition check_metric_consistency (lg : bool) (fname : str) (ftype : Z) (m : dmetric) (keys : list str)
  : Z + (dmetric * list str) :=
  if match payload_for ftype m with Some false => true | _ => false end then inl e_not_a
  else match check_labels lg (d_summary m) (d_hist m) [] (d_labels m) with
       | Some e => inl e
       | None =>
           let m' := set_labels m (sort_labels (d_labels m)) in
           let k := metric_key fname m' in
           if str_in k keys then inl e_dup_metric else inr (m', k :: keys)
       end.

(* label pairs built from a Desc: constant ones carry a value, variable ones do not *)
Definition desc_lps (d : desc) : list (str * option str) :=
  map (fun l : label => (fst l, Some (snd l))) (ds_const d) ++ map (fun n => (n, None)) (ds_vars d).

Fixpoint lps_match (ds : list (str * option str)) (ls : list label) : bool :=
  match ds, ls with
  | [], _ => true
  | (n, ov) :: ds', (n', v') :: ls' =>
      str_eqb n n' && match ov with Some v => str_eqb v v' | None => true end && lps_match ds' ls'
  | _ :: _, [] => false
  end.

(* checkDescConsistency (m already has sorted labels) *)
Definition check_desc_consistency (fhelp : str) (m : dmetric) (d : desc) : option Z :=
  if negb (str_eqb fhelp (ds_help d)) then Some e_help
  else
    let lps := desc_lps d in
    if negb (Nat.eqb (length lps) (length (d_labels m))) then Some e_desc_labels
    else if lps_match (isort (fun a b => str_ltb (fst a) (fst b)) lps) (d_labels m) then None
    else Some e_desc_labels.

Definition z_in (x : Z) (l : list Z) : bool := existsb (Z.eqb x) l.

Definition gstate := (list family * list str)%type.   (* metricFamiliesByName, metricHashes *)

(* the part of processMetric after the family has been found or created: [fs] already contains the family *)
Definition finish_metric (lg : bool) (reg : option (list Z)) (d : desc) (fname fhelp : str) (ftype : Z)
           (m : dmetric) (fs : list family) (keys : list str) : gstate * option Z :=
  match check_metric_consistency lg fname ftype m keys with
  | inl e => ((fs, keys), Some e)
  | inr (m', keys') =>
      match reg with
      | Some ids =>
          if negb (z_in (ds_id d) ids) then ((fs, keys'), Some e_unregistered)
          else match check_desc_consistency fhelp m' d with
               | Some e => ((fs, keys'), Some e)
               | None => ((add_metric fname m' fs, keys'), None)
               end
      | None => ((add_metric fname m' fs, keys'), None)
      end
  end.

(* processMetric; [reg] = registeredDescIDs (None = nil: unchecked collector or no pedantic checks) *)
Definition process_metric (lg : bool) (reg : option (list Z)) (e : emitted) (st : gstate) : gstate * option Z :=
  let d := e_desc e in
  let m := e_dto e in
  let (fs, keys) := st in
  if ds_err d then (st, Some e_desc_err)
  else if e_write_err e then (st, Some e_write)
  else
    match find_fam (ds_name d) fs with
    | Some mf =>
        if negb (str_eqb (f_help mf) (ds_help d)) then (st, Some e_help)
        else match payload_for (f_type mf) m with
             | None => (st, Some e_panic)
             | Some false => (st, Some e_should_be)
             | Some true => finish_metric lg reg d (f_name mf) (f_help mf) (f_type mf) m fs keys
             end
    | None =>
        match first_type m with
        | None => (st, Some e_empty)
        | Some ty =>
            match check_suffix_collisions (ds_name d) ty fs with
            | Some err => (st, Some err)
            | None => finish_metric lg reg d (ds_name d) (ds_help d) ty m
                                    (fs ++ [mkF (ds_name d) (ds_help d) ty []]) keys
            end
        end
    end.

Definition opt_list {A} (o : option A) : list A := match o with Some x => [x] | None => [] end.

(* which registeredDescIDs a metric is processed with *)
Definition reg_for (pedantic : bool) (ids : list Z) (e : emitted) : option (list Z) :=
  if pedantic && e_checked e then Some ids else None.

(* the collect loop of Gather over one arrival order *)
Fixpoint run (lg pedantic : bool) (ids : list Z) (arrivals : list emitted) (st : gstate) : gstate * list Z :=
  match arrivals with
  | [] => (st, [])
  | e :: r =>
      let (st', o) := process_metric lg (reg_for pedantic ids e) e st in
      let (st'', errs) := run lg pedantic ids r st' in
      (st'', opt_list o ++ errs)
  end.

(* ---------- internal/metric.go ---------- *)
(* one step of the loop over the label pairs: names first, then values; None = this position does not decide *)
Definition elt_lt (p q : label) : option bool :=
  if negb (str_eqb (fst p) (fst q)) then Some (str_ltb (fst p) (fst q))
  else if negb (str_eqb (snd p) (snd q)) then Some (str_ltb (snd p) (snd q))
  else None.

Fixpoint labels_lt (a b : list label) : option bool :=   (* the loop over the label pairs *)
  match a, b with
  | p :: a', q :: b' => match elt_lt p q with Some r => Some r | None => labels_lt a' b' end
  | _, _ => None
  end.

(* the timestamp tie-break: missing timestamps last *)
Definition ts_lt (a b : option Z) : bool :=
  match a, b with
  | None, _ => false
  | Some _, None => true
  | Some x, Some y => x <? y
  end.

(* MetricSorter.Less *)
Definition metric_lt (a b : dmetric) : bool :=
  if negb (Nat.eqb (length (d_labels a)) (length (d_labels b)))
  then Nat.ltb (length (d_labels a)) (length (d_labels b))
  else match labels_lt (d_labels a) (d_labels b) with
       | Some r => r
       | None => ts_lt (d_ts a) (d_ts b)
       end.

Definition fam_lt (a b : family) : bool := str_ltb (f_name a) (f_name b).

Definition sort_metrics (f : family) : family :=
  mkF (f_name f) (f_help f) (f_type f) (isort metric_lt (f_metrics f)).

Definition nonempty (f : family) : bool := match f_metrics f with [] => false | _ => true end.

(* NormalizeMetricFamilies *)
Definition normalize (fs : list family) : list family :=
  isort fam_lt (filter nonempty (map sort_metrics fs)).

(* Registry.Gather for one arrival order *)
Definition gather (lg pedantic : bool) (ids : list Z) (arrivals : list emitted) : list family * list Z :=
  let (st, errs) := run lg pedantic ids arrivals ([], []) in
  (normalize (fst st), errs).

(* ---------- Gatherers.Gather ---------- *)
Fixpoint merge_metrics (lg : bool) (fname : str) (ftype : Z) (ms : list dmetric) (st : gstate) : gstate * list Z :=
  match ms with
  | [] => (st, [])
  | m :: r =>
      match check_metric_consistency lg fname ftype m (snd st) with
      | inl e => let (st', errs) := merge_metrics lg fname ftype r st in (st', e :: errs)
      | inr (m', keys') => merge_metrics lg fname ftype r (add_metric fname m' (fst st), keys')
      end
  end.

Definition merge_family (lg : bool) (mf : family) (st : gstate) : gstate * list Z :=
  match find_fam (f_name mf) (fst st) with
  | Some ex =>
      if negb (str_eqb (f_help ex) (f_help mf)) then (st, [e_g_help])
      else if negb (f_type ex =? f_type mf) then (st, [e_g_type])
      else merge_metrics lg (f_name ex) (f_type ex) (f_metrics mf) st
  | None =>
      match check_suffix_collisions (f_name mf) (f_type mf) (fst st) with
      | Some e => (st, [e])
      | None => merge_metrics lg (f_name mf) (f_type mf) (f_metrics mf)
                              (fst st ++ [mkF (f_name mf) (f_help mf) (f_type mf) []], snd st)
      end
  end.

Fixpoint merge_families (lg : bool) (mfs : list family) (st : gstate) : gstate * list Z :=
  match mfs with
  | [] => (st, [])
  | mf :: r =>
      let (st', e1) := merge_family lg mf st in
      let (st'', e2) := merge_families lg r st' in
      (st'', e1 ++ e2)
  end.

(* one Gatherer's answer: its families and the kinds of its errors *)
Fixpoint merge_gatherers (lg : bool) (gs : list (list family * list Z)) (st : gstate) : gstate * list Z :=
  match gs with
  | [] => (st, [])
  | (mfs, gerrs) :: r =>
      let (st', e1) := merge_families lg mfs st in
      let (st'', e2) := merge_gatherers lg r st' in
      (st'', gerrs ++ e1 ++ e2)
  end.

Definition gatherers_gather (lg : bool) (gs : list (list family * list Z)) : list family * list Z :=
  let (st, errs) := merge_gatherers lg gs ([], []) in
  (normalize (fst st), errs).

(* ====================================================================== *)
(* SPECIFICATION: what the property text demands of a result.             *)
(* ====================================================================== *)

(* strictly increasing = sorted and unique *)
Fixpoint strictly_sorted (l : list str) : bool :=
  match l with
  | x :: ((y :: _) as r) => str_ltb x y && strictly_sorted r
  | _ => true
  end.

(* the metric carries the payload of its family's type *)
Definition type_matches (ty : Z) (m : dmetric) : bool :=
  match payload_for ty m with Some b => b | None => false end.

(* a syntactically valid, non-reserved label name *)
Definition label_name_ok (lg : bool) (n : str) : bool :=
  match n with
  | [] => false
  | _ => (if lg then label_name_legacy n else utf8_valid n) && negb (has_prefix n [95; 95])
  end.

Definition metric_ok (lg : bool) (ty : Z) (m : dmetric) : bool :=
  type_matches ty m &&
  strictly_sorted (map fst (d_labels m)) &&
  forallb (fun l : label => label_name_ok lg (fst l) && utf8_valid (snd l)) (d_labels m) &&
  negb ((ty =? ty_summary) && str_in quantile_label (map fst (d_labels m))) &&
  negb ((ty =? ty_histogram) && str_in bucket_label (map fst (d_labels m))).

(* identity of a series: (family name, label set, timestamp) *)
Definition series := (str * list label * option Z)%type.

Definition all_metrics (fs : list family) : list (str * dmetric) :=
  flat_map (fun f => map (fun m => (f_name f, m)) (f_metrics f)) fs.

Definition series_of (nm : str * dmetric) : series := (fst nm, d_labels (snd nm), d_ts (snd nm)).

Fixpoint labels_eqb (a b : list label) : bool :=
  match a, b with
  | [], [] => true
  | (n, v) :: a', (n', v') :: b' => str_eqb n n' && str_eqb v v' && labels_eqb a' b'
  | _, _ => false
  end.

Definition optz_eqb (a b : option Z) : bool :=
  match a, b with
  | None, None => true
  | Some x, Some y => x =? y
  | _, _ => false
  end.

Definition series_eqb (a b : series) : bool :=
  let '(n, l, t) := a in let '(n', l', t') := b in
  str_eqb n n' && labels_eqb l l' && optz_eqb t t'.

Fixpoint distinct {A} (eqb : A -> A -> bool) (l : list A) : bool :=
  match l with
  | [] => true
  | x :: r => negb (existsb (eqb x) r) && distinct eqb r
  end.

(* no family is named like a derived series of a summary / histogram in the same result *)
Definition no_suffix_collisions (fs : list family) : bool :=
  let names := map f_name fs in
  forallb (fun f =>
    (if (f_type f =? ty_summary) || (f_type f =? ty_histogram)
     then negb (str_in (f_name f ++ suf_count) names) && negb (str_in (f_name f ++ suf_sum) names) else true) &&
    (if f_type f =? ty_histogram then negb (str_in (f_name f ++ suf_bucket) names) else true)) fs.

Definition valid_result (lg : bool) (fs : list family) : bool :=
  strictly_sorted (map f_name fs) &&
  forallb (fun f => forallb (metric_ok lg (f_type f)) (f_metrics f)) fs &&
  distinct series_eqb (map series_of (all_metrics fs)) &&
  no_suffix_collisions fs.

(* model.IsValidMetricName: non-empty and, legacy scheme, [a-zA-Z_:][a-zA-Z0-9_:]*, UTF-8 scheme, valid UTF-8 *)
Definition metric_name_ok (lg : bool) (n : str) : bool :=
  match n with
  | [] => false
  | c :: r => if lg then (is_alpha_us c || (c =? 58)) && forallb (fun b => is_alpha_us b || is_digit b || (b =? 58)) r
              else utf8_valid n
  end.

(* every family carries a valid metric name (otherwise the encodings are not parseable) *)
Definition family_names_ok (lg : bool) (fs : list family) : bool := forallb (fun f => metric_name_ok lg (f_name f)) fs.

(* final normalisation: inside every family the metrics are sorted by (labels, timestamp) -- sort.IsSorted(MetricSorter) *)
Definition metrics_sorted (fs : list family) : bool := forallb (fun f => is_sorted metric_lt (f_metrics f)) fs.

(* final normalisation: no empty family is returned *)
Definition no_empty_family (fs : list family) : bool := forallb nonempty fs.

(* what an accepted metric looks like in the result: its Desc's name, labels sorted *)
Definition emitted_as (e : emitted) : str * dmetric :=
  (ds_name (e_desc e), set_labels (e_dto e) (isort label_lt (d_labels (e_dto e)))).

Definition dmetric_eqb (a b : dmetric) : bool :=
  labels_eqb (d_labels a) (d_labels b) && Bool.eqb (d_gauge a) (d_gauge b) && Bool.eqb (d_counter a) (d_counter b) &&
  Bool.eqb (d_summary a) (d_summary b) && Bool.eqb (d_untyped a) (d_untyped b) && Bool.eqb (d_hist a) (d_hist b) &&
  optz_eqb (d_ts a) (d_ts b) && (d_val a =? d_val b).

Definition nm_eqb (a b : str * dmetric) : bool := str_eqb (fst a) (fst b) && dmetric_eqb (snd a) (snd b).

Fixpoint remove_first {A} (eqb : A -> A -> bool) (x : A) (l : list A) : option (list A) :=
  match l with
  | [] => None
  | y :: r => if eqb x y then Some r
              else match remove_first eqb x r with Some r' => Some (y :: r') | None => None end
  end.

(* multiset inclusion: every element of a (with multiplicity) is in b; returns what is left of b *)
Fixpoint sub_multiset {A} (eqb : A -> A -> bool) (a b : list A) : option (list A) :=
  match a with
  | [] => Some b
  | x :: r => match remove_first eqb x b with Some b' => sub_multiset eqb r b' | None => None end
  end.

(* complete-or-reported: the result consists of emitted metrics, each at most once, and every emitted metric
   that is missing is paid for by one error *)
Definition complete_or_reported (arrivals : list emitted) (fs : list family) (nerrs : nat) : bool :=
  match sub_multiset nm_eqb (all_metrics fs) (map emitted_as arrivals) with
  | Some rest => Nat.eqb (length rest) nerrs
  | None => false
  end.
