(* Model/VecConc.v -- the metric vector as a step machine of Base/Conc.v (one step = one critical section
   of metricMap), its sequential specification in the shape the history checkers of
   Model/CounterGauge.v expect, and the real-time linearizability checker instance.
   Executable definitions only. *)
From Coq Require Import ZArith List Bool.
From Verif Require Import Base.Str Base.Conc Model.CounterGauge Model.Vec.
Import ListNotations.
Open Scope Z_scope.

(* local state of a call in progress: the request and whether its read-locked probe already missed *)
Definition vec_local := (creq * bool)%type.

(* every call executes at least one critical section *)
Definition vec_start (q : creq) : vec_local + result := inl (q, false).

(* one critical section (never blocked: sections are atomic, the lock is free between them) *)
Definition vec_step (H : values -> Z) (st : mstate) (l : vec_local) : option (mstate * (vec_local + result)) :=
  let '(q, pending) := l in
  Some
    match q with
    | QGet t =>
        if pending then
          let '(id, st') := sec_create (H t) (vals_eqb t) t st in (st', inr (RId id))
        else
          match probe (H t) (vals_eqb t) st with
          | Some id => (st, inr (RId id))
          | None => (st, inl (q, true))
          end
    | QDel t => let '(b, st') := delete_by_hash (H t) (vals_eqb t) st in (st', inr (RBool b))
    | QPartial p => let '(n, st') := delete_partial p st in (st', inr (RNum n))
    | QReset => (reset st, inr RUnit)
    | QCollect => (st, inr (RColl (collect st)))   (* one read-locked section *)
    end.

Definition vec_machine (H : values -> Z) : Conc.machine :=
  Conc.mkMachine mstate vec_local creq result vec_start (vec_step H) (fun _ => []).

(* the sequential specification: the plain map keyed by the full tuple *)
Definition to_result (x : sres) : result :=
  match x with
  | SId a => RId a
  | SBool b => RBool b
  | SNum n => RNum n
  | SUnit => RUnit
  | SFail => RErr 0 false
  | SColl l => RColl l
  | SView => RView
  end.

Definition vec_spec_step (s : sworld) (q : creq) : sworld * result :=
  let '(x, s') := sreq s q in (s', to_result x).

Definition cres_eqb (a b : result) : bool :=
  match a, b with
  | RId x, RId y => Nat.eqb x y
  | RBool x, RBool y => Bool.eqb x y
  | RNum x, RNum y => x =? y
  | RUnit, RUnit => true
  | RColl x, RColl y => entries_eqb x y
  | _, _ => false
  end.

(* real-time linearizability of a history of complete calls (each with invocation and response time):
   is there an order of the calls that (1) never puts a call after one that was invoked only after it
   had returned, and (2) replayed on the plain map returns exactly the observed results? *)
Definition vec_lin_check (H : values -> Z) (h : list (Conc.call (vec_machine H))) : bool :=
  @lin_check (vec_machine H) sworld vec_spec_step cres_eqb init_sworld_c h.
