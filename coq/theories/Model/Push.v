(* Model/Push.v -- C15: prometheus/push/push.go.
   Part 1: a faithful executable transcription of the anchored Go code (New, the builder
   methods, fullURL, encodeComponent, push, Delete) over byte strings (list Z).
   Part 2: an independent, much simpler SPECIFICATION: the Pushgateway-side decoder of the
   property statement and boolean checkers of what a call may be observed to do.
   Definitions only; proofs are in Proofs/C15_proofs.v. *)
From Coq Require Import Strings.String.
From Coq Require Import ZArith List Bool.
From Verif Require Import Base.Str.
Import ListNotations.
Open Scope Z_scope.

(* ------------------------------------------------------------------------------------ *)
(* string helpers                                                                         *)
(* ------------------------------------------------------------------------------------ *)
Definition is_byte (c : Z) : bool := (0 <=? c) && (c <? 256).
Definition bytesb (s : str) : bool := forallb is_byte s.
Definition is_nil {A} (l : list A) : bool := match l with [] => true | _ => false end.

Fixpoint strip_prefix (p s : str) : option str :=
  match p, s with
  | [], _ => Some s
  | y :: p', x :: s' => if x =? y then strip_prefix p' s' else None
  | _ :: _, [] => None
  end.

(* strings.Contains(s, sub) *)
Fixpoint contains_sub (sub s : str) : bool :=
  match strip_prefix sub s with
  | Some _ => true
  | None => match s with [] => false | _ :: r => contains_sub sub r end
  end.

Definition contains_byte (c : Z) (s : str) : bool := existsb (Z.eqb c) s.

(* strings.TrimSuffix(s, suf) *)
Definition trim_suffix (s suf : str) : str :=
  match strip_prefix (rev suf) (rev s) with Some r => rev r | None => s end.

(* strings.Join(segs, "/") and strings.Split(s, "/") *)
Fixpoint join47 (segs : list str) : str :=
  match segs with
  | [] => []
  | a :: r => match r with [] => a | _ :: _ => a ++ 47 :: join47 r end
  end.

Fixpoint split47 (l : str) : list str :=
  match l with
  | [] => [[]]
  | c :: r => if c =? 47 then [] :: split47 r
              else match split47 r with h :: t => (c :: h) :: t | [] => [[c]] end
  end.

(* constants (checked against their string literals in Proofs/C15_proofs.v) *)
Definition s_job : str := [106; 111; 98].                                   (* "job" *)
Definition s_b64suffix : str := [64; 98; 97; 115; 101; 54; 52].             (* "@base64" *)
Definition s_metrics : str := [47; 109; 101; 116; 114; 105; 99; 115; 47].   (* "/metrics/" *)
Definition s_scheme_sep : str := [58; 47; 47].                              (* "://" *)
Definition s_http : str := [104; 116; 116; 112; 58; 47; 47].                (* "http://" *)
Definition s_basic : str := [66; 97; 115; 105; 99; 32].                     (* "Basic " *)
Definition s_content_type : str := [67; 111; 110; 116; 101; 110; 116; 45; 84; 121; 112; 101].
Definition s_authorization : str := [65; 117; 116; 104; 111; 114; 105; 122; 97; 116; 105; 111; 110].
(* string(expfmt.NewFormat(expfmt.TypeProtoDelim)) *)
Definition default_fmt : str :=
  of_string "application/vnd.google.protobuf; proto=io.prometheus.client.MetricFamily; encoding=delimited"%string.

(* ------------------------------------------------------------------------------------ *)
(* url.QueryEscape, byte level                                                            *)
(* ------------------------------------------------------------------------------------ *)
Definition is_alnum (c : Z) : bool :=
  ((48 <=? c) && (c <=? 57)) || ((65 <=? c) && (c <=? 90)) || ((97 <=? c) && (c <=? 122)).
(* shouldEscape(c, encodeQueryComponent) = false exactly for these *)
Definition qe_unreserved (c : Z) : bool :=
  is_alnum c || (c =? 45) || (c =? 95) || (c =? 46) || (c =? 126).
(* "0123456789ABCDEF"[v] *)
Definition hex_digit (v : Z) : Z := if v <? 10 then 48 + v else 55 + v.
Definition qe_byte (c : Z) : str :=
  if qe_unreserved c then [c]
  else if c =? 32 then [43]
  else [37; hex_digit (c / 16); hex_digit (c mod 16)].
Definition query_escape (s : str) : str := flat_map qe_byte s.
(* strings.ReplaceAll(s, "+", "%20") *)
Definition replace_plus (s : str) : str :=
  flat_map (fun c => if c =? 43 then [37; 50; 48] else [c]) s.

(* ------------------------------------------------------------------------------------ *)
(* encoding/base64                                                                        *)
(* ------------------------------------------------------------------------------------ *)
(* sextet -> character; c62/c63 distinguish the URL and the standard alphabet *)
Definition b64_char (c62 c63 v : Z) : Z :=
  if v <? 26 then 65 + v
  else if v <? 52 then 71 + v       (* 97 + (v - 26) *)
  else if v <? 62 then v - 4        (* 48 + (v - 52) *)
  else if v =? 62 then c62 else c63.

(* bytes -> sextets, three bytes at a time; a trailing group of one / two bytes gives two / three sextets *)
Fixpoint b64_sextets (s : str) : list Z :=
  match s with
  | [] => []
  | a :: r1 =>
    match r1 with
    | [] => [a / 4; (a mod 4) * 16]
    | b :: r2 =>
      match r2 with
      | [] => [a / 4; (a mod 4) * 16 + b / 16; (b mod 16) * 4]
      | c :: r3 => a / 4 :: (a mod 4) * 16 + b / 16 :: (b mod 16) * 4 + c / 64 :: c mod 64 :: b64_sextets r3
      end
    end
  end.

(* base64.RawURLEncoding.EncodeToString *)
Definition b64url_encode (s : str) : str := map (b64_char 45 95) (b64_sextets s).
(* base64.StdEncoding.EncodeToString (with '=' padding), used by SetBasicAuth *)
Definition b64std_encode (s : str) : str :=
  let body := map (b64_char 43 47) (b64_sextets s) in
  match Z.of_nat (length s) mod 3 with
  | 1 => body ++ [61; 61]
  | 2 => body ++ [61]
  | _ => body
  end.

(* ------------------------------------------------------------------------------------ *)
(* encodeComponent / fullURL                                                              *)
(* ------------------------------------------------------------------------------------ *)
Definition encode_component (s : str) : str * bool :=
  if is_nil s then ([61], true)
  else if contains_byte 47 s then (b64url_encode s, true)
  else (replace_plus (query_escape s), false).

(* the two path components contributed by one (name, value) *)
Definition component_pair (name value : str) : str * str :=
  let (e, b64) := encode_component value in
  if b64 then (name ++ s_b64suffix, e) else (name, e).

Fixpoint flatten_pairs (l : list (str * str)) : list str :=
  match l with [] => [] | (a, b) :: r => a :: b :: flatten_pairs r end.

(* the part of the URL after ".../metrics/": job first, then the grouping map in the iteration
   order `order` (Go map iteration order is unspecified: every theorem quantifies over it) *)
Definition key_path (job : str) (order : list (str * str)) : str :=
  join47 (flatten_pairs (component_pair s_job job :: map (fun nv => component_pair (fst nv) (snd nv)) order)).

(* ------------------------------------------------------------------------------------ *)
(* utf8.ValidString (model.LabelName.IsValid under the default UTF8Validation scheme)      *)
(* ------------------------------------------------------------------------------------ *)
Definition in_rng (lo hi c : Z) : bool := (lo <=? c) && (c <=? hi).
Fixpoint utf8_valid (s : str) : bool :=
  match s with
  | [] => true
  | c :: r =>
    if in_rng 0 127 c then utf8_valid r
    else match r with
    | [] => false
    | c1 :: r1 =>
      if in_rng 194 223 c then in_rng 128 191 c1 && utf8_valid r1
      else match r1 with
      | [] => false
      | c2 :: r2 =>
        if in_rng 224 239 c then
          (if c =? 224 then in_rng 160 191 c1 else if c =? 237 then in_rng 128 159 c1 else in_rng 128 191 c1)
          && in_rng 128 191 c2 && utf8_valid r2
        else match r2 with
        | [] => false
        | c3 :: r3 =>
          if in_rng 240 244 c then
            (if c =? 240 then in_rng 144 191 c1 else if c =? 244 then in_rng 128 143 c1 else in_rng 128 191 c1)
            && in_rng 128 191 c2 && in_rng 128 191 c3 && utf8_valid r3
          else false
        end
      end
    end
  end.

Definition label_name_valid (n : str) : bool := negb (is_nil n) && utf8_valid n.

(* ------------------------------------------------------------------------------------ *)
(* the Pusher                                                                             *)
(* ------------------------------------------------------------------------------------ *)
Inductive berr := EJobEmpty | EBadName (n : str) | ERegister.

Definition header := list (str * list str).   (* http.Header with canonical keys *)

Record pusher := mkP {
  p_err : option berr;               (* p.error *)
  p_url : str;
  p_job : str;
  p_grouping : list (str * str);     (* map[string]string: unique keys *)
  p_hdr : option header;             (* p.header, None = nil *)
  p_auth : option (str * str);       (* useBasicAuth, username, password *)
  p_fmt : str                        (* p.expfmt *)
}.

Definition set_err (p : pusher) (e : option berr) : pusher :=
  mkP e (p_url p) (p_job p) (p_grouping p) (p_hdr p) (p_auth p) (p_fmt p).
Definition set_grouping (p : pusher) (g : list (str * str)) : pusher :=
  mkP (p_err p) (p_url p) (p_job p) g (p_hdr p) (p_auth p) (p_fmt p).
Definition set_hdr (p : pusher) (h : option header) : pusher :=
  mkP (p_err p) (p_url p) (p_job p) (p_grouping p) h (p_auth p) (p_fmt p).
Definition set_auth (p : pusher) (a : option (str * str)) : pusher :=
  mkP (p_err p) (p_url p) (p_job p) (p_grouping p) (p_hdr p) a (p_fmt p).
Definition set_fmt (p : pusher) (f : str) : pusher :=
  mkP (p_err p) (p_url p) (p_job p) (p_grouping p) (p_hdr p) (p_auth p) f.

(* m[k] = v on an association list with unique keys *)
Fixpoint map_set {V} (k : str) (v : V) (m : list (str * V)) : list (str * V) :=
  match m with
  | [] => [(k, v)]
  | (k', v') :: r => if str_eqb k' k then (k, v) :: r else (k', v') :: map_set k v r
  end.
Fixpoint map_get {V} (k : str) (m : list (str * V)) : option V :=
  match m with
  | [] => None
  | (k', v') :: r => if str_eqb k' k then Some v' else map_get k r
  end.
Definition map_has {V} (k : str) (m : list (str * V)) : bool :=
  match map_get k m with Some _ => true | None => false end.

(* push.New *)
Definition new (url job : str) : pusher :=
  let err := if is_nil job then Some EJobEmpty else None in
  let url1 := if contains_sub s_scheme_sep url then url else s_http ++ url in
  mkP err (trim_suffix url1 [47]) job [] None None default_fmt.

(* builder methods. Collector: whether registerer.Register(c) fails is decided by the registry
   (properties C08/C09) and is an input here. Gatherer and Client do not touch the modelled state. *)
Inductive bop :=
| BGrouping (n v : str)
| BCollector (register_fails : bool)
| BNoop
| BHeader (h : option header)
| BBasicAuth (u pw : str)
| BFormat (f : str).

Definition apply_bop (p : pusher) (o : bop) : pusher :=
  match o with
  | BGrouping n v =>
      match p_err p with
      | None => if negb (label_name_valid n) then set_err p (Some (EBadName n))
                else set_grouping p (map_set n v (p_grouping p))
      | Some _ => p
      end
  | BCollector fails =>
      match p_err p with
      | None => if fails then set_err p (Some ERegister) else p
      | Some _ => p
      end
  | BNoop => p
  | BHeader h => set_hdr p h
  | BBasicAuth u pw => set_auth p (Some (u, pw))
  | BFormat f => set_fmt p f
  end.

Definition run_builder (p : pusher) (ops : list bop) : pusher := fold_left apply_bop ops p.

(* fullURL with the map iterated in `order` *)
Definition full_url_with (p : pusher) (order : list (str * str)) : str :=
  p_url p ++ s_metrics ++ key_path (p_job p) order.

(* ---- calls ---- *)
Inductive ckind := KPush | KAdd | KDelete.
Inductive transport := TStatus (s : Z) | TFail.
Definition metric := list (str * str).            (* label pairs *)
Definition family := (str * list metric)%type.
Record call := mkC {
  c_kind : ckind;
  c_gather : option (list family);   (* None: Gatherers.Gather returned an error *)
  c_tr : transport                   (* what client.Do does with the request *)
}.

(* COther: an error of any other kind (never produced by the model) *)
Inductive cerr := CNone | CBuilder (e : berr) | CGather | CJobLabel | CGroupLabel | CTransport | CStatus (s : Z) | COther.

Record request := mkR {
  r_method : Z;                        (* 0 PUT, 1 POST, 2 DELETE *)
  r_url : str;
  r_hdr : header;
  r_fams : option (list family)        (* the families encoded into the body; None: no body *)
}.
Record outcome := mkO { o_req : option request; o_err : cerr }.

(* the "pre-existing grouping labels" loops of push *)
Fixpoint check_labels (g : list (str * str)) (ls : metric) : option cerr :=
  match ls with
  | [] => None
  | (n, _) :: r => if str_eqb n s_job then Some CJobLabel
                   else if map_has n g then Some CGroupLabel else check_labels g r
  end.
Fixpoint check_metrics (g : list (str * str)) (ms : list metric) : option cerr :=
  match ms with
  | [] => None
  | m :: r => match check_labels g m with Some e => Some e | None => check_metrics g r end
  end.
Fixpoint check_families (g : list (str * str)) (fs : list family) : option cerr :=
  match fs with
  | [] => None
  | f :: r => match check_metrics g (snd f) with Some e => Some e | None => check_families g r end
  end.

(* req.SetBasicAuth *)
Definition basic_value (u pw : str) : str := s_basic ++ b64std_encode (u ++ 58 :: pw).

(* req.Header = p.header aliases the caller's map: the Set calls below are visible in p.header *)
Definition hdr_after_auth (p : pusher) : header :=
  let h0 := match p_hdr p with Some h => h | None => [] end in
  match p_auth p with Some (u, pw) => map_set s_authorization [basic_value u pw] h0 | None => h0 end.
Definition keep_alias (p : pusher) (h : header) : pusher :=
  match p_hdr p with Some _ => set_hdr p (Some h) | None => p end.

Definition method_of (k : ckind) : Z := match k with KPush => 0 | KAdd => 1 | KDelete => 2 end.

Definition do_call (p : pusher) (order : list (str * str)) (c : call) : pusher * outcome :=
  match p_err p with
  | Some e => (p, mkO None (CBuilder e))
  | None =>
    match c_kind c with
    | KDelete =>
        let h := hdr_after_auth p in
        (keep_alias p h,
         mkO (Some (mkR 2 (full_url_with p order) h None))
             (match c_tr c with
              | TFail => CTransport
              | TStatus s => if s =? 202 then CNone else CStatus s
              end))
    | k =>
        match c_gather c with
        | None => (p, mkO None CGather)
        | Some fs =>
          match check_families (p_grouping p) fs with
          | Some e => (p, mkO None e)
          | None =>
            let h := map_set s_content_type [p_fmt p] (hdr_after_auth p) in
            (keep_alias p h,
             mkO (Some (mkR (method_of k) (full_url_with p order) h (Some fs)))
                 (match c_tr c with
                  | TFail => CTransport
                  | TStatus s => if (s =? 200) || (s =? 202) then CNone else CStatus s
                  end))
          end
        end
    end
  end.

(* a Pusher's life: builder methods and calls in any interleaving *)
Inductive op := OB (b : bop) | OC (c : call).
Fixpoint run (p : pusher) (ops : list op) : pusher * list outcome :=
  match ops with
  | [] => (p, [])
  | OB b :: r => run (apply_bop p b) r
  | OC c :: r => let (p1, o) := do_call p (p_grouping p) c in
                 let (p2, os) := run p1 r in (p2, o :: os)
  end.

(* ==================================================================================== *)
(* SPECIFICATION                                                                         *)
(* ==================================================================================== *)

(* ---- the Pushgateway-side decoder of the property statement ---- *)
Definition hex_val (c : Z) : option Z :=
  if in_rng 48 57 c then Some (c - 48)
  else if in_rng 65 70 c then Some (c - 55)
  else if in_rng 97 102 c then Some (c - 87)
  else None.

(* percent-decoding of one path segment (url.PathUnescape): "%XY" -> byte, anything else literal, '+' stays '+' *)
Fixpoint pct_decode (l : str) : option str :=
  match l with
  | [] => Some []
  | c :: r =>
    if c =? 37 then
      match r with
      | h :: r1 =>
        match r1 with
        | lo :: r2 =>
          match hex_val h, hex_val lo, pct_decode r2 with
          | Some x, Some y, Some t => Some (16 * x + y :: t)
          | _, _, _ => None
          end
        | [] => None
        end
      | [] => None
      end
    else option_map (cons c) (pct_decode r)
  end.

Definition b64url_val (c : Z) : option Z :=
  if in_rng 65 90 c then Some (c - 65)
  else if in_rng 97 122 c then Some (c - 71)
  else if in_rng 48 57 c then Some (c + 4)
  else if c =? 45 then Some 62
  else if c =? 95 then Some 63
  else None.

Fixpoint mapM_opt {A B} (f : A -> option B) (l : list A) : option (list B) :=
  match l with
  | [] => Some []
  | x :: r => match f x, mapM_opt f r with Some y, Some ys => Some (y :: ys) | _, _ => None end
  end.

(* sextets -> bytes; a trailing group of 2 / 3 sextets gives 1 / 2 bytes (left-over bits ignored,
   as Go's non-strict decoder does); a single trailing sextet is corrupt *)
Fixpoint b64_bytes (l : list Z) : option str :=
  match l with
  | [] => Some []
  | a :: r1 =>
    match r1 with
    | [] => None
    | b :: r2 =>
      match r2 with
      | [] => Some [a * 4 + b / 16]
      | c :: r3 =>
        match r3 with
        | [] => Some [a * 4 + b / 16; (b mod 16) * 16 + c / 4]
        | d :: r4 => option_map (fun t => a * 4 + b / 16 :: (b mod 16) * 16 + c / 4 :: (c mod 4) * 64 + d :: t)
                                (b64_bytes r4)
        end
      end
    end
  end.

(* strings.TrimRight(s, "=") *)
Fixpoint trim_right_eq (l : str) : str :=
  match l with
  | [] => []
  | c :: r => let r' := trim_right_eq r in if (c =? 61) && is_nil r' then [] else c :: r'
  end.

(* the Pushgateway's decodeBase64: base64.RawURLEncoding.DecodeString(strings.TrimRight(s, "="));
   Go's decoder skips CR and LF *)
Definition b64url_decode (s : str) : option str :=
  match mapM_opt b64url_val (filter (fun c => negb ((c =? 10) || (c =? 13))) (trim_right_eq s)) with
  | Some sx => b64_bytes sx
  | None => None
  end.

(* name with / without the "@base64" suffix *)
Definition split_b64_suffix (n : str) : str * bool :=
  match strip_prefix (rev s_b64suffix) (rev n) with
  | Some r => (rev r, true)
  | None => (n, false)
  end.

Fixpoint decode_pairs (segs : list str) : option (list (str * str)) :=
  match segs with
  | [] => Some []
  | n :: r1 =>
    match r1 with
    | [] => None       (* odd number of components *)
    | v :: r =>
      match pct_decode n, pct_decode v with
      | Some n', Some v' =>
        let (name, is64) := split_b64_suffix n' in
        match (if is64 then b64url_decode v' else Some v'), decode_pairs r with
        | Some value, Some t => Some ((name, value) :: t)
        | _, _ => None
        end
      | _, _ => None
      end
    end
  end.

(* the grouping key carried by the part of the path after "/metrics/": the first label must be the job *)
Definition decode_key (rest : str) : option (str * list (str * str)) :=
  match decode_pairs (split47 rest) with
  | Some ((n, j) :: g) => if str_eqb n s_job then Some (j, g) else None
  | _ => None
  end.

(* route_prefix is the path under which the Pushgateway is mounted ("" for the root) *)
Definition decode_path (route_prefix path : str) : option (str * list (str * str)) :=
  match strip_prefix (route_prefix ++ s_metrics) path with
  | Some rest => decode_key rest
  | None => None
  end.

(* ---- what was configured, read off the builder calls without any state ---- *)
Definition bop_error (o : bop) : option berr :=
  match o with
  | BGrouping n _ => if label_name_valid n then None else Some (EBadName n)
  | BCollector true => Some ERegister
  | _ => None
  end.
Fixpoint first_bop_error (ops : list bop) : option berr :=
  match ops with
  | [] => None
  | o :: r => match bop_error o with Some e => Some e | None => first_bop_error r end
  end.
Definition spec_first_error (job : str) (ops : list bop) : option berr :=
  if is_nil job then Some EJobEmpty else first_bop_error ops.

(* value configured for a grouping label: the last Grouping(name, _) call *)
Fixpoint spec_lookup (name : str) (ops : list bop) : option str :=
  match ops with
  | [] => None
  | o :: r =>
    match spec_lookup name r with
    | Some v => Some v
    | None => match o with BGrouping n v => if str_eqb n name then Some v else None | _ => None end
    end
  end.
Fixpoint spec_names (ops : list bop) : list str :=
  match ops with
  | [] => []
  | BGrouping n _ :: r => n :: spec_names r
  | _ :: r => spec_names r
  end.
Fixpoint spec_last {A} (f : bop -> option A) (ops : list bop) : option A :=
  match ops with
  | [] => None
  | o :: r => match spec_last f r with Some x => Some x | None => f o end
  end.
Definition spec_header (ops : list bop) : header :=
  match spec_last (fun o => match o with BHeader h => Some h | _ => None end) ops with
  | Some (Some h) => h
  | _ => []
  end.
Definition spec_auth (ops : list bop) : option (str * str) :=
  spec_last (fun o => match o with BBasicAuth u pw => Some (u, pw) | _ => None end) ops.
Definition spec_format (ops : list bop) : str :=
  match spec_last (fun o => match o with BFormat f => Some f | _ => None end) ops with
  | Some f => f
  | None => default_fmt
  end.

Fixpoint nodupb (l : list str) : bool :=
  match l with [] => true | x :: r => negb (str_in x r) && nodupb r end.

(* the path decodes to exactly the job and each configured grouping label once with its value *)
Definition spec_key_ok (route_prefix job : str) (ops : list bop) (path : str) : bool :=
  match decode_path route_prefix path with
  | Some (j, g) =>
      str_eqb j job &&
      nodupb (s_job :: map fst g) &&
      forallb (fun nv => match spec_lookup (fst nv) ops with Some v => str_eqb v (snd nv) | None => false end) g &&
      forallb (fun n => str_in n (map fst g)) (spec_names ops)
  | None => false
  end.

(* ---- what may be observed of one call ---- *)
Record obs := mkObs {
  ob_err : cerr;
  ob_sent : Z;                                  (* requests that reached the server; -1: not observable *)
  ob_req : option (Z * str * header);           (* method, escaped path, headers of the request seen *)
  ob_body_ok : bool                             (* body decodes in the declared format to exactly the gathered families
                                                   (Delete: body empty); decided by the harness with expfmt *)
}.

Definition berr_eqb (a b : berr) : bool :=
  match a, b with
  | EJobEmpty, EJobEmpty => true
  | EBadName x, EBadName y => str_eqb x y
  | ERegister, ERegister => true
  | _, _ => false
  end.
Definition cerr_eqb (a b : cerr) : bool :=
  match a, b with
  | CNone, CNone | CGather, CGather | CJobLabel, CJobLabel | CGroupLabel, CGroupLabel | CTransport, CTransport
  | COther, COther => true
  | CBuilder x, CBuilder y => berr_eqb x y
  | CStatus x, CStatus y => x =? y
  | _, _ => false
  end.

Fixpoint strs_eqb (a b : list str) : bool :=
  match a, b with
  | [], [] => true
  | x :: a', y :: b' => str_eqb x y && strs_eqb a' b'
  | _, _ => false
  end.

Definition has_label (P : str -> bool) (fs : list family) : bool :=
  existsb (fun f => existsb (fun m => existsb (fun l => P (fst l)) m) (snd f)) fs.

Definition spec_status_err (k : ckind) (s : Z) : cerr :=
  match k with
  | KDelete => if s =? 202 then CNone else CStatus s
  | _ => if (s =? 200) || (s =? 202) then CNone else CStatus s
  end.

Definition hdr_value_is (h : header) (k : str) (vs : list str) : bool :=
  match map_get k h with Some x => strs_eqb x vs | None => false end.

(* custom headers and basic auth are applied; Content-Type declares the format of a push.
   (The keys Content-Type and Authorization of the custom header are owned by the Pusher.) *)
Definition spec_headers_ok (k : ckind) (ops : list bop) (h : header) : bool :=
  forallb (fun kv => str_eqb (fst kv) s_content_type || str_eqb (fst kv) s_authorization ||
                     match map_get (fst kv) (spec_header ops) with
                     | Some vs => hdr_value_is h (fst kv) vs
                     | None => true   (* impossible: the key is in the map *)
                     end) (spec_header ops) &&
  match spec_auth ops with Some (u, pw) => hdr_value_is h s_authorization [basic_value u pw] | None => true end &&
  match k with KDelete => true | _ => hdr_value_is h s_content_type [spec_format ops] end.

Definition spec_req_ok (route_prefix job : str) (ops : list bop) (k : ckind) (r : Z * str * header) : bool :=
  let '(m, path, h) := r in
  (m =? method_of k) && spec_key_ok route_prefix job ops path && spec_headers_ok k ops h.

Definition spec_call_ok (route_prefix job : str) (ops : list bop) (c : call) (o : obs) : bool :=
  match spec_first_error job ops with
  | Some e => (* the first error is sticky: nothing is sent, every call returns it *)
      (ob_sent o =? 0) && match ob_req o with Some _ => false | None => true end && cerr_eqb (ob_err o) (CBuilder e)
  | None =>
    let nothing := (ob_sent o =? 0) && match ob_req o with Some _ => false | None => true end in
    let gather_blocks :=
      match c_kind c, c_gather c with
      | KDelete, _ => None
      | _, None => Some (cerr_eqb (ob_err o) CGather)
      | _, Some fs =>
          let hj := has_label (fun n => str_eqb n s_job) fs in
          let hg := has_label (fun n => str_in n (spec_names ops)) fs in
          if hj || hg then
            Some ((hj && cerr_eqb (ob_err o) CJobLabel) || (hg && cerr_eqb (ob_err o) CGroupLabel))
          else None
      end in
    match gather_blocks with
    | Some err_ok => nothing && err_ok
    | None =>
      match c_tr c with
      | TFail => (* the request may or may not have reached the peer; the error must be reported *)
          cerr_eqb (ob_err o) CTransport && (ob_sent o <=? 1) &&
          match ob_req o with Some r => spec_req_ok route_prefix job ops (c_kind c) r && ob_body_ok o | None => true end
      | TStatus s =>
          (ob_sent o =? 1) && cerr_eqb (ob_err o) (spec_status_err (c_kind c) s) &&
          match ob_req o with Some r => spec_req_ok route_prefix job ops (c_kind c) r && ob_body_ok o | None => false end
      end
    end
  end.

(* the path component of a URL "scheme://authority/path" *)
Fixpoint after_sub (sub s : str) : option str :=
  match strip_prefix sub s with
  | Some r => Some r
  | None => match s with [] => None | _ :: r => after_sub sub r end
  end.
Fixpoint from_slash (s : str) : str :=
  match s with [] => [] | c :: r => if c =? 47 then s else from_slash r end.
Definition url_path (u : str) : str :=
  match after_sub s_scheme_sep u with Some r => from_slash r | None => from_slash u end.
