(* Model/RemoteWrite.v -- remote-write client and handler (property C20).
   Transcribed from exp/api/remote/remote_api.go (API.Write 183-284, compressPayload 286-300,
   attemptWrite 302-353, retryAfterDuration 357-368, SnappyDecompressorMiddleware 418-460,
   ParseProtoMsg 495-520, handler.ServeHTTP 522-563), exp/api/remote/remote_headers.go
   (Validate, contentTypeHeaders, SetHeaders, Add, parseWriteResponseStats) and
   exp/internal/github.com/efficientgo/core/backoff/backoff.go.
   Part 1: byte-string helpers.  Part 2: the attempt loop of Write.  Part 3: what the property
   demands of one Write call (executable checker over observables).  Part 4: pooled buffers and
   the Write program at the granularity Get / marshal / compress / send / Put.  Part 5: the
   handler.  Part 6: what the property demands of the handler, Content-Type grammar. *)
From Coq Require Import Strings.String.
From Coq Require Import ZArith List Bool Arith.
From Verif Require Import Base.Str.
Import ListNotations.
Open Scope string_scope.
Open Scope list_scope.
Open Scope Z_scope.

(* ================= Part 1: helpers (strings.TrimSpace / Split / strconv.Atoi on ASCII) ================= *)
Definition is_space (c : Z) : bool :=
  (c =? 9) || (c =? 10) || (c =? 11) || (c =? 12) || (c =? 13) || (c =? 32).
Fixpoint trim_left (s : str) : str :=
  match s with
  | c :: r => if is_space c then trim_left r else s
  | [] => []
  end.
Definition trim_space (s : str) : str := rev (trim_left (rev (trim_left s))).

(* strings.Split(s, sep) for a one-byte separator; Split("", sep) = [""] *)
Fixpoint split (sep : Z) (s : str) : list str :=
  match s with
  | [] => [[]]
  | c :: r =>
      if c =? sep then [] :: split sep r
      else match split sep r with
           | h :: t => (c :: h) :: t
           | [] => [[c]]
           end
  end.

Definition is_digit (c : Z) : bool := (48 <=? c) && (c <=? 57).
Fixpoint digits_val (s : str) (acc : Z) : option Z :=
  match s with
  | [] => Some acc
  | c :: r => if is_digit c then digits_val r (acc * 10 + (c - 48)) else None
  end.
(* strconv.Atoi on a 64-bit platform: optional sign, at least one decimal digit, nothing else,
   value within int64; None = error *)
Definition atoi (s : str) : option Z :=
  let neg := match s with 45 :: _ => true | _ => false end in
  let body := match s with 43 :: r => r | 45 :: r => r | _ => s end in
  match body with
  | [] => None
  | _ => match digits_val body 0 with
         | None => None
         | Some v => let v' := if neg then - v else v in
                     if (- 2 ^ 63 <=? v') && (v' <=? 2 ^ 63 - 1) then Some v' else None
         end
  end.

(* ================= Part 2: the client ================= *)
Inductive mtype := V1 | V2.
Definition mtype_eqb (a b : mtype) : bool :=
  match a, b with V1, V1 | V2, V2 => true | _, _ => false end.

Definition v1_name : str := of_string "prometheus.WriteRequest".
Definition v2_name : str := of_string "io.prometheus.write.v2.Request".
Definition app_proto : str := of_string "application/x-protobuf".
Definition snappy_name : str := of_string "snappy".

(* WriteMessageType.Validate: None = error *)
Definition validate (s : str) : option mtype :=
  if str_eqb s v1_name then Some V1 else if str_eqb s v2_name then Some V2 else None.

(* contentTypeHeaders map and the version header chosen in attemptWrite *)
Definition content_type_header (t : mtype) : str :=
  match t with
  | V1 => app_proto
  | V2 => app_proto ++ of_string ";proto=io.prometheus.write.v2.Request"
  end.
Definition version_header (t : mtype) : str :=
  match t with V1 => of_string "0.1.0" | V2 => of_string "2.0.0" end.

(* the headers of one request as the server sees them *)
Record wreq := mkReq { q_ctype : str; q_cenc : str; q_version : str; q_retry : option str }.
Definition mk_request (t : mtype) (attempt : Z) : wreq :=
  mkReq (content_type_header t) snappy_name (version_header t)
        (if 0 <? attempt then Some (decimal attempt) else None).

(* what the server does with one attempt.  The statistics headers and Retry-After are the raw header
   strings ("" = absent); r_ra_date is time.Until(t) in ns when Retry-After parses as an HTTP date
   (wall clock: supplied by the driver, never computed here). *)
Record http_resp := mkResp {
  r_status : Z; r_samples : str; r_hist : str; r_exem : str; r_retry_after : str; r_ra_date : option Z }.
Inductive outcome :=
| OTransport                 (* client.Do fails: connection refused / dropped *)
| OBodyErr                   (* response headers arrive, reading the body fails *)
| OResp (r : http_resp).

Record stats := mkStats { s_samples : Z; s_hist : Z; s_exem : Z; s_confirmed : bool }.
Definition stats0 : stats := mkStats 0 0 0 false.
(* WriteResponseStats.Add: counters add up, confirmed is OVERWRITTEN by the latest attempt *)
Definition stats_add (acc rs : stats) : stats :=
  mkStats (s_samples acc + s_samples rs) (s_hist acc + s_hist rs) (s_exem acc + s_exem rs) (s_confirmed rs).
Definition no_data_written (s : stats) : bool := (s_samples s + s_hist s + s_exem s) =? 0.

Definition is_empty (s : str) : bool := match s with [] => true | _ => false end.
Definition stat_val (h : str) : Z := match atoi h with Some v => v | None => 0 end.
(* parseWriteResponseStats: a non-empty header confirms; unparsable value counts 0 *)
Definition parse_stats (r : http_resp) : stats :=
  mkStats (stat_val (r_samples r)) (stat_val (r_hist r)) (stat_val (r_exem r))
          (negb (is_empty (r_samples r)) || negb (is_empty (r_hist r)) || negb (is_empty (r_exem r))).

Definition second_ns : Z := 1000000000.
(* retryAfterDuration: HTTP date first, then integer seconds, else 0 *)
Definition retry_after_ns (r : http_resp) : Z :=
  match r_ra_date r with
  | Some d => d
  | None => match atoi (r_retry_after r) with Some s => s * second_ns | None => 0 end
  end.

Record wcfg := mkCfg { c_min : Z; c_max : Z; c_max_retries : Z; c_retry429 : bool }.

(* NewAPI: defaultAPIOpts, then the options applied in the order given (only the options that decide about
   retries are modelled; path, logger and http client do not influence the attempt loop) *)
Inductive api_option := OBackoff (mn mx mr : Z) | ONoRetry429.
Definition default_cfg : wcfg := mkCfg 1000000000 10000000000 10 true.
Definition apply_option (c : wcfg) (o : api_option) : wcfg :=
  match o with
  | OBackoff mn mx mr => mkCfg mn mx mr (c_retry429 c)               (* WithAPIBackoff: o.backoff = cfg *)
  | ONoRetry429 => mkCfg (c_min c) (c_max c) (c_max_retries c) false  (* WithAPINoRetryOnRateLimit *)
  end.
Definition apply_options (l : list api_option) : wcfg := fold_left apply_option l default_cfg.
(* an option list in which all WithAPIBackoff options (if any) carry the same configuration *)
Definition one_backoff (l : list api_option) : Prop :=
  forall a b c a' b' c', In (OBackoff a b c) l -> In (OBackoff a' b' c') l -> (a, b, c) = (a', b', c').

Inductive ekind := KTransport | KBody | KStatus (code : Z).
Inductive aresult := AOk | ARetry (after : Z) (k : ekind) | ATerm (k : ekind).

(* attemptWrite after the request has been built: classification of the server's answer *)
Definition attempt (cfg : wcfg) (t : mtype) (o : outcome) : stats * aresult :=
  match o with
  | OTransport => (stats0, ARetry 0 KTransport)
  | OBodyErr => (stats0, ATerm KBody)
  | OResp r =>
      let rs := match t with V2 => parse_stats r | V1 => stats0 end in
      if Z.quot (r_status r) 100 =? 2 then (rs, AOk)
      else if (Z.quot (r_status r) 100 =? 5) || (c_retry429 cfg && (r_status r =? 429))
      then (rs, ARetry (retry_after_ns r) (KStatus (r_status r)))
      else (rs, ATerm (KStatus (r_status r)))
  end.

(* backoff.Backoff *)
Record backoff := mkBo { b_n : Z; b_dmin : Z; b_dmax : Z }.
Definition dbl (v mx : Z) : Z := if v * 2 <=? mx then v * 2 else mx.
Definition bo_new (cfg : wcfg) : backoff := mkBo 0 (c_min cfg) (dbl (c_min cfg) (c_max cfg)).
(* Ongoing: MaxRetries = 0 means no limit *)
Definition ongoing (cfg : wcfg) (cancelled : bool) (b : backoff) : bool :=
  negb cancelled && ((c_max_retries cfg =? 0) || (b_n b <? c_max_retries cfg)).
(* NextDelay; jit stands for rand.Int63n(max-min), 0 <= jit < max-min *)
Definition next_delay (cfg : wcfg) (b : backoff) (jit : Z) : Z * backoff :=
  let n' := b_n b + 1 in
  if b_dmax b <=? b_dmin b then (b_dmin b, mkBo n' (b_dmin b) (b_dmax b))
  else
    let sleep := b_dmin b + jit in
    if b_dmax b <? c_max cfg
    then (sleep, mkBo n' (dbl (b_dmin b) (c_max cfg)) (dbl (b_dmax b) (c_max cfg)))
    else (sleep, mkBo n' (b_dmin b) (b_dmax b)).

(* when the context is cancelled relative to the attempt it is attached to *)
Inductive cancel := CNone | CBefore (* before client.Do *) | CAfter (* response read, before Ongoing *)
                  | CInWait (* during the backoff select *).
Definition cancel_eqb (a b : cancel) : bool :=
  match a, b with CNone, CNone | CBefore, CBefore | CAfter, CAfter | CInWait, CInWait => true | _, _ => false end.

Inductive werr :=
| WNil | WValidate | WUnknownMsg | WEncode | WTransport | WBody | WStatus (code : Z)
| WV2Unconfirmed | WCanceled | WExhausted (* the script ended while Write was still retrying *).
Definition werr_of (k : ekind) : werr :=
  match k with KTransport => WTransport | KBody => WBody | KStatus c => WStatus c end.

(* w_reqs: requests that reached the server, in order; w_delays: the delay computed before each retry *)
Record wres := mkRes { w_stats : stats; w_err : werr; w_reqs : list wreq; w_delays : list Z }.

Definition push (q : list wreq) (d : list Z) (r : wres) : wres :=
  mkRes (w_stats r) (w_err r) (q ++ w_reqs r) (d ++ w_delays r).

(* the for-loop of Write; one script entry per attempt *)
Fixpoint write_loop (cfg : wcfg) (t : mtype) (jit : Z -> Z) (script : list (outcome * cancel))
         (b : backoff) (acc : stats) (cancelled : bool) : wres :=
  match script with
  | [] => mkRes acc WExhausted [] []
  | (o, c) :: rest =>
      let cancelled1 := cancelled || cancel_eqb c CBefore in
      (* a cancelled context makes client.Do fail before anything is sent *)
      let o' := if cancelled1 then OTransport else o in
      let reqs := if cancelled1 then [] else [mk_request t (b_n b)] in
      let '(rs, ar) := attempt cfg t o' in
      let acc' := stats_add acc rs in
      let cancelled2 := cancelled1 || cancel_eqb c CAfter in
      match ar with
      | AOk =>
          if mtype_eqb t V2 && negb (s_confirmed acc') && no_data_written acc'
          then mkRes acc' WV2Unconfirmed reqs []
          else mkRes acc' WNil reqs []
      | ATerm k => mkRes acc' (werr_of k) reqs []
      | ARetry after k =>
          if negb (ongoing cfg cancelled2 b) then mkRes acc' (werr_of k) reqs []
          else
            let '(d, b') := next_delay cfg b (jit (b_n b)) in
            let delay := d + after in
            if cancel_eqb c CInWait then mkRes stats0 WCanceled reqs [delay]
            else push reqs [delay] (write_loop cfg t jit rest b' acc' cancelled2)
      end
  end.

(* how the message can be marshalled *)
Inductive msgkind := MVt | MGogo | MGeneric | MNotProto | MMarshalErr.

Definition write (cfg : wcfg) (ty : str) (k : msgkind) (jit : Z -> Z) (script : list (outcome * cancel)) : wres :=
  match validate ty with
  | None => mkRes stats0 WValidate [] []
  | Some t =>
      match k with
      | MNotProto => mkRes stats0 WUnknownMsg [] []
      | MMarshalErr => mkRes stats0 WEncode [] []
      | _ => write_loop cfg t jit script (bo_new cfg) stats0 false
      end
  end.

(* helpers used in statements *)
Definition marshals (k : msgkind) : bool := match k with MVt | MGogo | MGeneric => true | _ => false end.
Definition triple (s : stats) : Z * Z * Z := (s_samples s, s_hist s, s_exem s).
Definition add3 (a b : Z * Z * Z) : Z * Z * Z := (fst (fst a) + fst (fst b), snd (fst a) + snd (fst b), snd a + snd b).
Fixpoint zseq (start : Z) (n : nat) : list Z :=
  match n with O => [] | S k => start :: zseq (start + 1) k end.

(* ================= Part 3: what the property demands of one Write call ================= *)
(* observed request: headers + "the body snappy-decodes and unmarshals to the message of this call" *)
Record oreq := mkOReq { oq : wreq; oq_body_ok : bool }.
Record wobs := mkObs { ob_reqs : list oreq; ob_err : werr; ob_samples : Z; ob_hist : Z; ob_exem : Z;
                       ob_gaps : list Z (* measured ns between consecutive arrivals; [] = not measured *) }.

Definition opt_str_eqb (a b : option str) : bool :=
  match a, b with None, None => true | Some x, Some y => str_eqb x y | _, _ => false end.
Definition wreq_eqb (a b : wreq) : bool :=
  str_eqb (q_ctype a) (q_ctype b) && str_eqb (q_cenc a) (q_cenc b) && str_eqb (q_version a) (q_version b) &&
  opt_str_eqb (q_retry a) (q_retry b).
Definition werr_eqb (a b : werr) : bool :=
  match a, b with
  | WNil, WNil | WValidate, WValidate | WUnknownMsg, WUnknownMsg | WEncode, WEncode | WTransport, WTransport
  | WBody, WBody | WV2Unconfirmed, WV2Unconfirmed | WCanceled, WCanceled | WExhausted, WExhausted => true
  | WStatus x, WStatus y => x =? y
  | _, _ => false
  end.

(* headers demanded for message type t on the i-th request of a call *)
Definition spec_headers_ok (t : mtype) (i : Z) (q : wreq) : bool :=
  str_eqb (q_cenc q) (of_string "snappy") &&
  match t with
  | V1 => str_eqb (q_ctype q) (of_string "application/x-protobuf") && str_eqb (q_version q) (of_string "0.1.0")
  | V2 => str_eqb (q_ctype q) (of_string "application/x-protobuf;proto=io.prometheus.write.v2.Request") &&
          str_eqb (q_version q) (of_string "2.0.0")
  end &&
  opt_str_eqb (q_retry q) (if i =? 0 then None else Some (decimal i)).

Fixpoint reqs_ok (t : mtype) (i : Z) (l : list oreq) : bool :=
  match l with
  | [] => true
  | r :: rest => spec_headers_ok t i (oq r) && oq_body_ok r && reqs_ok t (i + 1) rest
  end.

Definition is_2xx (o : outcome) : bool :=
  match o with OResp r => (200 <=? r_status r) && (r_status r <=? 299) | _ => false end.
Definition spec_retryable (cfg : wcfg) (o : outcome) : bool :=
  match o with
  | OTransport => true
  | OBodyErr => false
  | OResp r => ((500 <=? r_status r) && (r_status r <=? 599)) || (c_retry429 cfg && (r_status r =? 429))
  end.
Definition has_stat_header (o : outcome) : bool :=
  match o with
  | OResp r => negb (is_empty (r_samples r)) || negb (is_empty (r_hist r)) || negb (is_empty (r_exem r))
  | _ => false
  end.
Definition spec_stats_of (t : mtype) (o : outcome) : Z * Z * Z :=
  match t, o with
  | V2, OResp r => (stat_val (r_samples r), stat_val (r_hist r), stat_val (r_exem r))
  | _, _ => (0, 0, 0)
  end.
Definition sum3 (l : list (Z * Z * Z)) : Z * Z * Z := fold_right add3 (0, 0, 0) l.
Definition eq3 (a b : Z * Z * Z) : bool :=
  (fst (fst a) =? fst (fst b)) && (snd (fst a) =? snd (fst b)) && (snd a =? snd b).
Definition spec_after (o : outcome) : Z := match o with OResp r => retry_after_ns r | _ => 0 end.

(* the largest number of requests the server may see given the first cancellation in the script:
   a context cancelled before attempt j allows j requests, one cancelled later during attempt j allows j+1 *)
Fixpoint cancel_bound (script : list (outcome * cancel)) : option nat :=
  match script with
  | [] => None
  | (_, c) :: rest =>
      match c with
      | CNone => option_map S (cancel_bound rest)
      | CBefore => Some O
      | _ => Some 1%nat
      end
  end.

Fixpoint gaps_ok (gaps : list Z) (os : list outcome) : bool :=
  match gaps, os with
  | g :: gr, o :: orr => (spec_after o <=? g) && gaps_ok gr orr
  | _, _ => true
  end.

(* the observables a run of the model stands for: every body intact, gaps exactly the computed delays *)
Definition obs_of (m : wres) : wobs :=
  mkObs (map (fun q => mkOReq q true) (w_reqs m)) (w_err m) (s_samples (w_stats m)) (s_hist (w_stats m)) (s_exem (w_stats m))
        (w_delays m).

Definition must_continue (cfg : wcfg) (script : list (outcome * cancel)) (n : nat) (seen : list outcome) : bool :=
  match cancel_bound script, rev seen with
  | None, last :: _ =>
      if spec_retryable cfg last && ((c_max_retries cfg =? 0) || (Z.of_nat n <=? c_max_retries cfg))
      then (n =? length script)%nat else true
  | _, _ => true
  end.

(* the checker: [script] is what the server/context did, [ob] what was observed *)
Definition spec_write_ok (cfg : wcfg) (ty : str) (k : msgkind) (script : list (outcome * cancel)) (ob : wobs) : bool :=
  let n := length (ob_reqs ob) in
  let seen := map fst (firstn n script) in   (* the server's answers to the requests it received *)
  let got := (ob_samples ob, ob_hist ob, ob_exem ob) in
  match validate ty with
  | None => werr_eqb (ob_err ob) WValidate && (n =? 0)%nat && eq3 got (0, 0, 0)
  | Some t =>
      match k with
      | MNotProto => werr_eqb (ob_err ob) WUnknownMsg && (n =? 0)%nat && eq3 got (0, 0, 0)
      | MMarshalErr => werr_eqb (ob_err ob) WEncode && (n =? 0)%nat && eq3 got (0, 0, 0)
      | _ =>
          (* every body intact, headers match the type, Retry-Attempt = attempt number on retries only *)
          reqs_ok t 0 (ob_reqs ob) &&
          (n <=? length script)%nat &&
          (* every answer but the last one seen was retryable: nothing else is ever retried *)
          forallb (spec_retryable cfg) (removelast seen) &&
          (* retry budget: MaxRetries > 0 bounds the retries, < 0 forbids them, = 0 leaves them unbounded *)
          (if 0 <? c_max_retries cfg then Z.of_nat n <=? c_max_retries cfg + 1
           else if c_max_retries cfg <? 0 then (n <=? 1)%nat else true) &&
          (* nothing is sent after the context was cancelled *)
          match cancel_bound script with Some j => (n <=? j)%nat | None => true end &&
          (* nil only after a 2xx; for v2 only with a written-statistics header or something written *)
          (if werr_eqb (ob_err ob) WNil
           then match rev seen with
                | last :: _ => is_2xx last &&
                               match t with
                               | V2 => has_stat_header last || negb (eq3 got (0, 0, 0))
                               | V1 => true
                               end
                | [] => false
                end
           else true) &&
          (* a 2xx never yields a status error; a non-2xx status is reported as such unless the context was
             cancelled (in the wait: context error; before the next send: possibly the transport's error) *)
          match rev seen with
          | OResp r :: _ =>
              if is_2xx (OResp r) then werr_eqb (ob_err ob) WNil || werr_eqb (ob_err ob) WV2Unconfirmed
              else if werr_eqb (ob_err ob) WCanceled then true
              else match nth_error script n with
                   | Some (_, CBefore) => werr_eqb (ob_err ob) WTransport || werr_eqb (ob_err ob) (WStatus (r_status r))
                   | _ => werr_eqb (ob_err ob) (WStatus (r_status r))
                   end
          | _ => true
          end &&
          (* accumulated statistics (a cancelled backoff wait returns none) *)
          (if werr_eqb (ob_err ob) WCanceled then true
           else eq3 got (sum3 (map (spec_stats_of t) seen))) &&
          (* Retry-After honoured: the next request arrives no earlier *)
          gaps_ok (ob_gaps ob) seen &&
          (* a retryable answer IS retried while the caller's context is alive and the budget allows:
             with no cancellation in the script, the call may stop after a retryable answer only when the
             retries are used up (or the script has no further entry) *)
          must_continue cfg script n seen
      end
  end.

(* ================= Part 4: pooled buffers ================= *)
Section Pool.
Open Scope nat_scope.
Variable msg : Type.
Variable enc : msg -> str.            (* protobuf encoding of a message *)
Variable compress : str -> str.       (* snappy.Encode's output *)
Variable max_enc_len : nat -> nat.    (* snappy.MaxEncodedLen *)
Variable cap0 : nat.                  (* capacity of a fresh pooled buffer (16 KiB) *)

(* a *[]byte: backing array (its length is the capacity) and slice length *)
Record buffer := mkBuf { b_arr : str; b_len : nat }.
Definition bytes (b : buffer) : str := firstn (b_len b) (b_arr b).
(* writing [data] at the start of an array leaves the rest as it was *)
Definition overwrite (data arr : str) : str := data ++ skipn (length data) arr.
Definition new_buffer : buffer := mkBuf (repeat 0%Z cap0) 0.

Inductive mpath := PVt | PGogo | PGeneric.

(* size := m.Size(); grow or reslice; MarshalToSizedBuffer fills exactly [size] bytes *)
Definition marshal_sized (data : str) (b : buffer) : buffer :=
  let size := length data in
  let b1 := if length (b_arr b) <? size then mkBuf (repeat 0%Z size) size else mkBuf (b_arr b) size in
  mkBuf (overwrite data (b_arr b1)) (b_len b1).
(* proto.MarshalOptions{}.MarshalAppend(( *buf)[:0], m) *)
Definition marshal_append (data : str) (b : buffer) : buffer :=
  if length data <=? length (b_arr b) then mkBuf (overwrite data (b_arr b)) (length data)
  else mkBuf data (length data).
Definition marshal_into (p : mpath) (data : str) (b : buffer) : buffer :=
  match p with PVt | PGogo => marshal_sized data b | PGeneric => marshal_append data b end.

(* compressPayload: resize to MaxEncodedLen, snappy.Encode writes into the buffer and returns a prefix of it;
   result: the buffer and the length of the payload slice that aliases it *)
Definition compress_into (inp : str) (b : buffer) : buffer * nat :=
  let m := max_enc_len (length inp) in
  let b1 := if length (b_arr b) <? m then mkBuf (repeat 0%Z m) m else mkBuf (b_arr b) m in
  let c := compress inp in
  (mkBuf (overwrite c (b_arr b1)) (b_len b1), length c).

Inductive pc := PcStart | PcGot1 | PcMarshalled | PcGot2 | PcSending | PcPut1 | PcDone.
Record wthread := mkThr { t_pc : pc; t_buf : option nat; t_cbuf : option nat; t_plen : nat }.
Record pstate := mkP {
  p_heap : nat -> buffer; p_next : nat; p_pool : list nat; p_thr : nat -> wthread; p_wire : list (nat * str) }.

Definition upd {A} (f : nat -> A) (k : nat) (v : A) : nat -> A := fun x => if Nat.eqb x k then v else f x.
Fixpoint remove_nth {A} (l : list A) (n : nat) : list A :=
  match l, n with
  | [], _ => []
  | _ :: r, O => r
  | x :: r, S n' => x :: remove_nth r n'
  end.

(* per-call inputs: message, marshalling path, and whether the call returns right after the first Get
   (invalid message type, unknown message kind, marshalling error) *)
Variable msg_of : nat -> msg.
Variable path_of : nat -> mpath.
Variable early_of : nat -> bool.

Definition init : pstate := mkP (fun _ => new_buffer) 0 [] (fun _ => mkThr PcStart None None 0) [].

(* sync.Pool.Get: any pooled item (choice < length pool) or a fresh one from New *)
Definition pool_get (st : pstate) (choice : nat) : nat * pstate :=
  match nth_error (p_pool st) choice with
  | Some id => (id, mkP (p_heap st) (p_next st) (remove_nth (p_pool st) choice) (p_thr st) (p_wire st))
  | None => (p_next st, mkP (upd (p_heap st) (p_next st) new_buffer) (S (p_next st)) (p_pool st) (p_thr st) (p_wire st))
  end.
Definition set_thr (st : pstate) (t : nat) (w : wthread) : pstate :=
  mkP (p_heap st) (p_next st) (p_pool st) (upd (p_thr st) t w) (p_wire st).
Definition set_heap (st : pstate) (id : nat) (b : buffer) : pstate :=
  mkP (upd (p_heap st) id b) (p_next st) (p_pool st) (p_thr st) (p_wire st).
Definition pool_put (st : pstate) (id : nat) : pstate :=
  mkP (p_heap st) (p_next st) (id :: p_pool st) (p_thr st) (p_wire st).

(* one step of call [t]; [choice] resolves Get's nondeterminism and, while sending, whether another attempt
   is made (0) or Write returns (anything else) *)
Definition pstep (st : pstate) (t choice : nat) : option pstate :=
  let w := p_thr st t in
  match t_pc w with
  | PcStart =>
      let '(id, st1) := pool_get st choice in
      Some (set_thr st1 t (mkThr PcGot1 (Some id) None 0))
  | PcGot1 =>
      match t_buf w with
      | Some id =>
          if early_of t then Some (set_thr (pool_put st id) t (mkThr PcDone None None 0))
          else Some (set_thr (set_heap st id (marshal_into (path_of t) (enc (msg_of t)) (p_heap st id))) t
                             (mkThr PcMarshalled (Some id) None 0))
      | None => None
      end
  | PcMarshalled =>
      let '(id, st1) := pool_get st choice in
      Some (set_thr st1 t (mkThr PcGot2 (t_buf w) (Some id) 0))
  | PcGot2 =>
      match t_buf w, t_cbuf w with
      | Some id, Some cid =>
          let '(cb, n) := compress_into (bytes (p_heap st id)) (p_heap st cid) in
          Some (set_thr (set_heap st cid cb) t (mkThr PcSending (Some id) (Some cid) n))
      | _, _ => None
      end
  | PcSending =>
      match t_cbuf w with
      | Some cid =>
          match choice with
          | O => (* attemptWrite reads the payload, a slice of the pooled buffer *)
              Some (mkP (p_heap st) (p_next st) (p_pool st) (p_thr st)
                        (p_wire st ++ [(t, firstn (t_plen w) (b_arr (p_heap st cid)))]))
          | S _ => (* return: deferred Put(comprBuf) runs first *)
              Some (set_thr (pool_put st cid) t (mkThr PcPut1 (t_buf w) None 0))
          end
      | None => None
      end
  | PcPut1 =>
      match t_buf w with
      | Some id => Some (set_thr (pool_put st id) t (mkThr PcDone None None 0))
      | None => None
      end
  | PcDone => None
  end.

Fixpoint prun (st : pstate) (sched : list (nat * nat)) : pstate :=
  match sched with
  | [] => st
  | (t, c) :: r => match pstep st t c with Some st' => prun st' r | None => prun st r end
  end.

End Pool.

(* call t references buffer id (used in statements) *)
Definition holds (st : pstate) (t id : nat) : Prop :=
  t_buf (p_thr st t) = Some id \/ t_cbuf (p_thr st t) = Some id.

(* ================= Part 5: the handler ================= *)
(* ParseProtoMsg: None = error (answered 415) *)
Fixpoint parse_params (ps : list str) : option mtype :=
  match ps with
  | [] => Some V1
  | p :: r =>
      match split 61 p with
      | [k; v] => if str_eqb (trim_space k) (of_string "proto") then validate (trim_space v) else parse_params r
      | _ => None
      end
  end.
Definition parse_proto_msg (ct : str) : option mtype :=
  match split 59 (trim_space ct) with
  | p0 :: ps => if str_eqb (trim_space p0) app_proto then parse_params ps else None
  | [] => None
  end.

(* "" = header absent; h_body_err: reading the request body fails (io.ReadAll returns an error) *)
Record hreq := mkHReq { h_method : str; h_ctype : str; h_cenc : str; h_body : str; h_body_err : bool }.
(* what the store returns: a nil response, or status code / statistics, and whether it returns an error *)
Record store_beh := mkSB { sb_nil : bool; sb_status : Z; sb_samples : Z; sb_hist : Z; sb_exem : Z; sb_err : bool }.
(* response status, the three written-statistics headers if set, and the store call if it happened;
   HPanic is never produced by the model, it stands for a panic observed in the implementation *)
Inductive hout :=
| HPanic (call : mtype * str)
| HOut (status : Z) (written : option (Z * Z * Z)) (call : option (mtype * str)).

Definition post : str := of_string "POST".

(* handler.ServeHTTP *)
Definition serve_inner (accepted : list mtype) (sb : store_beh) (method ctype body : str) : hout :=
  if negb (str_eqb method post) then HOut 405 None None
  else
    let ct := if is_empty ctype then app_proto else ctype in
    match parse_proto_msg ct with
    | None => HOut 415 None None
    | Some t =>
        if negb (existsb (mtype_eqb t) accepted) then HOut 415 None None
        else
          (* a nil *WriteResponse from the store is replaced by an empty one: zero statistics, status code 0 *)
          let sb := if sb_nil sb then mkSB false 0 0 0 0 (sb_err sb) else sb in
          let w := Some (sb_samples sb, sb_hist sb, sb_exem sb) in
          if sb_err sb
          then HOut (if sb_status sb =? 0 then 500 else sb_status sb) w (Some (t, body))
          else HOut 204 w (Some (t, body))
    end.

(* SnappyDecompressorMiddleware (the default middleware) around the handler *)
Definition serve (decode : str -> option str) (accepted : list mtype) (sb : store_beh) (r : hreq) : hout :=
  if negb (is_empty (h_cenc r)) && negb (str_eqb (h_cenc r) snappy_name) then HOut 415 None None
  else if h_body_err r then HOut 400 None None   (* "Error reading request body" *)
  else match decode (h_body r) with
       | None => HOut 400 None None
       | Some d => serve_inner accepted sb (h_method r) (h_ctype r) d
       end.

(* ================= Part 6: what the property demands of the handler ================= *)
(* Content-Type per RFC 9110 8.3.1 / 5.6.6 with non-empty parameters:
   media-type = type "/" subtype *( OWS ";" OWS parameter ), parameter = name "=" value (tokens) *)
Record ct_param := mkParam { p_ows1 : str; p_ows2 : str; p_name : str; p_value : str }.
Record ct_ast := mkAst { a_lead : str; a_media : str; a_params : list ct_param; a_trail : str }.
Definition render_param (p : ct_param) : str := p_ows1 p ++ [59] ++ p_ows2 p ++ p_name p ++ [61] ++ p_value p.
Definition render (a : ct_ast) : str :=
  a_lead a ++ a_media a ++ concat (map render_param (a_params a)) ++ a_trail a.

(* the message type a Content-Type denotes: media type application/x-protobuf, first "proto" parameter
   names a known message, no such parameter means v1 *)
Definition ct_spec (a : ct_ast) : option mtype :=
  if str_eqb (a_media a) (of_string "application/x-protobuf") then
    match find (fun p => str_eqb (p_name p) (of_string "proto")) (a_params a) with
    | Some p =>
        if str_eqb (p_value p) (of_string "prometheus.WriteRequest") then Some V1
        else if str_eqb (p_value p) (of_string "io.prometheus.write.v2.Request") then Some V2
        else None
    | None => Some V1
    end
  else None.

(* well-formedness of a Content-Type built from the grammar: OWS is whitespace only, tokens are non-empty and
   contain no whitespace, ";" or "=" (RFC 9110 tchar excludes all of them) *)
Definition WS (s : str) : Prop := Forall (fun c => is_space c = true) s.
Definition tokc (c : Z) : Prop := is_space c = false /\ c <> 59 /\ c <> 61.
Definition TOK (s : str) : Prop := s <> [] /\ Forall tokc s.
Definition wf_param (p : ct_param) : Prop := WS (p_ows1 p) /\ WS (p_ows2 p) /\ TOK (p_name p) /\ TOK (p_value p).
Definition wf_ast (a : ct_ast) : Prop := WS (a_lead a) /\ WS (a_trail a) /\ TOK (a_media a) /\ Forall wf_param (a_params a).

(* abbreviations for the decision table *)
(* the decompressed body; None when the body cannot be read or cannot be decoded *)
Definition read_body (decode : str -> option str) (r : hreq) : option str :=
  if h_body_err r then None else decode (h_body r).
Definition enc_ok (r : hreq) : bool := is_empty (h_cenc r) || str_eqb (h_cenc r) snappy_name.
Definition eff_ctype (r : hreq) : str := if is_empty (h_ctype r) then app_proto else h_ctype r.
Definition store_status (sb : store_beh) : Z :=
  if sb_err sb then (if sb_nil sb || (sb_status sb =? 0) then 500 else sb_status sb) else 204.
Definition store_written (sb : store_beh) : Z * Z * Z :=
  if sb_nil sb then (0, 0, 0) else (sb_samples sb, sb_hist sb, sb_exem sb).

Definition opt3_eqb (a b : option (Z * Z * Z)) : bool :=
  match a, b with None, None => true | Some x, Some y => eq3 x y | _, _ => false end.

(* [ast]: how the Content-Type was built, when it was built from the grammar; an absent header means v1 *)
Definition handler_spec_ok (decode : str -> option str) (accepted : list mtype) (sb : store_beh) (r : hreq)
           (ast : option ct_ast) (o : hout) : bool :=
  let bad_method := negb (str_eqb (h_method r) (of_string "POST")) in
  let bad_enc := negb (is_empty (h_cenc r) || str_eqb (h_cenc r) (of_string "snappy")) in
  let ct : option (option mtype) :=
    if is_empty (h_ctype r) then Some (Some V1) else option_map ct_spec ast in
  match o with
  | HPanic _ => false
  | HOut status written (Some (t, payload)) =>
      (* the store is reached only by a faultless request and gets the decompressed payload and the parsed type *)
      negb bad_method && negb bad_enc &&
      match read_body decode r with Some d => str_eqb d payload | None => false end &&
      existsb (mtype_eqb t) accepted &&
      match ct with Some (Some t') => mtype_eqb t t' | Some None => false | None => true end &&
      (* statistics headers always set (zero when the store returned no response); 204, or on a store error the
         store's status, 500 if it set none *)
      opt3_eqb written (Some (if sb_nil sb then (0, 0, 0) else (sb_samples sb, sb_hist sb, sb_exem sb))) &&
      (status =? (if sb_err sb then (if sb_nil sb || (sb_status sb =? 0) then 500 else sb_status sb) else 204))
  | HOut status written None =>
      opt3_eqb written None &&
      (((status =? 405) && bad_method) ||
       ((status =? 415) && (bad_enc ||
                            match ct with
                            | Some (Some t') => negb (existsb (mtype_eqb t') accepted)
                            | Some None => true
                            | None => true
                            end)) ||
       ((status =? 400) && match read_body decode r with None => true | Some _ => false end))
  end.
