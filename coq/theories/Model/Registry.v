(* Model/Registry.v -- C08: descriptor construction (prometheus/desc.go:92-172), wrapping
   (prometheus/wrap.go:229-260) and Registry.Register/Unregister (prometheus/registry.go:270-400),
   transcribed; followed by a separate, simpler, set-based SPECIFICATION of the property text.
   Executable definitions only.

   Abstractions (stated, not hidden):
   * xxhash is the Section variable [hash : str -> str] (digest as bytes).  The executable instance
     [hash_id] is the identity, i.e. the serialised byte string itself (injective).
   * collectorID is the XOR of the distinct desc ids in Go; here it is the SET (duplicate-free list)
     of the distinct desc ids, compared as a set.  An invalid Desc has id 0 in Go, which is neutral
     for XOR: it is left out of the set.  Assumption: XOR of distinct id sets does not collide and
     no valid descriptor hashes to 0.
   * Go maps are association lists with map semantics (lookup first match, delete all matches).
   * A Collector is represented by its identity (an index) and the list of descriptors its Describe
     emits, in emission order, duplicates included. *)
From Coq Require Import ZArith List Bool.
From Verif Require Import Base.Str.
Import ListNotations.
Open Scope Z_scope.

(* ---------- unicode/utf8.ValidString ---------- *)
Definition in_rng (lo hi b : Z) : bool := (lo <=? b) && (b <=? hi).
Definition cont (b : Z) : bool := in_rng 128 191 b.

Fixpoint utf8_valid (s : str) : bool :=
  match s with
  | [] => true
  | b0 :: r =>
      if in_rng 0 127 b0 then utf8_valid r
      else if in_rng 194 223 b0 then
        match r with b1 :: r1 => cont b1 && utf8_valid r1 | _ => false end
      else if in_rng 224 239 b0 then
        match r with
        | b1 :: b2 :: r2 =>
            (if b0 =? 224 then in_rng 160 191 b1 else if b0 =? 237 then in_rng 128 159 b1 else cont b1)
            && cont b2 && utf8_valid r2
        | _ => false
        end
      else if in_rng 240 244 b0 then
        match r with
        | b1 :: b2 :: b3 :: r3 =>
            (if b0 =? 240 then in_rng 144 191 b1 else if b0 =? 244 then in_rng 128 143 b1 else cont b1)
            && cont b2 && cont b3 && utf8_valid r3
        | _ => false
        end
      else false
  end.

Definition nonempty (s : str) : bool := match s with [] => false | _ => true end.
(* model.IsValidMetricName / LabelName.IsValid under UTF8Validation (the default of common v0.63) *)
Definition valid_metric_name (n : str) : bool := nonempty n && utf8_valid n.
(* checkLabelName: valid and not starting with "__" *)
Definition check_label_name (l : str) : bool := nonempty l && utf8_valid l && negb (has_prefix l [95; 95]).

(* ---------- sort.Strings, sets of strings ---------- *)
Fixpoint insert_str (x : str) (l : list str) : list str :=
  match l with
  | [] => [x]
  | y :: r => if str_ltb y x then y :: insert_str x r else x :: l
  end.
Definition sort_strs (l : list str) : list str := fold_right insert_str [] l.

Fixpoint nodup_strs (l : list str) : bool :=
  match l with [] => true | x :: r => negb (str_in x r) && nodup_strs r end.
Fixpoint dedup_strs (l : list str) : list str :=
  match l with [] => [] | x :: r => if str_in x r then dedup_strs r else x :: dedup_strs r end.
Definition incl_strs (a b : list str) : bool := forallb (fun x => str_in x b) a.
Definition seteq_strs (a b : list str) : bool := incl_strs a b && incl_strs b a.
Fixpoint strs_eqb (a b : list str) : bool :=
  match a, b with
  | [], [] => true
  | x :: a', y :: b' => str_eqb x y && strs_eqb a' b'
  | _, _ => false
  end.

Fixpoint lookup {A} (k : str) (m : list (str * A)) : option A :=
  match m with [] => None | (k', v) :: r => if str_eqb k k' then Some v else lookup k r end.

(* ---------- Desc ---------- *)
Definition sep : Z := 255.
(* every component followed by the separator byte: what is written into xxhash *)
Definition ser (l : list str) : str := flat_map (fun v => v ++ [sep]) l.
Definition dollar (l : str) : str := 36 :: l.

Record desc := mkDesc {
  d_err : bool;                  (* desc.err != nil *)
  d_fq : str;
  d_help : str;
  d_consts : list (str * str);   (* constLabelPairs, sorted by name *)
  d_vars : list str;             (* variableLabels.names *)
  d_idser : str;                 (* bytes hashed into id (meaningful when d_err = false) *)
  d_dimser : str                 (* bytes hashed into dimHash *)
}.

Definition invalid_desc : desc := mkDesc true [] [] [] [] [] [].       (* NewInvalidDesc *)
Definition err_desc (fq help : str) (vars : list str) (cp : list (str * str)) : desc :=
  mkDesc true fq help cp vars [] [].

(* V2.NewDesc; constLabels is the Go map as an association list with distinct keys *)
Definition new_desc (fq help : str) (vars : list str) (consts : list (str * str)) : desc :=
  if negb (valid_metric_name fq) then err_desc fq help vars [] else
  if negb (forallb check_label_name (map fst consts)) then err_desc fq help vars [] else
  let names := sort_strs (map fst consts) in
  let values := map (fun n => match lookup n consts with Some v => v | None => [] end) names in
  if negb (forallb utf8_valid (fq :: values)) then err_desc fq help vars [] else
  if negb (forallb check_label_name vars) then err_desc fq help vars [] else
  (* len(labelNames) != len(labelNameSet) *)
  if negb (nodup_strs (names ++ vars)) then err_desc fq help vars [] else
  mkDesc false fq help (combine names values) vars
         (ser (fq :: values))
         (ser (help :: sort_strs (names ++ map dollar vars))).

(* wrapDesc *)
Fixpoint add_labels (cl : list (str * str)) (labels : list (str * str)) : option (list (str * str)) :=
  match labels with
  | [] => Some cl
  | (ln, lv) :: r => match lookup ln cl with Some _ => None | None => add_labels (cl ++ [(ln, lv)]) r end
  end.
Definition wrap_desc (d : desc) (prefix : str) (labels : list (str * str)) : desc :=
  if d_err d then d else
  match add_labels (d_consts d) labels with
  | None => err_desc (d_fq d) (d_help d) (d_vars d) (d_consts d)
  | Some cl => new_desc (prefix ++ d_fq d) (d_help d) (d_vars d) cl
  end.

(* ---------- Registry ---------- *)
Inductive rres := RNil | RAlready (cid : Z) | RInvalid | RDuplicate | RInconsistent.

Record registry := mkReg {
  r_colls : list (list str * (Z * list desc));  (* collectorsByID: id set -> collector (identity, Describe output) *)
  r_descids : list str;                         (* descIDs *)
  r_dims : list (str * str);                    (* dimHashesByName *)
  r_unchecked : list Z                          (* uncheckedCollectors *)
}.
Definition empty_registry : registry := mkReg [] [] [] [].

Definition find_coll (ids : list str) (m : list (list str * (Z * list desc))) : option (Z * list desc) :=
  match find (fun e => seteq_strs ids (fst e)) m with Some e => Some (snd e) | None => None end.

Inductive loop_res := LErr (e : rres) | LDone (newids : list str) (newdims : list (str * str)) (dup : bool).

Section Hashed.
Variable hash : str -> str.
Definition hid (d : desc) : str := hash (d_idser d).
Definition hdim (d : desc) : str := hash (d_dimser d).

(* the "for desc := range descChan" loop of Register *)
Fixpoint reg_loop (r : registry) (ds : list desc) (newids : list str) (newdims : list (str * str)) (dup : bool) : loop_res :=
  match ds with
  | [] => LDone newids newdims dup
  | d :: rest =>
      if d_err d then LErr RInvalid else
      let dup' := dup || str_in (hid d) (r_descids r) in
      let newids' := if str_in (hid d) newids then newids else hid d :: newids in
      match lookup (d_fq d) (r_dims r) with
      | Some h => if str_eqb h (hdim d) then reg_loop r rest newids' newdims dup' else LErr RInconsistent
      | None =>
          match lookup (d_fq d) newdims with
          | Some h => if str_eqb h (hdim d) then reg_loop r rest newids' newdims dup' else LErr RInconsistent
          | None => reg_loop r rest newids' ((d_fq d, hdim d) :: newdims) dup'
          end
      end
  end.

Fixpoint merge_dims (m : list (str * str)) (new : list (str * str)) : list (str * str) :=
  match new with [] => m | kv :: r => kv :: merge_dims m r end.

Definition register (r : registry) (cid : Z) (ds : list desc) : rres * registry :=
  match reg_loop r ds [] [] false with
  | LErr e => (e, r)
  | LDone newids newdims dup =>
      match newids with
      | [] => (RNil, mkReg (r_colls r) (r_descids r) (r_dims r) (r_unchecked r ++ [cid]))
      | _ =>
          match find_coll newids (r_colls r) with
          | Some (c, _) => (RAlready c, r)
          | None =>
              if dup then (RDuplicate, r)
              else (RNil, mkReg ((newids, (cid, ds)) :: r_colls r) (newids ++ r_descids r)
                                (merge_dims (r_dims r) newdims) (r_unchecked r))
          end
      end
  end.

(* Unregister: ids of the emitted descs; the zero id of an invalid Desc is neutral for the XOR *)
Definition unreg_ids (ds : list desc) : list str :=
  dedup_strs (map hid (filter (fun d => negb (d_err d)) ds)).

Definition unregister (r : registry) (ds : list desc) : bool * registry :=
  let ids := unreg_ids ds in
  match find_coll ids (r_colls r) with
  | None => (false, r)
  | Some _ =>
      (true, mkReg (filter (fun e => negb (seteq_strs ids (fst e))) (r_colls r))
                   (filter (fun x => negb (str_in x ids)) (r_descids r))
                   (r_dims r) (r_unchecked r))
  end.

(* names of the families a Gather yields when every registered collector collects one metric per
   descriptor and unchecked collectors collect nothing *)
Definition gather_names (r : registry) : list str :=
  sort_strs (dedup_strs (flat_map (fun e => map d_fq (snd (snd e))) (r_colls r))).

(* MustRegister(c1..cn) (registry.go:402-409, wrap.go:132-141): Register in order, stop at the first
   error and panic with it; collectors after the rejected one are not attempted *)
Fixpoint must_register (r : registry) (cs : list (Z * list desc)) : rres * registry :=
  match cs with
  | [] => (RNil, r)
  | c :: rest =>
      let '(e, r') := register r (fst c) (snd c) in
      match e with RNil => must_register r' rest | _ => (e, r') end
  end.

Inductive op := ORegister (cid : Z) (ds : list desc) | OUnregister (ds : list desc) | OGather
              | OMust (cs : list (Z * list desc)).
Inductive obs := BReg (e : rres) | BUnreg (b : bool) | BGather (names : list str).

Definition step (r : registry) (o : op) : obs * registry :=
  match o with
  | ORegister cid ds => let '(e, r') := register r cid ds in (BReg e, r')
  | OUnregister ds => let '(b, r') := unregister r ds in (BUnreg b, r')
  | OGather => (BGather (gather_names r), r)
  | OMust cs => let '(e, r') := must_register r cs in (BReg e, r')
  end.

Fixpoint run_from (r : registry) (ops : list op) : list obs :=
  match ops with
  | [] => []
  | o :: rest => let '(b, r') := step r o in b :: run_from r' rest
  end.
Definition run (ops : list op) : list obs := run_from empty_registry ops.
End Hashed.

Definition hash_id (s : str) : str := s.

(* =====================================================================================
   SPECIFICATION, written from the property text; no hashes, no serialisations.
   ===================================================================================== *)
(* "equals": same fully-qualified name and same constant label values *)
Definition same_ident (d e : desc) : bool :=
  str_eqb (d_fq d) (d_fq e) && strs_eqb (map snd (d_consts d)) (map snd (d_consts e)).
(* "agrees": same help text, same constant label-name set, same variable label-name set *)
Definition agree (d e : desc) : bool :=
  str_eqb (d_help d) (d_help e)
  && seteq_strs (map fst (d_consts d)) (map fst (d_consts e))
  && seteq_strs (d_vars d) (d_vars e).
Definition consistent_with (d : desc) (l : list desc) : bool :=
  forallb (fun e => negb (str_eqb (d_fq d) (d_fq e)) || agree d e) l.
Definition valid (d : desc) : bool := negb (d_err d).

Record sstate := mkS {
  s_regd : list (Z * list desc);   (* currently registered collectors: identity, descriptors *)
  s_ever : list desc;              (* every descriptor ever registered *)
  s_unch : list Z                  (* collectors accepted unchecked *)
}.
Definition empty_sstate : sstate := mkS [] [] [].

Inductive sres := SOk | SAlready (cid : Z) | SRejected.

Definition all_valid (ds : list desc) : bool := forallb valid ds.
Definition all_consistent (s : sstate) (ds : list desc) : bool :=
  forallb (fun d => consistent_with d (s_ever s) && consistent_with d ds) ds.
Definition in_descs (d : desc) (ds : list desc) : bool := existsb (same_ident d) ds.
Definition desc_set_eq (ds ds' : list desc) : bool :=
  forallb (fun d => in_descs d ds') ds && forallb (fun d => in_descs d ds) ds'.
Definition clashes (s : sstate) (ds : list desc) : bool :=
  existsb (fun d => existsb (fun c => in_descs d (snd c)) (s_regd s)) ds.

Definition spec_register (s : sstate) (cid : Z) (ds : list desc) : sres * sstate :=
  match ds with
  | [] => (SOk, mkS (s_regd s) (s_ever s) (s_unch s ++ [cid]))      (* no descriptors: accepted unchecked *)
  | _ =>
      if negb (all_valid ds) then (SRejected, s) else
      if negb (all_consistent s ds) then (SRejected, s) else
      match find (fun c => desc_set_eq ds (snd c)) (s_regd s) with
      | Some c => (SAlready (fst c), s)
      | None =>
          if clashes s ds then (SRejected, s)
          else (SOk, mkS ((cid, ds) :: s_regd s) (ds ++ s_ever s) (s_unch s))
      end
  end.

(* The property speaks about validly described collectors.  For a collector that also emits invalid
   descriptors the text is silent; the specification then looks at its valid descriptors only
   (this is what the code does, see unreg_ids).  An unchecked collector (no descriptors) cannot be
   unregistered (documented in registry.go, Registerer.Unregister). *)
Definition spec_unregister (s : sstate) (ds : list desc) : bool * sstate :=
  let vs := filter valid ds in
  if existsb (fun c => desc_set_eq vs (snd c)) (s_regd s)
  then (true, mkS (filter (fun c => negb (desc_set_eq vs (snd c))) (s_regd s)) (s_ever s) (s_unch s))
  else (false, s).

(* MustRegister(c1..cn): the collectors are registered in order up to and including the first one
   that is not accepted; its outcome is the outcome of the call; later ones are not attempted *)
Fixpoint spec_must (s : sstate) (cs : list (Z * list desc)) : sres * sstate :=
  match cs with
  | [] => (SOk, s)
  | c :: rest =>
      let '(e, s') := spec_register s (fst c) (snd c) in
      match e with SOk => spec_must s' rest | _ => (e, s') end
  end.

Definition spec_names (s : sstate) : list str := flat_map (fun c => map d_fq (snd c)) (s_regd s).

Inductive sobs := TReg (e : sres) | TUnreg (b : bool) | TGather (names : list str).

Definition spec_step (s : sstate) (o : op) : sobs * sstate :=
  match o with
  | ORegister cid ds => let '(e, s') := spec_register s cid ds in (TReg e, s')
  | OUnregister ds => let '(b, s') := spec_unregister s ds in (TUnreg b, s')
  | OGather => (TGather (spec_names s), s)
  | OMust cs => let '(e, s') := spec_must s cs in (TReg e, s')
  end.
Fixpoint spec_run_from (s : sstate) (ops : list op) : list sobs :=
  match ops with
  | [] => []
  | o :: rest => let '(b, s') := spec_step s o in b :: spec_run_from s' rest
  end.
Definition spec_run (ops : list op) : list sobs := spec_run_from empty_sstate ops.

(* projection of an observed outcome to what the property fixes *)
Definition classify (e : rres) : sres :=
  match e with RNil => SOk | RAlready c => SAlready c | _ => SRejected end.

(* the reported error kind must be justified by the descriptors *)
Definition kind_ok (s : sstate) (ds : list desc) (e : rres) : bool :=
  match e with
  | RInvalid => negb (all_valid ds)
  | RInconsistent => negb (all_consistent s (filter valid ds))
  | RDuplicate => all_valid ds && all_consistent s ds && clashes s ds
  | _ => true
  end.

(* for MustRegister: the error kind must be justified at the collector the specification stops at *)
Fixpoint must_kind_ok (s : sstate) (cs : list (Z * list desc)) (e : rres) : bool :=
  match cs with
  | [] => true
  | c :: rest =>
      let '(se, s') := spec_register s (fst c) (snd c) in
      match se with SOk => must_kind_ok s' rest e | _ => kind_ok s (snd c) e end
  end.

Definition sres_eqb (a b : sres) : bool :=
  match a, b with
  | SOk, SOk => true | SRejected, SRejected => true
  | SAlready x, SAlready y => Z.eqb x y
  | _, _ => false
  end.

(* spec checker for one observed step: [o] is what the implementation answered *)
Definition obs_ok (s : sstate) (p : op) (o : obs) : bool :=
  match p, o with
  | ORegister cid ds, BReg e => sres_eqb (classify e) (fst (spec_register s cid ds)) && kind_ok s ds e
  | OUnregister ds, BUnreg b => Bool.eqb b (fst (spec_unregister s ds))
  | OGather, BGather names => seteq_strs names (spec_names s)
  | OMust cs, BReg e => sres_eqb (classify e) (fst (spec_must s cs)) && must_kind_ok s cs e
  | _, _ => false
  end.
Fixpoint spec_check_from (s : sstate) (ops : list op) (os : list obs) : bool :=
  match ops, os with
  | [], [] => true
  | p :: ops', o :: os' => obs_ok s p o && spec_check_from (snd (spec_step s p)) ops' os'
  | _, _ => false
  end.
Definition spec_check (ops : list op) (os : list obs) : bool := spec_check_from empty_sstate ops os.

(* side conditions under which the serialisations determine identity and dimensions
   (violated only by the known findings dimhash-0xff and dimhash-dollar) *)
Definition no_sep (s : str) : bool := negb (existsb (Z.eqb sep) s).
Definition no_dollar_start (s : str) : bool := match s with 36 :: _ => false | _ => true end.
Definition dim_unambiguous (d : desc) : bool :=
  no_sep (d_help d) && forallb no_dollar_start (map fst (d_consts d)).
