(* Model/SummaryConc.v -- the summary WITH objectives (prometheus/summary.go:309-418) as a step machine
   of Base/Conc.v: concurrent Observe and Write calls, one machine step per schedule point of the
   instrumented code (harness/cmd/instrument: every Mutex.Lock / Mutex.Unlock, and the start of the
   goroutine spawned by asyncFlush).  A step executes the mutex operation and the thread-local code up to
   the next schedule point, i.e. the critical-section body that follows a Lock is part of the Lock step:

     Observe v   oLockBuf      bufMtx.Lock; now := s.now(); expired? -> asyncFlush (next point mtx.Lock)
                               else append v; full? -> asyncFlush (next point mtx.Lock) else -> bufMtx.Unlock
                 oLockMtx1     mtx.Lock; swapBufs(now); go flusher; append v; full? -> asyncFlush else -> Unlock
                 oLockMtx2     mtx.Lock; swapBufs(now); go flusher
                 oUnlockBuf    (deferred) bufMtx.Unlock; return
     Write       wLockBuf      bufMtx.Lock
                 wLockMtx      mtx.Lock; swapBufs(s.now())
                 wUnlockBuf    bufMtx.Unlock; flushColdBuf(); read cnt, sum, head stream
                 wUnlockMtx    mtx.Unlock; return
     flusher j   fStart j      "go-start": flushColdBuf()          (enabled once the j-th `go` was executed)
                 fUnlock       mtx.Unlock; done

   The goroutine started by the j-th executed `go` statement is the Conc thread whose program is
   [SFlusher j] (the scheduler numbers spawned goroutines after the user threads in spawn order, so this is
   thread number <user threads> + j); the `go` statement leaves a token (c_job) that the flusher consumes.
   The buffers, expiry times, streams, count and sum, swapBufs and flushColdBuf are those of
   Model/SummaryWindow.v (a quantile stream = the list of values inserted since its last reset).
   The injected clock is an oracle clk : Z -> Z read at the global step number at which s.now() runs.
   A panic ("coldBuf is not empty") or fuel exhaustion (streamDuration = 0) parks the thread in `crashed`;
   Proofs/C06_conc.v shows that this is unreachable for a valid configuration. *)
From Coq Require Import ZArith List Bool Strings.String.
From Verif Require Import Base.F64 Base.Str Model.SummaryWindow Base.Conc.
Import ListNotations.
Open Scope Z_scope.

Definition clbl (s : string) : list Z := of_string s.
Arguments clbl s%string.

Record csh := mkC {
  c_st : state;            (* SummaryWindow.state: hot/cold buffers, expiry times, streams, cnt, sum *)
  c_buf : bool;            (* bufMtx held *)
  c_mtx : bool;            (* mtx held *)
  c_job : option nat;      (* a spawned flusher goroutine that has not started yet *)
  c_spawned : nat;         (* number of `go` statements executed *)
  c_ticks : Z              (* number of steps executed (the scheduler's logical clock) *)
}.

Inductive sop := SObserve (v : f64) | SWrite | SFlusher (j : nat).
Inductive sret := RUnit | ROut (w : wout).

Inductive spc :=
| oLockBuf (v : f64) | oLockMtx1 (v : f64) (now : Z) | oLockMtx2 (now : Z) | oUnlockBuf
| wLockBuf | wLockMtx | wUnlockBuf | wUnlockMtx (out : wout)
| fStart (j : nat) | fUnlock
| crashed.

Definition sstart (o : sop) : spc + sret :=
  match o with SObserve v => inl (oLockBuf v) | SWrite => inl wLockBuf | SFlusher j => inl (fStart j) end.

Section Machine.
Variable c : cfg.
Variable objs : list (f64 * f64).
Variable clk : Z -> Z.

Definition upd (s : csh) (st : state) (b m : bool) (job : option nat) (sp : nat) : csh :=
  mkC st b m job sp (c_ticks s + 1).

(* fuel for the rotation: the number of stream durations between the two expiry times *)
Definition need_rot (st : state) : nat := S (Z.to_nat ((hot_exp st - head_exp st) / c_d c)).

(* after appending v under bufMtx: asyncFlush if the buffer is full *)
Definition after_append (st : state) (now : Z) : spc :=
  if Z.of_nat (List.length (hot st)) =? c_cap c then oLockMtx2 now else oUnlockBuf.

Definition sstep (s : csh) (pc : spc) : option (csh * (spc + sret)) :=
  let st := c_st s in
  match pc with
  | oLockBuf v =>
      if c_buf s then None
      else
        let now := clk (c_ticks s + 1) in
        if now >? hot_exp st then Some (upd s st true (c_mtx s) (c_job s) (c_spawned s), inl (oLockMtx1 v now))
        else
          let st' := set_hot st (hot st ++ [v]) in
          Some (upd s st' true (c_mtx s) (c_job s) (c_spawned s), inl (after_append st' now))
  | oLockMtx1 v now =>
      if c_mtx s then None
      else match swap_bufs (need c now st) c now st with
           | Ok st1 =>
               let st2 := set_hot st1 (hot st1 ++ [v]) in
               Some (upd s st2 (c_buf s) true (Some (c_spawned s)) (S (c_spawned s)), inl (after_append st2 now))
           | _ => Some (upd s st (c_buf s) true (c_job s) (c_spawned s), inl crashed)
           end
  | oLockMtx2 now =>
      if c_mtx s then None
      else match swap_bufs (need c now st) c now st with
           | Ok st1 => Some (upd s st1 (c_buf s) true (Some (c_spawned s)) (S (c_spawned s)), inl oUnlockBuf)
           | _ => Some (upd s st (c_buf s) true (c_job s) (c_spawned s), inl crashed)
           end
  | oUnlockBuf => Some (upd s st false (c_mtx s) (c_job s) (c_spawned s), inr RUnit)
  | wLockBuf =>
      if c_buf s then None else Some (upd s st true (c_mtx s) (c_job s) (c_spawned s), inl wLockMtx)
  | wLockMtx =>
      if c_mtx s then None
      else
        let now := clk (c_ticks s + 1) in
        match swap_bufs (need c now st) c now st with
        | Ok st1 => Some (upd s st1 (c_buf s) true (c_job s) (c_spawned s), inl wUnlockBuf)
        | _ => Some (upd s st (c_buf s) true (c_job s) (c_spawned s), inl crashed)
        end
  | wUnlockBuf =>
      match flush_cold (need_rot st) c st with
      | Ok st2 =>
          let out := mkW (cnt st2) (sum st2) (head_stream st2) (map (expose (head_stream st2)) objs) in
          Some (upd s st2 false (c_mtx s) (c_job s) (c_spawned s), inl (wUnlockMtx out))
      | _ => Some (upd s st false (c_mtx s) (c_job s) (c_spawned s), inl crashed)
      end
  | wUnlockMtx out => Some (upd s st (c_buf s) false (c_job s) (c_spawned s), inr (ROut out))
  | fStart j =>
      match c_job s with
      | Some j' =>
          if Nat.eqb j j' then
            match flush_cold (need_rot st) c st with
            | Ok st2 => Some (upd s st2 (c_buf s) (c_mtx s) None (c_spawned s), inl fUnlock)
            | _ => Some (upd s st (c_buf s) (c_mtx s) None (c_spawned s), inl crashed)
            end
          else None
      | None => None
      end
  | fUnlock => Some (upd s st (c_buf s) false (c_job s) (c_spawned s), inr RUnit)
  | crashed => None
  end.

Definition slabel (pc : spc) : list Z :=
  match pc with
  | oLockBuf _ | oLockMtx1 _ _ | oLockMtx2 _ | wLockBuf | wLockMtx => clbl "Mutex.Lock"
  | oUnlockBuf | wUnlockBuf | wUnlockMtx _ | fUnlock => clbl "Mutex.Unlock"
  | fStart _ => clbl "go-start"
  | crashed => clbl "crashed"
  end.

Definition summ_obj_machine : machine := mkMachine csh spc sop sret sstart sstep slabel.

Definition cinit (t0 : Z) : csh := mkC (init_state c t0) false false None 0%nat 0.

End Machine.

(* user programs and the flusher pool *)
Inductive uop := UObserve (v : f64) | UWrite.
Definition inj (o : uop) : sop := match o with UObserve v => SObserve v | UWrite => SWrite end.
Definition count_obs (progs : list (list uop)) : nat :=
  List.length (filter (fun o => match o with UObserve _ => true | UWrite => false end) (List.concat progs)).
Definition flushers (k : nat) : list (list sop) := map (fun j => [SFlusher j]) (seq 0 k).
(* every Observe executes at most two `go` statements *)
Definition all_progs (progs : list (list uop)) : list (list sop) :=
  map (map inj) progs ++ flushers (2 * count_obs progs).

Definition crun (c : cfg) (objs : list (f64 * f64)) (clk : Z -> Z) (t0 : Z) (progs : list (list uop)) (sched : list Z)
  : config (summ_obj_machine c objs clk) :=
  run_sched (summ_obj_machine c objs clk) (init_config (summ_obj_machine c objs clk) (cinit c t0) (all_progs progs)) sched.
