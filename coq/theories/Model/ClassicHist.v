(* Model/ClassicHist.v -- classic histogram: bucket validation, bucket search and the
   sequential behaviour of the two count sets (prometheus/histogram.go:535-611, 655-706,
   779-862, 866-897, 1668-1680).  Executable definitions only. *)
From Coq Require Import ZArith List Bool.
From Verif Require Import Base.F64 Gen.Gen_Consts.
Import ListNotations.
Open Scope Z_scope.

Definition def_buckets : list f64 := map of_bits def_buckets_bits.

(* ---- construction-time validation (histogram.go:583-598) ----
   for i, b := range bounds { if i < n-1 { if b >= bounds[i+1] {panic} } else if IsInf(b,+1) { trim } } *)
Fixpoint validate_loop (bs : list f64) : option (list f64) :=
  match bs with
  | [] => Some []
  | [b] => if is_pinf b then Some [] else Some [b]
  | b :: ((b' :: _) as rest) =>
      if negb (flt b b') then None
      else match validate_loop rest with None => None | Some r => Some (b :: r) end
  end.

(* classic histogram without native buckets: empty means the default buckets *)
Definition validate_buckets (bs : list f64) : option (list f64) :=
  validate_loop (match bs with [] => def_buckets | _ => bs end).

(* ---- sort.SearchFloat64s: smallest i in [0,n] with a[i] >= x (transcribed binary search) ---- *)
Fixpoint go_search_loop (fuel : nat) (f : Z -> bool) (i j : Z) : Z :=
  match fuel with
  | O => i
  | S fuel' =>
      if Z.ltb i j then
        let h := (i + j) / 2 in          (* int(uint(i+j) >> 1) *)
        if negb (f h) then go_search_loop fuel' f (h + 1) j
        else go_search_loop fuel' f i h
      else i
  end.
Definition go_search (n : Z) (f : Z -> bool) : Z := go_search_loop (S (Z.to_nat n)) f 0 n.

Definition nth_f (bs : list f64) (i : Z) : f64 := nth (Z.to_nat i) bs fnan.

Definition search_float64s (bs : list f64) (x : f64) : Z :=
  go_search (Z.of_nat (length bs)) (fun i => fge (nth_f bs i) x).

Fixpoint linear_find (bs : list f64) (v : f64) (i : Z) : Z :=
  match bs with
  | [] => i
  | b :: r => if fle v b then i else linear_find r v (i + 1)
  end.

(* histogram.go:866-897 *)
Definition find_bucket (bs : list f64) (v : f64) : Z :=
  let n := Z.of_nat (length bs) in
  match bs with
  | [] => 0
  | b0 :: _ =>
      if fle v b0 then 0
      else if fgt v (nth_f bs (n - 1)) then n
      else if Z.ltb n find_bucket_linear_cutoff then linear_find bs v 0
      else search_float64s bs v
  end.

(* ---- the two count sets ---- *)
Record counts := mkCounts { c_sum : f64; c_count : Z; c_buckets : list Z }.

Definition zero_counts (n : nat) : counts := mkCounts pzero 0 (repeat 0 n).

Fixpoint inc_nth (l : list Z) (i : nat) : list Z :=
  match l, i with
  | [], _ => []
  | x :: r, O => (x + 1) :: r
  | x :: r, S i' => x :: inc_nth r i'
  end.

(* histogramCounts.observe: bucket add (if in range), sum add, count add *)
Definition counts_observe (c : counts) (v : f64) (bucket : Z) : counts :=
  mkCounts (fadd (c_sum c) v) (c_count c + 1)
           (if Z.ltb bucket (Z.of_nat (length (c_buckets c))) then inc_nth (c_buckets c) (Z.to_nat bucket) else c_buckets c).

Record hist := mkHist { h_bounds : list f64; h_hot : bool; h_set0 : counts; h_set1 : counts }.

Definition new_hist (bounds : list f64) : hist :=
  mkHist bounds false (zero_counts (length bounds)) (zero_counts (length bounds)).

Definition get_set (h : hist) (b : bool) : counts := if b then h_set1 h else h_set0 h.
Definition put_set (h : hist) (b : bool) (c : counts) : hist :=
  if b then mkHist (h_bounds h) (h_hot h) (h_set0 h) c else mkHist (h_bounds h) (h_hot h) c (h_set1 h).

Definition observe (h : hist) (v : f64) : hist :=
  put_set h (h_hot h) (counts_observe (get_set h (h_hot h)) v (find_bucket (h_bounds h) v)).

Record wout := mkWout { w_count : Z; w_sum : f64; w_cum : list (f64 * Z) }.

Fixpoint cumulate (bounds : list f64) (bk : list Z) (acc : Z) : list (f64 * Z) :=
  match bounds, bk with
  | b :: br, k :: kr => (b, acc + k) :: cumulate br kr (acc + k)
  | _, _ => []
  end.

Fixpoint zip_add (a b : list Z) : list Z :=
  match a, b with
  | x :: ar, y :: br => (x + y) :: zip_add ar br
  | _, _ => a
  end.

(* histogram.Write (sequential): flip, read the now-cold set, merge it into the new hot set, zero it *)
Definition write (h : hist) : hist * wout :=
  let cold_i := h_hot h in
  let hot_i := negb (h_hot h) in
  let cold := get_set h cold_i in
  let hot := get_set h hot_i in
  let out := mkWout (c_count cold) (c_sum cold) (cumulate (h_bounds h) (c_buckets cold) 0) in
  let hot' := mkCounts (fadd (c_sum hot) (c_sum cold)) (c_count hot + c_count cold) (zip_add (c_buckets hot) (c_buckets cold)) in
  let h1 := mkHist (h_bounds h) hot_i (h_set0 h) (h_set1 h) in
  let h2 := put_set h1 hot_i hot' in
  let h3 := put_set h2 cold_i (zero_counts (length (h_bounds h))) in
  (h3, out).

Inductive op := OObs (v : f64) | OWrite.

Fixpoint run_ops (h : hist) (ops : list op) : list wout :=
  match ops with
  | [] => []
  | OObs v :: r => run_ops (observe h v) r
  | OWrite :: r => let (h', o) := write h in o :: run_ops h' r
  end.

(* whole program: construct, then run; None = construction panics *)
Definition run (bounds : list f64) (ops : list op) : option (list wout) :=
  match validate_buckets bounds with
  | None => None
  | Some bs => Some (run_ops (new_hist bs) ops)
  end.

(* ---- the specification (what the property text says) ---- *)
Definition strictly_increasing_b := fix go (bs : list f64) : bool :=
  match bs with
  | b :: ((b' :: _) as r) => flt b b' && go r
  | _ => true
  end.

Fixpoint trim_inf (bs : list f64) : list f64 :=
  match bs with
  | [] => []
  | [b] => if is_pinf b then [] else [b]
  | b :: r => b :: trim_inf r
  end.

Definition count_le (obs : list f64) (b : f64) : Z := Z.of_nat (length (filter (fun v => fle v b) obs)).

Definition spec_write (bounds : list f64) (obs : list f64) : wout :=
  mkWout (Z.of_nat (length obs)) (fold_left fadd obs pzero) (map (fun b => (b, count_le obs b)) bounds).

(* observations made before each Write, in order *)
Fixpoint spec_ops (bounds : list f64) (seen : list f64) (ops : list op) : list wout :=
  match ops with
  | [] => []
  | OObs v :: r => spec_ops bounds (seen ++ [v]) r
  | OWrite :: r => spec_write bounds seen :: spec_ops bounds seen r
  end.

Definition spec_run (bounds : list f64) (ops : list op) : option (list wout) :=
  let bs := match bounds with [] => def_buckets | _ => bounds end in
  if strictly_increasing_b bs then Some (spec_ops (trim_inf bs) [] ops) else None.
