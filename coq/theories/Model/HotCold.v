(* Model/HotCold.v -- the hot/cold count-set protocol of the classic histogram
   (prometheus/histogram.go: observe 900-912 & 655-706, Write 779-862, waitForCooldown 1641-1645,
   addAndResetCounts 1668-1680, atomicAddFloat 1650-1658) and of the summary without objectives
   (prometheus/summary.go:467-531), one machine step per sync/atomic or mutex operation. *)
From Coq Require Import ZArith List Bool Strings.String.
From Verif Require Import Base.F64 Base.Str Base.Conc Model.ClassicHist.
Import ListNotations.
Open Scope Z_scope.

Definition lbl (s : string) : list Z := of_string s.
Arguments lbl s%string.

(* one count set *)
Record cset := mkSet { s_sum : f64; s_cnt : Z; s_bk : list Z; s_zero : Z }.
Definition cset0 (n : nat) : cset := mkSet pzero 0 (repeat 0 n) 0.

Record hsh := mkH {
  h_bnds : list f64;        (* upper bounds (validated) *)
  hot : bool;               (* bit 63 of countAndHotIdx *)
  tickets : Z;              (* low 63 bits of countAndHotIdx *)
  set0 : cset; set1 : cset;
  mtx : bool                (* histogram mutex held *)
}.
Definition hget (h : hsh) (b : bool) : cset := if b then set1 h else set0 h.
Definition hput (h : hsh) (b : bool) (c : cset) : hsh :=
  if b then mkH (h_bnds h) (hot h) (tickets h) (set0 h) c (mtx h) else mkH (h_bnds h) (hot h) (tickets h) c (set1 h) (mtx h).
Definition hinit (bnds : list f64) : hsh := mkH bnds false 0 (cset0 (List.length bnds)) (cset0 (List.length bnds)) false.

Fixpoint upd_nth (l : list Z) (i : nat) (f : Z -> Z) : list Z :=
  match l, i with
  | [], _ => []
  | x :: r, O => f x :: r
  | x :: r, S i' => x :: upd_nth r i' f
  end.
Definition nthZ (l : list Z) (i : nat) : Z := nth i l 0.

Inductive hop := HObserve (v : f64) | HWrite.
Record hout := mkHOut { ho_count : Z; ho_sum : f64; ho_cum : list Z }.
Inductive hret := HUnit | HOut (o : hout).

(* program counters. b = index of the set the thread works on *)
Inductive hpc :=
(* Observe *)
| oTicket (v : f64)
| oBucket (v : f64) (b : bool) (k : Z)
| oSumLoad (v : f64) (b : bool)
| oSumCas (v : f64) (b : bool) (old : f64)
| oCount (b : bool)
(* Write *)
| wLock
| wFlip
| wCool (count : Z) (cold : bool)
| wSpin (count : Z) (cold : bool)
| wReadSum (count : Z) (cold : bool)
| wReadBk (count : Z) (cold : bool) (sum : f64) (i : nat) (acc : Z) (cum : list Z)
| mLoadCnt (o : hout) (cold : bool)
| mAddCnt (o : hout) (cold : bool) (c : Z)
| mStoreCnt (o : hout) (cold : bool)
| mLoadSum (o : hout) (cold : bool)
| mSumLoad (o : hout) (cold : bool) (s : f64)
| mSumCas (o : hout) (cold : bool) (s : f64) (old : f64)
| mStoreSum (o : hout) (cold : bool)
| mLoadBk (o : hout) (cold : bool) (i : nat)
| mAddBk (o : hout) (cold : bool) (i : nat) (c : Z)
| mStoreBk (o : hout) (cold : bool) (i : nat)
| mLoadZero (o : hout) (cold : bool)
| mAddZero (o : hout) (cold : bool) (z : Z)
| mStoreZero (o : hout) (cold : bool)
| wUnlock (o : hout).

Definition hstart (o : hop) : hpc + hret :=
  match o with HObserve v => inl (oTicket v) | HWrite => inl wLock end.

Definition after_bk (h : hsh) (o : hout) (cold : bool) (i : nat) : hpc :=
  if Nat.ltb i (List.length (h_bnds h)) then mLoadBk o cold i else mLoadZero o cold.

Definition hstep (h : hsh) (pc : hpc) : option (hsh * (hpc + hret)) :=
  match pc with
  | oTicket v =>
      let h' := mkH (h_bnds h) (hot h) (tickets h + 1) (set0 h) (set1 h) (mtx h) in
      let b := hot h in
      let k := find_bucket (h_bnds h) v in
      Some (h', inl (if Z.ltb k (Z.of_nat (List.length (h_bnds h))) then oBucket v b k else oSumLoad v b))
  | oBucket v b k =>
      let c := hget h b in
      Some (hput h b (mkSet (s_sum c) (s_cnt c) (upd_nth (s_bk c) (Z.to_nat k) (fun x => x + 1)) (s_zero c)), inl (oSumLoad v b))
  | oSumLoad v b => Some (h, inl (oSumCas v b (s_sum (hget h b))))
  | oSumCas v b old =>
      let c := hget h b in
      if fbits_eq (s_sum c) old then Some (hput h b (mkSet (fadd old v) (s_cnt c) (s_bk c) (s_zero c)), inl (oCount b))
      else Some (h, inl (oSumLoad v b))
  | oCount b =>
      let c := hget h b in
      Some (hput h b (mkSet (s_sum c) (s_cnt c + 1) (s_bk c) (s_zero c)), inr HUnit)
  | wLock => if mtx h then None else Some (mkH (h_bnds h) (hot h) (tickets h) (set0 h) (set1 h) true, inl wFlip)
  | wFlip =>
      let h' := mkH (h_bnds h) (negb (hot h)) (tickets h) (set0 h) (set1 h) (mtx h) in
      Some (h', inl (wCool (tickets h) (hot h)))     (* the old hot set is now cold *)
  | wCool count cold =>
      if Z.eqb (s_cnt (hget h cold)) count then Some (h, inl (wReadSum count cold)) else Some (h, inl (wSpin count cold))
  | wSpin count cold => Some (h, inl (wCool count cold))
  | wReadSum count cold =>
      let s := s_sum (hget h cold) in
      Some (h, match h_bnds h with
               | [] => inl (mLoadCnt (mkHOut count s []) cold)
               | _ => inl (wReadBk count cold s 0 0 [])
               end)
  | wReadBk count cold s i acc cum =>
      let acc' := acc + nthZ (s_bk (hget h cold)) i in
      let cum' := cum ++ [acc'] in
      if Nat.ltb (S i) (List.length (h_bnds h)) then Some (h, inl (wReadBk count cold s (S i) acc' cum'))
      else Some (h, inl (mLoadCnt (mkHOut count s cum') cold))
  | mLoadCnt o cold => Some (h, inl (mAddCnt o cold (s_cnt (hget h cold))))
  | mAddCnt o cold c =>
      let hc := hget h (negb cold) in
      Some (hput h (negb cold) (mkSet (s_sum hc) (s_cnt hc + c) (s_bk hc) (s_zero hc)), inl (mStoreCnt o cold))
  | mStoreCnt o cold =>
      let cc := hget h cold in
      Some (hput h cold (mkSet (s_sum cc) 0 (s_bk cc) (s_zero cc)), inl (mLoadSum o cold))
  | mLoadSum o cold => Some (h, inl (mSumLoad o cold (s_sum (hget h cold))))
  | mSumLoad o cold s => Some (h, inl (mSumCas o cold s (s_sum (hget h (negb cold)))))
  | mSumCas o cold s old =>
      let hc := hget h (negb cold) in
      if fbits_eq (s_sum hc) old then Some (hput h (negb cold) (mkSet (fadd old s) (s_cnt hc) (s_bk hc) (s_zero hc)), inl (mStoreSum o cold))
      else Some (h, inl (mSumLoad o cold s))
  | mStoreSum o cold =>
      let cc := hget h cold in
      Some (hput h cold (mkSet pzero (s_cnt cc) (s_bk cc) (s_zero cc)), inl (after_bk h o cold 0))
  | mLoadBk o cold i => Some (h, inl (mAddBk o cold i (nthZ (s_bk (hget h cold)) i)))
  | mAddBk o cold i c =>
      let hc := hget h (negb cold) in
      Some (hput h (negb cold) (mkSet (s_sum hc) (s_cnt hc) (upd_nth (s_bk hc) i (fun x => x + c)) (s_zero hc)), inl (mStoreBk o cold i))
  | mStoreBk o cold i =>
      let cc := hget h cold in
      Some (hput h cold (mkSet (s_sum cc) (s_cnt cc) (upd_nth (s_bk cc) i (fun _ => 0)) (s_zero cc)), inl (after_bk h o cold (S i)))
  | mLoadZero o cold => Some (h, inl (mAddZero o cold (s_zero (hget h cold))))
  | mAddZero o cold z =>
      let hc := hget h (negb cold) in
      Some (hput h (negb cold) (mkSet (s_sum hc) (s_cnt hc) (s_bk hc) (s_zero hc + z)), inl (mStoreZero o cold))
  | mStoreZero o cold =>
      let cc := hget h cold in
      Some (hput h cold (mkSet (s_sum cc) (s_cnt cc) (s_bk cc) 0), inl (wUnlock o))
  | wUnlock o => Some (mkH (h_bnds h) (hot h) (tickets h) (set0 h) (set1 h) false, inr (HOut o))
  end.

(* canonical labels: "<operation> <field>" (the driver reduces the instrumenter's labels to this form) *)
Definition hlabel (pc : hpc) : list Z :=
  match pc with
  | oTicket _ => lbl "AddUint64 countAndHotIdx"
  | oBucket _ _ _ => lbl "AddUint64 buckets"
  | oSumLoad _ _ => lbl "LoadUint64 bits"
  | oSumCas _ _ _ => lbl "CompareAndSwapUint64 bits"
  | oCount _ => lbl "AddUint64 count"
  | wLock => lbl "Mutex.Lock"
  | wFlip => lbl "AddUint64 countAndHotIdx"
  | wCool _ _ => lbl "LoadUint64 count"
  | wSpin _ _ => lbl "spin"
  | wReadSum _ _ => lbl "LoadUint64 sumBits"
  | wReadBk _ _ _ _ _ _ => lbl "LoadUint64 buckets"
  | mLoadCnt _ _ => lbl "LoadUint64 count"
  | mAddCnt _ _ _ => lbl "AddUint64 count"
  | mStoreCnt _ _ => lbl "StoreUint64 count"
  | mLoadSum _ _ => lbl "LoadUint64 sumBits"
  | mSumLoad _ _ _ => lbl "LoadUint64 bits"
  | mSumCas _ _ _ _ => lbl "CompareAndSwapUint64 bits"
  | mStoreSum _ _ => lbl "StoreUint64 sumBits"
  | mLoadBk _ _ _ => lbl "LoadUint64 buckets"
  | mAddBk _ _ _ _ => lbl "AddUint64 buckets"
  | mStoreBk _ _ _ => lbl "StoreUint64 buckets"
  | mLoadZero _ _ => lbl "LoadUint64 nativeHistogramZeroBucket"
  | mAddZero _ _ _ => lbl "AddUint64 nativeHistogramZeroBucket"
  | mStoreZero _ _ => lbl "StoreUint64 nativeHistogramZeroBucket"
  | wUnlock _ => lbl "Mutex.Unlock"
  end.

Definition hist_machine : machine := mkMachine hsh hpc hop hret hstart hstep hlabel.

(* ---------------- summary without objectives ---------------- *)
Inductive spc :=
| soTicket (v : f64) | soSumLoad (v : f64) (b : bool) | soSumCas (v : f64) (b : bool) (old : f64) | soCount (b : bool)
| swLock | swFlip | swCool (count : Z) (cold : bool) | swSpin (count : Z) (cold : bool) | swReadSum (count : Z) (cold : bool)
| smAddCnt (o : hout) (cold : bool) | smStoreCnt (o : hout) (cold : bool)
| smSumLoad (o : hout) (cold : bool) | smSumCas (o : hout) (cold : bool) (old : f64) | smStoreSum (o : hout) (cold : bool)
| swUnlock (o : hout).

Definition sstart (o : hop) : spc + hret :=
  match o with HObserve v => inl (soTicket v) | HWrite => inl swLock end.

Definition sstep (h : hsh) (pc : spc) : option (hsh * (spc + hret)) :=
  match pc with
  | soTicket v => Some (mkH (h_bnds h) (hot h) (tickets h + 1) (set0 h) (set1 h) (mtx h), inl (soSumLoad v (hot h)))
  | soSumLoad v b => Some (h, inl (soSumCas v b (s_sum (hget h b))))
  | soSumCas v b old =>
      let c := hget h b in
      if fbits_eq (s_sum c) old then Some (hput h b (mkSet (fadd old v) (s_cnt c) (s_bk c) (s_zero c)), inl (soCount b))
      else Some (h, inl (soSumLoad v b))
  | soCount b => let c := hget h b in Some (hput h b (mkSet (s_sum c) (s_cnt c + 1) (s_bk c) (s_zero c)), inr HUnit)
  | swLock => if mtx h then None else Some (mkH (h_bnds h) (hot h) (tickets h) (set0 h) (set1 h) true, inl swFlip)
  | swFlip => Some (mkH (h_bnds h) (negb (hot h)) (tickets h) (set0 h) (set1 h) (mtx h), inl (swCool (tickets h) (hot h)))
  | swCool count cold =>
      if Z.eqb (s_cnt (hget h cold)) count then Some (h, inl (swReadSum count cold)) else Some (h, inl (swSpin count cold))
  | swSpin count cold => Some (h, inl (swCool count cold))
  | swReadSum count cold => Some (h, inl (smAddCnt (mkHOut count (s_sum (hget h cold)) []) cold))
  | smAddCnt o cold =>
      let hc := hget h (negb cold) in
      Some (hput h (negb cold) (mkSet (s_sum hc) (s_cnt hc + ho_count o) (s_bk hc) (s_zero hc)), inl (smStoreCnt o cold))
  | smStoreCnt o cold =>
      let cc := hget h cold in Some (hput h cold (mkSet (s_sum cc) 0 (s_bk cc) (s_zero cc)), inl (smSumLoad o cold))
  | smSumLoad o cold => Some (h, inl (smSumCas o cold (s_sum (hget h (negb cold)))))
  | smSumCas o cold old =>
      let hc := hget h (negb cold) in
      if fbits_eq (s_sum hc) old then Some (hput h (negb cold) (mkSet (fadd old (ho_sum o)) (s_cnt hc) (s_bk hc) (s_zero hc)), inl (smStoreSum o cold))
      else Some (h, inl (smSumLoad o cold))
  | smStoreSum o cold =>
      let cc := hget h cold in Some (hput h cold (mkSet pzero (s_cnt cc) (s_bk cc) (s_zero cc)), inl (swUnlock o))
  | swUnlock o => Some (mkH (h_bnds h) (hot h) (tickets h) (set0 h) (set1 h) false, inr (HOut o))
  end.

Definition slabel (pc : spc) : list Z :=
  match pc with
  | soTicket _ => lbl "AddUint64 countAndHotIdx"
  | soSumLoad _ _ => lbl "LoadUint64 sumBits"
  | soSumCas _ _ _ => lbl "CompareAndSwapUint64 sumBits"
  | soCount _ => lbl "AddUint64 count"
  | swLock => lbl "Mutex.Lock"
  | swFlip => lbl "AddUint64 countAndHotIdx"
  | swCool _ _ => lbl "LoadUint64 count"
  | swSpin _ _ => lbl "spin"
  | swReadSum _ _ => lbl "LoadUint64 sumBits"
  | smAddCnt _ _ => lbl "AddUint64 count"
  | smStoreCnt _ _ => lbl "StoreUint64 count"
  | smSumLoad _ _ => lbl "LoadUint64 sumBits"
  | smSumCas _ _ _ => lbl "CompareAndSwapUint64 sumBits"
  | smStoreSum _ _ => lbl "StoreUint64 sumBits"
  | swUnlock _ => lbl "Mutex.Unlock"
  end.

Definition summ_machine : machine := mkMachine hsh spc hop hret sstart sstep slabel.

(* ---------------- specification checker on histories ---------------- *)
(* A history is explained when every Write's output is the exact aggregate of a set M of Observe calls with
   (returned before the Write was invoked) <= M <= (invoked before the Write returned), and the sets of
   real-time ordered Writes are nested.  The checker decides this for observation values that are DISTINCT
   POWERS OF TWO below 2^52 in magnitude spread (so the float sum is exact and identifies M uniquely). *)
Definition is_obs (o : hop) : option f64 := match o with HObserve v => Some v | HWrite => None end.

(* the integer value of an observation that is a power of two 2^j with 0 <= j <= 60, else None *)
Definition pow2_int (v : f64) : option Z :=
  match to_Z_exact v with
  | Some z => if (0 <? z) && (z <=? 2 ^ 60) && (Z.eqb z (2 ^ Z.log2 z)) then Some z else None
  | None => None
  end.

Section Check.
Context {M : machine}.
Variable op_of : Conc.op M -> hop.
Variable ret_of : Conc.ret M -> hret.
Variable bounds : list f64.

Definition obs_calls (h : list (call M)) : list (call M * Z) :=
  flat_map (fun c => match is_obs (op_of (c_op c)) with
                     | Some v => match pow2_int v with Some z => [(c, z)] | None => [] end
                     | None => [] end) h.

Definition decodable (h : list (call M)) : bool :=
  let vs := map snd (obs_calls h) in
  Nat.eqb (List.length vs) (List.length (filter (fun c => match is_obs (op_of (c_op c)) with Some _ => true | None => false end) h)) &&
  Z.eqb (fold_left Z.lor vs 0) (fold_left Z.add vs 0).      (* pairwise distinct powers of two *)

Definition write_mask (o : hout) : option Z :=
  match to_Z_exact (ho_sum o) with Some z => if 0 <=? z then Some z else None | None => None end.

Definition write_ok (h : list (call M)) (w : call M) (o : hout) : bool :=
  match write_mask o with
  | None => false
  | Some mask =>
      let obs := obs_calls h in
      let inM := filter (fun p => Z.eqb (Z.land mask (snd p)) (snd p)) obs in
      Z.eqb mask (fold_left Z.add (map snd inM) 0) &&
      Z.eqb (ho_count o) (Z.of_nat (List.length inM)) &&
      Nat.eqb (List.length (ho_cum o)) (List.length bounds) &&
      forallb (fun bc => Z.eqb (snd bc) (Z.of_nat (List.length (filter (fun p => fle (of_Z (snd p)) (fst bc)) inM))))
              (combine bounds (ho_cum o)) &&
      forallb (fun p => if c_res (fst p) <=? c_inv w then Z.eqb (Z.land mask (snd p)) (snd p) else true) obs &&
      forallb (fun p => if Z.eqb (Z.land mask (snd p)) (snd p) then c_inv (fst p) <? c_res w else true) obs
  end.

Definition writes_of (h : list (call M)) : list (call M * hout) :=
  flat_map (fun c => match ret_of (c_ret c) with HOut o => [(c, o)] | HUnit => [] end) h.

Definition snapshot_check (h : list (call M)) : bool :=
  if negb (decodable h) then true
  else
    forallb (fun wo => write_ok h (fst wo) (snd wo)) (writes_of h) &&
    forallb (fun w1 => forallb (fun w2 =>
      if c_res (fst w1) <=? c_inv (fst w2) then
        match write_mask (snd w1), write_mask (snd w2) with
        | Some m1, Some m2 => Z.eqb (Z.land m1 m2) m1
        | _, _ => false
        end
      else true) (writes_of h)) (writes_of h).
End Check.
