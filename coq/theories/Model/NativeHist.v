(* Model/NativeHist.v -- native (sparse) histogram, SEQUENTIAL behaviour
   (prometheus/histogram.go: 535-611 construction, 655-706 histogramCounts.observe, 780-863 Write,
   901-1148 observe/limitBuckets/maybeReset/reset/maybeWidenZeroBucket/doubleBucketWidth/resetCounts,
   1478-1681 makeBuckets/addToBucket/addAndReset/findSmallestKey/getLe/addAndResetCounts,
   1683-1869 native exemplars).  Part 1: the executable MODEL (a transcription of the control
   flow, not of what the code should do).  Part 2: the SPECIFICATION (what the property text
   demands), kept separate and much simpler.  Executable definitions only.

   Representation choices (documented, not verified by Coq):
   * the two count sets are stored as (hot, cold) and a flip swaps them (instead of counts[2]
     plus the index bit of countAndHotIdx); h_n is the 63-bit observation counter of
     countAndHotIdx.  waitForCooldown(count, c) is the test `count = c_cnt c`; when it fails the
     real code spins forever: the model returns None ("hangs").
   * a sync.Map int -> *int64 is an association list sorted by key (Range callbacks of the code
     commute, so the iteration order is not observable); makeBuckets sorts its keys anyway.
   * uint32 bucket numbers wrap modulo 2^32 (atomicDecUint32); uint64/int64 counters are
     unbounded Z (assumption: fewer than 2^63 observations); time is Z nanoseconds.
   * bucket factor is not modelled: the driver passes the schema pickSchema chose. *)
From Coq Require Import ZArith List Bool.
From Verif Require Import Base.F64 Gen.Gen_Bounds Gen.Gen_Consts Model.ClassicHist.
Import ListNotations.
Open Scope Z_scope.

(* ================================================================== *)
(* Part 1: MODEL                                                      *)
(* ================================================================== *)

(* ---- boundary table (nativeHistogramBounds), rows 0..8 ---- *)
Definition bounds_rows : list (list f64) := map (map of_bits) native_bounds_bits.
Definition bounds_row (s : Z) : list f64 := nth (Z.to_nat s) bounds_rows [].
Definition half : f64 := of_bits 0x3FE0000000000000.
Definition max_int32 : Z := 2147483647.

(* ---- sparse bucket maps ---- *)
Definition bmap := list (Z * Z).

(* addToBucket (1535-1550): returns the map and whether a bucket was created *)
Fixpoint m_add (m : bmap) (k inc : Z) : bmap * bool :=
  match m with
  | [] => ([(k, inc)], true)
  | (k', v) :: r =>
      if Z.eqb k k' then ((k', v + inc) :: r, false)
      else if Z.ltb k k' then ((k, inc) :: m, true)
      else let (r', c) := m_add r k inc in ((k', v) :: r', c)
  end.

(* sync.Map.LoadAndDelete: returns the map and whether the key was present *)
Fixpoint m_del (m : bmap) (k : Z) : bmap * bool :=
  match m with
  | [] => ([], false)
  | (k', v) :: r =>
      if Z.eqb k k' then (r, true)
      else let (r', c) := m_del r k in ((k', v) :: r', c)
  end.

Fixpoint m_get (m : bmap) (k : Z) : Z :=
  match m with
  | [] => 0
  | (k', v) :: r => if Z.eqb k k' then v else m_get r k
  end.

(* findSmallestKey (1575-1585) *)
Definition find_smallest_key (m : bmap) : Z :=
  fold_left (fun res p => if Z.ltb (fst p) res then fst p else res) m max_int32.

Definition u32 (x : Z) : Z := x mod 2 ^ 32.
Definition u32_inc (x : Z) : Z := u32 (x + 1).
Definition u32_dec (x : Z) : Z := u32 (x + (2 ^ 32 - 1)).   (* atomic.AddUint32(p, ^uint32(0)) *)

(* ---- key computation of histogramCounts.observe (662-691); v is not NaN ---- *)
Definition inf_to_max (v : f64) : f64 :=
  if is_pinf v then max_float else if is_ninf v then fneg max_float else v.

Definition key_frac_exp (schema : Z) (frac : f64) (exp : Z) : Z :=
  if Z.ltb 0 schema then
    let bounds := bounds_row schema in
    search_float64s bounds frac + (exp - 1) * Z.of_nat (length bounds)
  else
    let key := if feq frac half then exp - 1 else exp in
    let offset := 2 ^ (- schema) - 1 in
    (key + offset) / 2 ^ (- schema).          (* Go's >> on int: floor division *)

Definition key_of (schema : Z) (v : f64) : Z :=
  let v1 := inf_to_max v in
  let '(frac, exp) := frexp (fabs v1) in
  let key := key_frac_exp schema frac exp in
  if is_inf v then key + 1 else key.

(* getLe (1587-1638) *)
Definition get_le (key schema : Z) : f64 :=
  if Z.ltb schema 0 then
    let exp := key * 2 ^ (- schema) in        (* key << -schema *)
    if Z.eqb exp 1024 then max_float else ldexp fone exp
  else
    let n := 2 ^ schema in
    let fracIdx := key mod n in               (* key & ((1<<schema)-1), two's complement *)
    let frac := nth_f (bounds_row schema) fracIdx in
    let exp := key / n + 1 in                 (* (key >> schema) + 1, arithmetic shift *)
    if feq frac half && Z.eqb exp 1025 then max_float else ldexp frac exp.

(* ---- configuration ---- *)
Record config := mkConfig {
  g_schema : Z;        (* pickSchema(NativeHistogramBucketFactor), supplied by the driver *)
  g_zt_opt : f64;      (* NativeHistogramZeroThreshold as given *)
  g_max_buckets : Z;   (* NativeHistogramMaxBucketNumber (uint32) *)
  g_max_zt : f64;      (* NativeHistogramMaxZeroThreshold *)
  g_min_reset : Z;     (* NativeHistogramMinResetDuration, ns *)
  g_ex_max : Z;        (* NativeHistogramMaxExemplars *)
  g_ex_ttl : Z         (* NativeHistogramExemplarTTL, ns *)
}.

Definition def_zt : f64 := of_bits def_native_zero_threshold_bits.

(* newHistogram 575-580 *)
Definition init_zt (g : config) : f64 :=
  if fgt (g_zt_opt g) pzero then g_zt_opt g
  else if feq (g_zt_opt g) pzero then def_zt
  else pzero.

(* ---- one count set ---- *)
Record counts := mkCounts {
  c_sum : f64; c_cnt : Z; c_zb : Z; c_zt : f64; c_schema : Z; c_bn : Z; c_pos : bmap; c_neg : bmap
}.

(* resetCounts (1136-1148) / initial state *)
Definition reset_counts (g : config) : counts :=
  mkCounts pzero 0 0 (init_zt g) (g_schema g) 0 [] [].

(* histogramCounts.observe with doSparse = not NaN; the zero-bucket decision is taken on the
   original value (origV), the key on the value with +-Inf replaced by +-MaxFloat64 *)
Definition c_observe (c : counts) (v : f64) : counts :=
  let sum' := fadd (c_sum c) v in
  if is_nan v then
    mkCounts sum' (c_cnt c + 1) (c_zb c) (c_zt c) (c_schema c) (c_bn c) (c_pos c) (c_neg c)
  else
    let key := key_of (c_schema c) v in
    if fgt v (c_zt c) then
      let (m, created) := m_add (c_pos c) key 1 in
      mkCounts sum' (c_cnt c + 1) (c_zb c) (c_zt c) (c_schema c)
               (if created then u32_inc (c_bn c) else c_bn c) m (c_neg c)
    else if flt v (fneg (c_zt c)) then
      let (m, created) := m_add (c_neg c) key 1 in
      mkCounts sum' (c_cnt c + 1) (c_zb c) (c_zt c) (c_schema c)
               (if created then u32_inc (c_bn c) else c_bn c) (c_pos c) m
    else
      mkCounts sum' (c_cnt c + 1) (c_zb c + 1) (c_zt c) (c_schema c) (c_bn c) (c_pos c) (c_neg c).

(* addAndResetCounts (1669-1681): returns (hot', cold') *)
Definition add_and_reset_counts (hot cold : counts) : counts * counts :=
  (mkCounts (fadd (c_sum hot) (c_sum cold)) (c_cnt hot + c_cnt cold) (c_zb hot + c_zb cold)
            (c_zt hot) (c_schema hot) (c_bn hot) (c_pos hot) (c_neg hot),
   mkCounts pzero 0 0 (c_zt cold) (c_schema cold) (c_bn cold) (c_pos cold) (c_neg cold)).

(* ---- native exemplars (1683-1869) ---- *)
Definition exemplar := (f64 * Z)%type.          (* value, timestamp (ns) *)
Definition ex_cap (g : config) : Z := if Z.eqb (g_ex_max g) 0 then 10 else if Z.ltb (g_ex_max g) 0 then 0 else g_ex_max g.
Definition ex_ttl (g : config) : Z := if Z.eqb (g_ex_ttl g) 0 then 300000000000 else g_ex_ttl g.
Definition ex_disabled (g : config) : bool := Z.ltb (g_ex_max g) 0.

Definition nth_ex (l : list exemplar) (i : Z) : exemplar := nth (Z.to_nat i) l (fnan, 0).
Definition zlen {A} (l : list A) : Z := Z.of_nat (length l).
Definition take {A} (n : Z) (l : list A) : list A := firstn (Z.to_nat n) l.
Definition drop {A} (n : Z) (l : list A) : list A := skipn (Z.to_nat n) l.

(* first index i (from i0) with p (l[i]); length if none *)
Fixpoint first_idx (p : exemplar -> bool) (l : list exemplar) (i0 : Z) : Z :=
  match l with
  | [] => i0
  | x :: r => if p x then i0 else first_idx p r (i0 + 1)
  end.

(* otIdx: first index with the strictly oldest timestamp (1788-1791) *)
Fixpoint oldest_idx (l : list exemplar) (i ot otIdx : Z) : Z * Z :=
  match l with
  | [] => (ot, otIdx)
  | x :: r => if Z.eqb otIdx (-1) || Z.ltb (snd x) ot then oldest_idx r (i + 1) (snd x) i
              else oldest_idx r (i + 1) ot otIdx
  end.

(* the older member of the adjacent pair (i-1, i) (1809-1813) *)
Definition older_of_pair (l : list exemplar) (i : Z) : Z :=
  if Z.ltb (snd (nth_ex l i)) (snd (nth_ex l (i - 1))) then i else i - 1.

Definition replace_ex (l : list exemplar) (rIdx nIdx : Z) (e : exemplar) : list exemplar :=
  if Z.eqb rIdx nIdx then take nIdx l ++ [e] ++ drop (nIdx + 1) l
  else if Z.ltb rIdx nIdx then take rIdx l ++ drop (rIdx + 1) (take nIdx l) ++ [e] ++ drop nIdx l
  else take nIdx l ++ [e] ++ drop nIdx (take rIdx l) ++ drop (rIdx + 1) l.

(* The three decisions of addExemplar that depend on math.Log (not computable bit-exactly in Coq)
   are an ORACLE input, oracle = 4*p + 2*b1 + b2:
     p  = the i for which the loop 1786-1816 last assigned md (the closest adjacent pair (i-1, i)),
     b1 = outcome of `diff < md` at 1837 (new value closer to its left neighbour),
     b2 = outcome of `diff < md` at 1849 (new value closer to its right neighbour).
   Everything else (capacity, insertion index, oldest timestamp, TTL expiry, which member of the
   pair is older, the slice surgery) is transcribed. *)
Definition choose_ridx (l : list exemplar) (nIdx oracle : Z) : Z :=
  let p0 := oracle / 4 in
  let p := if Z.leb 1 p0 && Z.ltb p0 (zlen l) then p0 else 1 in
  let b1 := Z.eqb ((oracle / 2) mod 2) 1 in
  let b2 := Z.eqb (oracle mod 2) 1 in
  let r0 := older_of_pair l p in
  let r1 := if Z.ltb 0 nIdx && b1 then nIdx - 1 else r0 in
  if Z.ltb nIdx (zlen l) && b2 then nIdx else r1.

Definition add_exemplar (g : config) (l : list exemplar) (e : exemplar) (oracle : Z) : list exemplar :=
  if ex_disabled g then l
  else if Z.ltb (zlen l) (ex_cap g) then
    let nIdx := first_idx (fun x => flt (fst e) (fst x)) l 0 in
    take nIdx l ++ [e] ++ drop nIdx l
  else if Z.eqb (zlen l) 1 then [e]
  else
    let '(ot, otIdx) := oldest_idx l 0 0 (-1) in
    let nIdx := first_idx (fun x => fle (fst e) (fst x)) l 0 in
    let rIdx :=
      if negb (Z.eqb otIdx (-1)) && Z.ltb (ex_ttl g) (snd e - ot) then otIdx
      else choose_ridx l nIdx oracle in
    replace_ex l rIdx nIdx e.

(* ---- the histogram ---- *)
Record hist := mkHist {
  h_cfg : config; h_hot : counts; h_cold : counts; h_n : Z;
  h_last : Z;            (* lastResetTime *)
  h_sched : bool;        (* resetScheduled *)
  h_clock : Z;           (* injected now() *)
  h_timers : list Z;     (* durations passed to afterFunc since the last Write (observable) *)
  h_ex : list exemplar
}.

Definition new_hist (g : config) : hist :=
  mkHist g (reset_counts g) (reset_counts g) 0 0 false 0 [] [].

Definition with_sets (h : hist) (hot cold : counts) (n : Z) : hist :=
  mkHist (h_cfg h) hot cold n (h_last h) (h_sched h) (h_clock h) (h_timers h) (h_ex h).

(* maybeReset (964-986): None = hang; Some (h, did_reset) *)
Definition maybe_reset (h : hist) (value : f64) : option (hist * bool) :=
  let g := h_cfg h in
  if Z.eqb (g_min_reset g) 0 || h_sched h || Z.ltb (h_clock h - h_last h) (g_min_reset g) then Some (h, false)
  else
    let cold1 := c_observe (reset_counts g) value in
    (* SwapUint64(&countAndHotIdx, coldIdx<<63 + 1); waitForCooldown(old count, old hot) *)
    if negb (Z.eqb (h_n h) (c_cnt (h_hot h))) then None
    else Some (mkHist g cold1 (reset_counts g) 1 (h_clock h) (h_sched h) (h_clock h) (h_timers h) (h_ex h), true).

(* reset (990-1009), the afterFunc callback *)
Definition timer_reset (h : hist) : option hist :=
  let g := h_cfg h in
  if negb (Z.eqb (h_n h) (c_cnt (h_hot h))) then None
  else Some (mkHist g (reset_counts g) (reset_counts g) 0 (h_clock h) false (h_clock h) (h_timers h) (h_ex h)).

(* merge loop of maybeWidenZeroBucket (1057-1080) over one cold map:
   returns (cold map', hot map', hot zero bucket, hot bucket number, cold bucket number) *)
Fixpoint widen_merge (sk : Z) (cm hm : bmap) (hzb hbn cbn : Z) : bmap * bmap * Z * Z * Z :=
  match cm with
  | [] => ([], hm, hzb, hbn, cbn)
  | (k, v) :: r =>
      if Z.eqb k sk then widen_merge sk r hm (hzb + v) hbn (u32_dec cbn)
      else
        let (hm1, created) := m_add hm k v in
        let '(c', hm', hzb', hbn', cbn') :=
          widen_merge sk r hm1 hzb (if created then u32_inc hbn else hbn) cbn in
        ((k, 0) :: c', hm', hzb', hbn', cbn')
  end.

(* the key of the populated bucket closest to zero on either side (1024-1028) *)
Definition widen_key (c : counts) : Z :=
  let sp := find_smallest_key (c_pos c) in
  let sn := find_smallest_key (c_neg c) in
  if Z.ltb sn sp then sn else sp.

(* maybeWidenZeroBucket (1018-1082) *)
Definition maybe_widen (h : hist) : option (hist * bool) :=
  let g := h_cfg h in
  let hot := h_hot h in
  let cold := h_cold h in
  if fge (c_zt hot) (g_max_zt g) then Some (h, false)
  else
    let sk := widen_key hot in
    if Z.eqb sk max_int32 then Some (h, false)
    else
      let nzt := get_le sk (c_schema hot) in
      if fgt nzt (g_max_zt g) then Some (h, false)
      else
        let (neg1, ln) := m_del (c_neg cold) sk in
        let bn1 := if ln then u32_dec (c_bn cold) else c_bn cold in
        let (pos1, lp) := m_del (c_pos cold) sk in
        let bn2 := if lp then u32_dec bn1 else bn1 in
        let cold1 := mkCounts (c_sum cold) (c_cnt cold) (c_zb cold) nzt (c_schema cold) bn2 pos1 neg1 in
        (* flip: hot <- cold1, cold <- hot; waitForCooldown(count, old hot) *)
        if negb (Z.eqb (h_n h) (c_cnt hot)) then None
        else
          let (nh, nc) := add_and_reset_counts cold1 hot in
          let '(cp, hp, hzb1, hbn1, cbn1) := widen_merge sk (c_pos nc) (c_pos nh) (c_zb nh) (c_bn nh) (c_bn nc) in
          let '(cn, hn, hzb2, hbn2, cbn2) := widen_merge sk (c_neg nc) (c_neg nh) hzb1 hbn1 cbn1 in
          let nh' := mkCounts (c_sum nh) (c_cnt nh) hzb2 (c_zt nh) (c_schema nh) hbn2 hp hn in
          let nc' := mkCounts (c_sum nc) (c_cnt nc) (c_zb nc) nzt (c_schema nc) cbn2 cp cn in
          Some (with_sets h nh' nc' (h_n h), true).

(* `if key > 0 {key++}; key /= 2` (1116-1119): Go's integer division truncates toward zero *)
Definition halve (k : Z) : Z := Z.quot (if Z.ltb 0 k then k + 1 else k) 2.

Fixpoint double_merge (cm hm : bmap) (hbn : Z) : bmap * Z :=
  match cm with
  | [] => (hm, hbn)
  | (k, v) :: r =>
      let (hm1, created) := m_add hm (halve k) v in
      double_merge r hm1 (if created then u32_inc hbn else hbn)
  end.

(* doubleBucketWidth (1088-1134) *)
Definition double_width (h : hist) : option hist :=
  let hot := h_hot h in
  let cold := h_cold h in
  if Z.eqb (c_schema cold) (-4) then Some h
  else
    let cs := c_schema cold - 1 in
    let cold1 := mkCounts (c_sum cold) (c_cnt cold) (c_zb cold) (c_zt cold) cs 0 [] [] in
    if negb (Z.eqb (h_n h) (c_cnt hot)) then None
    else
      let (nh, nc) := add_and_reset_counts cold1 hot in
      let (hp, bn1) := double_merge (c_pos nc) (c_pos nh) (c_bn nh) in
      let (hn, bn2) := double_merge (c_neg nc) (c_neg nh) bn1 in
      let nh' := mkCounts (c_sum nh) (c_cnt nh) (c_zb nh) (c_zt nh) (c_schema nh) bn2 hp hn in
      let nc' := mkCounts (c_sum nc) (c_cnt nc) (c_zb nc) (c_zt nc) cs 0 [] [] in
      Some (with_sets h nh' nc' (h_n h)).

(* which strategy an Observe executed (observable only in the model; used by limit_step_taken) *)
Inductive step_kind := SNone | SReset | SWiden | SHalve | SMinimal.

(* limitBuckets (920-959) *)
Definition limit_buckets (h : hist) (value : f64) : option (hist * step_kind) :=
  let g := h_cfg h in
  if Z.eqb (g_max_buckets g) 0 then Some (h, SNone)
  else if Z.leb (c_bn (h_hot h)) (g_max_buckets g) then Some (h, SNone)
  else
    match maybe_reset h value with
    | None => None
    | Some (h1, true) => Some (h1, SReset)
    | Some (h1, false) =>
        let h2 :=
          if Z.ltb 0 (g_min_reset g) && negb (h_sched h1) then
            mkHist g (h_hot h1) (h_cold h1) (h_n h1) (h_last h1) true (h_clock h1)
                   (h_timers h1 ++ [g_min_reset g - (h_clock h1 - h_last h1)]) (h_ex h1)
          else h1 in
        match maybe_widen h2 with
        | None => None
        | Some (h3, true) => Some (h3, SWiden)
        | Some (h3, false) =>
            match double_width h3 with
            | None => None
            | Some h4 => Some (h4, if Z.eqb (c_schema (h_cold h3)) (-4) then SMinimal else SHalve)
            end
        end
    end.

(* histogram.observe (901-913) *)
Definition observe_k (h : hist) (v : f64) : option (hist * step_kind) :=
  let h1 := with_sets h (c_observe (h_hot h) v) (h_cold h) (h_n h + 1) in
  if is_nan v then Some (h1, SNone) else limit_buckets h1 v.

Definition observe (h : hist) (v : f64) : option hist := option_map fst (observe_k h v).

(* updateExemplar (1154-1167), native part *)
Definition update_exemplar (h : hist) (v : f64) (oracle : Z) : hist :=
  if is_nan v then h
  else mkHist (h_cfg h) (h_hot h) (h_cold h) (h_n h) (h_last h) (h_sched h) (h_clock h) (h_timers h)
              (add_exemplar (h_cfg h) (h_ex h) (v, h_clock h) oracle).

(* ---- makeBuckets (1478-1531) over the key-sorted map.
   enc returns (number of further buckets appended to the span that is open when it is called,
   the spans opened later, the deltas). *)
Definition zero_deltas (n prev : Z) : list Z :=
  match Z.to_nat n with O => [] | S k => (0 - prev) :: repeat 0 k end.

Fixpoint enc (m : bmap) (first : bool) (nextI prev : Z) : Z * list (Z * Z) * list Z :=
  match m with
  | [] => (0, [], [])
  | (i, count) :: r =>
      let iDelta := i - nextI in
      if first || Z.ltb 2 iDelta then
        let '(n, sp, ds) := enc r false (i + 1) count in
        (0, (iDelta, 1 + n) :: sp, (count - prev) :: ds)
      else
        let prev' := if Z.ltb 0 iDelta then 0 else prev in
        let '(n, sp, ds) := enc r false (i + 1) count in
        (Z.max 0 iDelta + 1 + n, sp, zero_deltas iDelta prev ++ (count - prev') :: ds)
  end.

Definition make_buckets (m : bmap) : list (Z * Z) * list Z :=
  let '(_, sp, ds) := enc m true 0 0 in (sp, ds).

(* ---- Write (780-863) ---- *)
Record wout := mkWout {
  w_schema : Z; w_zt : f64; w_zc : Z; w_count : Z; w_sum : f64; w_created : Z;
  w_pspans : list (Z * Z); w_pdeltas : list Z; w_nspans : list (Z * Z); w_ndeltas : list Z;
  w_ex : list exemplar; w_timers : list Z
}.

Fixpoint merge_reset (cm hm : bmap) (bn : Z) : bmap * Z :=
  match cm with
  | [] => (hm, bn)
  | (k, v) :: r => let (hm1, created) := m_add hm k v in merge_reset r hm1 (if created then u32_inc bn else bn)
  end.
Definition zero_vals (m : bmap) : bmap := map (fun p => (fst p, 0)) m.

Definition write (h : hist) : option (hist * wout) :=
  let g := h_cfg h in
  let cold := h_hot h in           (* after the flip *)
  let hot := h_cold h in
  if negb (Z.eqb (h_n h) (c_cnt cold)) then None
  else
    let '(nsp, nds) := make_buckets (c_neg cold) in
    let '(psp, pds) := make_buckets (c_pos cold) in
    let psp' := match psp, nsp with
                | [], [] => if feq (c_zt cold) pzero && Z.eqb (c_zb cold) 0 then [(0, 0)] else psp
                | _, _ => psp
                end in
    let out := mkWout (c_schema cold) (c_zt cold) (c_zb cold) (h_n h) (c_sum cold) (h_last h)
                      psp' pds nsp nds (if ex_disabled g then [] else h_ex h) (h_timers h) in
    let (nh, nc) := add_and_reset_counts hot cold in
    (* deferred: merge the cold sparse buckets into the hot ones, zero them in place *)
    let (hp, bn1) := merge_reset (c_pos nc) (c_pos nh) (c_bn nh) in
    let (hn, bn2) := merge_reset (c_neg nc) (c_neg nh) bn1 in
    let nh' := mkCounts (c_sum nh) (c_cnt nh) (c_zb nh) (c_zt nh) (c_schema nh) bn2 hp hn in
    let nc' := mkCounts (c_sum nc) (c_cnt nc) (c_zb nc) (c_zt nc) (c_schema nc) (c_bn nc)
                        (zero_vals (c_pos nc)) (zero_vals (c_neg nc)) in
    Some (mkHist g nh' nc' (h_n h) (h_last h) (h_sched h) (h_clock h) [] (h_ex h), out).

(* ---- operations ---- *)
Inductive op :=
| OObs (v : f64)
| OObsEx (v : f64) (oracle : Z)     (* ObserveWithExemplar; oracle: see choose_ridx *)
| OWrite
| OAdvance (d : Z)                  (* the injected clock moves on by d ns *)
| OFire.                            (* the timer callback captured by afterFunc runs (if one is pending) *)

Definition step (h : hist) (o : op) : option (hist * option wout) :=
  match o with
  | OObs v => option_map (fun h' => (h', None)) (observe h v)
  | OObsEx v oracle => option_map (fun h' => (update_exemplar h' v oracle, None)) (observe h v)
  | OWrite => option_map (fun p => (fst p, Some (snd p))) (write h)
  | OAdvance d => Some (mkHist (h_cfg h) (h_hot h) (h_cold h) (h_n h) (h_last h) (h_sched h) (h_clock h + d) (h_timers h) (h_ex h), None)
  | OFire => if h_sched h then option_map (fun h' => (h', None)) (timer_reset h) else Some (h, None)
  end.

Fixpoint run_ops (h : hist) (ops : list op) : option (list wout) :=
  match ops with
  | [] => Some []
  | o :: r =>
      match step h o with
      | None => None
      | Some (h', None) => run_ops h' r
      | Some (h', Some w) => option_map (cons w) (run_ops h' r)
      end
  end.

Definition run (g : config) (ops : list op) : option (list wout) := run_ops (new_hist g) ops.

(* pickSchema (1463-1476) given floor = math.Floor(math.Log2(math.Log2(bucketFactor))) *)
Definition pick_schema_of_floor (fl : f64) : Z :=
  if fle fl (of_Z (-8)) then 8 else if fge fl (of_Z 4) then -4 else - trunc_Z fl.

(* ================================================================== *)
(* Part 2: SPECIFICATION                                              *)
(* ================================================================== *)

(* decoding of spans and deltas (the standard's reading of the exposition) *)
Fixpoint dec_span (len : nat) (idx cur : Z) (ds : list Z) : option (list (Z * Z) * Z * list Z) :=
  match len with
  | O => Some ([], cur, ds)
  | S len' =>
      match ds with
      | [] => None
      | d :: ds' =>
          match dec_span len' (idx + 1) (cur + d) ds' with
          | None => None
          | Some (l, c, rest) => Some ((idx, cur + d) :: l, c, rest)
          end
      end
  end.

Fixpoint dec_spans (sp : list (Z * Z)) (idx cur : Z) (ds : list Z) : option (list (Z * Z)) :=
  match sp with
  | [] => match ds with [] => Some [] | _ => None end
  | (off, len) :: r =>
      if Z.ltb len 0 then None else
      match dec_span (Z.to_nat len) (idx + off) cur ds with
      | None => None
      | Some (l, c, rest) =>
          match dec_spans r (idx + off + len) c rest with
          | None => None
          | Some l' => Some (l ++ l')
          end
      end
  end.

Definition decode (sp : list (Z * Z)) (ds : list Z) : option (list (Z * Z)) := dec_spans sp 0 0 ds.

(* exact positive dyadic numbers m * 2^e *)
Definition dy := (Z * Z)%type.
Definition dy_of (x : f64) : dy :=
  match x with
  | BinarySingleNaN.B754_finite _ m e _ => (Z.pos m, e)
  | _ => (0, 0)
  end.
(* comparison of positive dyadics: by magnitude class first, then on aligned mantissas *)
Definition dy_cmp (a b : dy) : comparison :=
  let '(ma, ea) := a in
  let '(mb, eb) := b in
  let la := Z.log2 ma + ea in
  let lb := Z.log2 mb + eb in
  if Z.ltb la lb then Lt else if Z.ltb lb la then Gt
  else let e := Z.min ea eb in Z.compare (Z.shiftl ma (ea - e)) (Z.shiftl mb (eb - e)).
Definition dy_lt (a b : dy) : bool := match dy_cmp a b with Lt => true | _ => false end.
Definition dy_le (a b : dy) : bool := match dy_cmp a b with Gt => false | _ => true end.

(* B s k: the standard's boundary as the generated table has it, exactly:
   row_s[k mod 2^s] * 2^(k div 2^s + 1) for s > 0, the exact power of two 2^(k * 2^-s) for s <= 0 *)
Definition exact_B (s k : Z) : dy :=
  if Z.ltb 0 s then
    let n := 2 ^ s in
    let '(m, e) := dy_of (nth_f (bounds_row s) (k mod n)) in
    (m, e + (k / n + 1))
  else (1, k * 2 ^ (- s)).

(* the bucket that holds MaxFloat64 (B(k-1) < MaxFloat64 <= B(k) = 2^1024) *)
Definition max_key (s : Z) : Z := 2 ^ (10 + s).

(* a (non-NaN, non-zero) magnitude lies in bucket k of schema s *)
Definition in_bucket (s k : Z) (lo hi : dy) (a : f64) : bool :=
  if is_inf a then Z.eqb k (max_key s + 1)
  else if is_fin a && negb (feq a pzero) then dy_lt lo (dy_of a) && dy_le (dy_of a) hi
  else false.

Definition in_zero (z v : f64) : bool := fle (fabs v) z.

(* population the property demands for bucket k on one side *)
Definition want_bucket (G : list f64) (s : Z) (z : f64) (neg : bool) (k : Z) : Z :=
  let lo := exact_B s (k - 1) in
  let hi := exact_B s k in
  zlen (filter (fun v => negb (is_nan v) && negb (in_zero z v) && Bool.eqb (signbit v) neg
                         && in_bucket s k lo hi (fabs v)) G).
Definition want_zero (G : list f64) (z : f64) : Z :=
  zlen (filter (fun v => negb (is_nan v) && in_zero z v) G).
Definition nan_count (G : list f64) : Z := zlen (filter is_nan G).

Definition zsum (l : list Z) : Z := fold_right Z.add 0 l.

Fixpoint keys_increasing (l : list (Z * Z)) : bool :=
  match l with
  | p :: ((q :: _) as r) => Z.ltb (fst p) (fst q) && keys_increasing r
  | _ => true
  end.

Definition side_ok (G : list f64) (s : Z) (z : f64) (neg : bool) (pops : list (Z * Z)) : bool :=
  keys_increasing pops &&
  forallb (fun p => Z.leb 0 (snd p) && Z.eqb (snd p) (want_bucket G s z neg (fst p))) pops.

(* what one collection exposes, with the populations decoded *)
Record expo := mkExpo {
  e_schema : Z; e_zt : f64; e_zc : Z; e_count : Z; e_sum : f64; e_created : Z;
  e_pos : list (Z * Z); e_neg : list (Z * Z)
}.

(* accounting of one exposition against G = the observations since the last reset *)
Definition accounting_check (G : list f64) (x : expo) : bool :=
  Z.leb (-4) (e_schema x) && Z.leb (e_schema x) 8 &&
  Z.eqb (e_count x) (zlen G) &&
  Z.eqb (e_zc x) (want_zero G (e_zt x)) &&
  side_ok G (e_schema x) (e_zt x) false (e_pos x) &&
  side_ok G (e_schema x) (e_zt x) true (e_neg x) &&
  Z.eqb (zsum (map snd (e_pos x)) + zsum (map snd (e_neg x)) + e_zc x + nan_count G) (e_count x) &&
  fbits_eq (e_sum x) (fold_left fadd G pzero).

(* timed observations: (value, clock at the call) in call order *)
Definition tobs := (f64 * Z)%type.

(* G is determined by the exposed count: the last `count` observations; the created timestamp
   must separate them from the earlier ones (observations made at exactly that instant may be on
   either side: the reset and its triggering observation share the instant) *)
Definition since_reset (seen : list tobs) (count : Z) : list tobs := drop (zlen seen - count) seen.
Definition before_reset (seen : list tobs) (count : Z) : list tobs := take (zlen seen - count) seen.

Definition time_ok (seen : list tobs) (count created : Z) : bool :=
  Z.leb 0 count && Z.leb count (zlen seen) &&
  forallb (fun p => Z.leb (snd p) created) (before_reset seen count) &&
  forallb (fun p => Z.leb created (snd p)) (since_reset seen count).

(* exemplar clauses *)
Fixpoint ex_sorted (l : list exemplar) : bool :=
  match l with
  | a :: ((b :: _) as r) => fle (fst a) (fst b) && ex_sorted r
  | _ => true
  end.
Definition ex_eqb (a b : exemplar) : bool := fbits_eq (fst a) (fst b) && Z.eqb (snd a) (snd b).
Definition last_opt {A} (l : list A) : option A := match rev l with [] => None | x :: _ => Some x end.

(* exs: the exemplar-carrying non-NaN observations so far (value, time), in call order *)
Definition exemplars_check (g : config) (exs : list exemplar) (out : list exemplar) : bool :=
  if Z.ltb (g_ex_max g) 0 then match out with [] => true | _ => false end
  else
    Z.leb (zlen out) (ex_cap g) &&
    ex_sorted out &&
    forallb (fun e => existsb (ex_eqb e) exs) out &&
    match last_opt exs with None => true | Some e => existsb (ex_eqb e) out end.

(* one Write against the history: prev = (start index of G, schema, zt) of the previous Write *)
Definition write_check (g : config) (seen : list tobs) (exs : list exemplar)
           (prev : option (Z * Z * f64)) (x : expo) (out_ex : list exemplar) : bool :=
  time_ok seen (e_count x) (e_created x) &&
  accounting_check (map fst (since_reset seen (e_count x))) x &&
  Z.leb (e_schema x) (g_schema g) && fle (init_zt g) (e_zt x) &&
  (if Z.leb (e_count x) 1 then Z.eqb (e_schema x) (g_schema g) && fbits_eq (e_zt x) (init_zt g) else true) &&
  match prev with
  | Some (start, ps, pz) =>
      if Z.eqb start (zlen seen - e_count x) then Z.leb (e_schema x) ps && fle pz (e_zt x) else true
  | None => true
  end &&
  exemplars_check g exs out_ex.

(* ---- ghost history: G = the observations made since the last reset, as the model executes ---- *)
Definition ghost_step (h : hist) (G : list f64) (o : op) : list f64 :=
  match o with
  | OObs v | OObsEx v _ => match observe_k h v with Some (_, SReset) => [v] | _ => G ++ [v] end
  | OFire => if h_sched h then [] else G
  | _ => G
  end.

(* how histogramCounts.observe classifies a value under zero threshold zt *)
Definition goes_pos (zt v : f64) : bool := negb (is_nan v) && fgt v zt.
Definition goes_neg (zt v : f64) : bool := negb (is_nan v) && negb (fgt v zt) && flt v (fneg zt).
Definition goes_zero (zt v : f64) : bool := negb (is_nan v) && negb (fgt v zt) && negb (flt v (fneg zt)).

(* A widening step from count set `before` to `after` is EXACT on G when the float threshold
   getLe produced separates the observations exactly as the merged bucket did: everything that was
   in bucket sk (either sign) or in the zero bucket is within the new threshold, nothing else is.
   (False only where getLe rounds: bucket bounds below 2^-1022, known finding subnormal-widen.) *)
Definition widen_exact (G : list f64) (before after : counts) : bool :=
  let zt := c_zt before in
  let nzt := c_zt after in
  let s := c_schema before in
  let sk := widen_key before in
  fle pzero nzt &&
  forallb (fun v =>
    let ksk := Z.eqb (key_of s v) sk in
    Bool.eqb (goes_zero nzt v) (goes_zero zt v || (goes_pos zt v && ksk) || (goes_neg zt v && ksk)) &&
    Bool.eqb (goes_pos nzt v) (goes_pos zt v && negb ksk) &&
    Bool.eqb (goes_neg nzt v) (goes_neg zt v && negb ksk)) G.

Definition step_exact (h : hist) (G : list f64) (o : op) : bool :=
  match o with
  | OObs v | OObsEx v _ =>
      match observe_k h v with
      | Some (h', SWiden) => widen_exact (G ++ [v]) (c_observe (h_hot h) v) (h_hot h')
      | _ => true
      end
  | _ => true
  end.

(* the run with its ghost: every Write's output paired with G at that moment, and whether all
   widening steps were exact (the run is cut at the first one that is not) *)
Fixpoint run_ghost (h : hist) (G : list f64) (ops : list op) : option (list (wout * list f64) * bool) :=
  match ops with
  | [] => Some ([], true)
  | o :: r =>
      match step h o with
      | None => None
      | Some (h', None) =>
          if step_exact h G o then run_ghost h' (ghost_step h G o) r
          else Some ([], false)          (* stop at the first inexact widening *)
      | Some (h', Some w) =>
          match run_ghost h' G r with
          | None => None
          | Some (l, b) => Some ((w, G) :: l, b)
          end
      end
  end.

Definition valid_config (g : config) : Prop := -4 <= g_schema g <= 8.
