(* Model/NativeConc.v -- the native (sparse) histogram as a Base.Conc step machine: Observe and Write racing with
   the bucket-limit strategies, one machine step per sync/atomic operation, mutex operation, sync.Map operation
   or runtime.Gosched, in the order prometheus/histogram.go performs them
   (observe 905-918, histogramCounts.observe 656-712, limitBuckets 924-963, maybeWidenZeroBucket 1022-1094,
    doubleBucketWidth 1096-1142, Write 784-869, makeBuckets 1486-1541, addToBucket 1543-1560,
    addAndReset 1565-1574, deleteSyncMap 1576-1581, findSmallestKey 1583-1593, waitForCooldown 1650-1654,
    atomicAddFloat 1658-1668, addAndResetCounts 1677-1691).
   SCOPE (documented, not verified by Coq):
   * a native-only histogram: no classic buckets (their protocol is C02's hist_machine), native exemplars
     disabled, Observe without exemplar.
   * the reset strategy (maybeReset 968-992, reset 994-1013, resetCounts 1144-1158): h.now() is an oracle clock
     (rs_clk) advanced by the op NAdvance; lastResetTime / resetScheduled are plain fields read and written under the
     mutex in the step of the preceding shared operation; afterFunc only records a pending callback (rs_pend), which
     the op NFire (a timer thread polling) runs if there is one -- at ANY time (the delay is not modelled: more
     behaviours than the code has).
   * schema / threshold arithmetic is the sequential model of (Model/NativeHist.v: key_of, get_le, halve, u32_inc, u32_dec).
   * a sync.Map is a key-sorted association list; Range takes the key set at its schedule point and visits the
     keys in ascending order, skipping keys deleted meanwhile (sync.Map's contract; Go's order is unspecified);
     a cell reached through a pointer obtained earlier (Load / LoadOrStore / Range) is addressed by its key: if
     the entry was deleted meanwhile the update is lost in the model (proved unreachable in Proofs/C05_conc.v).
   * counters are CELLS of an abstract type C with zero, addition, "one observation of v" and length; no step
     inspects a cell except through its length.  Instance Z (0, +, 1, id) is the code; instance `list f64`
     ([], ++, [v], length) carries the observed values along and is used by the proofs; the first is the image of
     the second under `length` (Proofs/C05_conc.v: machine homomorphism).
   * uint64/int64 counters are unbounded; nativeHistogramBucketsNumber wraps modulo 2^32 as in the code. *)
From Coq Require Import ZArith List Bool Strings.String.
From Verif Require Import Base.F64 Base.Str Base.Conc Model.ClassicHist Model.NativeHist.
Import ListNotations.
Open Scope Z_scope.

Definition nl (s : string) : list Z := of_string s.
Arguments nl s%string.

Inductive nop := NObserve (v : f64) | NWrite | NFire | NAdvance (d : Z).

(* which maintenance operation holds the mutex *)
Inductive mctx := KW | KZ (sk : Z) (nzt : f64) | KD (cs : Z).
(* deleteSyncMap in doubleBucketWidth: before the flip (then flip) or after the merge (then unlock) *)
Inductive ephase := EPre (cs : Z) | EPost.

(* who resets: limitBuckets' maybeReset (repeating the observation v) or the timer's reset() *)
Inductive rctx := RL (v : f64) | RT.
(* resetCounts of the cold set before the swap (R1) / of the formerly hot set after the cool-down (R2) *)
Inductive rphase := R1 | R2.
Inductive rfield := FSum | FCnt | FZb | FZt | FSch | FBn.
(* h.now(), lastResetTime, resetScheduled, callbacks handed to afterFunc and not yet run *)
Record rstate := mkRS { rs_clk : Z; rs_last : Z; rs_sched : bool; rs_pend : Z }.

Definition smallest (ks : list Z) : Z := fold_left (fun res k => if Z.ltb k res then k else res) ks max_int32.

Section Cells.
Variable C : Type.
Variables (c0 : C) (cadd : C -> C -> C) (cone : f64 -> C) (clen : C -> Z).

(* ---- sync.Map int -> *cell ---- *)
Definition cmap := list (Z * C).
Fixpoint cm_find (m : cmap) (k : Z) : option C :=
  match m with [] => None | (k', c) :: r => if Z.eqb k k' then Some c else cm_find r k end.
Fixpoint cm_upd (m : cmap) (k : Z) (f : C -> C) : cmap :=
  match m with [] => [] | (k', c) :: r => if Z.eqb k k' then (k', f c) :: r else (k', c) :: cm_upd r k f end.
Fixpoint cm_ins (m : cmap) (k : Z) (c : C) : cmap :=
  match m with
  | [] => [(k, c)]
  | (k', c') :: r => if Z.eqb k k' then m else if Z.ltb k k' then (k, c) :: m else (k', c') :: cm_ins r k c
  end.
Fixpoint cm_del (m : cmap) (k : Z) : cmap :=
  match m with [] => [] | (k', c) :: r => if Z.eqb k k' then r else (k', c) :: cm_del r k end.
Definition cm_keys (m : cmap) : list Z := map fst m.
Definition cm_has (m : cmap) (k : Z) : bool := match cm_find m k with Some _ => true | None => false end.

(* ---- one count set, the shared state ---- *)
Record nset := mkNS { ns_sum : f64; ns_cnt : C; ns_zb : C; ns_zt : f64; ns_sch : Z; ns_bn : Z; ns_pos : cmap; ns_neg : cmap }.
Record nsh := mkNH { nh_cfg : config; nh_hot : bool; nh_tk : Z; nh_s0 : nset; nh_s1 : nset; nh_mtx : bool; nh_rs : rstate }.

Definition nget (h : nsh) (b : bool) : nset := if b then nh_s1 h else nh_s0 h.
Definition nput (h : nsh) (b : bool) (s : nset) : nsh :=
  if b then mkNH (nh_cfg h) (nh_hot h) (nh_tk h) (nh_s0 h) s (nh_mtx h) (nh_rs h)
  else mkNH (nh_cfg h) (nh_hot h) (nh_tk h) s (nh_s1 h) (nh_mtx h) (nh_rs h).
Definition side (s : nset) (neg : bool) : cmap := if neg then ns_neg s else ns_pos s.
Definition set_side (s : nset) (neg : bool) (m : cmap) : nset :=
  if neg then mkNS (ns_sum s) (ns_cnt s) (ns_zb s) (ns_zt s) (ns_sch s) (ns_bn s) (ns_pos s) m
  else mkNS (ns_sum s) (ns_cnt s) (ns_zb s) (ns_zt s) (ns_sch s) (ns_bn s) m (ns_neg s).
Definition set_sum (s : nset) (x : f64) := mkNS x (ns_cnt s) (ns_zb s) (ns_zt s) (ns_sch s) (ns_bn s) (ns_pos s) (ns_neg s).
Definition set_cnt (s : nset) (x : C) := mkNS (ns_sum s) x (ns_zb s) (ns_zt s) (ns_sch s) (ns_bn s) (ns_pos s) (ns_neg s).
Definition set_zb (s : nset) (x : C) := mkNS (ns_sum s) (ns_cnt s) x (ns_zt s) (ns_sch s) (ns_bn s) (ns_pos s) (ns_neg s).
Definition set_zt (s : nset) (x : f64) := mkNS (ns_sum s) (ns_cnt s) (ns_zb s) x (ns_sch s) (ns_bn s) (ns_pos s) (ns_neg s).
Definition set_sch (s : nset) (x : Z) := mkNS (ns_sum s) (ns_cnt s) (ns_zb s) (ns_zt s) x (ns_bn s) (ns_pos s) (ns_neg s).
Definition set_bn (s : nset) (x : Z) := mkNS (ns_sum s) (ns_cnt s) (ns_zb s) (ns_zt s) (ns_sch s) x (ns_pos s) (ns_neg s).
Definition set_mtx (h : nsh) (m : bool) := mkNH (nh_cfg h) (nh_hot h) (nh_tk h) (nh_s0 h) (nh_s1 h) m (nh_rs h).
Definition set_rs (h : nsh) (r : rstate) := mkNH (nh_cfg h) (nh_hot h) (nh_tk h) (nh_s0 h) (nh_s1 h) (nh_mtx h) r.

Definition nset0 (g : config) : nset := mkNS pzero c0 c0 (init_zt g) (g_schema g) 0 [] [].
Definition ninit (g : config) : nsh := mkNH g false 0 (nset0 g) (nset0 g) false (mkRS 0 0 false 0).

(* what Write exposes: the populations as (key, cell) in key order (C04 proves that the spans/deltas
   encoding decodes to them) *)
Record nout := mkNOut { no_sch : Z; no_zt : f64; no_zc : C; no_count : Z; no_sum : f64;
                        no_pos : list (Z * C); no_neg : list (Z * C) }.
Inductive nret := NUnit | NOut (o : nout) | NPanic.

(* ---- program counters.  b: the set an observer works on; hb: hot index loaded under the mutex;
   c: the set made cold by the flip (being drained), negb c the hot one; r: what the call returns at unlock ---- *)
Inductive npc :=
(* histogram.observe / histogramCounts.observe *)
| oTicket (v : f64)
| oSumLoad (v : f64) (b : bool)
| oSumCas (v : f64) (b : bool) (old : f64)
| oLoadSch (v : f64) (b : bool)
| oLoadZt (v : f64) (b : bool) (s : Z)
| oBkLoad (v : f64) (b neg : bool) (k : Z)
| oBkLos (v : f64) (b neg : bool) (k : Z)
| oBkAdd (v : f64) (b neg : bool) (k : Z)
| oBnAdd (v : f64) (b : bool)
| oZero (v : f64) (b : bool)
| oCount (v : f64) (b : bool)
(* limitBuckets *)
| lLoadBn (v : f64) (b : bool)
| lLock (v : f64)
| lLoadIdx (v : f64)
| lLoadBn2 (v : f64) (hb : bool)
(* maybeWidenZeroBucket before the flip *)
| zLoadZt (hb : bool)
| zRangeP (hb : bool)
| zRangeN (hb : bool) (skp : Z)
| zLoadSch (hb : bool) (sk : Z)
| zStoreZt (hb : bool) (sk : Z) (nzt : f64)
| zDelN (hb : bool) (sk : Z) (nzt : f64)
| zDecN (hb : bool) (sk : Z) (nzt : f64)
| zDelP (hb : bool) (sk : Z) (nzt : f64)
| zDecP (hb : bool) (sk : Z) (nzt : f64)
(* doubleBucketWidth before the flip *)
| dLoadSch (hb : bool)
| dStoreSch (hb : bool) (cs : Z)
| dStoreBn (hb : bool) (cs : Z)
(* deleteSyncMap of set c: Range, then one Delete per key *)
| eRange (ph : ephase) (c neg : bool)
| eDel (ph : ephase) (c neg : bool) (ks : list Z)
(* Write *)
| wLock
| wFlip
(* flip of the strategies, waitForCooldown *)
| xFlip (k : mctx) (hb : bool)
| xCool (k : mctx) (c : bool) (count : Z)
| xSpin (k : mctx) (c : bool) (count : Z)
(* Write reads the cold set *)
| wLoadSum (c : bool) (count : Z)
| wLoadZt (c : bool) (count : Z) (sum : f64)
| wLoadSch (c : bool) (count : Z) (sum : f64) (zt : f64)
| wLoadZb (c : bool) (count : Z) (sum : f64) (zt : f64) (sch : Z)
| wRange (c neg : bool) (o : nout)
| wKeyLoad (c neg : bool) (o : nout) (k : Z) (ks : list Z)
| wCellLoad (c neg : bool) (o : nout) (k : Z) (ks : list Z)
(* addAndResetCounts *)
| aLoadCnt (k : mctx) (c : bool) (r : nret)
| aAddCnt (k : mctx) (c : bool) (r : nret) (x : C)
| aStoreCnt (k : mctx) (c : bool) (r : nret)
| aLoadSum (k : mctx) (c : bool) (r : nret)
| aSumLoad (k : mctx) (c : bool) (r : nret) (s : f64)
| aSumCas (k : mctx) (c : bool) (r : nret) (s : f64) (old : f64)
| aStoreSum (k : mctx) (c : bool) (r : nret)
| aLoadZb (k : mctx) (c : bool) (r : nret)
| aAddZb (k : mctx) (c : bool) (r : nret) (z : C)
| aStoreZb (k : mctx) (c : bool) (r : nret)
(* after addAndResetCounts *)
| zStoreZt2 (c : bool) (sk : Z) (nzt : f64)
| dStoreSch2 (c : bool) (cs : Z)
(* merging the cold sparse buckets into the hot ones (Write's deferred addAndReset, widen, halve) *)
| mRange (k : mctx) (c neg : bool) (r : nret)
| mLoad (k : mctx) (c neg : bool) (r : nret) (kk : Z) (ks : list Z)
| mAddZb (k : mctx) (c neg : bool) (r : nret) (kk : Z) (ks : list Z) (n : C)
| mDel (k : mctx) (c neg : bool) (r : nret) (kk : Z) (ks : list Z)
| mDec (k : mctx) (c neg : bool) (r : nret) (kk : Z) (ks : list Z)
| bLoad (k : mctx) (c neg : bool) (r : nret) (kk : Z) (ks : list Z) (n : C)
| bLos (k : mctx) (c neg : bool) (r : nret) (kk : Z) (ks : list Z) (n : C)
| bAdd (k : mctx) (c neg : bool) (r : nret) (kk : Z) (ks : list Z) (n : C)
| bBn (k : mctx) (c neg : bool) (r : nret) (kk : Z) (ks : list Z)
| mStore (k : mctx) (c neg : bool) (r : nret) (kk : Z) (ks : list Z)
| dStoreBn2 (c : bool)
| xUnlock (r : nret)
(* ---- reset: maybeReset (rk = RL v) and the timer's reset() (rk = RT) ---- *)
| fCheck                                                   (* the timer thread polls for a pending callback *)
| cAdv (d : Z)                                             (* the injected clock moves on *)
| rLock
| rLoadIdx
| rStore (rk : rctx) (ph : rphase) (x : bool) (fd : rfield)   (* resetCounts: the six stores *)
| rRange (rk : rctx) (ph : rphase) (x neg : bool)             (* ... deleteSyncMap *)
| rDel (rk : rctx) (ph : rphase) (x neg : bool) (ks : list Z)
(* cold.observe(value, bucket, true) by the mutex holder *)
| hSumLoad (v : f64) (x : bool)
| hSumCas (v : f64) (x : bool) (old : f64)
| hLoadSch (v : f64) (x : bool)
| hLoadZt (v : f64) (x : bool) (s : Z)
| hBkLoad (v : f64) (x neg : bool) (k : Z)
| hBkLos (v : f64) (x neg : bool) (k : Z)
| hBkAdd (v : f64) (x neg : bool) (k : Z)
| hBnAdd (v : f64) (x : bool)
| hZero (v : f64) (x : bool)
| hCount (v : f64) (x : bool)
| rSwap (rk : rctx) (x : bool)
| rCool (rk : rctx) (c : bool) (count : Z)
| rSpin (rk : rctx) (c : bool) (count : Z).

Definition nstart (o : nop) : npc + nret :=
  match o with NObserve v => inl (oTicket v) | NWrite => inl wLock | NFire => inl fCheck | NAdvance d => inl (cAdv d) end.

(* the key a cold bucket is merged into *)
Definition tkey (k : mctx) (kk : Z) : Z := match k with KD _ => halve kk | _ => kk end.

(* next bucket of a merge loop / what follows the loops *)
Definition m_next (k : mctx) (c neg : bool) (r : nret) (ks : list Z) : npc :=
  match ks with
  | kk :: ks' => mLoad k c neg r kk ks'
  | [] => if neg then match k with KD _ => dStoreBn2 c | _ => xUnlock r end
          else mRange k c true r
  end.
(* after the merged bucket was added to the hot one *)
Definition m_added (k : mctx) (c neg : bool) (r : nret) (kk : Z) (ks : list Z) : npc :=
  match k with KD _ => m_next k c neg r ks | _ => mStore k c neg r kk ks end.
Definition e_next (ph : ephase) (c neg : bool) (ks : list Z) : npc :=
  match ks with
  | _ :: _ => eDel ph c neg ks
  | [] => if neg then eRange ph c false          (* negative map first, then the positive one *)
          else match ph with EPre cs => xFlip (KD cs) (negb c) | EPost => xUnlock NUnit end
  end.
Definition w_next (c neg : bool) (o : nout) (ks : list Z) : npc :=
  match ks with
  | k :: ks' => wKeyLoad c neg o k ks'
  | [] => if neg then wRange c false o            (* negative buckets first, then the positive ones *)
          else aLoadCnt KW c (NOut o)
  end.
Definition after_cool (k : mctx) (c : bool) (count : Z) : npc :=
  match k with KW => wLoadSum c count | _ => aLoadCnt k c NUnit end.
Definition after_addreset (k : mctx) (c : bool) (r : nret) : npc :=
  match k with KW => mRange KW c false r | KZ sk nzt => zStoreZt2 c sk nzt | KD cs => dStoreSch2 c cs end.
Definition out_add (o : nout) (neg : bool) (k : Z) (x : C) : nout :=
  if neg then mkNOut (no_sch o) (no_zt o) (no_zc o) (no_count o) (no_sum o) (no_pos o) (no_neg o ++ [(k, x)])
  else mkNOut (no_sch o) (no_zt o) (no_zc o) (no_count o) (no_sum o) (no_pos o ++ [(k, x)]) (no_neg o).

(* reset helpers *)
Definition rfield_next (fd : rfield) : option rfield :=
  match fd with FSum => Some FCnt | FCnt => Some FZb | FZb => Some FZt | FZt => Some FSch | FSch => Some FBn | FBn => None end.
Definition rstore_set (g : config) (s : nset) (fd : rfield) : nset :=
  match fd with
  | FSum => set_sum s pzero | FCnt => set_cnt s c0 | FZb => set_zb s c0
  | FZt => set_zt s (init_zt g) | FSch => set_sch s (g_schema g) | FBn => set_bn s 0
  end.
(* after resetCounts: R1 -> repeat the observation (RL) / swap (RT); R2 -> lastResetTime := now, (RT) resetScheduled := false, unlock *)
Definition r_after (rk : rctx) (ph : rphase) (x : bool) : npc :=
  match ph with
  | R1 => match rk with RL v => hSumLoad v x | RT => rSwap RT x end
  | R2 => xUnlock NUnit
  end.
Definition r_fin (rk : rctx) (ph : rphase) (r : rstate) : rstate :=
  match ph with
  | R1 => r
  | R2 => mkRS (rs_clk r) (rs_clk r) (match rk with RT => false | RL _ => rs_sched r end) (rs_pend r)
  end.
Definition r_next (rk : rctx) (ph : rphase) (x neg : bool) (ks : list Z) : npc :=
  match ks with
  | _ :: _ => rDel rk ph x neg ks
  | [] => if neg then rRange rk ph x false else r_after rk ph x
  end.
(* the state after the last shared operation of resetCounts: the plain-field writes that follow it *)
Definition r_done (rk : rctx) (ph : rphase) (neg : bool) (ks : list Z) (h : nsh) : nsh :=
  match ks with _ :: _ => h | [] => if neg then h else set_rs h (r_fin rk ph (nh_rs h)) end.

Definition upd_side (h : nsh) (b neg : bool) (f : cmap -> cmap) : nsh :=
  nput h b (set_side (nget h b) neg (f (side (nget h b) neg))).

Definition nstep (h : nsh) (pc : npc) : option (nsh * (npc + nret)) :=
  let g := nh_cfg h in
  match pc with
  (* ---- Observe ---- *)
  | oTicket v =>
      Some (mkNH g (nh_hot h) (nh_tk h + 1) (nh_s0 h) (nh_s1 h) (nh_mtx h) (nh_rs h), inl (oSumLoad v (nh_hot h)))
  | oSumLoad v b => Some (h, inl (oSumCas v b (ns_sum (nget h b))))
  | oSumCas v b old =>
      if fbits_eq (ns_sum (nget h b)) old
      then Some (nput h b (set_sum (nget h b) (fadd old v)), inl (if is_nan v then oCount v b else oLoadSch v b))
      else Some (h, inl (oSumLoad v b))
  | oLoadSch v b => Some (h, inl (oLoadZt v b (ns_sch (nget h b))))
  | oLoadZt v b s =>
      let zt := ns_zt (nget h b) in
      let key := key_of s v in
      Some (h, inl (if fgt v zt then oBkLoad v b false key
                    else if flt v (fneg zt) then oBkLoad v b true key
                    else oZero v b))
  | oBkLoad v b neg k =>
      Some (h, inl (if cm_has (side (nget h b) neg) k then oBkAdd v b neg k else oBkLos v b neg k))
  | oBkLos v b neg k =>
      if cm_has (side (nget h b) neg) k then Some (h, inl (oBkAdd v b neg k))
      else Some (upd_side h b neg (fun m => cm_ins m k (cone v)), inl (oBnAdd v b))
  | oBkAdd v b neg k => Some (upd_side h b neg (fun m => cm_upd m k (fun x => cadd x (cone v))), inl (oCount v b))
  | oBnAdd v b => Some (nput h b (set_bn (nget h b) (u32_inc (ns_bn (nget h b)))), inl (oCount v b))
  | oZero v b => Some (nput h b (set_zb (nget h b) (cadd (ns_zb (nget h b)) (cone v))), inl (oCount v b))
  | oCount v b =>
      Some (nput h b (set_cnt (nget h b) (cadd (ns_cnt (nget h b)) (cone v))),
            if is_nan v || Z.eqb (g_max_buckets g) 0 then inr NUnit else inl (lLoadBn v b))
  (* ---- limitBuckets ---- *)
  | lLoadBn v b => Some (h, if Z.leb (ns_bn (nget h b)) (g_max_buckets g) then inr NUnit else inl (lLock v))
  | lLock v => if nh_mtx h then None else Some (set_mtx h true, inl (lLoadIdx v))
  | lLoadIdx v => Some (h, inl (lLoadBn2 v (nh_hot h)))
  | lLoadBn2 v hb =>
      if Z.leb (ns_bn (nget h hb)) (g_max_buckets g) then Some (h, inl (xUnlock NUnit))
      else
        let rs := nh_rs h in
        (* maybeReset: not configured / already scheduled / too early -> (schedule a reset once) and go on *)
        if Z.eqb (g_min_reset g) 0 || rs_sched rs || Z.ltb (rs_clk rs - rs_last rs) (g_min_reset g) then
          let rs' := if Z.ltb 0 (g_min_reset g) && negb (rs_sched rs)
                     then mkRS (rs_clk rs) (rs_last rs) true (rs_pend rs + 1) else rs in
          Some (set_rs h rs', inl (zLoadZt hb))
        else Some (h, inl (rStore (RL v) R1 (negb hb) FSum))
  (* ---- maybeWidenZeroBucket ---- *)
  | zLoadZt hb => Some (h, inl (if fge (ns_zt (nget h hb)) (g_max_zt g) then dLoadSch hb else zRangeP hb))
  | zRangeP hb => Some (h, inl (zRangeN hb (smallest (cm_keys (ns_pos (nget h hb))))))
  | zRangeN hb skp =>
      let skn := smallest (cm_keys (ns_neg (nget h hb))) in
      let sk := if Z.ltb skn skp then skn else skp in
      Some (h, inl (if Z.eqb sk max_int32 then dLoadSch hb else zLoadSch hb sk))
  | zLoadSch hb sk =>
      let nzt := get_le sk (ns_sch (nget h hb)) in
      Some (h, inl (if fgt nzt (g_max_zt g) then dLoadSch hb else zStoreZt hb sk nzt))
  | zStoreZt hb sk nzt => Some (nput h (negb hb) (set_zt (nget h (negb hb)) nzt), inl (zDelN hb sk nzt))
  | zDelN hb sk nzt =>
      let loaded := cm_has (ns_neg (nget h (negb hb))) sk in
      Some (upd_side h (negb hb) true (fun m => cm_del m sk), inl (if loaded then zDecN hb sk nzt else zDelP hb sk nzt))
  | zDecN hb sk nzt =>
      Some (nput h (negb hb) (set_bn (nget h (negb hb)) (u32_dec (ns_bn (nget h (negb hb))))), inl (zDelP hb sk nzt))
  | zDelP hb sk nzt =>
      let loaded := cm_has (ns_pos (nget h (negb hb))) sk in
      Some (upd_side h (negb hb) false (fun m => cm_del m sk),
            inl (if loaded then zDecP hb sk nzt else xFlip (KZ sk nzt) hb))
  | zDecP hb sk nzt =>
      Some (nput h (negb hb) (set_bn (nget h (negb hb)) (u32_dec (ns_bn (nget h (negb hb))))), inl (xFlip (KZ sk nzt) hb))
  (* ---- doubleBucketWidth ---- *)
  | dLoadSch hb =>
      let s := ns_sch (nget h (negb hb)) in
      Some (h, inl (if Z.eqb s (-4) then xUnlock NUnit else dStoreSch hb (s - 1)))
  | dStoreSch hb cs => Some (nput h (negb hb) (set_sch (nget h (negb hb)) cs), inl (dStoreBn hb cs))
  | dStoreBn hb cs => Some (nput h (negb hb) (set_bn (nget h (negb hb)) 0), inl (eRange (EPre cs) (negb hb) true))
  | eRange ph c neg => Some (h, inl (e_next ph c neg (cm_keys (side (nget h c) neg))))
  | eDel ph c neg ks =>
      match ks with
      | [] => Some (h, inl (e_next ph c neg []))
      | k :: ks' => Some (upd_side h c neg (fun m => cm_del m k), inl (e_next ph c neg ks'))
      end
  (* ---- Write ---- *)
  | wLock => if nh_mtx h then None else Some (set_mtx h true, inl wFlip)
  | wFlip =>
      Some (mkNH g (negb (nh_hot h)) (nh_tk h) (nh_s0 h) (nh_s1 h) (nh_mtx h) (nh_rs h), inl (xCool KW (nh_hot h) (nh_tk h)))
  | xFlip k hb =>
      Some (mkNH g (negb (nh_hot h)) (nh_tk h) (nh_s0 h) (nh_s1 h) (nh_mtx h) (nh_rs h), inl (xCool k hb (nh_tk h)))
  | xCool k c count =>
      Some (h, inl (if Z.eqb (clen (ns_cnt (nget h c))) count then after_cool k c count else xSpin k c count))
  | xSpin k c count => Some (h, inl (xCool k c count))
  | wLoadSum c count => Some (h, inl (wLoadZt c count (ns_sum (nget h c))))
  | wLoadZt c count sum => Some (h, inl (wLoadSch c count sum (ns_zt (nget h c))))
  | wLoadSch c count sum zt => Some (h, inl (wLoadZb c count sum zt (ns_sch (nget h c))))
  | wLoadZb c count sum zt sch => Some (h, inl (wRange c true (mkNOut sch zt (ns_zb (nget h c)) count sum [] [])))
  | wRange c neg o => Some (h, inl (w_next c neg o (cm_keys (side (nget h c) neg))))
  | wKeyLoad c neg o k ks =>
      Some (h, inl (if cm_has (side (nget h c) neg) k then wCellLoad c neg o k ks else xUnlock NPanic))
  | wCellLoad c neg o k ks =>
      let x := match cm_find (side (nget h c) neg) k with Some x => x | None => c0 end in
      Some (h, inl (w_next c neg (out_add o neg k x) ks))
  (* ---- addAndResetCounts (hot = negb c, cold = c) ---- *)
  | aLoadCnt k c r => Some (h, inl (aAddCnt k c r (ns_cnt (nget h c))))
  | aAddCnt k c r x =>
      Some (nput h (negb c) (set_cnt (nget h (negb c)) (cadd (ns_cnt (nget h (negb c))) x)), inl (aStoreCnt k c r))
  | aStoreCnt k c r => Some (nput h c (set_cnt (nget h c) c0), inl (aLoadSum k c r))
  | aLoadSum k c r => Some (h, inl (aSumLoad k c r (ns_sum (nget h c))))
  | aSumLoad k c r s => Some (h, inl (aSumCas k c r s (ns_sum (nget h (negb c)))))
  | aSumCas k c r s old =>
      if fbits_eq (ns_sum (nget h (negb c))) old
      then Some (nput h (negb c) (set_sum (nget h (negb c)) (fadd old s)), inl (aStoreSum k c r))
      else Some (h, inl (aSumLoad k c r s))
  | aStoreSum k c r => Some (nput h c (set_sum (nget h c) pzero), inl (aLoadZb k c r))
  | aLoadZb k c r => Some (h, inl (aAddZb k c r (ns_zb (nget h c))))
  | aAddZb k c r z =>
      Some (nput h (negb c) (set_zb (nget h (negb c)) (cadd (ns_zb (nget h (negb c))) z)), inl (aStoreZb k c r))
  | aStoreZb k c r => Some (nput h c (set_zb (nget h c) c0), inl (after_addreset k c r))
  | zStoreZt2 c sk nzt => Some (nput h c (set_zt (nget h c) nzt), inl (mRange (KZ sk nzt) c false NUnit))
  | dStoreSch2 c cs => Some (nput h c (set_sch (nget h c) cs), inl (mRange (KD cs) c false NUnit))
  (* ---- merge loops over the cold buckets ---- *)
  | mRange k c neg r => Some (h, inl (m_next k c neg r (cm_keys (side (nget h c) neg))))
  | mLoad k c neg r kk ks =>
      match cm_find (side (nget h c) neg) kk with
      | None => Some (h, inl (m_next k c neg r ks))        (* deleted since Range: skipped *)
      | Some n =>
          Some (h, inl (match k with
                        | KZ sk _ => if Z.leb kk sk then mAddZb k c neg r kk ks n else bLoad k c neg r kk ks n
                        | _ => bLoad k c neg r kk ks n
                        end))
      end
  | mAddZb k c neg r kk ks n =>
      Some (nput h (negb c) (set_zb (nget h (negb c)) (cadd (ns_zb (nget h (negb c))) n)), inl (mDel k c neg r kk ks))
  | mDel k c neg r kk ks => Some (upd_side h c neg (fun m => cm_del m kk), inl (mDec k c neg r kk ks))
  | mDec k c neg r kk ks => Some (nput h c (set_bn (nget h c) (u32_dec (ns_bn (nget h c)))), inl (m_next k c neg r ks))
  | bLoad k c neg r kk ks n =>
      Some (h, inl (if cm_has (side (nget h (negb c)) neg) (tkey k kk) then bAdd k c neg r kk ks n else bLos k c neg r kk ks n))
  | bLos k c neg r kk ks n =>
      if cm_has (side (nget h (negb c)) neg) (tkey k kk) then Some (h, inl (bAdd k c neg r kk ks n))
      else Some (upd_side h (negb c) neg (fun m => cm_ins m (tkey k kk) n), inl (bBn k c neg r kk ks))
  | bAdd k c neg r kk ks n =>
      Some (upd_side h (negb c) neg (fun m => cm_upd m (tkey k kk) (fun x => cadd x n)), inl (m_added k c neg r kk ks))
  | bBn k c neg r kk ks =>
      Some (nput h (negb c) (set_bn (nget h (negb c)) (u32_inc (ns_bn (nget h (negb c))))), inl (m_added k c neg r kk ks))
  | mStore k c neg r kk ks => Some (upd_side h c neg (fun m => cm_upd m kk (fun _ => c0)), inl (m_next k c neg r ks))
  | dStoreBn2 c => Some (nput h c (set_bn (nget h c) 0), inl (eRange EPost c true))
  | xUnlock r => Some (set_mtx h false, inr r)
  (* ---- reset ---- *)
  | fCheck =>
      let rs := nh_rs h in
      if Z.ltb 0 (rs_pend rs)
      then Some (set_rs h (mkRS (rs_clk rs) (rs_last rs) (rs_sched rs) (rs_pend rs - 1)), inl rLock)
      else Some (h, inr NUnit)
  | cAdv d => let rs := nh_rs h in Some (set_rs h (mkRS (rs_clk rs + d) (rs_last rs) (rs_sched rs) (rs_pend rs)), inr NUnit)
  | rLock => if nh_mtx h then None else Some (set_mtx h true, inl rLoadIdx)
  | rLoadIdx => Some (h, inl (rStore RT R1 (negb (nh_hot h)) FSum))
  | rStore rk ph x fd =>
      Some (nput h x (rstore_set g (nget h x) fd),
            inl (match rfield_next fd with Some fd' => rStore rk ph x fd' | None => rRange rk ph x true end))
  | rRange rk ph x neg =>
      let ks := cm_keys (side (nget h x) neg) in
      Some (r_done rk ph neg ks h, inl (r_next rk ph x neg ks))
  | rDel rk ph x neg ks =>
      match ks with
      | [] => Some (r_done rk ph neg [] h, inl (r_next rk ph x neg []))
      | k :: ks' => Some (r_done rk ph neg ks' (upd_side h x neg (fun m => cm_del m k)), inl (r_next rk ph x neg ks'))
      end
  | hSumLoad v x => Some (h, inl (hSumCas v x (ns_sum (nget h x))))
  | hSumCas v x old =>
      if fbits_eq (ns_sum (nget h x)) old
      then Some (nput h x (set_sum (nget h x) (fadd old v)), inl (if is_nan v then hCount v x else hLoadSch v x))
      else Some (h, inl (hSumLoad v x))
  | hLoadSch v x => Some (h, inl (hLoadZt v x (ns_sch (nget h x))))
  | hLoadZt v x s =>
      let zt := ns_zt (nget h x) in
      let key := key_of s v in
      Some (h, inl (if fgt v zt then hBkLoad v x false key
                    else if flt v (fneg zt) then hBkLoad v x true key
                    else hZero v x))
  | hBkLoad v x neg k =>
      Some (h, inl (if cm_has (side (nget h x) neg) k then hBkAdd v x neg k else hBkLos v x neg k))
  | hBkLos v x neg k =>
      if cm_has (side (nget h x) neg) k then Some (h, inl (hBkAdd v x neg k))
      else Some (upd_side h x neg (fun m => cm_ins m k (cone v)), inl (hBnAdd v x))
  | hBkAdd v x neg k => Some (upd_side h x neg (fun m => cm_upd m k (fun y => cadd y (cone v))), inl (hCount v x))
  | hBnAdd v x => Some (nput h x (set_bn (nget h x) (u32_inc (ns_bn (nget h x)))), inl (hCount v x))
  | hZero v x => Some (nput h x (set_zb (nget h x) (cadd (ns_zb (nget h x)) (cone v))), inl (hCount v x))
  | hCount v x => Some (nput h x (set_cnt (nget h x) (cadd (ns_cnt (nget h x)) (cone v))), inl (rSwap (RL v) x))
  | rSwap rk x =>
      (* SwapUint64(&countAndHotIdx, coldIdx<<63 [+1]): x becomes hot, the ticket counter restarts *)
      Some (mkNH g x (match rk with RL _ => 1 | RT => 0 end) (nh_s0 h) (nh_s1 h) (nh_mtx h) (nh_rs h),
            inl (rCool rk (negb x) (nh_tk h)))
  | rCool rk c count =>
      Some (h, inl (if Z.eqb (clen (ns_cnt (nget h c))) count then rStore rk R2 c FSum else rSpin rk c count))
  | rSpin rk c count => Some (h, inl (rCool rk c count))
  end.

(* canonical labels: "<operation> <field>" as harness/internal/schedx.Canon reduces the instrumenter's labels *)
Definition nlabel (pc : npc) : list Z :=
  match pc with
  | oTicket _ => nl "AddUint64 countAndHotIdx"
  | oSumLoad _ _ => nl "LoadUint64 bits"
  | oSumCas _ _ _ => nl "CompareAndSwapUint64 bits"
  | oLoadSch _ _ => nl "LoadInt32 nativeHistogramSchema"
  | oLoadZt _ _ _ => nl "LoadUint64 nativeHistogramZeroThresholdBits"
  | oBkLoad _ _ _ _ => nl "Map.Load"
  | oBkLos _ _ _ _ => nl "Map.LoadOrStore"
  | oBkAdd _ _ _ _ => nl "AddInt64 (*int64)"
  | oBnAdd _ _ => nl "AddUint32 nativeHistogramBucketsNumber"
  | oZero _ _ => nl "AddUint64 nativeHistogramZeroBucket"
  | oCount _ _ => nl "AddUint64 count"
  | lLoadBn _ _ => nl "LoadUint32 nativeHistogramBucketsNumber"
  | lLock _ => nl "Mutex.Lock"
  | lLoadIdx _ => nl "LoadUint64 countAndHotIdx"
  | lLoadBn2 _ _ => nl "LoadUint32 nativeHistogramBucketsNumber"
  | zLoadZt _ => nl "LoadUint64 nativeHistogramZeroThresholdBits"
  | zRangeP _ => nl "Map.Range"
  | zRangeN _ _ => nl "Map.Range"
  | zLoadSch _ _ => nl "LoadInt32 nativeHistogramSchema"
  | zStoreZt _ _ _ => nl "StoreUint64 nativeHistogramZeroThresholdBits"
  | zDelN _ _ _ => nl "Map.LoadAndDelete"
  | zDecN _ _ _ => nl "AddUint32 p"
  | zDelP _ _ _ => nl "Map.LoadAndDelete"
  | zDecP _ _ _ => nl "AddUint32 p"
  | dLoadSch _ => nl "LoadInt32 nativeHistogramSchema"
  | dStoreSch _ _ => nl "StoreInt32 nativeHistogramSchema"
  | dStoreBn _ _ => nl "StoreUint32 nativeHistogramBucketsNumber"
  | eRange _ _ _ => nl "Map.Range"
  | eDel _ _ _ _ => nl "Map.Delete"
  | wLock => nl "Mutex.Lock"
  | wFlip => nl "AddUint64 countAndHotIdx"
  | xFlip _ _ => nl "AddUint64 countAndHotIdx"
  | xCool _ _ _ => nl "LoadUint64 count"
  | xSpin _ _ _ => nl "spin"
  | wLoadSum _ _ => nl "LoadUint64 sumBits"
  | wLoadZt _ _ _ => nl "LoadUint64 nativeHistogramZeroThresholdBits"
  | wLoadSch _ _ _ _ => nl "LoadInt32 nativeHistogramSchema"
  | wLoadZb _ _ _ _ _ => nl "LoadUint64 nativeHistogramZeroBucket"
  | wRange _ _ _ => nl "Map.Range"
  | wKeyLoad _ _ _ _ _ => nl "Map.Load"
  | wCellLoad _ _ _ _ _ => nl "LoadInt64 (*int64)"
  | aLoadCnt _ _ _ => nl "LoadUint64 count"
  | aAddCnt _ _ _ _ => nl "AddUint64 count"
  | aStoreCnt _ _ _ => nl "StoreUint64 count"
  | aLoadSum _ _ _ => nl "LoadUint64 sumBits"
  | aSumLoad _ _ _ _ => nl "LoadUint64 bits"
  | aSumCas _ _ _ _ _ => nl "CompareAndSwapUint64 bits"
  | aStoreSum _ _ _ => nl "StoreUint64 sumBits"
  | aLoadZb _ _ _ => nl "LoadUint64 nativeHistogramZeroBucket"
  | aAddZb _ _ _ _ => nl "AddUint64 nativeHistogramZeroBucket"
  | aStoreZb _ _ _ => nl "StoreUint64 nativeHistogramZeroBucket"
  | zStoreZt2 _ _ _ => nl "StoreUint64 nativeHistogramZeroThresholdBits"
  | dStoreSch2 _ _ => nl "StoreInt32 nativeHistogramSchema"
  | mRange _ _ _ _ => nl "Map.Range"
  | mLoad _ _ _ _ _ _ => nl "LoadInt64 bucket"
  | mAddZb _ _ _ _ _ _ _ => nl "AddUint64 nativeHistogramZeroBucket"
  | mDel _ _ _ _ _ _ => nl "Map.Delete"
  | mDec _ _ _ _ _ _ => nl "AddUint32 p"
  | bLoad _ _ _ _ _ _ _ => nl "Map.Load"
  | bLos _ _ _ _ _ _ _ => nl "Map.LoadOrStore"
  | bAdd _ _ _ _ _ _ _ => nl "AddInt64 (*int64)"
  | bBn k _ _ _ _ _ => match k with KW => nl "AddUint32 bucketNumber" | _ => nl "AddUint32 nativeHistogramBucketsNumber" end
  | mStore _ _ _ _ _ _ => nl "StoreInt64 bucket"
  | dStoreBn2 _ => nl "StoreUint32 nativeHistogramBucketsNumber"
  | xUnlock _ => nl "Mutex.Unlock"
  | fCheck => nl "timer-poll"
  | cAdv _ => nl "clock"
  | rLock => nl "Mutex.Lock"
  | rLoadIdx => nl "LoadUint64 countAndHotIdx"
  | rStore _ _ _ fd =>
      match fd with
      | FSum => nl "StoreUint64 sumBits" | FCnt => nl "StoreUint64 count" | FZb => nl "StoreUint64 nativeHistogramZeroBucket"
      | FZt => nl "StoreUint64 nativeHistogramZeroThresholdBits" | FSch => nl "StoreInt32 nativeHistogramSchema"
      | FBn => nl "StoreUint32 nativeHistogramBucketsNumber"
      end
  | rRange _ _ _ _ => nl "Map.Range"
  | rDel _ _ _ _ _ => nl "Map.Delete"
  | hSumLoad _ _ => nl "LoadUint64 bits"
  | hSumCas _ _ _ => nl "CompareAndSwapUint64 bits"
  | hLoadSch _ _ => nl "LoadInt32 nativeHistogramSchema"
  | hLoadZt _ _ _ => nl "LoadUint64 nativeHistogramZeroThresholdBits"
  | hBkLoad _ _ _ _ => nl "Map.Load"
  | hBkLos _ _ _ _ => nl "Map.LoadOrStore"
  | hBkAdd _ _ _ _ => nl "AddInt64 (*int64)"
  | hBnAdd _ _ => nl "AddUint32 nativeHistogramBucketsNumber"
  | hZero _ _ => nl "AddUint64 nativeHistogramZeroBucket"
  | hCount _ _ => nl "AddUint64 count"
  | rSwap _ _ => nl "SwapUint64 countAndHotIdx"
  | rCool _ _ _ => nl "LoadUint64 count"
  | rSpin _ _ _ => nl "spin"
  end.

Definition native_machine : machine := mkMachine nsh npc nop nret nstart nstep nlabel.

(* The ledger of a run: the values whose Observe call took its ticket after the last completed swap of a reset
   (maybeReset repeats the value of the call that triggered it, so that value opens the new ledger). *)
Definition ledger_eff (pc : npc) (L : list f64) : list f64 :=
  match pc with
  | oTicket v => v :: L
  | rSwap (RL v) _ => [v]
  | rSwap RT _ => []
  | _ => L
  end.
Definition pc_of (c : Conc.config native_machine) (tid : Z) : option npc :=
  match nth_error (thr c) (Z.to_nat tid) with
  | Some t => match t_cur t with Some (_, pc, _) => Some pc | None => None end
  | None => None
  end.
Fixpoint ledger (c : Conc.config native_machine) (sched : list Z) (L : list f64) : list f64 :=
  match sched with
  | [] => L
  | tid :: r =>
      match sched_step native_machine c tid with
      | Some c' => ledger c' r (match pc_of c tid with Some pc => ledger_eff pc L | None => L end)
      | None => ledger c r L
      end
  end.

End Cells.

(* the code: integer counters *)
Definition zmachine : machine := native_machine Z 0 Z.add (fun _ => 1) (fun x => x).
(* the proof device: counters carry the observed values *)
Definition lmachine : machine := native_machine (list f64) [] (@app f64) (fun v => [v]) (fun l => Z.of_nat (List.length l)).
