(* Model/NativeConc.v -- the native (sparse) histogram as a Base.Conc step machine: Observe and Write racing with
   the bucket-limit strategies, one machine step per sync/atomic operation, mutex operation, sync.Map operation
   or runtime.Gosched, in the order prometheus/histogram.go performs them
   (observe 905-918, histogramCounts.observe 656-712, limitBuckets 924-963, maybeWidenZeroBucket 1022-1094,
    doubleBucketWidth 1096-1142, Write 784-869, makeBuckets 1486-1541, addToBucket 1543-1560,
    addAndReset 1565-1574, deleteSyncMap 1576-1581, findSmallestKey 1583-1593, waitForCooldown 1650-1654,
    atomicAddFloat 1658-1668, addAndResetCounts 1677-1691).
   SCOPE (documented, not verified by Coq):
   * a native-only histogram: no classic buckets (their protocol is C02's hist_machine), native exemplars
     disabled, Observe without exemplar; NativeHistogramMinResetDuration = 0 (maybeReset returns false without a
     shared operation, no timer): the reset strategy is NOT modelled.
   * schema / threshold arithmetic is the sequential model of (Model/NativeHist.v: key_of, get_le, halve, u32_inc, u32_dec).
   * a sync.Map is a key-sorted association list; Range takes the key set at its schedule point and visits the
     keys in ascending order, skipping keys deleted meanwhile (sync.Map's contract; Go's order is unspecified);
     a cell reached through a pointer obtained earlier (Load / LoadOrStore / Range) is addressed by its key: if
     the entry was deleted meanwhile the update is lost in the model (proved unreachable in Proofs/C05_conc.v).
   * counters are CELLS of an abstract type C with zero, addition, "one observation of v" and length; no step
     inspects a cell except through its length.  Instance Z (0, +, 1, id) is the code; instance `list f64`
     ([], ++, [v], length) carries the observed values along and is used by the proofs; the first is the image of
     the second under `length` (Proofs/C05_conc.v: machine homomorphism).
   * uint64/int64 counters are unbounded; nativeHistogramBucketsNumber wraps modulo 2^32 as in the code. *)
From Coq Require Import ZArith List Bool Strings.String.
From Verif Require Import Base.F64 Base.Str Base.Conc Model.ClassicHist Model.NativeHist.
Import ListNotations.
Open Scope Z_scope.

Definition nl (s : string) : list Z := of_string s.
Arguments nl s%string.

Inductive nop := NObserve (v : f64) | NWrite.

(* which maintenance operation holds the mutex *)
Inductive mctx := KW | KZ (sk : Z) (nzt : f64) | KD (cs : Z).
(* deleteSyncMap in doubleBucketWidth: before the flip (then flip) or after the merge (then unlock) *)
Inductive ephase := EPre (cs : Z) | EPost.

Definition smallest (ks : list Z) : Z := fold_left (fun res k => if Z.ltb k res then k else res) ks max_int32.

Section Cells.
Variable C : Type.
Variables (c0 : C) (cadd : C -> C -> C) (cone : f64 -> C) (clen : C -> Z).

(* ---- sync.Map int -> *cell ---- *)
Definition cmap := list (Z * C).
Fixpoint cm_find (m : cmap) (k : Z) : option C :=
  match m with [] => None | (k', c) :: r => if Z.eqb k k' then Some c else cm_find r k end.
Fixpoint cm_upd (m : cmap) (k : Z) (f : C -> C) : cmap :=
  match m with [] => [] | (k', c) :: r => if Z.eqb k k' then (k', f c) :: r else (k', c) :: cm_upd r k f end.
Fixpoint cm_ins (m : cmap) (k : Z) (c : C) : cmap :=
  match m with
  | [] => [(k, c)]
  | (k', c') :: r => if Z.eqb k k' then m else if Z.ltb k k' then (k, c) :: m else (k', c') :: cm_ins r k c
  end.
Fixpoint cm_del (m : cmap) (k : Z) : cmap :=
  match m with [] => [] | (k', c) :: r => if Z.eqb k k' then r else (k', c) :: cm_del r k end.
Definition cm_keys (m : cmap) : list Z := map fst m.
Definition cm_has (m : cmap) (k : Z) : bool := match cm_find m k with Some _ => true | None => false end.

(* ---- one count set, the shared state ---- *)
Record nset := mkNS { ns_sum : f64; ns_cnt : C; ns_zb : C; ns_zt : f64; ns_sch : Z; ns_bn : Z; ns_pos : cmap; ns_neg : cmap }.
Record nsh := mkNH { nh_cfg : config; nh_hot : bool; nh_tk : Z; nh_s0 : nset; nh_s1 : nset; nh_mtx : bool }.

Definition nget (h : nsh) (b : bool) : nset := if b then nh_s1 h else nh_s0 h.
Definition nput (h : nsh) (b : bool) (s : nset) : nsh :=
  if b then mkNH (nh_cfg h) (nh_hot h) (nh_tk h) (nh_s0 h) s (nh_mtx h)
  else mkNH (nh_cfg h) (nh_hot h) (nh_tk h) s (nh_s1 h) (nh_mtx h).
Definition side (s : nset) (neg : bool) : cmap := if neg then ns_neg s else ns_pos s.
Definition set_side (s : nset) (neg : bool) (m : cmap) : nset :=
  if neg then mkNS (ns_sum s) (ns_cnt s) (ns_zb s) (ns_zt s) (ns_sch s) (ns_bn s) (ns_pos s) m
  else mkNS (ns_sum s) (ns_cnt s) (ns_zb s) (ns_zt s) (ns_sch s) (ns_bn s) m (ns_neg s).
Definition set_sum (s : nset) (x : f64) := mkNS x (ns_cnt s) (ns_zb s) (ns_zt s) (ns_sch s) (ns_bn s) (ns_pos s) (ns_neg s).
Definition set_cnt (s : nset) (x : C) := mkNS (ns_sum s) x (ns_zb s) (ns_zt s) (ns_sch s) (ns_bn s) (ns_pos s) (ns_neg s).
Definition set_zb (s : nset) (x : C) := mkNS (ns_sum s) (ns_cnt s) x (ns_zt s) (ns_sch s) (ns_bn s) (ns_pos s) (ns_neg s).
Definition set_zt (s : nset) (x : f64) := mkNS (ns_sum s) (ns_cnt s) (ns_zb s) x (ns_sch s) (ns_bn s) (ns_pos s) (ns_neg s).
Definition set_sch (s : nset) (x : Z) := mkNS (ns_sum s) (ns_cnt s) (ns_zb s) (ns_zt s) x (ns_bn s) (ns_pos s) (ns_neg s).
Definition set_bn (s : nset) (x : Z) := mkNS (ns_sum s) (ns_cnt s) (ns_zb s) (ns_zt s) (ns_sch s) x (ns_pos s) (ns_neg s).
Definition set_mtx (h : nsh) (m : bool) := mkNH (nh_cfg h) (nh_hot h) (nh_tk h) (nh_s0 h) (nh_s1 h) m.

Definition nset0 (g : config) : nset := mkNS pzero c0 c0 (init_zt g) (g_schema g) 0 [] [].
Definition ninit (g : config) : nsh := mkNH g false 0 (nset0 g) (nset0 g) false.

(* what Write exposes: the populations as (key, cell) in key order (C04 proves that the spans/deltas
   encoding decodes to them) *)
Record nout := mkNOut { no_sch : Z; no_zt : f64; no_zc : C; no_count : Z; no_sum : f64;
                        no_pos : list (Z * C); no_neg : list (Z * C) }.
Inductive nret := NUnit | NOut (o : nout) | NPanic.

(* ---- program counters.  b: the set an observer works on; hb: hot index loaded under the mutex;
   c: the set made cold by the flip (being drained), negb c the hot one; r: what the call returns at unlock ---- *)
Inductive npc :=
(* histogram.observe / histogramCounts.observe *)
| oTicket (v : f64)
| oSumLoad (v : f64) (b : bool)
| oSumCas (v : f64) (b : bool) (old : f64)
| oLoadSch (v : f64) (b : bool)
| oLoadZt (v : f64) (b : bool) (s : Z)
| oBkLoad (v : f64) (b neg : bool) (k : Z)
| oBkLos (v : f64) (b neg : bool) (k : Z)
| oBkAdd (v : f64) (b neg : bool) (k : Z)
| oBnAdd (v : f64) (b : bool)
| oZero (v : f64) (b : bool)
| oCount (v : f64) (b : bool)
(* limitBuckets *)
| lLoadBn (b : bool)
| lLock
| lLoadIdx
| lLoadBn2 (hb : bool)
(* maybeWidenZeroBucket before the flip *)
| zLoadZt (hb : bool)
| zRangeP (hb : bool)
| zRangeN (hb : bool) (skp : Z)
| zLoadSch (hb : bool) (sk : Z)
| zStoreZt (hb : bool) (sk : Z) (nzt : f64)
| zDelN (hb : bool) (sk : Z) (nzt : f64)
| zDecN (hb : bool) (sk : Z) (nzt : f64)
| zDelP (hb : bool) (sk : Z) (nzt : f64)
| zDecP (hb : bool) (sk : Z) (nzt : f64)
(* doubleBucketWidth before the flip *)
| dLoadSch (hb : bool)
| dStoreSch (hb : bool) (cs : Z)
| dStoreBn (hb : bool) (cs : Z)
(* deleteSyncMap of set c: Range, then one Delete per key *)
| eRange (ph : ephase) (c neg : bool)
| eDel (ph : ephase) (c neg : bool) (ks : list Z)
(* Write *)
| wLock
| wFlip
(* flip of the strategies, waitForCooldown *)
| xFlip (k : mctx) (hb : bool)
| xCool (k : mctx) (c : bool) (count : Z)
| xSpin (k : mctx) (c : bool) (count : Z)
(* Write reads the cold set *)
| wLoadSum (c : bool) (count : Z)
| wLoadZt (c : bool) (count : Z) (sum : f64)
| wLoadSch (c : bool) (count : Z) (sum : f64) (zt : f64)
| wLoadZb (c : bool) (count : Z) (sum : f64) (zt : f64) (sch : Z)
| wRange (c neg : bool) (o : nout)
| wKeyLoad (c neg : bool) (o : nout) (k : Z) (ks : list Z)
| wCellLoad (c neg : bool) (o : nout) (k : Z) (ks : list Z)
(* addAndResetCounts *)
| aLoadCnt (k : mctx) (c : bool) (r : nret)
| aAddCnt (k : mctx) (c : bool) (r : nret) (x : C)
| aStoreCnt (k : mctx) (c : bool) (r : nret)
| aLoadSum (k : mctx) (c : bool) (r : nret)
| aSumLoad (k : mctx) (c : bool) (r : nret) (s : f64)
| aSumCas (k : mctx) (c : bool) (r : nret) (s : f64) (old : f64)
| aStoreSum (k : mctx) (c : bool) (r : nret)
| aLoadZb (k : mctx) (c : bool) (r : nret)
| aAddZb (k : mctx) (c : bool) (r : nret) (z : C)
| aStoreZb (k : mctx) (c : bool) (r : nret)
(* after addAndResetCounts *)
| zStoreZt2 (c : bool) (sk : Z) (nzt : f64)
| dStoreSch2 (c : bool) (cs : Z)
(* merging the cold sparse buckets into the hot ones (Write's deferred addAndReset, widen, halve) *)
| mRange (k : mctx) (c neg : bool) (r : nret)
| mLoad (k : mctx) (c neg : bool) (r : nret) (kk : Z) (ks : list Z)
| mAddZb (k : mctx) (c neg : bool) (r : nret) (kk : Z) (ks : list Z) (n : C)
| mDel (k : mctx) (c neg : bool) (r : nret) (kk : Z) (ks : list Z)
| mDec (k : mctx) (c neg : bool) (r : nret) (kk : Z) (ks : list Z)
| bLoad (k : mctx) (c neg : bool) (r : nret) (kk : Z) (ks : list Z) (n : C)
| bLos (k : mctx) (c neg : bool) (r : nret) (kk : Z) (ks : list Z) (n : C)
| bAdd (k : mctx) (c neg : bool) (r : nret) (kk : Z) (ks : list Z) (n : C)
| bBn (k : mctx) (c neg : bool) (r : nret) (kk : Z) (ks : list Z)
| mStore (k : mctx) (c neg : bool) (r : nret) (kk : Z) (ks : list Z)
| dStoreBn2 (c : bool)
| xUnlock (r : nret).

Definition nstart (o : nop) : npc + nret :=
  match o with NObserve v => inl (oTicket v) | NWrite => inl wLock end.

(* the key a cold bucket is merged into *)
Definition tkey (k : mctx) (kk : Z) : Z := match k with KD _ => halve kk | _ => kk end.

(* next bucket of a merge loop / what follows the loops *)
Definition m_next (k : mctx) (c neg : bool) (r : nret) (ks : list Z) : npc :=
  match ks with
  | kk :: ks' => mLoad k c neg r kk ks'
  | [] => if neg then match k with KD _ => dStoreBn2 c | _ => xUnlock r end
          else mRange k c true r
  end.
(* after the merged bucket was added to the hot one *)
Definition m_added (k : mctx) (c neg : bool) (r : nret) (kk : Z) (ks : list Z) : npc :=
  match k with KD _ => m_next k c neg r ks | _ => mStore k c neg r kk ks end.
Definition e_next (ph : ephase) (c neg : bool) (ks : list Z) : npc :=
  match ks with
  | _ :: _ => eDel ph c neg ks
  | [] => if neg then eRange ph c false          (* negative map first, then the positive one *)
          else match ph with EPre cs => xFlip (KD cs) (negb c) | EPost => xUnlock NUnit end
  end.
Definition w_next (c neg : bool) (o : nout) (ks : list Z) : npc :=
  match ks with
  | k :: ks' => wKeyLoad c neg o k ks'
  | [] => if neg then wRange c false o            (* negative buckets first, then the positive ones *)
          else aLoadCnt KW c (NOut o)
  end.
Definition after_cool (k : mctx) (c : bool) (count : Z) : npc :=
  match k with KW => wLoadSum c count | _ => aLoadCnt k c NUnit end.
Definition after_addreset (k : mctx) (c : bool) (r : nret) : npc :=
  match k with KW => mRange KW c false r | KZ sk nzt => zStoreZt2 c sk nzt | KD cs => dStoreSch2 c cs end.
Definition out_add (o : nout) (neg : bool) (k : Z) (x : C) : nout :=
  if neg then mkNOut (no_sch o) (no_zt o) (no_zc o) (no_count o) (no_sum o) (no_pos o) (no_neg o ++ [(k, x)])
  else mkNOut (no_sch o) (no_zt o) (no_zc o) (no_count o) (no_sum o) (no_pos o ++ [(k, x)]) (no_neg o).

Definition upd_side (h : nsh) (b neg : bool) (f : cmap -> cmap) : nsh :=
  nput h b (set_side (nget h b) neg (f (side (nget h b) neg))).

Definition nstep (h : nsh) (pc : npc) : option (nsh * (npc + nret)) :=
  let g := nh_cfg h in
  match pc with
  (* ---- Observe ---- *)
  | oTicket v =>
      Some (mkNH g (nh_hot h) (nh_tk h + 1) (nh_s0 h) (nh_s1 h) (nh_mtx h), inl (oSumLoad v (nh_hot h)))
  | oSumLoad v b => Some (h, inl (oSumCas v b (ns_sum (nget h b))))
  | oSumCas v b old =>
      if fbits_eq (ns_sum (nget h b)) old
      then Some (nput h b (set_sum (nget h b) (fadd old v)), inl (if is_nan v then oCount v b else oLoadSch v b))
      else Some (h, inl (oSumLoad v b))
  | oLoadSch v b => Some (h, inl (oLoadZt v b (ns_sch (nget h b))))
  | oLoadZt v b s =>
      let zt := ns_zt (nget h b) in
      let key := key_of s v in
      Some (h, inl (if fgt v zt then oBkLoad v b false key
                    else if flt v (fneg zt) then oBkLoad v b true key
                    else oZero v b))
  | oBkLoad v b neg k =>
      Some (h, inl (if cm_has (side (nget h b) neg) k then oBkAdd v b neg k else oBkLos v b neg k))
  | oBkLos v b neg k =>
      if cm_has (side (nget h b) neg) k then Some (h, inl (oBkAdd v b neg k))
      else Some (upd_side h b neg (fun m => cm_ins m k (cone v)), inl (oBnAdd v b))
  | oBkAdd v b neg k => Some (upd_side h b neg (fun m => cm_upd m k (fun x => cadd x (cone v))), inl (oCount v b))
  | oBnAdd v b => Some (nput h b (set_bn (nget h b) (u32_inc (ns_bn (nget h b)))), inl (oCount v b))
  | oZero v b => Some (nput h b (set_zb (nget h b) (cadd (ns_zb (nget h b)) (cone v))), inl (oCount v b))
  | oCount v b =>
      Some (nput h b (set_cnt (nget h b) (cadd (ns_cnt (nget h b)) (cone v))),
            if is_nan v || Z.eqb (g_max_buckets g) 0 then inr NUnit else inl (lLoadBn b))
  (* ---- limitBuckets ---- *)
  | lLoadBn b => Some (h, if Z.leb (ns_bn (nget h b)) (g_max_buckets g) then inr NUnit else inl lLock)
  | lLock => if nh_mtx h then None else Some (set_mtx h true, inl lLoadIdx)
  | lLoadIdx => Some (h, inl (lLoadBn2 (nh_hot h)))
  | lLoadBn2 hb =>
      Some (h, inl (if Z.leb (ns_bn (nget h hb)) (g_max_buckets g) then xUnlock NUnit else zLoadZt hb))
  (* ---- maybeWidenZeroBucket ---- *)
  | zLoadZt hb => Some (h, inl (if fge (ns_zt (nget h hb)) (g_max_zt g) then dLoadSch hb else zRangeP hb))
  | zRangeP hb => Some (h, inl (zRangeN hb (smallest (cm_keys (ns_pos (nget h hb))))))
  | zRangeN hb skp =>
      let skn := smallest (cm_keys (ns_neg (nget h hb))) in
      let sk := if Z.ltb skn skp then skn else skp in
      Some (h, inl (if Z.eqb sk max_int32 then dLoadSch hb else zLoadSch hb sk))
  | zLoadSch hb sk =>
      let nzt := get_le sk (ns_sch (nget h hb)) in
      Some (h, inl (if fgt nzt (g_max_zt g) then dLoadSch hb else zStoreZt hb sk nzt))
  | zStoreZt hb sk nzt => Some (nput h (negb hb) (set_zt (nget h (negb hb)) nzt), inl (zDelN hb sk nzt))
  | zDelN hb sk nzt =>
      let loaded := cm_has (ns_neg (nget h (negb hb))) sk in
      Some (upd_side h (negb hb) true (fun m => cm_del m sk), inl (if loaded then zDecN hb sk nzt else zDelP hb sk nzt))
  | zDecN hb sk nzt =>
      Some (nput h (negb hb) (set_bn (nget h (negb hb)) (u32_dec (ns_bn (nget h (negb hb))))), inl (zDelP hb sk nzt))
  | zDelP hb sk nzt =>
      let loaded := cm_has (ns_pos (nget h (negb hb))) sk in
      Some (upd_side h (negb hb) false (fun m => cm_del m sk),
            inl (if loaded then zDecP hb sk nzt else xFlip (KZ sk nzt) hb))
  | zDecP hb sk nzt =>
      Some (nput h (negb hb) (set_bn (nget h (negb hb)) (u32_dec (ns_bn (nget h (negb hb))))), inl (xFlip (KZ sk nzt) hb))
  (* ---- doubleBucketWidth ---- *)
  | dLoadSch hb =>
      let s := ns_sch (nget h (negb hb)) in
      Some (h, inl (if Z.eqb s (-4) then xUnlock NUnit else dStoreSch hb (s - 1)))
  | dStoreSch hb cs => Some (nput h (negb hb) (set_sch (nget h (negb hb)) cs), inl (dStoreBn hb cs))
  | dStoreBn hb cs => Some (nput h (negb hb) (set_bn (nget h (negb hb)) 0), inl (eRange (EPre cs) (negb hb) true))
  | eRange ph c neg => Some (h, inl (e_next ph c neg (cm_keys (side (nget h c) neg))))
  | eDel ph c neg ks =>
      match ks with
      | [] => Some (h, inl (e_next ph c neg []))
      | k :: ks' => Some (upd_side h c neg (fun m => cm_del m k), inl (e_next ph c neg ks'))
      end
  (* ---- Write ---- *)
  | wLock => if nh_mtx h then None else Some (set_mtx h true, inl wFlip)
  | wFlip =>
      Some (mkNH g (negb (nh_hot h)) (nh_tk h) (nh_s0 h) (nh_s1 h) (nh_mtx h), inl (xCool KW (nh_hot h) (nh_tk h)))
  | xFlip k hb =>
      Some (mkNH g (negb (nh_hot h)) (nh_tk h) (nh_s0 h) (nh_s1 h) (nh_mtx h), inl (xCool k hb (nh_tk h)))
  | xCool k c count =>
      Some (h, inl (if Z.eqb (clen (ns_cnt (nget h c))) count then after_cool k c count else xSpin k c count))
  | xSpin k c count => Some (h, inl (xCool k c count))
  | wLoadSum c count => Some (h, inl (wLoadZt c count (ns_sum (nget h c))))
  | wLoadZt c count sum => Some (h, inl (wLoadSch c count sum (ns_zt (nget h c))))
  | wLoadSch c count sum zt => Some (h, inl (wLoadZb c count sum zt (ns_sch (nget h c))))
  | wLoadZb c count sum zt sch => Some (h, inl (wRange c true (mkNOut sch zt (ns_zb (nget h c)) count sum [] [])))
  | wRange c neg o => Some (h, inl (w_next c neg o (cm_keys (side (nget h c) neg))))
  | wKeyLoad c neg o k ks =>
      Some (h, inl (if cm_has (side (nget h c) neg) k then wCellLoad c neg o k ks else xUnlock NPanic))
  | wCellLoad c neg o k ks =>
      let x := match cm_find (side (nget h c) neg) k with Some x => x | None => c0 end in
      Some (h, inl (w_next c neg (out_add o neg k x) ks))
  (* ---- addAndResetCounts (hot = negb c, cold = c) ---- *)
  | aLoadCnt k c r => Some (h, inl (aAddCnt k c r (ns_cnt (nget h c))))
  | aAddCnt k c r x =>
      Some (nput h (negb c) (set_cnt (nget h (negb c)) (cadd (ns_cnt (nget h (negb c))) x)), inl (aStoreCnt k c r))
  | aStoreCnt k c r => Some (nput h c (set_cnt (nget h c) c0), inl (aLoadSum k c r))
  | aLoadSum k c r => Some (h, inl (aSumLoad k c r (ns_sum (nget h c))))
  | aSumLoad k c r s => Some (h, inl (aSumCas k c r s (ns_sum (nget h (negb c)))))
  | aSumCas k c r s old =>
      if fbits_eq (ns_sum (nget h (negb c))) old
      then Some (nput h (negb c) (set_sum (nget h (negb c)) (fadd old s)), inl (aStoreSum k c r))
      else Some (h, inl (aSumLoad k c r s))
  | aStoreSum k c r => Some (nput h c (set_sum (nget h c) pzero), inl (aLoadZb k c r))
  | aLoadZb k c r => Some (h, inl (aAddZb k c r (ns_zb (nget h c))))
  | aAddZb k c r z =>
      Some (nput h (negb c) (set_zb (nget h (negb c)) (cadd (ns_zb (nget h (negb c))) z)), inl (aStoreZb k c r))
  | aStoreZb k c r => Some (nput h c (set_zb (nget h c) c0), inl (after_addreset k c r))
  | zStoreZt2 c sk nzt => Some (nput h c (set_zt (nget h c) nzt), inl (mRange (KZ sk nzt) c false NUnit))
  | dStoreSch2 c cs => Some (nput h c (set_sch (nget h c) cs), inl (mRange (KD cs) c false NUnit))
  (* ---- merge loops over the cold buckets ---- *)
  | mRange k c neg r => Some (h, inl (m_next k c neg r (cm_keys (side (nget h c) neg))))
  | mLoad k c neg r kk ks =>
      match cm_find (side (nget h c) neg) kk with
      | None => Some (h, inl (m_next k c neg r ks))        (* deleted since Range: skipped *)
      | Some n =>
          Some (h, inl (match k with
                        | KZ sk _ => if Z.leb kk sk then mAddZb k c neg r kk ks n else bLoad k c neg r kk ks n
                        | _ => bLoad k c neg r kk ks n
                        end))
      end
  | mAddZb k c neg r kk ks n =>
      Some (nput h (negb c) (set_zb (nget h (negb c)) (cadd (ns_zb (nget h (negb c))) n)), inl (mDel k c neg r kk ks))
  | mDel k c neg r kk ks => Some (upd_side h c neg (fun m => cm_del m kk), inl (mDec k c neg r kk ks))
  | mDec k c neg r kk ks => Some (nput h c (set_bn (nget h c) (u32_dec (ns_bn (nget h c)))), inl (m_next k c neg r ks))
  | bLoad k c neg r kk ks n =>
      Some (h, inl (if cm_has (side (nget h (negb c)) neg) (tkey k kk) then bAdd k c neg r kk ks n else bLos k c neg r kk ks n))
  | bLos k c neg r kk ks n =>
      if cm_has (side (nget h (negb c)) neg) (tkey k kk) then Some (h, inl (bAdd k c neg r kk ks n))
      else Some (upd_side h (negb c) neg (fun m => cm_ins m (tkey k kk) n), inl (bBn k c neg r kk ks))
  | bAdd k c neg r kk ks n =>
      Some (upd_side h (negb c) neg (fun m => cm_upd m (tkey k kk) (fun x => cadd x n)), inl (m_added k c neg r kk ks))
  | bBn k c neg r kk ks =>
      Some (nput h (negb c) (set_bn (nget h (negb c)) (u32_inc (ns_bn (nget h (negb c))))), inl (m_added k c neg r kk ks))
  | mStore k c neg r kk ks => Some (upd_side h c neg (fun m => cm_upd m kk (fun _ => c0)), inl (m_next k c neg r ks))
  | dStoreBn2 c => Some (nput h c (set_bn (nget h c) 0), inl (eRange EPost c true))
  | xUnlock r => Some (set_mtx h false, inr r)
  end.

(* canonical labels: "<operation> <field>" as harness/internal/schedx.Canon reduces the instrumenter's labels *)
Definition nlabel (pc : npc) : list Z :=
  match pc with
  | oTicket _ => nl "AddUint64 countAndHotIdx"
  | oSumLoad _ _ => nl "LoadUint64 bits"
  | oSumCas _ _ _ => nl "CompareAndSwapUint64 bits"
  | oLoadSch _ _ => nl "LoadInt32 nativeHistogramSchema"
  | oLoadZt _ _ _ => nl "LoadUint64 nativeHistogramZeroThresholdBits"
  | oBkLoad _ _ _ _ => nl "Map.Load"
  | oBkLos _ _ _ _ => nl "Map.LoadOrStore"
  | oBkAdd _ _ _ _ => nl "AddInt64 (*int64)"
  | oBnAdd _ _ => nl "AddUint32 nativeHistogramBucketsNumber"
  | oZero _ _ => nl "AddUint64 nativeHistogramZeroBucket"
  | oCount _ _ => nl "AddUint64 count"
  | lLoadBn _ => nl "LoadUint32 nativeHistogramBucketsNumber"
  | lLock => nl "Mutex.Lock"
  | lLoadIdx => nl "LoadUint64 countAndHotIdx"
  | lLoadBn2 _ => nl "LoadUint32 nativeHistogramBucketsNumber"
  | zLoadZt _ => nl "LoadUint64 nativeHistogramZeroThresholdBits"
  | zRangeP _ => nl "Map.Range"
  | zRangeN _ _ => nl "Map.Range"
  | zLoadSch _ _ => nl "LoadInt32 nativeHistogramSchema"
  | zStoreZt _ _ _ => nl "StoreUint64 nativeHistogramZeroThresholdBits"
  | zDelN _ _ _ => nl "Map.LoadAndDelete"
  | zDecN _ _ _ => nl "AddUint32 p"
  | zDelP _ _ _ => nl "Map.LoadAndDelete"
  | zDecP _ _ _ => nl "AddUint32 p"
  | dLoadSch _ => nl "LoadInt32 nativeHistogramSchema"
  | dStoreSch _ _ => nl "StoreInt32 nativeHistogramSchema"
  | dStoreBn _ _ => nl "StoreUint32 nativeHistogramBucketsNumber"
  | eRange _ _ _ => nl "Map.Range"
  | eDel _ _ _ _ => nl "Map.Delete"
  | wLock => nl "Mutex.Lock"
  | wFlip => nl "AddUint64 countAndHotIdx"
  | xFlip _ _ => nl "AddUint64 countAndHotIdx"
  | xCool _ _ _ => nl "LoadUint64 count"
  | xSpin _ _ _ => nl "spin"
  | wLoadSum _ _ => nl "LoadUint64 sumBits"
  | wLoadZt _ _ _ => nl "LoadUint64 nativeHistogramZeroThresholdBits"
  | wLoadSch _ _ _ _ => nl "LoadInt32 nativeHistogramSchema"
  | wLoadZb _ _ _ _ _ => nl "LoadUint64 nativeHistogramZeroBucket"
  | wRange _ _ _ => nl "Map.Range"
  | wKeyLoad _ _ _ _ _ => nl "Map.Load"
  | wCellLoad _ _ _ _ _ => nl "LoadInt64 (*int64)"
  | aLoadCnt _ _ _ => nl "LoadUint64 count"
  | aAddCnt _ _ _ _ => nl "AddUint64 count"
  | aStoreCnt _ _ _ => nl "StoreUint64 count"
  | aLoadSum _ _ _ => nl "LoadUint64 sumBits"
  | aSumLoad _ _ _ _ => nl "LoadUint64 bits"
  | aSumCas _ _ _ _ _ => nl "CompareAndSwapUint64 bits"
  | aStoreSum _ _ _ => nl "StoreUint64 sumBits"
  | aLoadZb _ _ _ => nl "LoadUint64 nativeHistogramZeroBucket"
  | aAddZb _ _ _ _ => nl "AddUint64 nativeHistogramZeroBucket"
  | aStoreZb _ _ _ => nl "StoreUint64 nativeHistogramZeroBucket"
  | zStoreZt2 _ _ _ => nl "StoreUint64 nativeHistogramZeroThresholdBits"
  | dStoreSch2 _ _ => nl "StoreInt32 nativeHistogramSchema"
  | mRange _ _ _ _ => nl "Map.Range"
  | mLoad _ _ _ _ _ _ => nl "LoadInt64 bucket"
  | mAddZb _ _ _ _ _ _ _ => nl "AddUint64 nativeHistogramZeroBucket"
  | mDel _ _ _ _ _ _ => nl "Map.Delete"
  | mDec _ _ _ _ _ _ => nl "AddUint32 p"
  | bLoad _ _ _ _ _ _ _ => nl "Map.Load"
  | bLos _ _ _ _ _ _ _ => nl "Map.LoadOrStore"
  | bAdd _ _ _ _ _ _ _ => nl "AddInt64 (*int64)"
  | bBn k _ _ _ _ _ => match k with KW => nl "AddUint32 bucketNumber" | _ => nl "AddUint32 nativeHistogramBucketsNumber" end
  | mStore _ _ _ _ _ _ => nl "StoreInt64 bucket"
  | dStoreBn2 _ => nl "StoreUint32 nativeHistogramBucketsNumber"
  | xUnlock _ => nl "Mutex.Unlock"
  end.

Definition native_machine : machine := mkMachine nsh npc nop nret nstart nstep nlabel.

End Cells.

(* the code: integer counters *)
Definition zmachine : machine := native_machine Z 0 Z.add (fun _ => 1) (fun x => x).
(* the proof device: counters carry the observed values *)
Definition lmachine : machine := native_machine (list f64) [] (@app f64) (fun v => [v]) (fun l => Z.of_nat (List.length l)).
