(* Model/Handler.v -- C11: the promhttp metrics handler.
   Part 1  header.ParseAccept / expectQuality, byte level
           (internal/github.com/golang/gddo/httputil/header/header.go:64-145)
   Part 2  httputil.NegotiateContentEncoding (negotiate.go:19-49) as the source says now
   Part 3  HandlerForTransactional's request function (prometheus/promhttp/http.go:156-259),
           negotiateEncodingWriter (http.go:465-492), httpError (http.go:452-459)
   Part 4  the in-flight semaphore as a step machine (http.go:160-170)
   Part 5  the SPECIFICATION: what the property text demands, written independently
   Executable definitions only; proofs are in Proofs/C11_proofs.v. *)
From Coq Require Import ZArith List Bool Strings.String.
From Verif Require Import Base.F64 Base.Str.
Import ListNotations.
Open Scope Z_scope.

(* ================= Part 1: header.go ================= *)
(* octetTypes: isSpace = SP HT CR LF; isToken = CHAR, not CTL, not separator *)
Definition is_space_b (c : Z) : bool := (c =? 32) || (c =? 9) || (c =? 13) || (c =? 10).
(* the separators string of header.go init(), as byte values *)
Definition separators : list Z := [32; 9; 34; 40; 41; 44; 47; 58; 59; 60; 61; 62; 63; 64; 91; 93; 92; 123; 125].
Definition is_token_b (c : Z) : bool :=
  (0 <=? c) && (c <=? 127) && negb ((c <=? 31) || (c =? 127)) && negb (existsb (Z.eqb c) separators).

Fixpoint skip_space (s : str) : str :=
  match s with
  | c :: r => if is_space_b c then skip_space r else s
  | [] => []
  end.

(* expectTokenSlash: longest prefix of token octets or '/' *)
Fixpoint expect_token_slash (s : str) : str * str :=
  match s with
  | c :: r => if is_token_b c || (c =? 47) then let '(t, rest) := expect_token_slash r in (c :: t, rest) else ([], s)
  | [] => ([], [])
  end.

(* Go int on amd64: 64-bit two's complement wrap-around *)
Definition wrap64 (z : Z) : Z := (z + 2 ^ 63) mod 2 ^ 64 - 2 ^ 63.

(* the digit loop of expectQuality: n = n*10 + int(b) - '0'; d *= 10 (both wrap silently) *)
Fixpoint q_digits (s : str) (n d : Z) : Z * Z * str :=
  match s with
  | b :: r => if (48 <=? b) && (b <=? 57) then q_digits r (wrap64 (n * 10 + b - 48)) (wrap64 (d * 10)) else (n, d, s)
  | [] => (n, d, [])
  end.

Definition fneg1 : f64 := fneg fone.

(* strings.HasPrefix(s, p) followed by s[len(p):] *)
Fixpoint strip_prefix (p s : str) : option str :=
  match p with
  | [] => Some s
  | y :: p' => match s with
               | x :: s' => if x =? y then strip_prefix p' s' else None
               | [] => None
               end
  end.

Definition expect_quality (s : str) : f64 * str :=
  match s with
  | [] => (fneg1, [])
  | c :: r =>
      if (c =? 48) || (c =? 49) then
        let q := if c =? 48 then pzero else fone in
        match strip_prefix [46] r with                      (* "." *)
        | Some r' => let '(n, d, rest) := q_digits r' 0 1 in (fadd q (fdiv (of_Z n) (of_Z d)), rest)
        | None => (q, r)
        end
      else (fneg1, [])
  end.

Record aspec := mkSpec { sv : str; sq : f64 }.

(* the inner for-loop of ParseAccept over one header value; every iteration that continues
   consumes at least one byte, so [S (length s)] iterations always suffice *)
Fixpoint parse_value (fuel : nat) (s : str) : list aspec :=
  match fuel with
  | O => []
  | S f =>
      let '(v, s1) := expect_token_slash s in
      match v with
      | [] => []                                            (* continue loop *)
      | _ =>
          let s2 := skip_space s1 in
          let after (s : str) : list aspec :=
            match strip_prefix [44] (skip_space s) with     (* "," *)
            | Some r => parse_value f (skip_space r)
            | None => []
            end in
          match strip_prefix [59] s2 with                   (* ";" *)
          | Some s3 =>
              match strip_prefix [113; 61] (skip_space s3) with   (* "q=" *)
              | Some s5 =>
                  let '(q, s6) := expect_quality s5 in
                  if flt q pzero then [] else mkSpec v q :: after s6
              | None => []
              end
          | None => mkSpec v fone :: after s2
          end
      end
  end.

Definition parse_accept (vals : list str) : list aspec :=
  flat_map (fun s => parse_value (S (List.length s)) s) vals.

(* ================= Part 2: negotiate.go ================= *)
Definition s_identity : str := of_string "identity"%string.
Definition s_gzip : str := of_string "gzip"%string.
Definition s_zstd : str := of_string "zstd"%string.
Definition s_star : str := [42].

(* the inner loop over specs for one offer: state (q, explicit) *)
Definition offer_step (offer : str) (st : f64 * bool) (sp : aspec) : f64 * bool :=
  let '(q, explicit) := st in
  if str_eqb (sv sp) offer then ((if negb explicit || fgt (sq sp) q then sq sp else q), true)
  else if str_eqb (sv sp) s_star && negb explicit then ((if fgt (sq sp) q then sq sp else q), explicit)
  else st.
Definition offer_q (specs : list aspec) (offer : str) : f64 := fst (fold_left (offer_step offer) specs (fneg1, false)).

Definition nego_step (specs : list aspec) (st : str * f64) (offer : str) : str * f64 :=
  let q := offer_q specs offer in if fgt q (snd st) then (offer, q) else st.

Definition negotiate_ce (specs : list aspec) (offers : list str) : str :=
  let '(best, bq) := fold_left (nego_step specs) offers (s_identity, fneg1) in
  if feq bq pzero then [] else best.

(* ================= Part 3: http.go ================= *)
Inductive policy := PHttpError | PContinue | PPanic | POther.   (* POther: an int outside the three constants *)
Inductive zstd_state := ZAbsent | ZOk | ZFail.                 (* internal.NewZstdWriter: nil / works / returns an error *)
Inductive coding := CId | CGzip | CZstd.

Definition default_offers (z : zstd_state) : list str :=
  match z with ZAbsent => [s_identity; s_gzip] | _ => [s_identity; s_gzip; s_zstd] end.

(* http.go:145-154 *)
Definition compressions (disable : bool) (offered : list str) (z : zstd_state) : list str :=
  if disable then [] else match offered with [] => default_offers z | _ => offered end.

(* negotiateEncodingWriter: (writer, encodingHeaderValue, err?) *)
Definition negotiate_writer (ae : list str) (comps : list str) (z : zstd_state) : coding * str * bool :=
  match comps with
  | [] => (CId, s_identity, false)
  | _ =>
      let sel := negotiate_ce (parse_accept ae) comps in
      if str_eqb sel s_zstd then
        match z with ZAbsent => (CId, [], true) | ZOk => (CZstd, sel, false) | ZFail => (CId, sel, true) end
      else if str_eqb sel s_gzip then (CGzip, sel, false)
      else if str_eqb sel s_identity then (CId, sel, false)
      else (CId, [], true)
  end.

Inductive loop_exit := LNormal | LAbort | LPanic.

Section Handler.
  Variable fam : Type.

  Record hin := mkIn {
    h_policy : policy; h_disable : bool; h_offered : list str; h_ae : list str; h_zstd : zstd_state;
    h_ct : str;                      (* expfmt.Negotiate's answer, passed through *)
    h_mfs : list fam; h_gerr : bool; (* what reg.Gather() returned *)
    h_encfail : fam -> bool;         (* enc.Encode(mf) returns an error *)
    h_closefail : bool;              (* closer.Close() returns an error *)
    h_limit : Z; h_inflight : Z      (* MaxRequestsInFlight, requests holding the semaphore on arrival *)
  }.

  Record hout := mkOut {
    o_status : Z; o_ctype : option str; o_cenc : option str; o_plain : bool;
    o_writer : coding; o_encoded : list fam; o_closed : bool;
    o_gathering : Z; o_encoding : Z; o_gathers : Z; o_done : Z; o_panic : bool
  }.

  (* for _, mf := range mfs { if handleError(enc.Encode(mf)) { return } } *)
  Fixpoint enc_loop (pol : policy) (encfail : fam -> bool) (mfs : list fam) : list fam * Z * loop_exit :=
    match mfs with
    | [] => ([], 0, LNormal)
    | mf :: r =>
        if encfail mf then
          match pol with
          | PPanic => ([], 1, LPanic)
          | PHttpError => ([], 1, LAbort)
          | _ => let '(l, e, x) := enc_loop pol encfail r in (l, e + 1, x)
          end
        else let '(l, e, x) := enc_loop pol encfail r in (mf :: l, e, x)
    end.

  (* select { case inFlightSem <- struct{}{}: ... default: 503 }; no semaphore when the limit is <= 0 *)
  Definition sem_admits (limit inflight : Z) : bool := negb ((0 <? limit) && (limit <=? inflight)).

  Definition out503 : hout := mkOut 503 None None true CId [] false 0 0 0 0 false.
  (* httpError after a failed gather: done() is deferred, the gathering counter was incremented *)
  Definition out500 : hout := mkOut 500 None None true CId [] false 1 0 1 1 false.
  Definition out_gather_panic : hout := mkOut 0 None None false CId [] false 1 0 1 1 true.

  Definition handle (i : hin) : hout :=
    if negb (sem_admits (h_limit i) (h_inflight i)) then out503 else
    let g := if h_gerr i then 1 else 0 in
    let stop : option hout :=
      if h_gerr i then
        match h_policy i with
        | PPanic => Some out_gather_panic
        | PContinue => match h_mfs i with [] => Some out500 | _ => None end
        | PHttpError => Some out500
        | POther => None
        end
      else None in
    match stop with
    | Some o => o
    | None =>
        let '(w0, hdr0, err) := negotiate_writer (h_ae i) (compressions (h_disable i) (h_offered i) (h_zstd i)) (h_zstd i) in
        let w := if err then CId else w0 in
        let hdr := if err then s_identity else hdr0 in
        let cenc := if str_eqb hdr s_identity then None else Some hdr in
        let '(l, e, x) := enc_loop (h_policy i) (h_encfail i) (h_mfs i) in
        match x with
        | LPanic => mkOut 200 (Some (h_ct i)) cenc false w l false g e 1 1 true
        | LAbort => mkOut 200 (Some (h_ct i)) cenc false w l false g e 1 1 false
        | LNormal =>
            if h_closefail i then
              match h_policy i with
              | PPanic => mkOut 200 (Some (h_ct i)) cenc false w l false g (e + 1) 1 1 true
              | _ => mkOut 200 (Some (h_ct i)) cenc false w l false g (e + 1) 1 1 false
              end
            else mkOut 200 (Some (h_ct i)) cenc false w l true g e 1 1 false
        end
    end.

  (* ---- response body relative to abstract codecs ---- *)
  Section Codec.
    Variable bytes : Type.
    Variable encode : str -> list fam -> bytes.        (* complete exposition (including any trailer) *)
    Variable encode_open : str -> list fam -> bytes.   (* what is on the wire when Close was not reached *)
    Variable error_text : bytes.
    Variable gz zs : bytes -> bytes.                   (* the gzip / zstd writers, closed by the deferred closeWriter *)
    Variable ungz unzs : bytes -> bytes.               (* what a client does for the declared Content-Encoding *)

    Definition wrap (c : coding) (b : bytes) : bytes := match c with CId => b | CGzip => gz b | CZstd => zs b end.

    Definition body (i : hin) (o : hout) : bytes :=
      if o_plain o then error_text
      else wrap (o_writer o) (if o_closed o then encode (h_ct i) (o_encoded o) else encode_open (h_ct i) (o_encoded o)).

    (* the client undoes the Content-Encoding the response declares *)
    Definition unwrap (cenc : option str) (b : bytes) : option bytes :=
      match cenc with
      | None => Some b
      | Some h => if str_eqb h s_gzip then Some (ungz b) else if str_eqb h s_zstd then Some (unzs b) else None
      end.
  End Codec.
End Handler.

Arguments mkIn {fam}. Arguments mkOut {fam}.
Arguments h_policy {fam}. Arguments h_disable {fam}. Arguments h_offered {fam}. Arguments h_ae {fam}.
Arguments h_zstd {fam}. Arguments h_ct {fam}. Arguments h_mfs {fam}. Arguments h_gerr {fam}.
Arguments h_encfail {fam}. Arguments h_closefail {fam}. Arguments h_limit {fam}. Arguments h_inflight {fam}.
Arguments o_status {fam}. Arguments o_ctype {fam}. Arguments o_cenc {fam}. Arguments o_plain {fam}.
Arguments o_writer {fam}. Arguments o_encoded {fam}. Arguments o_closed {fam}. Arguments o_gathering {fam}.
Arguments o_encoding {fam}. Arguments o_gathers {fam}. Arguments o_done {fam}. Arguments o_panic {fam}.
Arguments handle {fam}. Arguments enc_loop {fam}. Arguments out503 {fam}. Arguments out500 {fam}.
Arguments out_gather_panic {fam}.
Arguments body {fam bytes}. Arguments wrap {bytes}. Arguments unwrap {bytes}.

(* ================= Part 4: the in-flight semaphore ================= *)
(* A schedule is a list of events; Start t = request t reaches the select statement,
   End t p = request t leaves the handler function (p: by panic) -- the deferred receive
   from the channel runs on every exit path.  Events that make no sense (End of a request
   that is not running, Start of one that already started) are ignored. *)
(* TimedOut t = http.TimeoutHandler (HandlerOpts.Timeout) answers request t with its own 503 while the wrapped
   handler function -- and with it the gather -- keeps running: the semaphore is acquired INSIDE the wrapped
   function (http.go:160-170 is within h, http.go:261-267 wraps h), so the slot stays taken until End t. *)
Inductive ev := Start (t : Z) | End (t : Z) (panicked : bool) | TimedOut (t : Z).
Inductive tstate := TRunning | TRejected | TFinished.
Record sem := mkSem {
  m_threads : list (Z * tstate); m_count : Z;      (* len(inFlightSem) *)
  m_gathers : Z; m_dones : Z; m_503 : Z; m_peak : Z (* gathers begun, done() calls, rejections, max concurrent gathers *)
}.
Definition sem0 : sem := mkSem [] 0 0 0 0 0.

Fixpoint tlookup (t : Z) (l : list (Z * tstate)) : option tstate :=
  match l with
  | [] => None
  | (u, s) :: r => if u =? t then Some s else tlookup t r
  end.
Fixpoint tset (t : Z) (s : tstate) (l : list (Z * tstate)) : list (Z * tstate) :=
  match l with
  | [] => []
  | (u, s') :: r => if u =? t then (u, s) :: r else (u, s') :: tset t s r
  end.
Definition isrun (p : Z * tstate) : bool := match snd p with TRunning => true | _ => false end.
Definition runl (l : list (Z * tstate)) : Z := Z.of_nat (List.length (filter isrun l)).
Definition running (m : sem) : Z := runl (m_threads m).

Definition sem_step (limit : Z) (m : sem) (e : ev) : sem :=
  match e with
  | Start t =>
      match tlookup t (m_threads m) with
      | Some _ => m
      | None =>
          if sem_admits limit (m_count m) then
            let c := if 0 <? limit then m_count m + 1 else m_count m in
            let m' := mkSem ((t, TRunning) :: m_threads m) c (m_gathers m + 1) (m_dones m) (m_503 m) (m_peak m) in
            mkSem (m_threads m') c (m_gathers m') (m_dones m') (m_503 m') (Z.max (m_peak m) (running m'))
          else mkSem ((t, TRejected) :: m_threads m) (m_count m) (m_gathers m) (m_dones m) (m_503 m + 1) (m_peak m)
      end
  | End t _ =>
      match tlookup t (m_threads m) with
      | Some TRunning =>
          mkSem (tset t TFinished (m_threads m)) (if 0 <? limit then m_count m - 1 else m_count m)
                (m_gathers m) (m_dones m + 1) (m_503 m) (m_peak m)
      | _ => m
      end
  | TimedOut _ => m
  end.
Definition sem_run (limit : Z) (es : list ev) : sem := fold_left (sem_step limit) es sem0.

(* per-event outcome for the correspondence: 1 let in, 2 rejected (limit 503), 3 answered by the timeout 503
   while its gather goes on, 0 nothing happened *)
Fixpoint sem_outcomes (limit : Z) (m : sem) (es : list ev) : list Z :=
  match es with
  | [] => []
  | e :: r =>
      let m' := sem_step limit m e in
      (match e with
       | Start t => match tlookup t (m_threads m) with
                    | Some _ => 0
                    | None => if sem_admits limit (m_count m) then 1 else 2
                    end
       | End _ _ => 0
       | TimedOut t => match tlookup t (m_threads m) with Some TRunning => 3 | _ => 0 end
       end) :: sem_outcomes limit m' r
  end.

(* ================= Part 5: SPECIFICATION ================= *)
(* effective quality entries of a coding: its explicit entries, else the wildcard entries *)
Definition explicit_qs (specs : list aspec) (c : str) : list f64 := map sq (filter (fun s => str_eqb (sv s) c) specs).
Definition eff_qs (specs : list aspec) (c : str) : list f64 :=
  match explicit_qs specs c with [] => explicit_qs specs s_star | l => l end.
Definition accepted_nonzero (specs : list aspec) (c : str) : bool := existsb (fun q => fgt q pzero) (eff_qs specs c).

(* the Content-Encoding header a response may declare *)
Definition cenc_allowed (disable : bool) (offers : list str) (specs : list aspec) (cenc : option str) : bool :=
  match cenc with
  | None => true
  | Some c => negb disable && str_in c offers && (str_eqb c s_gzip || str_eqb c s_zstd) && accepted_nonzero specs c
  end.

(* what the client observes, projected (harness/cmd/c11) *)
Record obs := mkObs {
  b_status : Z; b_ct_ok : bool; b_cenc : option str; b_plain : bool;
  b_decomp_ok : bool;          (* body decodes under the declared Content-Encoding *)
  b_chunks : list Z;           (* ids of the gathered families whose encodings make up the decoded body, in order; -1 = foreign bytes *)
  b_complete : bool;           (* the decoded body ends exactly with the format's trailer *)
  b_counters : option (Z * Z); (* (gathering, encoding) deltas when a Registry is configured *)
  b_gathers : Z; b_done : Z; b_panic : bool
}.

Fixpoint zs_eqb (a b : list Z) : bool :=
  match a, b with
  | [], [] => true
  | x :: a', y :: b' => (x =? y) && zs_eqb a' b'
  | _, _ => false
  end.
Fixpoint subseq_b (a b : list Z) : bool :=   (* a is a subsequence of b *)
  match a, b with
  | [], _ => true
  | _ :: _, [] => false
  | x :: a', y :: b' => if x =? y then subseq_b a' b' else subseq_b a b'
  end.

Definition count_true {A} (f : A -> bool) (l : list A) : Z := Z.of_nat (List.length (filter f l)).

(* The property, clause by clause, for one request.  Families are (id, Encode-fails?) pairs. *)
Definition counters_are (b : obs) (g e : Z) : bool :=
  match b_counters b with None => true | Some (g', e') => (g' =? g) && (e' =? e) end.
Definition no_cenc (b : obs) : bool := match b_cenc b with None => true | _ => false end.
Definition spec_nfail (i : hin (Z * bool)) : Z :=
  count_true (h_encfail i) (h_mfs i) + (if h_closefail i then 1 else 0).

(* 500: plain uncompressed error text, no metrics, the gathering counter moved once *)
Definition spec_err500 (b : obs) : bool :=
  (b_status b =? 500) && b_plain b && negb (b_panic b) && counters_are b 1 0 && no_cenc b &&
  match b_chunks b with [] => true | _ => false end.

(* 200 in the negotiated encodings carrying gathered families only; all of them, and complete, if nothing failed *)
Definition spec_served (i : hin (Z * bool)) (b : obs) : bool :=
  let ids := map fst (h_mfs i) in
  let nfail := spec_nfail i in
  let g := if h_gerr i then 1 else 0 in
  if negb (nfail =? 0) && (match h_policy i with PPanic => true | _ => false end) then b_panic b && counters_are b g 1 else
  (b_status b =? 200) && negb (b_plain b) && negb (b_panic b) && b_ct_ok b && b_decomp_ok b &&
  cenc_allowed (h_disable i) (compressions (h_disable i) (h_offered i) (h_zstd i)) (parse_accept (h_ae i)) (b_cenc b) &&
  subseq_b (b_chunks b) ids &&
  (if nfail =? 0 then zs_eqb (b_chunks b) ids && b_complete b && counters_are b g 0
   else match h_policy i with
        | PHttpError => counters_are b g 1
        | _ => counters_are b g nfail && zs_eqb (b_chunks b) (map fst (filter (fun f => negb (h_encfail i f)) (h_mfs i)))
        end).

Definition spec_ok (i : hin (Z * bool)) (b : obs) : bool :=
  if (0 <? h_limit i) && (h_limit i <=? h_inflight i) then
    (* excess request: 503, nothing gathered *)
    (b_status b =? 503) && (b_gathers b =? 0) && (b_done b =? 0) && negb (b_panic b) && counters_are b 0 0 && no_cenc b
  else
  (b_gathers b =? 1) && (b_done b =? 1) &&
  if h_gerr i then
    match h_policy i with
    | PHttpError => spec_err500 b
    | PContinue => match h_mfs i with [] => spec_err500 b | _ => spec_served i b end
    | PPanic => b_panic b && counters_are b 1 0
    | POther => true
    end
  else spec_served i b.

(* projection of the model's answer onto the same observables *)
Definition obs_of (i : hin (Z * bool)) (trailer_nonempty : bool) (counters : bool) (o : hout (Z * bool)) : obs :=
  mkObs (o_status o) (match o_ctype o with Some c => str_eqb c (h_ct i) | None => false end) (o_cenc o) (o_plain o)
        true (map fst (o_encoded o)) (o_closed o || negb trailer_nonempty)
        (if counters then Some (o_gathering o, o_encoding o) else None)
        (o_gathers o) (o_done o) (o_panic o).

(* ---- specification of the concurrency clause, for one observed run ---- *)
(* limit, number of requests, how many got 200 / 503, peak concurrent gathers, gathers, done() calls *)
Definition spec_conc (limit reqs n200 n503 peak gathers dones : Z) : bool :=
  (n200 + n503 =? reqs) && (gathers =? n200) && (dones =? gathers) && (0 <=? n503) &&
  (if 0 <? limit then (peak <=? limit) else (n503 =? 0)) && (peak <=? reqs) &&
  (if reqs <=? limit then n503 =? 0 else true).

(* a scripted schedule, judged on the implementation's own per-event outcomes: a fresh request may be let in (1)
   only while fewer than [limit] gathers run (or no limit is set), and may be rejected (2) only when a limit is
   set and [limit] gathers run; anything else must report 0 *)
Fixpoint spec_sched (limit : Z) (th : list (Z * tstate)) (es : list ev) (outs : list Z) : bool :=
  match es, outs with
  | [], [] => true
  | Start t :: es', o :: outs' =>
      match tlookup t th with
      | Some _ => (o =? 0) && spec_sched limit th es' outs'
      | None =>
          if o =? 1 then ((limit <=? 0) || (runl th <? limit)) && spec_sched limit ((t, TRunning) :: th) es' outs'
          else if o =? 2 then (0 <? limit) && (limit <=? runl th) && spec_sched limit ((t, TRejected) :: th) es' outs'
          else false
      end
  | End t _ :: es', o :: outs' =>
      (o =? 0) && spec_sched limit (match tlookup t th with Some TRunning => tset t TFinished th | _ => th end) es' outs'
  | TimedOut t :: es', o :: outs' =>
      (* the timeout answers the client; the gather still runs and still occupies its slot *)
      (o =? match tlookup t th with Some TRunning => 3 | _ => 0 end) && spec_sched limit th es' outs'
  | _, _ => false
  end.

(* several handlers in one process, each with its own HandlerOpts.Registry (or none): the error counter a registry
   exposes counts exactly the failures of the handler it was configured on, per cause.
   One entry per handler: (own gathering failures, own encoding failures, exposed (gathering, encoding) if a Registry is set) *)
Definition spec_counters_own (hs : list (Z * Z * option (Z * Z))) : bool :=
  forallb (fun h => match h with
                    | (g, e, Some (g', e')) => (g' =? g) && (e' =? e)
                    | (_, _, None) => true
                    end) hs.
