(* Model/Instrument.v -- promhttp instrumentation: code/method sanitisers over the
   translator-generated tables, the delegating ResponseWriter state machine
   (prometheus/promhttp/delegator.go:38-124), a small model of what net/http's own
   writer sends to the peer, the 32-entry delegator table and label derivation. *)
From Coq Require Import ZArith List Bool Strings.String.
From Verif Require Import Base.Str Gen.Gen_Codes Gen.Gen_Methods Gen.Gen_Delegators.
Import ListNotations.
Open Scope Z_scope.

(* ---------- sanitizeCode / sanitizeMethod as the source says (tables are generated) ---------- *)
Definition sanitize_code (s : Z) : str :=
  match find (fun row => existsb (Z.eqb s) (fst row)) code_cases with
  | Some row => snd row
  | None => if (code_default_lo <=? s) && (s <=? code_default_hi) then decimal s else code_default_else
  end.

Definition sanitize_method (m : str) (extra : list str) : str :=
  match find (fun row => str_in m (fst row)) method_cases with
  | Some row => snd row
  | None => if existsb (fun e => equal_fold_ascii m e) extra then lower_ascii m else method_default_else
  end.

(* ---------- what the property says ---------- *)
Definition unknown : str := of_string "unknown".
Definition code_spec (s : Z) : str :=
  if s =? 0 then decimal 200 else if (100 <=? s) && (s <=? 599) then decimal s else unknown.

Definition well_known_methods : list str :=
  map of_string ["get"; "put"; "head"; "post"; "delete"; "connect"; "options"; "notify"; "trace"; "patch"]%string.
Definition method_spec (m : str) (extra : list str) : str :=
  if existsb (fun w => str_eqb m w || str_eqb m (upper_ascii w)) well_known_methods then lower_ascii m
  else if existsb (fun e => equal_fold_ascii m e) extra then lower_ascii m
  else unknown.

(* ---------- handler programs over the ResponseWriter API ---------- *)
(* AWrite n k: Write of n bytes of which the underlying writer accepts k; AReadFrom likewise *)
Inductive act := AWriteHeader (c : Z) | AWrite (n k : Z) | AFlush | AReadFrom (n k : Z).

Definition informational (c : Z) : bool := (100 <=? c) && (c <=? 199) && negb (c =? 101).

(* net/http's writer: the first non-informational WriteHeader wins; a write/flush/read-from
   before any final header implies 200; nothing at all means 200. *)
Fixpoint peer_status_from (acts : list act) : Z :=
  match acts with
  | [] => 200
  | AWriteHeader c :: r => if informational c then peer_status_from r else c
  | _ :: _ => 200
  end.
Definition peer_status := peer_status_from.

Definition accepted_bytes (acts : list act) : Z :=
  fold_left (fun acc a => match a with AWrite _ k | AReadFrom _ k => acc + k | _ => acc end) acts 0.

(* informational codes forwarded to the underlying writer, in order, before the final header *)
Fixpoint forwarded (acts : list act) : list Z :=
  match acts with
  | AWriteHeader c :: r => c :: forwarded r
  | _ :: r => forwarded r
  | [] => []
  end.

(* the delegator: status, written, wroteHeader; the trace of WriteHeader calls it forwards *)
Record dstate := mkD { d_status : Z; d_written : Z; d_wrote : bool; d_fwd : list Z; d_observed : list Z }.
Definition d0 : dstate := mkD 0 0 false [] [].

Definition d_write_header (d : dstate) (c : Z) : dstate :=
  if informational c then mkD (d_status d) (d_written d) (d_wrote d) (d_fwd d ++ [c]) (d_observed d)
  else if d_wrote d then mkD (d_status d) (d_written d) true (d_fwd d ++ [c]) (d_observed d)
  else mkD c (d_written d) true (d_fwd d ++ [c]) (d_observed d ++ [c]).

Definition d_ensure_header (d : dstate) : dstate := if d_wrote d then d else d_write_header d 200.

Definition d_step (d : dstate) (a : act) : dstate :=
  match a with
  | AWriteHeader c => d_write_header d c
  | AWrite _ k | AReadFrom _ k =>
      let d' := d_ensure_header d in mkD (d_status d') (d_written d' + k) (d_wrote d') (d_fwd d') (d_observed d')
  | AFlush => d_ensure_header d
  end.
Definition d_run (acts : list act) : dstate := fold_left d_step acts d0.

(* what the underlying writer decides from the WriteHeader calls it receives (explicit calls only) *)
Fixpoint first_final (cs : list Z) : option Z :=
  match cs with
  | [] => None
  | c :: r => if informational c then first_final r else Some c
  end.

(* ---------- middleware results ---------- *)
Record mw_out := mkMW { o_code : str; o_method : str; o_count : Z; o_bytes : Z; o_inflight_delta : Z; o_observed_first : option Z }.

Definition run_middleware (m : str) (extra : list str) (acts : list act) : mw_out :=
  let d := d_run acts in
  mkMW (sanitize_code (d_status d)) (sanitize_method m extra) 1 (d_written d) 0 (hd_error (d_observed d)).

(* the status at the moment the header is (explicitly or implicitly) written, None if never during the handler *)
Fixpoint header_time_status (acts : list act) : option Z :=
  match acts with
  | [] => None
  | AWriteHeader c :: r => if informational c then header_time_status r else Some c
  | _ :: _ => Some 200
  end.

Definition spec_middleware (m : str) (extra : list str) (acts : list act) : mw_out :=
  mkMW (code_spec (peer_status acts)) (method_spec m extra) 1 (accepted_bytes acts) 0 (header_time_status acts).

(* ---------- delegator table ---------- *)
Definition iface_eqb (a b : iface) : bool :=
  match a, b with
  | CloseNotifier, CloseNotifier | Flusher, Flusher | Hijacker, Hijacker | ReaderFrom, ReaderFrom | Pusher, Pusher => true
  | _, _ => false
  end.
Definition all_ifaces : list iface := [CloseNotifier; Flusher; Hijacker; ReaderFrom; Pusher].
Definition bit_of (i : iface) : Z :=
  match find (fun p => iface_eqb (fst p) i) iface_bit with Some p => snd p | None => 0 end.
Definition spec_bit (i : iface) : Z :=
  match i with CloseNotifier => 1 | Flusher => 2 | Hijacker => 4 | ReaderFrom => 8 | Pusher => 16 end.

(* index newDelegator computes for a writer offering the interfaces [has] *)
Definition new_delegator_index (has : iface -> bool) : Z :=
  fold_left (fun id p => if has (fst p) then id + snd p else id) new_delegator_asserts 0.

Definition entry (idx : Z) : option (list (iface * iface)) :=
  match find (fun p => Z.eqb (fst p) idx) pick_delegator with Some p => Some (snd p) | None => None end.

(* interfaces offered by the delegator handed to the wrapped handler, and what each forwards to *)
Definition offered (has : iface -> bool) : option (list (iface * iface)) := entry (new_delegator_index has).

Definition has_of_bits (b : Z) (i : iface) : bool := Z.testbit b (Z.log2 (spec_bit i)).

Definition entry_ok (b : Z) : bool :=
  match offered (has_of_bits b) with
  | None => false
  | Some l =>
      forallb (fun p => iface_eqb (fst p) (snd p)) l &&
      forallb (fun i => Bool.eqb (existsb (fun p => iface_eqb (fst p) i) l) (has_of_bits b i)) all_ifaces &&
      Nat.eqb (List.length l) (List.length (filter (has_of_bits b) all_ifaces))
  end.

(* ---------- label layout check (checkLabels) ---------- *)
(* a vector's free (non-const, non-curried) label names; allowed: "code", "method" *)
Definition s_code : str := of_string "code".
Definition s_method : str := of_string "method".
Definition check_labels (free : list str) : option (bool * bool) :=
  if forallb (fun n => str_eqb n s_code || str_eqb n s_method) free
  then Some (str_in s_code free, str_in s_method free) else None.

(* ---------- stacked middlewares with label layouts ---------- *)
(* A middleware's vector has the free labels "code" and/or "method" plus labels derived from the request
   context (WithLabelFromCtx).  Every request is counted once, under the label tuple derived from the request
   alone; middlewares stacked around the same handler do not influence each other (instrument_server.go:
   labels(), the context-label loop in every InstrumentHandler function). *)
Record layout := mkLay { l_code : bool; l_method : bool; l_ctx : list str }.
Record request := mkReq { r_method : str; r_status : Z; r_ctx : list (str * str) }.

Definition ctx_value (ctx : list (str * str)) (n : str) : str :=
  match find (fun p => str_eqb (fst p) n) ctx with Some p => snd p | None => [] end.

Definition req_labels (lay : layout) (extra : list str) (q : request) : list (str * str) :=
  (if l_code lay then [(s_code, sanitize_code (r_status q))] else []) ++
  (if l_method lay then [(s_method, sanitize_method (r_method q) extra)] else []) ++
  map (fun n => (n, ctx_value (r_ctx q) n)) (l_ctx lay).

Fixpoint labels_eqb (a b : list (str * str)) : bool :=
  match a, b with
  | [], [] => true
  | (n, v) :: a', (n', v') :: b' => str_eqb n n' && str_eqb v v' && labels_eqb a' b'
  | _, _ => false
  end.

(* the children of a counter vector: label tuple -> count *)
Fixpoint bump (ls : list (str * str)) (st : list (list (str * str) * Z)) : list (list (str * str) * Z) :=
  match st with
  | [] => [(ls, 1)]
  | (k, c) :: t => if labels_eqb k ls then (k, c + 1) :: t else (k, c) :: bump ls t
  end.
Fixpoint lookup_child (ls : list (str * str)) (st : list (list (str * str) * Z)) : Z :=
  match st with
  | [] => 0
  | (k, c) :: t => if labels_eqb k ls then c else lookup_child ls t
  end.
Definition children_from (lay : layout) (extra : list str) (qs : list request) (st : list (list (str * str) * Z)) :=
  fold_left (fun st q => bump (req_labels lay extra q) st) qs st.
Definition children (lay : layout) (extra : list str) (qs : list request) := children_from lay extra qs [].
Definition total_count (st : list (list (str * str) * Z)) : Z := fold_right Z.add 0 (map snd st).
(* a stack of middlewares: each one's children depend on its own layout only *)
Definition stack_children (lays : list layout) (extra : list str) (qs : list request) :=
  map (fun lay => children lay extra qs) lays.
