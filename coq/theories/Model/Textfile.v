(* Model/Textfile.v -- prometheus.WriteToTextfile (prometheus/registry.go:593-617) over a small
   POSIX file-system model.

   The PROGRAM is not written here: it is Gen_Textfile.write_to_textfile_ops, regenerated from the Go
   AST on every run (ordered os.CreateTemp / defer os.Remove / Gather / encode loop / Close / Chmod /
   Rename, each with "returns early on error").  This file gives
     1. the file system: inodes (content token, mode), a directory (name -> inode), open files refer
        to inodes (so a reader that opened the target keeps reading the inode it opened);
     2. the interpreter of one atomic step of one writer (`step`), with an error / panic fault on
        every step, the deferred os.Remove run on every return path (error, success, panic) but not
        after a crash, the encode loop writing one family per step into the OPEN TEMP FILE;
     3. systems of arbitrarily many concurrent writers on the same target, driven by an arbitrary
        event list (`run`): any interleaving, any fault choice, any crash point;
     4. the sequential special case `exec` / `exec_solo` used by the correspondence runner;
     5. the SPECIFICATION: what the property text demands of target / temp files (`target_ok`,
        `spec_after_return`, `spec_outcome`, `trace_ok`), written without reference to the program.

   Assumptions built in (checks/C19.json): rename(2) is atomic; os.CreateTemp returns a name that is
   distinct from the target and from every temp name of another call (one name NTemp w per writer);
   nobody else writes the directory entries involved.  Executable definitions only. *)
From Coq Require Import ZArith List Bool Arith.
From Verif Require Import Gen.Gen_Textfile.
Import ListNotations.
Open Scope Z_scope.

(* ------------------------------------------------------------------------------------------ *)
(* 1. file system                                                                               *)

Inductive name := NTarget | NTemp (w : nat).
Definition name_eqb (a b : name) : bool :=
  match a, b with
  | NTarget, NTarget => true
  | NTemp x, NTemp y => Nat.eqb x y
  | _, _ => false
  end.

(* content token: the complete previous content, or what writer w has written so far: `chunks`
   whole families, `torn` = additionally some bytes of a family that was not completed *)
Inductive data := DOld | DNew (w : nat) (chunks : nat) (torn : bool).
Record inode := mk_inode { i_data : data; i_mode : Z }.
Record fs := mk_fs { inodes : nat -> inode; next_ino : nat; dir : name -> option nat }.

Definition set_ino (s : fs) (i : nat) (x : inode) : fs :=
  mk_fs (fun j => if Nat.eqb j i then x else inodes s j) (next_ino s) (dir s).
Definition set_dir (s : fs) (n : name) (o : option nat) : fs :=
  mk_fs (inodes s) (next_ino s) (fun m => if name_eqb m n then o else dir s m).

Definition temp_mode : Z := 384.   (* 0600: os.CreateTemp *)
Definition new_mode : Z := 420.    (* 0644: what the property demands *)

(* open(O_CREAT|O_EXCL) of a fresh name in the target directory: a new empty inode *)
Definition fs_create (w : nat) (s : fs) : fs * nat :=
  let i := next_ino s in
  (mk_fs (fun j => if Nat.eqb j i then mk_inode (DNew w 0%nat false) temp_mode else inodes s j) (S i)
         (fun m => if name_eqb m (NTemp w) then Some i else dir s m), i).

(* write(2) through an open file: one whole family, or (torn) a strict part of one.
   (No operation of tf_op opens an existing file for writing, so DOld inodes are never written.) *)
Definition fs_write (s : fs) (i : nat) (torn : bool) : fs :=
  match i_data (inodes s i) with
  | DNew w k t => set_ino s i (mk_inode (DNew w (if torn then k else S k) (t || torn)) (i_mode (inodes s i)))
  | DOld => s
  end.

(* ------------------------------------------------------------------------------------------ *)
(* 2. one writer                                                                                *)

Inductive result := ROk | RErr | RPanic.
Inductive status := Running | Returned | Crashed.
Inductive fault := FNone | FErr | FPanic.

Record writer := mk_writer {
  w_ops : list (tf_op * bool);   (* the rest of the function body *)
  w_enc : nat;                   (* families already written by the current encode loop *)
  w_fd : option nat;             (* tmp: the open temp file *)
  w_defer : bool;                (* a deferred os.Remove(tmp.Name()) is pending *)
  w_res : result;                (* what the call returns *)
  w_status : status }.

Definition w_next (wr : writer) (rest : list (tf_op * bool)) : writer :=
  mk_writer rest (w_enc wr) (w_fd wr) (w_defer wr) (w_res wr) (w_status wr).
Definition w_abort (wr : writer) (r : result) : writer :=
  mk_writer [] (w_enc wr) (w_fd wr) (w_defer wr) r (w_status wr).
Definition set_fd (wr : writer) (o : option nat) : writer :=
  mk_writer (w_ops wr) (w_enc wr) o (w_defer wr) (w_res wr) (w_status wr).
Definition set_enc (wr : writer) (k : nat) : writer :=
  mk_writer (w_ops wr) k (w_fd wr) (w_defer wr) (w_res wr) (w_status wr).
Definition set_defer (wr : writer) (b : bool) : writer :=
  mk_writer (w_ops wr) (w_enc wr) (w_fd wr) b (w_res wr) (w_status wr).
Definition set_status (wr : writer) (st : status) : writer :=
  mk_writer (w_ops wr) (w_enc wr) (w_fd wr) (w_defer wr) (w_res wr) st.

(* the operation failed: a panic always unwinds; an error unwinds when the source says
   `if err != nil { return err }` (early), else it is dropped and the body continues *)
Definition w_fail (wr : writer) (f : fault) (early : bool) (rest : list (tf_op * bool)) : writer :=
  match f with
  | FPanic => w_abort wr RPanic
  | _ => if early then w_abort wr RErr else w_next wr rest
  end.
Definition as_failure (f : fault) : fault := match f with FPanic => FPanic | _ => FErr end.

(* one atomic step of writer number w gathering n families *)
Definition step (n : nat) (w : nat) (f : fault) (wr : writer) (s : fs) : writer * fs :=
  match w_status wr with
  | Running =>
    match w_ops wr with
    | [] =>
        (* the function returns: run the deferred remove, then hand the result to the caller *)
        if w_defer wr then (set_defer wr false, set_dir s (NTemp w) None)
        else (set_status wr Returned, s)
    | (op, early) :: rest =>
      match op with
      | TCreateTempInTargetDir =>
          match f with
          | FNone => let '(s', i) := fs_create w s in (set_fd (w_next wr rest) (Some i), s')
          | _ => (w_fail wr f early rest, s)
          end
      | TDeferRemoveTmp => (set_defer (w_next wr rest) true, s)
      | TGather =>
          match f with
          | FNone => (w_next wr rest, s)
          | _ => (w_fail wr f early rest, s)
          end
      | TEncodeAllToTmp =>
          if Nat.ltb (w_enc wr) n then
            match w_fd wr with
            | None => (w_fail (set_enc wr 0%nat) (as_failure f) early rest, s)
            | Some i =>
                match f with
                | FNone => (set_enc wr (S (w_enc wr)), fs_write s i false)
                | _ => (w_fail (set_enc wr 0%nat) f early rest, fs_write s i true)
                end
            end
          else (set_enc (w_next wr rest) 0%nat, s)
      | TCloseTmp =>
          let wr' := set_fd wr None in
          match f, w_fd wr with
          | FNone, Some _ => (w_next wr' rest, s)
          | _, _ => (w_fail wr' (as_failure f) early rest, s)
          end
      | TChmodTmp m =>
          match f, dir s (NTemp w) with
          | FNone, Some i => (w_next wr rest, set_ino s i (mk_inode (i_data (inodes s i)) m))
          | _, _ => (w_fail wr (as_failure f) early rest, s)
          end
      | TRenameTmpToTarget =>
          match f, dir s (NTemp w) with
          | FNone, Some i => (w_next wr rest, set_dir (set_dir s NTarget (Some i)) (NTemp w) None)
          | _, _ => (w_fail wr (as_failure f) early rest, s)
          end
      | TOther _ => (w_next wr rest, s)
      end
    end
  | _ => (wr, s)
  end.

(* ------------------------------------------------------------------------------------------ *)
(* 3. many writers, arbitrary schedules                                                         *)

Record sys := mk_sys { s_fs : fs; s_ws : nat -> writer }.
Inductive event :=
| EStep (w : nat) (f : fault)       (* writer w performs its next step (which fails if f <> FNone) *)
| ECrash (w : nat) (torn : bool).   (* writer w is killed; torn: in the middle of a write(2) of the encode loop *)

Definition upd_w (ws : nat -> writer) (w : nat) (wr : writer) : nat -> writer :=
  fun x => if Nat.eqb x w then wr else ws x.

Definition do_event (nf : nat -> nat) (e : event) (s : sys) : sys :=
  match e with
  | EStep w f =>
      let '(wr', fs') := step (nf w) w f (s_ws s w) (s_fs s) in
      mk_sys fs' (upd_w (s_ws s) w wr')
  | ECrash w torn =>
      let wr := s_ws s w in
      match w_status wr with
      | Running =>
          let fs' :=
            match torn, w_ops wr, w_fd wr with
            | true, (TEncodeAllToTmp, _) :: _, Some i =>
                if Nat.ltb (w_enc wr) (nf w) then fs_write (s_fs s) i true else s_fs s
            | _, _, _ => s_fs s
            end in
          mk_sys fs' (upd_w (s_ws s) w (set_status wr Crashed))   (* no deferred call runs *)
      | _ => s
      end
  end.

Definition run (nf : nat -> nat) (evs : list event) (s : sys) : sys :=
  fold_left (fun s e => do_event nf e s) evs s.

(* before the calls: the target is absent (None) or a complete old file with some mode *)
Definition old_ino : nat := 0%nat.
Definition init_fs (old : option Z) : fs :=
  mk_fs (fun _ => mk_inode DOld (match old with Some m => m | None => 0 end)) 1%nat
        (fun n => match n, old with NTarget, Some _ => Some old_ino | _, _ => None end).
Definition init_writer (ops : list (tf_op * bool)) : writer := mk_writer ops 0%nat None false ROk Running.
Definition init_sys (ops : list (tf_op * bool)) (old : option Z) : sys :=
  mk_sys (init_fs old) (fun _ => init_writer ops).

(* ------------------------------------------------------------------------------------------ *)
(* 4. the shape recogniser                                                                      *)

Definition is_gather (o : tf_op * bool) : bool := match o with (TGather, true) => true | _ => false end.
Fixpoint skip_gathers (ops : list (tf_op * bool)) : list (tf_op * bool) :=
  match ops with
  | (TGather, true) :: r => skip_gathers r
  | _ => ops
  end.
(* encode everything, close, chmod 0644, rename -- each returning early on error, nothing after *)
Definition tail_safe (ops : list (tf_op * bool)) : bool :=
  match ops with
  | [(TEncodeAllToTmp, true); (TCloseTmp, true); (TChmodTmp m, true); (TRenameTmpToTarget, true)] => Z.eqb m new_mode
  | _ => false
  end.
(* gathers; create temp (early); defer remove immediately; gathers; the safe tail *)
Definition shape_core (ops : list (tf_op * bool)) : bool :=
  match skip_gathers ops with
  | (TCreateTempInTargetDir, true) :: (TDeferRemoveTmp, _) :: r => tail_safe (skip_gathers r)
  | _ => false
  end.
Definition shape_safe (ops : list (tf_op * bool)) : bool := shape_core ops && existsb is_gather ops.

(* ------------------------------------------------------------------------------------------ *)
(* 5. SPECIFICATION (independent of the program)                                                *)

(* what an observer of a path sees *)
Inductive tstate :=
| TAbsent
| TOldFile (m : Z)            (* the complete previous content, mode m *)
| TNewFile (w : nat) (m : Z)  (* the complete exposition of the families gathered by call w *)
| TPartial.                   (* anything else: a strict part of an exposition *)

Definition classify (nf : nat -> nat) (s : fs) (o : option nat) : tstate :=
  match o with
  | None => TAbsent
  | Some i =>
      match i_data (inodes s i) with
      | DOld => TOldFile (i_mode (inodes s i))
      | DNew w k t => if Nat.eqb k (nf w) && negb t then TNewFile w (i_mode (inodes s i)) else TPartial
      end
  end.
Definition target_state (nf : nat -> nat) (s : sys) : tstate := classify nf (s_fs s) (dir (s_fs s) NTarget).
Definition temp_state (nf : nat -> nat) (s : sys) (w : nat) : tstate := classify nf (s_fs s) (dir (s_fs s) (NTemp w)).
Definition old_state (old : option Z) : tstate := match old with None => TAbsent | Some m => TOldFile m end.

Definition tstate_eqb (a b : tstate) : bool :=
  match a, b with
  | TAbsent, TAbsent => true
  | TOldFile m, TOldFile m' => Z.eqb m m'
  | TNewFile w m, TNewFile w' m' => Nat.eqb w w' && Z.eqb m m'
  | TPartial, TPartial => true
  | _, _ => false
  end.

(* admissible content of the target path AT ANY TIME: exactly as before, or a complete new file 0644 *)
Definition target_ok (old : option Z) (t : tstate) : bool :=
  match t with
  | TNewFile _ m => Z.eqb m new_mode
  | TPartial => false
  | _ => tstate_eqb t (old_state old)
  end.

Definition result_eqb (a b : result) : bool :=
  match a, b with ROk, ROk | RErr, RErr | RPanic, RPanic => true | _, _ => false end.

(* after call w returned r with nobody else writing: target and the call's temp file *)
Definition spec_after_return (old : option Z) (w : nat) (r : result) (target temp : tstate) : bool :=
  tstate_eqb temp TAbsent &&
  match r with
  | ROk => tstate_eqb target (TNewFile w new_mode)
  | _ => tstate_eqb target (old_state old)
  end.

(* where a fault is injected in a sequential call *)
Inductive site := SNone | SCreate | SGather | SEncode (k : nat) | SClose | SChmod | SRename.
Definition site_reachable (n : nat) (st : site) : bool :=
  match st with SNone => false | SEncode k => Nat.ltb k n | _ => true end.
(* the whole outcome of a sequential call, as the property text determines it *)
Definition spec_outcome (old : option Z) (n : nat) (st : site) (panic : bool) : result * tstate * tstate :=
  if site_reachable n st then (if panic then RPanic else RErr, old_state old, TAbsent)
  else (ROk, TNewFile 0%nat new_mode, TAbsent).

(* system-call order demanded of one call (tokens: 1 create temp, 4 write temp, 5 close temp,
   1000+m chmod temp m, 7 rename temp->target, 8 unlink temp): strictly this order, a rename only
   after close and chmod 0644, always a final unlink when a temp was created *)
Definition tok_rank (t : Z) : Z :=
  if Z.eqb t 1 then 1 else if Z.eqb t 4 then 2 else if Z.eqb t 5 then 3
  else if Z.leb 1000 t && Z.ltb t 5096 then 4 else if Z.eqb t 7 then 5 else if Z.eqb t 8 then 6 else 0.
Fixpoint ranks_increasing (prev : Z) (l : list Z) : bool :=
  match l with
  | [] => true
  | t :: r => Z.ltb prev (tok_rank t) && ranks_increasing (tok_rank t) r
  end.
Definition has_tok (t : Z) (l : list Z) : bool := existsb (Z.eqb t) l.
Definition trace_ok (l : list Z) : bool :=
  ranks_increasing 0 l &&
  (if has_tok 7 l then has_tok 5 l && has_tok (1000 + new_mode) l else true) &&
  (if has_tok 1 l then Z.eqb (last l 0) 8 else match l with [] => true | _ => false end).

(* ------------------------------------------------------------------------------------------ *)
(* 6. sequential execution (one call, nobody else), used by the runner                          *)

Definition site_hits (st : site) (wr : writer) : bool :=
  match w_ops wr, st with
  | (TCreateTempInTargetDir, _) :: _, SCreate => true
  | (TGather, _) :: _, SGather => true
  | (TEncodeAllToTmp, _) :: _, SEncode k => Nat.eqb (w_enc wr) k
  | (TCloseTmp, _) :: _, SClose => true
  | (TChmodTmp _, _) :: _, SChmod => true
  | (TRenameTmpToTarget, _) :: _, SRename => true
  | _, _ => false
  end.
Definition fault_for (st : site) (panic : bool) (wr : writer) : fault :=
  if site_hits st wr then (if panic then FPanic else FErr) else FNone.

Definition solo_step (n : nat) (st : site) (panic : bool) (p : writer * fs) : writer * fs :=
  step n 0%nat (fault_for st panic (fst p)) (fst p) (snd p).
Fixpoint iter {A} (f : A -> A) (k : nat) (x : A) : A :=
  match k with O => x | S k' => iter f k' (f x) end.

Definition solo_fuel (ops : list (tf_op * bool)) (n : nat) : nat := (length ops + n + 2)%nat.
Definition exec_solo (ops : list (tf_op * bool)) (n : nat) (st : site) (panic : bool) (old : option Z) : writer * fs :=
  iter (solo_step n st panic) (solo_fuel ops n) (init_writer ops, init_fs old).

(* the interpreter in the form of the brief: faults = (site, panic); crash_after = Some (k, torn)
   kills the process after k steps *)
Definition exec (ops : list (tf_op * bool)) (n : nat) (faults : site * bool) (crash_after : option (nat * bool))
                (old : option Z) : sys :=
  let nf := fun _ : nat => n in
  let go := fun k => iter (solo_step n (fst faults) (snd faults)) k (init_writer ops, init_fs old) in
  match crash_after with
  | None => let p := go (solo_fuel ops n) in mk_sys (snd p) (upd_w (fun _ => init_writer ops) 0%nat (fst p))
  | Some (k, torn) =>
      let p := go k in
      do_event nf (ECrash 0%nat torn) (mk_sys (snd p) (upd_w (fun _ => init_writer ops) 0%nat (fst p)))
  end.

Definition outcome_of (n : nat) (p : writer * fs) : result * tstate * tstate :=
  (w_res (fst p), classify (fun _ => n) (snd p) (dir (snd p) NTarget), classify (fun _ => n) (snd p) (dir (snd p) (NTemp 0%nat))).

(* the state in which the first Gather is about to run (what the gatherer itself can see) *)
Definition at_gather (wr : writer) : bool :=
  match w_status wr, w_ops wr with Running, (TGather, _) :: _ => true | _, _ => false end.
Fixpoint until_gather (n : nat) (st : site) (panic : bool) (fuel : nat) (p : writer * fs) : option (writer * fs) :=
  if at_gather (fst p) then Some p
  else match fuel with
       | O => None
       | S k => until_gather n st panic k (solo_step n st panic p)
       end.

(* system calls on the temp / target path issued by a sequential call (tokens as in trace_ok) *)
Definition step_tokens (n : nat) (f : fault) (wr : writer) : list Z :=
  match w_status wr with
  | Running =>
      match w_ops wr with
      | [] => if w_defer wr then [8] else []
      | (TCreateTempInTargetDir, _) :: _ => match f with FNone => [1] | _ => [] end
      | (TEncodeAllToTmp, _) :: _ =>
          if Nat.ltb (w_enc wr) n then match f, w_fd wr with FNone, Some _ => [4] | _, _ => [] end else []
      | (TCloseTmp, _) :: _ => [5]
      | (TChmodTmp m, _) :: _ => [1000 + m]
      | (TRenameTmpToTarget, _) :: _ => [7]
      | _ => []
      end
  | _ => []
  end.
Fixpoint solo_tokens (n : nat) (st : site) (panic : bool) (fuel : nat) (p : writer * fs) : list Z :=
  match fuel with
  | O => []
  | S k => step_tokens n (fault_for st panic (fst p)) (fst p) ++ solo_tokens n st panic k (solo_step n st panic p)
  end.
Fixpoint collapse (l : list Z) : list Z :=
  match l with
  | a :: ((b :: _) as r) => if Z.eqb a b then collapse r else a :: collapse r
  | _ => l
  end.
