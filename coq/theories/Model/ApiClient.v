(* Model/ApiClient.v -- C16: the Prometheus HTTP API client (api/client.go, api/prometheus/v1/api.go).
   Part 1 is a transcription of the Go control flow (what the code does).
   Part 2 is the specification (what the property text demands), written as tables / direct lists.
   Executable definitions only; proofs are in Proofs/C16_proofs.v. *)
From Coq Require Import ZArith List Bool Strings.String.
From Flocq Require Import IEEE754.BinarySingleNaN.
From Verif Require Import Base.F64 Base.Str.
Import ListNotations.
Open Scope Z_scope.

Definition lit (s : string) : str := of_string s.

(* ------------------------------------------------------------------------------------------ *)
(* Part 1a: values sent on the wire                                                            *)
(* ------------------------------------------------------------------------------------------ *)

(* A parameter value.  Text produced by strconv.FormatFloat / Duration.String is not modelled as text:
   the harness parses the sent text back (ParseFloat / ParseDuration) and the comparison is on the number. *)
Inductive pval := VStr (s : str) | VFloat (f : f64) | VDur (ns : Z).

Definition pval_eqb (a b : pval) : bool :=
  match a, b with
  | VStr x, VStr y => str_eqb x y
  | VFloat x, VFloat y => fbits_eq x y
  | VDur x, VDur y => Z.eqb x y
  | _, _ => false
  end.

(* url.Values: key -> list of values (a Go map; the order of keys is irrelevant because Encode sorts) *)
Definition values := list (str * list pval).

Fixpoint v_set (k : str) (v : pval) (q : values) : values :=
  match q with
  | [] => [(k, [v])]
  | (k', vs) :: r => if str_eqb k k' then (k', [v]) :: r else (k', vs) :: v_set k v r
  end.

Fixpoint v_add (k : str) (v : pval) (q : values) : values :=
  match q with
  | [] => [(k, [v])]
  | (k', vs) :: r => if str_eqb k k' then (k', vs ++ [v]) :: r else (k', vs) :: v_add k v r
  end.

(* url.Values.Encode: keys sorted, then key=value for every value of the key, in order *)
Fixpoint ins_group (g : str * list pval) (l : values) : values :=
  match l with
  | [] => [g]
  | h :: r => if str_ltb (fst h) (fst g) then h :: ins_group g r else g :: h :: r
  end.
Definition sort_groups (q : values) : values := fold_right ins_group [] q.
Definition flatten (q : values) : list (str * pval) := flat_map (fun g => map (pair (fst g)) (snd g)) q.
Definition encode (q : values) : list (str * pval) := flatten (sort_groups q).

(* ------------------------------------------------------------------------------------------ *)
(* Part 1b: times                                                                             *)
(* ------------------------------------------------------------------------------------------ *)

(* time.Time as (Unix(), Nanosecond()) *)
Record gotime := { t_sec : Z; t_nsec : Z }.
Definition zero_time_sec : Z := -62135596800.   (* January 1, year 1, 00:00:00 UTC *)
Definition time_is_zero (t : gotime) : bool := (t_sec t =? zero_time_sec) && (t_nsec t =? 0).

Definition f1e9 : f64 := of_Z 1000000000.
(* formatTime: float64(t.Unix()) + float64(t.Nanosecond())/1e9 ; the text is FormatFloat(.,'f',-1,64) of it *)
Definition format_time (t : gotime) : f64 := fadd (of_Z (t_sec t)) (fdiv (of_Z (t_nsec t)) f1e9).
(* Duration.Seconds: sec := d / Second; nsec := d % Second; float64(sec) + float64(nsec)/1e9 *)
Definition dur_seconds (d : Z) : f64 :=
  fadd (of_Z (Z.quot d 1000000000)) (fdiv (of_Z (Z.rem d 1000000000)) f1e9).

(* ------------------------------------------------------------------------------------------ *)
(* Part 1c: options and per-method parameter assembly                                         *)
(* ------------------------------------------------------------------------------------------ *)

Inductive opt := OTimeout (d : Z) | OLookback (d : Z) | OStats (s : str) | OLimit (n : Z).
Record api_opts := { ao_timeout : Z; ao_lookback : Z; ao_stats : str; ao_limit : Z }.
Definition zero_opts : api_opts := {| ao_timeout := 0; ao_lookback := 0; ao_stats := []; ao_limit := 0 |}.
Definition apply_opt (a : api_opts) (o : opt) : api_opts :=
  match o with
  | OTimeout d => {| ao_timeout := d; ao_lookback := ao_lookback a; ao_stats := ao_stats a; ao_limit := ao_limit a |}
  | OLookback d => {| ao_timeout := ao_timeout a; ao_lookback := d; ao_stats := ao_stats a; ao_limit := ao_limit a |}
  | OStats s => {| ao_timeout := ao_timeout a; ao_lookback := ao_lookback a; ao_stats := s; ao_limit := ao_limit a |}
  | OLimit n => {| ao_timeout := ao_timeout a; ao_lookback := ao_lookback a; ao_stats := ao_stats a; ao_limit := n |}
  end.

Definition k_timeout := lit "timeout".
Definition k_lookback := lit "lookback_delta".
Definition k_stats := lit "stats".
Definition k_limit := lit "limit".
Definition k_query := lit "query".
Definition k_time := lit "time".
Definition k_start := lit "start".
Definition k_end := lit "end".
Definition k_step := lit "step".
Definition k_match := lit "match[]".
Definition k_skip_head := lit "skip_head".
Definition k_match_target := lit "match_target".
Definition k_metric := lit "metric".

Definition is_empty (s : str) : bool := match s with [] => true | _ => false end.

(* addOptionalURLParams *)
Definition add_optional (q : values) (opts : list opt) : values :=
  let a := fold_left apply_opt opts zero_opts in
  let q := if ao_timeout a >? 0 then v_set k_timeout (VDur (ao_timeout a)) q else q in
  let q := if ao_lookback a >? 0 then v_set k_lookback (VDur (ao_lookback a)) q else q in
  let q := if negb (is_empty (ao_stats a)) then v_set k_stats (VStr (ao_stats a)) q else q in
  let q := if ao_limit a >? 0 then v_set k_limit (VStr (decimal (ao_limit a))) q else q in
  q.

(* if !t.IsZero() { q.Set(k, formatTime(t)) } *)
Definition set_time_nz (k : str) (t : gotime) (q : values) : values :=
  if time_is_zero t then q else v_set k (VFloat (format_time t)) q.
(* for _, m := range matches { q.Add("match[]", m) } *)
Definition add_matches (ms : list str) (q : values) : values :=
  fold_left (fun q m => v_add k_match (VStr m) q) ms q.

Inductive api_call :=
| CAlerts | CAlertManagers | CCleanTombstones | CConfig
| CDeleteSeries (ms : list str) (st en : gotime)
| CFlags
| CLabelNames (ms : list str) (st en : gotime) (opts : list opt)
| CLabelValues (label : str) (ms : list str) (st en : gotime) (opts : list opt)
| CQuery (q : str) (ts : gotime) (opts : list opt)
| CQueryRange (q : str) (st en : gotime) (step : Z) (opts : list opt)
| CQueryExemplars (q : str) (st en : gotime)
| CBuildinfo | CRuntimeinfo
| CSeries (ms : list str) (st en : gotime) (opts : list opt)
| CSnapshot (skip_head : bool)
| CRules | CTargets
| CTargetsMetadata (match_target metric limit : str)
| CMetadata (metric limit : str)
| CTSDB (opts : list opt)
| CWalReplay.

(* how the request is issued: GET / POST with the parameters in the URL query, or DoGetFallback *)
Inductive kind := KGet | KPost | KFallback.
Definition kind_eqb (a b : kind) : bool :=
  match a, b with KGet, KGet | KPost, KPost | KFallback, KFallback => true | _, _ => false end.

Definition api_prefix := lit "/api/v1".
Definition ep (s : string) : str := api_prefix ++ lit s.
Definition ep_alerts := ep "/alerts".
Definition ep_alertmanagers := ep "/alertmanagers".
Definition ep_query := ep "/query".
Definition ep_query_range := ep "/query_range".
Definition ep_query_exemplars := ep "/query_exemplars".
Definition ep_labels := ep "/labels".
Definition ep_label_values := ep "/label/:name/values".
Definition ep_series := ep "/series".
Definition ep_targets := ep "/targets".
Definition ep_targets_metadata := ep "/targets/metadata".
Definition ep_metadata := ep "/metadata".
Definition ep_rules := ep "/rules".
Definition ep_snapshot := ep "/admin/tsdb/snapshot".
Definition ep_delete_series := ep "/admin/tsdb/delete_series".
Definition ep_clean_tombstones := ep "/admin/tsdb/clean_tombstones".
Definition ep_config := ep "/status/config".
Definition ep_flags := ep "/status/flags".
Definition ep_buildinfo := ep "/status/buildinfo".
Definition ep_runtimeinfo := ep "/status/runtimeinfo".
Definition ep_tsdb := ep "/status/tsdb".
Definition ep_walreplay := ep "/status/walreplay".

Definition s_true := lit "true".
Definition s_false := lit "false".
Definition s_name := lit "name".

Definition model_kind (c : api_call) : kind :=
  match c with
  | CCleanTombstones | CDeleteSeries _ _ _ | CSnapshot _ => KPost
  | CLabelNames _ _ _ _ | CQuery _ _ _ | CQueryRange _ _ _ _ _ | CQueryExemplars _ _ _ | CSeries _ _ _ _ => KFallback
  | _ => KGet
  end.

(* endpoint template and the args map handed to client.URL *)
Definition model_ep (c : api_call) : str * list (str * str) :=
  match c with
  | CAlerts => (ep_alerts, [])
  | CAlertManagers => (ep_alertmanagers, [])
  | CCleanTombstones => (ep_clean_tombstones, [])
  | CConfig => (ep_config, [])
  | CDeleteSeries _ _ _ => (ep_delete_series, [])
  | CFlags => (ep_flags, [])
  | CLabelNames _ _ _ _ => (ep_labels, [])
  | CLabelValues label _ _ _ _ => (ep_label_values, [(s_name, label)])
  | CQuery _ _ _ => (ep_query, [])
  | CQueryRange _ _ _ _ _ => (ep_query_range, [])
  | CQueryExemplars _ _ _ => (ep_query_exemplars, [])
  | CBuildinfo => (ep_buildinfo, [])
  | CRuntimeinfo => (ep_runtimeinfo, [])
  | CSeries _ _ _ _ => (ep_series, [])
  | CSnapshot _ => (ep_snapshot, [])
  | CRules => (ep_rules, [])
  | CTargets => (ep_targets, [])
  | CTargetsMetadata _ _ _ => (ep_targets_metadata, [])
  | CMetadata _ _ => (ep_metadata, [])
  | CTSDB _ => (ep_tsdb, [])
  | CWalReplay => (ep_walreplay, [])
  end.

(* the url.Values built by the method body, statement by statement *)
Definition model_values (c : api_call) : values :=
  match c with
  | CDeleteSeries ms st en =>
      let q := add_matches ms [] in
      let q := set_time_nz k_start st q in
      set_time_nz k_end en q
  | CLabelNames ms st en opts =>
      let q := add_optional [] opts in
      let q := set_time_nz k_start st q in
      let q := set_time_nz k_end en q in
      add_matches ms q
  | CLabelValues _ ms st en opts =>
      let q := add_optional [] opts in
      let q := set_time_nz k_start st q in
      let q := set_time_nz k_end en q in
      add_matches ms q
  | CQuery query ts opts =>
      let q := add_optional [] opts in
      let q := v_set k_query (VStr query) q in
      set_time_nz k_time ts q
  | CQueryRange query st en step opts =>
      let q := add_optional [] opts in
      let q := v_set k_query (VStr query) q in
      let q := v_set k_start (VFloat (format_time st)) q in
      let q := v_set k_end (VFloat (format_time en)) q in
      v_set k_step (VFloat (dur_seconds step)) q
  | CSeries ms st en opts =>
      let q := add_optional [] opts in
      let q := add_matches ms q in
      let q := set_time_nz k_start st q in
      set_time_nz k_end en q
  | CSnapshot sk => v_set k_skip_head (VStr (if sk then s_true else s_false)) []
  | CTargetsMetadata mt metric limit =>
      let q := v_set k_match_target (VStr mt) [] in
      let q := v_set k_metric (VStr metric) q in
      v_set k_limit (VStr limit) q
  | CMetadata metric limit =>
      let q := v_set k_metric (VStr metric) [] in
      v_set k_limit (VStr limit) q
  | CTSDB opts => add_optional [] opts
  | CQueryExemplars query st en =>
      let q := v_set k_query (VStr query) [] in
      let q := set_time_nz k_start st q in
      set_time_nz k_end en q
  | _ => []
  end.

Definition model_params (c : api_call) : list (str * pval) := encode (model_values c).

(* does the method hand warnings back to the caller / does it decode the data of the envelope *)
Definition returns_warnings (c : api_call) : bool :=
  match c with
  | CLabelNames _ _ _ _ | CLabelValues _ _ _ _ _ | CQuery _ _ _ | CQueryRange _ _ _ _ _ | CSeries _ _ _ _ => true
  | _ => false
  end.
Definition decodes_data (c : api_call) : bool :=
  match c with CCleanTombstones | CDeleteSeries _ _ _ => false | _ => true end.

(* ------------------------------------------------------------------------------------------ *)
(* Part 1d: client.URL -- path.Join, ":name" substitution                                     *)
(* ------------------------------------------------------------------------------------------ *)

Definition slash : Z := 47.

Fixpoint split_on (c : Z) (s : str) (cur : str) : list str :=
  match s with
  | [] => [rev cur]
  | x :: r => if x =? c then rev cur :: split_on c r [] else split_on c r (x :: cur)
  end.

Definition s_dot := lit ".".
Definition s_dotdot := lit "..".

(* path.Clean of a rooted path: empty and "." elements dropped, ".." removes the previous element *)
Definition clean_step (acc : list str) (seg : str) : list str :=
  if is_empty seg || str_eqb seg s_dot then acc
  else if str_eqb seg s_dotdot then (match acc with [] => [] | _ :: r => r end)
  else seg :: acc.
Definition join_segs (segs : list str) : str := flat_map (fun s => slash :: s) segs.
Definition clean_rooted (p : str) : str :=
  match rev (fold_left clean_step (split_on slash p []) []) with
  | [] => [slash]
  | segs => join_segs segs
  end.
(* path.Join(a, b) for a = "" or rooted a, rooted b *)
Definition path_join (a b : str) : str :=
  if is_empty a then clean_rooted b else clean_rooted (a ++ slash :: b).

(* strings.ReplaceAll(s, old, new) for non-empty old *)
Fixpoint drop (n : nat) (s : str) : str := match n, s with O, _ => s | S k, _ :: r => drop k r | S _, [] => [] end.
Fixpoint replace_all_fuel (fuel : nat) (s old new : str) : str :=
  match fuel with
  | O => s
  | S f =>
      match s with
      | [] => []
      | x :: r => if has_prefix s old then new ++ replace_all_fuel f (drop (List.length old) s) old new
                  else x :: replace_all_fuel f r old new
      end
  end.
Definition replace_all (s old new : str) : str :=
  if is_empty old then s else replace_all_fuel (S (List.length s)) s old new.

Definition colon : Z := 58.
(* httpClient.URL: p := path.Join(endpoint.Path, ep); for arg,val := range args { p = ReplaceAll(p, ":"+arg, val) } *)
Definition client_url (endpoint_path : str) (ep : str) (args : list (str * str)) : str :=
  fold_left (fun p av => replace_all p (colon :: fst av) (snd av)) args (path_join endpoint_path ep).

(* what an HTTP server sees: the path is sent with every byte except "/" escaped as needed, so the
   segments it receives are the "/"-separated pieces of the path string *)
Definition path_segments (p : str) : list str :=
  match split_on slash p [] with
  | [] => []
  | _ :: r => r   (* the empty piece before the leading slash *)
  end.

Definition model_segments (endpoint_path : str) (c : api_call) : list str :=
  path_segments (client_url endpoint_path (fst (model_ep c)) (snd (model_ep c))).

(* ------------------------------------------------------------------------------------------ *)
(* Part 1e: apiClientImpl.Do -- response classification                                       *)
(* ------------------------------------------------------------------------------------------ *)

(* what json.Unmarshal(body, &apiResponse) yields when it succeeds; data_ok says whether Data decodes into
   the result type of the calling method (decided by the harness by construction) *)
Record envelope := { env_status : str; env_etype : str; env_error : str; env_warnings : list str; env_data_ok : bool }.
Definition zero_env : envelope := {| env_status := []; env_etype := []; env_error := []; env_warnings := []; env_data_ok := false |}.

(* result of api.Client.Do: an error (with a possibly non-nil response), or a response with its body;
   parsed = None when json.Unmarshal of the body fails *)
Inductive outcome :=
| OErr (resp_code : option Z)
| OResp (code : Z) (parsed : option envelope).

Inductive emsg := MJson | MText (s : str).
Inductive api_err :=
| EOther                               (* not a *v1.Error: transport / context / decoding error *)
| EApi (etype : str) (msg : emsg).     (* *v1.Error *)

Record do_out := { d_resp : option Z; d_err : option api_err; d_warn : list str; d_data_ok : bool }.

Definition err_bad_data := lit "bad_data".
Definition err_timeout := lit "timeout".
Definition err_canceled := lit "canceled".
Definition err_exec := lit "execution".
Definition err_bad_response := lit "bad_response".
Definition err_server := lit "server_error".
Definition err_client := lit "client_error".
Definition s_error := lit "error".
Definition s_success := lit "success".

Definition api_error_code (code : Z) : bool := (code =? 422) || (code =? 400).

Definition error_type_and_msg (code : Z) : str * str :=
  let c := Z.quot code 100 in
  if c =? 4 then (err_client, lit "client error: " ++ decimal code)
  else if c =? 5 then (err_server, lit "server error: " ++ decimal code)
  else (err_bad_response, lit "bad response code " ++ decimal code).

Definition msg_inconsistent := lit "inconsistent body for response code".

Definition api_do (o : outcome) : do_out :=
  match o with
  | OErr rc => {| d_resp := rc; d_err := Some EOther; d_warn := []; d_data_ok := false |}
  | OResp code parsed =>
      if negb (Z.quot code 100 =? 2) && negb (api_error_code code) then
        let tm := error_type_and_msg code in
        {| d_resp := Some code; d_err := Some (EApi (fst tm) (MText (snd tm))); d_warn := []; d_data_ok := false |}
      else
        let continue (result : envelope) : do_out :=
          let err := None in
          let err := if api_error_code code && negb (str_eqb (env_status result) s_error)
                     then Some (EApi err_bad_response (MText msg_inconsistent)) else err in
          let err := if str_eqb (env_status result) s_error
                     then Some (EApi (env_etype result) (MText (env_error result))) else err in
          {| d_resp := Some code; d_err := err; d_warn := env_warnings result; d_data_ok := env_data_ok result |} in
        if negb (code =? 204) then
          match parsed with
          | None => {| d_resp := Some code; d_err := Some (EApi err_bad_response MJson); d_warn := []; d_data_ok := false |}
          | Some result => continue result
          end
        else continue zero_env
  end.

(* ------------------------------------------------------------------------------------------ *)
(* Part 1f: requests, the scripted peer, DoGetFallback, a whole call                          *)
(* ------------------------------------------------------------------------------------------ *)

Record request := {
  rq_post : bool;                      (* POST (true) or GET *)
  rq_path : list str;                  (* path segments as the server receives them *)
  rq_query : list (str * pval);        (* URL query, in order *)
  rq_form : list (str * pval);         (* urlencoded body, in order *)
  rq_form_ctype : bool                 (* Content-Type: application/x-www-form-urlencoded *)
}.

(* what the peer does with the next request *)
Inductive behaviour :=
| SResp (code : Z) (parsed : option envelope)   (* answers *)
| SDrop                                         (* closes the connection: transport error *)
| SCancelHdr                                    (* the context is cancelled while waiting for the response *)
| SCancelBody (code : Z)                        (* the context is cancelled after the header, while reading the body *)
| SCutBody (code : Z).                          (* header with this status, then the transport fails while the body is read
                                                   (connection closed before Content-Length / before the last chunk),
                                                   whatever bytes had arrived: resp.Body read returns an error *)

Record net := { n_script : list behaviour; n_done : bool; n_seen : list request (* newest first *) }.

(* api.Client.Do over net/http: a request whose context is already done never reaches the peer *)
Definition http_do (rq : request) (n : net) : outcome * net :=
  if n_done n then (OErr None, n)
  else
    match n_script n with
    | [] => (OErr None, {| n_script := []; n_done := false; n_seen := rq :: n_seen n |})
    | b :: rest =>
        let seen := rq :: n_seen n in
        match b with
        | SResp c p => (OResp c p, {| n_script := rest; n_done := false; n_seen := seen |})
        | SDrop => (OErr None, {| n_script := rest; n_done := false; n_seen := seen |})
        | SCancelHdr => (OErr None, {| n_script := rest; n_done := true; n_seen := seen |})
        | SCancelBody c => (OErr (Some c), {| n_script := rest; n_done := true; n_seen := seen |})
        | SCutBody c => (OErr (Some c), {| n_script := rest; n_done := false; n_seen := seen |})
        end
    end.

Definition post_form (path : list str) (enc : list (str * pval)) : request :=
  {| rq_post := true; rq_path := path; rq_query := []; rq_form := enc; rq_form_ctype := true |}.
Definition get_query (path : list str) (enc : list (str * pval)) : request :=
  {| rq_post := false; rq_path := path; rq_query := enc; rq_form := []; rq_form_ctype := false |}.
Definition post_query (path : list str) (enc : list (str * pval)) : request :=
  {| rq_post := true; rq_path := path; rq_query := enc; rq_form := []; rq_form_ctype := false |}.

Definition is_fallback_code (c : Z) : bool := (c =? 405) || (c =? 501).

(* DoGetFallback *)
Definition do_get_fallback (path : list str) (enc : list (str * pval)) (n : net) : do_out * net :=
  let (o, n1) := http_do (post_form path enc) n in
  let d := api_do o in
  match d_resp d with
  | Some c =>
      if is_fallback_code c then
        let (o2, n2) := http_do (get_query path enc) n1 in (api_do o2, n2)
      else (d, n1)
  | None => (d, n1)
  end.

(* what the caller gets back *)
Record result := { r_err : option api_err; r_warn : list str }.

Definition finish (c : api_call) (d : do_out) : result :=
  let w := if returns_warnings c then d_warn d else [] in
  match d_err d with
  | Some e => {| r_err := Some e; r_warn := w |}
  | None =>
      if decodes_data c && negb (d_data_ok d) then {| r_err := Some EOther; r_warn := w |}
      else {| r_err := None; r_warn := w |}
  end.

Definition run_call (endpoint_path : str) (c : api_call) (n : net) : result * net :=
  let segs := model_segments endpoint_path c in
  let enc := model_params c in
  let (d, n') :=
    match model_kind c with
    | KFallback => do_get_fallback segs enc n
    | KGet => let (o, n1) := http_do (get_query segs enc) n in (api_do o, n1)
    | KPost => let (o, n1) := http_do (post_query segs enc) n in (api_do o, n1)
    end in
  (finish c d, n').

(* ------------------------------------------------------------------------------------------ *)
(* Part 2: SPECIFICATION                                                                      *)
(* ------------------------------------------------------------------------------------------ *)

(* --- parameters: for every method the documented endpoint and the list of parameters, straight from the arguments *)

Definition timeouts (opts : list opt) : list Z := flat_map (fun o => match o with OTimeout d => [d] | _ => [] end) opts.
Definition lookbacks (opts : list opt) : list Z := flat_map (fun o => match o with OLookback d => [d] | _ => [] end) opts.
Definition statss (opts : list opt) : list str := flat_map (fun o => match o with OStats s => [s] | _ => [] end) opts.
Definition limits (opts : list opt) : list Z := flat_map (fun o => match o with OLimit n => [n] | _ => [] end) opts.

(* the last option of a kind wins; absent or non-positive (empty) means "not sent" *)
Definition spec_opts (opts : list opt) : values :=
  let t := last (timeouts opts) 0 in
  let l := last (lookbacks opts) 0 in
  let s := last (statss opts) [] in
  let n := last (limits opts) 0 in
  [ (k_timeout, if t >? 0 then [VDur t] else []);
    (k_lookback, if l >? 0 then [VDur l] else []);
    (k_stats, if is_empty s then [] else [VStr s]);
    (k_limit, if n >? 0 then [VStr (decimal n)] else []) ].

Definition opt_time (k : str) (t : gotime) : str * list pval :=
  (k, if time_is_zero t then [] else [VFloat (format_time t)]).
Definition matchers (ms : list str) : str * list pval := (k_match, map VStr ms).

Definition spec_groups (c : api_call) : values :=
  match c with
  | CDeleteSeries ms st en => [matchers ms; opt_time k_start st; opt_time k_end en]
  | CLabelNames ms st en opts => [matchers ms; opt_time k_start st; opt_time k_end en] ++ spec_opts opts
  | CLabelValues _ ms st en opts => [matchers ms; opt_time k_start st; opt_time k_end en] ++ spec_opts opts
  | CQuery q ts opts => [(k_query, [VStr q]); opt_time k_time ts] ++ spec_opts opts
  | CQueryRange q st en step opts =>
      [(k_query, [VStr q]); (k_start, [VFloat (format_time st)]); (k_end, [VFloat (format_time en)]);
       (k_step, [VFloat (dur_seconds step)])] ++ spec_opts opts
  | CQueryExemplars q st en => [(k_query, [VStr q]); opt_time k_start st; opt_time k_end en]
  | CSeries ms st en opts => [matchers ms; opt_time k_start st; opt_time k_end en] ++ spec_opts opts
  | CSnapshot sk => [(k_skip_head, [VStr (if sk then s_true else s_false)])]
  | CTargetsMetadata mt metric limit => [(k_match_target, [VStr mt]); (k_metric, [VStr metric]); (k_limit, [VStr limit])]
  | CMetadata metric limit => [(k_metric, [VStr metric]); (k_limit, [VStr limit])]
  | CTSDB opts => spec_opts opts
  | _ => []
  end.

Definition drop_empty (q : values) : values := filter (fun g => match snd g with [] => false | _ => true end) q.
(* canonical form: parameters grouped by name, names sorted, values of one name in the given order *)
Definition spec_params (c : api_call) : list (str * pval) := flatten (sort_groups (drop_empty (spec_groups c))).

Definition spec_kind (c : api_call) : kind :=
  match c with
  | CCleanTombstones | CDeleteSeries _ _ _ | CSnapshot _ => KPost
  | CLabelNames _ _ _ _ | CQuery _ _ _ | CQueryRange _ _ _ _ _ | CQueryExemplars _ _ _ | CSeries _ _ _ _ => KFallback
  | _ => KGet
  end.

(* documented endpoints, as path segments below the address of the server *)
Definition spec_endpoint (c : api_call) : list str :=
  map lit
  (match c with
  | CAlerts => ["api"; "v1"; "alerts"]
  | CAlertManagers => ["api"; "v1"; "alertmanagers"]
  | CCleanTombstones => ["api"; "v1"; "admin"; "tsdb"; "clean_tombstones"]
  | CConfig => ["api"; "v1"; "status"; "config"]
  | CDeleteSeries _ _ _ => ["api"; "v1"; "admin"; "tsdb"; "delete_series"]
  | CFlags => ["api"; "v1"; "status"; "flags"]
  | CLabelNames _ _ _ _ => ["api"; "v1"; "labels"]
  | CLabelValues _ _ _ _ _ => ["api"; "v1"; "label"; ":name"; "values"]
  | CQuery _ _ _ => ["api"; "v1"; "query"]
  | CQueryRange _ _ _ _ _ => ["api"; "v1"; "query_range"]
  | CQueryExemplars _ _ _ => ["api"; "v1"; "query_exemplars"]
  | CBuildinfo => ["api"; "v1"; "status"; "buildinfo"]
  | CRuntimeinfo => ["api"; "v1"; "status"; "runtimeinfo"]
  | CSeries _ _ _ _ => ["api"; "v1"; "series"]
  | CSnapshot _ => ["api"; "v1"; "admin"; "tsdb"; "snapshot"]
  | CRules => ["api"; "v1"; "rules"]
  | CTargets => ["api"; "v1"; "targets"]
  | CTargetsMetadata _ _ _ => ["api"; "v1"; "targets"; "metadata"]
  | CMetadata _ _ => ["api"; "v1"; "metadata"]
  | CTSDB _ => ["api"; "v1"; "status"; "tsdb"]
  | CWalReplay => ["api"; "v1"; "status"; "walreplay"]
  end)%string.

Definition s_colon_name := lit ":name".
(* the label name occupies exactly one path segment *)
Definition spec_segments (prefix_segs : list str) (c : api_call) : list str :=
  prefix_segs ++
  match c with
  | CLabelValues label _ _ _ _ => map (fun s => if str_eqb s s_colon_name then label else s) (spec_endpoint c)
  | _ => spec_endpoint c
  end.

(* --- classification: a table from (status code, what the body declares) to the demanded outcome *)

Definition is_2xx (code : Z) : bool := (200 <=? code) && (code <=? 299).

(* the body declares an error: it is an envelope whose status is "error" *)
Definition declared_error (parsed : option envelope) : option str :=
  match parsed with
  | Some e => if str_eqb (env_status e) s_error then Some (env_etype e) else None
  | None => None
  end.

(* None: the call may succeed.  Some t: the call must return an Error of type t. *)
Definition spec_expect (code : Z) (parsed : option envelope) : option str :=
  if is_2xx code then
    if code =? 204 then None                         (* No Content: there is no body to examine *)
    else match parsed with
         | None => Some err_bad_response             (* 2xx with a body that is not an envelope *)
         | Some _ => declared_error parsed
         end
  else if api_error_code code then                   (* 400 / 422: Prometheus' own error answers *)
    match declared_error parsed with
    | Some t => Some t
    | None => Some err_bad_response
    end
  else if (400 <=? code) && (code <=? 499) then Some err_client
  else if (500 <=? code) && (code <=? 599) then Some err_server
  else Some err_bad_response.

(* warnings are handed on whenever the body was examined and understood *)
Definition spec_warnings (code : Z) (parsed : option envelope) : list str :=
  if (is_2xx code && negb (code =? 204)) || api_error_code code then
    match parsed with Some e => env_warnings e | None => [] end
  else [].

(* --- a whole call against a scripted peer: which requests are demanded, and which result *)

Definition behaviour_code (b : behaviour) : option Z :=
  match b with SResp c _ => Some c | SCancelBody c => Some c | SCutBody c => Some c | _ => None end.

(* requests the peer must receive, given the script *)
Definition spec_requests (prefix_segs : list str) (c : api_call) (script : list behaviour) (precancelled : bool) : list request :=
  if precancelled then [] else
  let path := spec_segments prefix_segs c in
  let ps := spec_params c in
  match spec_kind c with
  | KGet => [get_query path ps]
  | KPost => [post_query path ps]
  | KFallback =>
      post_form path ps ::
      match script with
      | SResp code _ :: _ => if is_fallback_code code then [get_query path ps] else []
      | SCutBody code :: _ => if is_fallback_code code then [get_query path ps] else []   (* the status was received *)
      | _ => []
      end
  end.

(* the answer that decides the result: the last one that was given *)
Definition spec_final (c : api_call) (script : list behaviour) (precancelled : bool) : option behaviour :=
  if precancelled then None else
  match spec_kind c, script with
  | KFallback, SResp code p :: rest => if is_fallback_code code then hd_error rest else Some (SResp code p)
  | KFallback, SCutBody code :: rest => if is_fallback_code code then hd_error rest else Some (SCutBody code)
  | _, b :: _ => Some b
  | _, [] => None
  end.

(* is a result acceptable for the deciding answer? *)
Definition spec_result_ok (c : api_call) (final : option behaviour) (r : result) : bool :=
  match final with
  | Some (SResp code parsed) =>
      let warn_expected := if returns_warnings c then spec_warnings code parsed else [] in
      let warn_ok := (Nat.eqb (List.length (r_warn r)) (List.length warn_expected)) &&
                     forallb (fun p => str_eqb (fst p) (snd p)) (combine (r_warn r) warn_expected) in
      match spec_expect code parsed, r_err r with
      | None, None =>
          (* success: the data must have been decodable *)
          warn_ok && (negb (decodes_data c) || match parsed with Some e => env_data_ok e | None => false end)
      | None, Some EOther =>
          (* allowed only as "malformed JSON yields an error": undecodable data *)
          warn_ok && decodes_data c && negb (match parsed with Some e => env_data_ok e | None => false end)
      | None, Some (EApi _ _) => false
      | Some t, Some (EApi t' _) => warn_ok && str_eqb t t'
      | Some _, _ => false
      end
  | _ =>
      (* transport failure, cancellation, no answer: some error, never success *)
      match r_err r with Some _ => true | None => false end
  end.

(* comparison helpers used by the checkers *)
Fixpoint list_eqb {A} (eq : A -> A -> bool) (a b : list A) : bool :=
  match a, b with
  | [], [] => true
  | x :: a', y :: b' => eq x y && list_eqb eq a' b'
  | _, _ => false
  end.
Definition kv_eqb (a b : str * pval) : bool := str_eqb (fst a) (fst b) && pval_eqb (snd a) (snd b).
(* against the specification a time may differ from the reference float by at most half a millisecond
   (the reference itself is within 2^-11 s of the exact time): another formula with millisecond precision is no violation *)
Definition half_ms : f64 := of_bits 4557750909289998844.   (* 0.0005 *)
Definition pval_close (a b : pval) : bool :=
  match a, b with
  | VFloat x, VFloat y => fbits_eq x y || (is_fin x && is_fin y && fle (fabs (fsub x y)) half_ms)
  | _, _ => pval_eqb a b
  end.
Definition kv_close (a b : str * pval) : bool := str_eqb (fst a) (fst b) && pval_close (snd a) (snd b).
(* group a flat list by name (order of values of a name kept), sort names: order across names is immaterial *)
Definition canon_flat (l : list (str * pval)) : list (str * pval) :=
  encode (fold_left (fun q kv => v_add (fst kv) (snd kv) q) l []).
Definition request_eqb (a b : request) : bool :=
  Bool.eqb (rq_post a) (rq_post b) && list_eqb str_eqb (rq_path a) (rq_path b) &&
  list_eqb kv_eqb (rq_query a) (rq_query b) && list_eqb kv_eqb (rq_form a) (rq_form b) &&
  Bool.eqb (rq_form_ctype a) (rq_form_ctype b).
Definition request_canon (a : request) : request :=
  {| rq_post := rq_post a; rq_path := rq_path a; rq_query := canon_flat (rq_query a);
     rq_form := canon_flat (rq_form a); rq_form_ctype := rq_form_ctype a |}.
Definition request_close (a b : request) : bool :=
  Bool.eqb (rq_post a) (rq_post b) && list_eqb str_eqb (rq_path a) (rq_path b) &&
  list_eqb kv_close (rq_query a) (rq_query b) && list_eqb kv_close (rq_form a) (rq_form b) &&
  Bool.eqb (rq_form_ctype a) (rq_form_ctype b).
Definition request_equiv (a b : request) : bool := request_close (request_canon a) (request_canon b).

(* --- vocabulary of the theorems *)
Definition start_net (script : list behaviour) (pre : bool) : net := {| n_script := script; n_done := pre; n_seen := [] |}.

(* the outcome api.Client.Do reports for a behaviour of the peer *)
Definition answer_of (b : option behaviour) : outcome :=
  match b with
  | Some (SResp c p) => OResp c p
  | Some (SCancelBody c) => OErr (Some c)
  | Some (SCutBody c) => OErr (Some c)
  | _ => OErr None
  end.

(* the status code the client has seen when the answer (or its header) arrived without the context being done *)
Definition received_code (b : behaviour) : option Z :=
  match b with SResp c _ => Some c | SCutBody c => Some c | _ => None end.

(* a 204 answer has no body (RFC 9110 15.3.5; net/http enforces it on both sides) *)
Definition wf_answer (code : Z) (parsed : option envelope) : Prop := code = 204 -> parsed = None.
Definition wf_script (script : list behaviour) : Prop := forall c p, In (SResp c p) script -> wf_answer c p.

Definition parsed_data_ok (parsed : option envelope) : bool :=
  match parsed with Some e => env_data_ok e | None => false end.

(* the label name handed to LabelValues contains no "/" *)
Definition label_ok (c : api_call) : Prop :=
  match c with CLabelValues label _ _ _ _ => ~ In slash label | _ => True end.

(* --- time formatting: exact test |x - (sec + nsec/1e9)| < 1/1000 on the rational value of x *)
Definition within_ms (x : f64) (sec nsec : Z) : bool :=
  let t := sec * 1000000000 + nsec in
  match x with
  | B754_zero _ => Z.abs t * 1000 <? 1000000000
  | B754_finite sg m e _ =>
      let zm := if sg then Z.neg m else Z.pos m in
      if 0 <=? e then Z.abs (zm * 2 ^ e * 1000000000 - t) * 1000 <? 1000000000
      else Z.abs (zm * 1000000000 - t * 2 ^ (- e)) * 1000 <? 1000000000 * 2 ^ (- e)
  | _ => false
  end.
(* range in which millisecond precision is demanded (and provable): |t| < 2^43 s, about 278 000 years *)
Definition ms_range (sec : Z) : bool := (- 2 ^ 43 <? sec) && (sec <? 2 ^ 43 - 1).
