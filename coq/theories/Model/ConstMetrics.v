(* Model/ConstMetrics.v -- C14: constructors either reject an input or expose it faithfully.
   Part 1: executable transcription of the Go code (prometheus/desc.go, labels.go, value.go,
   metric.go, histogram.go (const / const native), summary.go (const)).
   Part 2: a separate, much simpler executable SPECIFICATION (spec functions / boolean checkers).
   Definitions only; proofs are in Proofs/C14_proofs.v.

   Conventions: strings are byte lists; a Go map is an association list whose keys are pairwise
   distinct (hypothesis of the theorems) and whose list order stands for "some iteration order";
   Go's fixed-width integer arithmetic is written with [wrap]. *)
From Coq Require Import ZArith List Bool.
From Verif Require Import Base.F64 Base.Str Gen.Gen_Consts.
Import ListNotations.
Open Scope Z_scope.

(* ------------------------------------------------------------------ fixed-width integers *)
Definition wrap (bits z : Z) : Z := (z + 2 ^ (bits - 1)) mod 2 ^ bits - 2 ^ (bits - 1).
Definition wrap64 (z : Z) : Z := wrap 64 z.    (* int / int64 on amd64 *)
Definition wrap32 (z : Z) : Z := wrap 32 z.    (* int32(x) *)
Definition max_int32 : Z := 2147483647.
Definition min_int32 : Z := -2147483648.

(* ------------------------------------------------------------------ UTF-8 (unicode/utf8) *)
Definition in_rng (lo hi c : Z) : bool := (lo <=? c) && (c <=? hi).
Definition is_cont (c : Z) : bool := in_rng 128 191 c.

(* width of the valid encoding at the head of s, 0 if the head is not the start of a valid
   encoding (utf8's first[] / acceptRanges tables written out) *)
Definition utf8_step (s : str) : Z :=
  match s with
  | [] => 0
  | c0 :: r =>
      if in_rng 0 127 c0 then 1
      else if in_rng 194 223 c0 then
        match r with c1 :: _ => if is_cont c1 then 2 else 0 | _ => 0 end
      else if in_rng 224 239 c0 then
        match r with
        | c1 :: c2 :: _ =>
            let lo := if c0 =? 224 then 160 else 128 in
            let hi := if c0 =? 237 then 159 else 191 in
            if in_rng lo hi c1 && is_cont c2 then 3 else 0
        | _ => 0
        end
      else if in_rng 240 244 c0 then
        match r with
        | c1 :: c2 :: c3 :: _ =>
            let lo := if c0 =? 240 then 144 else 128 in
            let hi := if c0 =? 244 then 143 else 191 in
            if in_rng lo hi c1 && is_cont c2 && is_cont c3 then 4 else 0
        | _ => 0
        end
      else 0
  end.

(* utf8.ValidString *)
Fixpoint utf8_valid_fuel (fuel : nat) (s : str) : bool :=
  match s with
  | [] => true
  | _ :: _ =>
      match fuel with
      | O => false
      | S f => let k := utf8_step s in
               if k =? 0 then false else utf8_valid_fuel f (skipn (Z.to_nat k) s)
      end
  end.
Definition utf8_valid (s : str) : bool := utf8_valid_fuel (length s) s.

(* utf8.RuneCountInString: an invalid byte counts as one rune of width 1 *)
Fixpoint rune_count_fuel (fuel : nat) (s : str) (n : Z) : Z :=
  match s with
  | [] => n
  | _ :: _ =>
      match fuel with
      | O => n
      | S f => let k := utf8_step s in
               rune_count_fuel f (skipn (Z.to_nat (if k =? 0 then 1 else k)) s) (n + 1)
      end
  end.
Definition rune_count (s : str) : Z := rune_count_fuel (length s) s 0.

(* ------------------------------------------------------------------ names (prometheus/common model, UTF8Validation is the default scheme) *)
Definition is_empty (s : str) : bool := match s with [] => true | _ => false end.
Definition metric_name_valid (n : str) : bool := negb (is_empty n) && utf8_valid n.   (* model.IsValidMetricName *)
Definition label_name_valid (n : str) : bool := negb (is_empty n) && utf8_valid n.    (* model.LabelName.IsValid *)
(* labels.go checkLabelName *)
Definition check_label_name (l : str) : bool := label_name_valid l && negb (has_prefix l reserved_label_prefix).

(* ------------------------------------------------------------------ errors *)
Inductive err :=
| ErrMetricName | ErrLabelName | ErrUtf8Value | ErrDuplicate | ErrCardinality | ErrValueType
| ErrSchema | ErrCount | ErrBucketIndex | ErrExName | ErrExValue | ErrExRunes | ErrNoExemplar | ErrInject | ErrCtType.
Definition err_code (e : err) : Z :=
  match e with
  | ErrMetricName => 1 | ErrLabelName => 2 | ErrUtf8Value => 3 | ErrDuplicate => 4 | ErrCardinality => 5
  | ErrValueType => 6 | ErrSchema => 7 | ErrCount => 8 | ErrBucketIndex => 9 | ErrExName => 10
  | ErrExValue => 11 | ErrExRunes => 12 | ErrNoExemplar => 13 | ErrInject => 14 | ErrCtType => 15
  end.
Inductive res (A : Type) := Ok (a : A) | Err (e : err).
Arguments Ok {A} a. Arguments Err {A} e.

(* ------------------------------------------------------------------ BuildFQName (metric.go) *)
Definition underscore : str := [95].
Definition build_fq_name (ns sub name : str) : str :=
  if is_empty name then []
  else (if negb (is_empty ns) then ns ++ underscore else []) ++
       (if negb (is_empty sub) then sub ++ underscore else []) ++ name.

(* ------------------------------------------------------------------ sorting (sort.Strings / sort.Sort on distinct keys) *)
Definition lpair := (str * str)%type.
Fixpoint insert_by {A} (lt : A -> A -> bool) (x : A) (l : list A) : list A :=
  match l with
  | [] => [x]
  | y :: r => if lt x y then x :: y :: r else y :: insert_by lt x r
  end.
Definition sort_by {A} (lt : A -> A -> bool) (l : list A) : list A := fold_right (insert_by lt) [] l.
Definition sort_strings : list str -> list str := sort_by str_ltb.
Definition pair_lt (a b : lpair) : bool := str_ltb (fst a) (fst b).      (* internal.LabelPairSorter.Less *)
Definition sort_pairs : list lpair -> list lpair := sort_by pair_lt.
Definition sort_ints : list Z -> list Z := sort_by Z.ltb.

Fixpoint lookup_str (k : str) (m : list lpair) : str :=
  match m with [] => [] | (a, v) :: r => if str_eqb a k then v else lookup_str k r end.

(* size of a Go map[string]struct{} after inserting every element of l *)
Fixpoint dedup (l : list str) : list str :=
  match l with [] => [] | x :: r => if str_in x r then dedup r else x :: dedup r end.
Definition set_size (l : list str) : Z := Z.of_nat (length (dedup l)).

(* ------------------------------------------------------------------ labels.go validateLabelValues *)
Definition validate_label_values (vals : list str) (expected : Z) : option err :=
  if negb (Z.of_nat (length vals) =? expected) then Some ErrCardinality
  else if negb (forallb utf8_valid vals) then Some ErrUtf8Value
  else None.

(* ------------------------------------------------------------------ desc.go NewDesc *)
Record desc := mkDesc {
  d_fq : str; d_help : str;
  d_const : list lpair;      (* constLabelPairs, sorted; nil when err is set *)
  d_vars : list str;         (* variableLabels.names *)
  d_err : option err }.

Definition dollar : Z := 36.

Definition new_desc (fq help : str) (vars : list str) (consts : list lpair) : desc :=
  let bad e := mkDesc fq help [] vars (Some e) in
  if negb (metric_name_valid fq) then bad ErrMetricName
  else if existsb (fun p => negb (check_label_name (fst p))) consts then bad ErrLabelName
  else
    let names := sort_strings (map fst consts) in
    let label_values := fq :: map (fun n => lookup_str n consts) names in
    match validate_label_values label_values (Z.of_nat (length label_values)) with
    | Some e => bad e
    | None =>
        if existsb (fun l => negb (check_label_name l)) vars then bad ErrLabelName
        else
          let label_names := names ++ map (fun l => dollar :: l) vars in
          let name_set := map fst consts ++ vars in
          if negb (Z.of_nat (length label_names) =? set_size name_set) then bad ErrDuplicate
          else mkDesc fq help (sort_pairs consts) vars None
    end.

(* ---- the same constructor when the process has switched prometheus/common to model.LegacyValidation:
   IsValidMetricName = [a-zA-Z_:][a-zA-Z0-9_:]*, LabelName.IsValid = [a-zA-Z_][a-zA-Z0-9_]* (both read the scheme
   on every call).  A non-ASCII or invalid byte decodes to a rune outside these classes. *)
Definition is_alpha_us (c : Z) : bool := in_rng 97 122 c || in_rng 65 90 c || (c =? 95).
Definition is_digit (c : Z) : bool := in_rng 48 57 c.
Definition legacy_chars (colon : bool) (s : str) : bool :=
  match s with
  | [] => false
  | c0 :: r => (is_alpha_us c0 || (colon && (c0 =? 58))) &&
               forallb (fun c => is_alpha_us c || is_digit c || (colon && (c =? 58))) r
  end.
Definition legacy_metric_name_valid (n : str) : bool := legacy_chars true n.
Definition legacy_label_name_valid (n : str) : bool := legacy_chars false n.
Definition check_label_name_legacy (l : str) : bool := legacy_label_name_valid l && negb (has_prefix l reserved_label_prefix).

Definition new_desc_legacy (fq help : str) (vars : list str) (consts : list lpair) : desc :=
  let bad e := mkDesc fq help [] vars (Some e) in
  if negb (legacy_metric_name_valid fq) then bad ErrMetricName
  else if existsb (fun p => negb (check_label_name_legacy (fst p))) consts then bad ErrLabelName
  else
    let names := sort_strings (map fst consts) in
    let label_values := fq :: map (fun n => lookup_str n consts) names in
    match validate_label_values label_values (Z.of_nat (length label_values)) with
    | Some e => bad e
    | None =>
        if existsb (fun l => negb (check_label_name_legacy l)) vars then bad ErrLabelName
        else
          let label_names := names ++ map (fun l => dollar :: l) vars in
          let name_set := map fst consts ++ vars in
          if negb (Z.of_nat (length label_names) =? set_size name_set) then bad ErrDuplicate
          else mkDesc fq help (sort_pairs consts) vars None
    end.

(* ------------------------------------------------------------------ value.go MakeLabelPairs *)
Definition make_label_pairs (d : desc) (lvs : list str) : list lpair :=
  let total := (length (d_vars d) + length (d_const d))%nat in
  if Nat.eqb total 0 then []
  else if Nat.eqb (length (d_vars d)) 0 then d_const d
  else sort_pairs (combine (d_vars d) lvs ++ d_const d).   (* labelValues[i]: length validated by every caller *)

(* ------------------------------------------------------------------ value.go NewConstMetric + constMetric.Write *)
Record simple_out := mkSimple { so_labels : list lpair; so_type : Z; so_value : f64 }.

Definition new_const_metric (d : desc) (vt : Z) (v : f64) (lvs : list str) : res simple_out :=
  match d_err d with
  | Some e => Err e
  | None =>
      match validate_label_values lvs (Z.of_nat (length (d_vars d))) with
      | Some e => Err e
      | None =>
          (* populateMetric: CounterValue = 1, GaugeValue = 2, UntypedValue = 3 *)
          if (vt =? 1) || (vt =? 2) || (vt =? 3) then Ok (mkSimple (make_label_pairs d lvs) vt v)
          else Err ErrValueType
      end
  end.

(* value.go NewConstMetricWithCreatedTimestamp: same checks, then only counters are accepted *)
Definition new_const_metric_ct (d : desc) (vt : Z) (v : f64) (lvs : list str) : res simple_out :=
  match d_err d with
  | Some e => Err e
  | None =>
      match validate_label_values lvs (Z.of_nat (length (d_vars d))) with
      | Some e => Err e
      | None => if vt =? 1 then Ok (mkSimple (make_label_pairs d lvs) vt v) else Err ErrCtType
      end
  end.

(* ------------------------------------------------------------------ const histogram / summary *)
(* NewConstHistogramWithCreatedTimestamp / NewConstSummaryWithCreatedTimestamp perform the same checks and
   write the same buckets / quantiles (plus the created timestamp, which is not modelled); the Must* forms
   panic with the error exactly when the plain forms return it. *)
Definition fpair_lt {B} (a b : f64 * B) : bool := flt (fst a) (fst b).   (* buckSort.Less / quantSort.Less *)

Record hist_out := mkHistOut { ho_labels : list lpair; ho_count : Z; ho_sum : f64; ho_buckets : list (f64 * Z) }.
Definition new_const_histogram (d : desc) (count : Z) (sum : f64) (buckets : list (f64 * Z)) (lvs : list str) : res hist_out :=
  match d_err d with
  | Some e => Err e
  | None =>
      match validate_label_values lvs (Z.of_nat (length (d_vars d))) with
      | Some e => Err e
      | None => Ok (mkHistOut (make_label_pairs d lvs) count sum (sort_by fpair_lt buckets))   (* sorted in Write *)
      end
  end.

Record summ_out := mkSummOut { su_labels : list lpair; su_count : Z; su_sum : f64; su_quantiles : list (f64 * f64) }.
Definition new_const_summary (d : desc) (count : Z) (sum : f64) (qs : list (f64 * f64)) (lvs : list str) : res summ_out :=
  match d_err d with
  | Some e => Err e
  | None =>
      match validate_label_values lvs (Z.of_nat (length (d_vars d))) with
      | Some e => Err e
      | None => Ok (mkSummOut (make_label_pairs d lvs) count sum (sort_by fpair_lt qs))
      end
  end.

(* ------------------------------------------------------------------ const native histogram *)
Definition imap := list (Z * Z).     (* map[int]int64 *)
Fixpoint lookup_int (k : Z) (m : imap) : Z :=
  match m with [] => 0 | (a, v) :: r => if a =? k then v else lookup_int k r end.

(* histogram.go validateCount: int64 accumulation, int64(count), int64(zeroBucket) *)
Definition validate_count (sum : f64) (count : Z) (neg pos : imap) (zero : Z) : option err :=
  let s1 := fold_left (fun a p => wrap64 (a + snd p)) pos 0 in
  let s2 := fold_left (fun a p => wrap64 (a + snd p)) neg s1 in
  let s3 := wrap64 (s2 + wrap64 zero) in
  let c := wrap64 count in
  if (is_nan sum && (c <? s3)) || (negb (is_nan sum) && negb (s3 =? c)) then Some ErrCount else None.

(* histogram.go validateBucketIndexes *)
Fixpoint validate_idx_loop (ii : list Z) (next_i : Z) : option err :=
  match ii with
  | [] => None
  | i :: r =>
      let d := wrap64 (i - next_i) in          (* int64(i) - int64(nextI) *)
      if (max_int32 <? d) || (d <? min_int32) then Some ErrBucketIndex
      else validate_idx_loop r (wrap64 (i + 1))
  end.
Definition validate_bucket_indexes (m : imap) : option err := validate_idx_loop (sort_ints (map fst m)) 0.

(* histogram.go makeBucketsFromMap.  The span list and the delta list are kept reversed (the Go
   code appends and mutates the last span's length). *)
Definition span := (Z * Z)%type.    (* offset (int32), length (uint32) *)
Record mb_state := mkMb { mb_spans : list span; mb_deltas : list Z; mb_prev : Z; mb_next : Z }.

Definition append_delta (st : mb_state) (count : Z) : mb_state :=
  let spans' := match mb_spans st with (o, l) :: r => (o, l + 1) :: r | [] => [] end in
  mkMb spans' (wrap64 (count - mb_prev st) :: mb_deltas st) count (mb_next st).

Fixpoint append_zeros (n : nat) (st : mb_state) : mb_state :=
  match n with O => st | S k => append_zeros k (append_delta st 0) end.

Definition mb_step (m : imap) (first : bool) (st : mb_state) (i : Z) : mb_state :=
  let count := lookup_int i m in
  let i_delta := wrap32 (wrap64 (i - mb_next st)) in        (* int32(i - nextI) *)
  let st1 :=
    if first || (2 <? i_delta)
    then mkMb ((i_delta, 0) :: mb_spans st) (mb_deltas st) (mb_prev st) (mb_next st)
    else append_zeros (Z.to_nat i_delta) st in              (* for j := int32(0); j < iDelta; j++ *)
  let st2 := append_delta st1 count in
  mkMb (mb_spans st2) (mb_deltas st2) (mb_prev st2) (wrap64 (i + 1)).

Fixpoint mb_loop (m : imap) (first : bool) (st : mb_state) (ii : list Z) : mb_state :=
  match ii with [] => st | i :: r => mb_loop m false (mb_step m first st i) r end.

Definition make_buckets_from_map (m : imap) : list span * list Z :=
  match m with
  | [] => ([], [])
  | _ => let st := mb_loop m true (mkMb [] [] 0 0) (sort_ints (map fst m)) in
         (rev (mb_spans st), rev (mb_deltas st))
  end.

Record native_out := mkNative {
  no_labels : list lpair; no_count : Z; no_sum : f64; no_zero : Z; no_schema : Z; no_zt : f64;
  no_pos_spans : list span; no_pos_deltas : list Z; no_neg_spans : list span; no_neg_deltas : list Z }.

Definition schema_max : Z := 8.
Definition schema_min : Z := -4.

Definition new_const_native_histogram (d : desc) (count : Z) (sum : f64) (pos neg : imap) (zero schema : Z)
    (zt : f64) (lvs : list str) : res native_out :=
  match d_err d with
  | Some e => Err e
  | None =>
  match validate_label_values lvs (Z.of_nat (length (d_vars d))) with
  | Some e => Err e
  | None =>
  if (schema_max <? schema) || (schema <? schema_min) then Err ErrSchema else
  match validate_count sum count neg pos zero with
  | Some e => Err e
  | None =>
  match validate_bucket_indexes neg with
  | Some e => Err e
  | None =>
  match validate_bucket_indexes pos with
  | Some e => Err e
  | None =>
      let '(ns, nd) := make_buckets_from_map neg in
      let '(ps, pd) := make_buckets_from_map pos in
      let ps' := if feq zt pzero && (zero =? 0) && Nat.eqb (length ps) 0 && Nat.eqb (length ns) 0
                 then [(0, 0)] else ps in
      Ok (mkNative (make_label_pairs d lvs) count sum zero schema zt ps' pd ns nd)
  end end end end end.

(* ------------------------------------------------------------------ metric.go timestampedMetric.Write *)
(* t.Unix()*1000 + int64(t.Nanosecond()/1000000), Nanosecond() in [0, 10^9) *)
Definition timestamp_ms (unix_sec nanosecond : Z) : Z :=
  wrap64 (wrap64 (unix_sec * 1000) + Z.quot nanosecond 1000000).

(* a stack of timestamp wrappers (innermost first) around a metric whose own Write leaves the timestamp
   [inner] (None for every metric of this library): each wrapper first lets the wrapped metric write,
   then stamps its own time over whatever is there *)
Definition nested_timestamp (inner : option Z) (layers : list (Z * Z)) : option Z :=
  fold_left (fun _ t => Some (timestamp_ms (fst t) (snd t))) layers inner.

(* ------------------------------------------------------------------ value.go newExemplar *)
Record exemplar := mkEx { ex_value : f64; ex_labels : list lpair }.

Fixpoint ex_loop (l : list lpair) (runes : Z) (acc : list lpair) : res (Z * list lpair) :=
  match l with
  | [] => Ok (runes, rev acc)
  | (name, value) :: r =>
      if negb (check_label_name name) then Err ErrExName
      else let runes1 := runes + rune_count name in
           if negb (utf8_valid value) then Err ErrExValue
           else ex_loop r (runes1 + rune_count value) ((name, value) :: acc)
  end.

Definition new_exemplar (value : f64) (l : list lpair) : res exemplar :=
  match ex_loop l 0 [] with
  | Err e => Err e
  | Ok (runes, lps) => if exemplar_max_runes <? runes then Err ErrExRunes else Ok (mkEx value lps)
  end.

(* metric.go NewMetricWithExemplars: first failing exemplar reports *)
Fixpoint new_exemplars (exs : list (f64 * list lpair)) : res (list exemplar) :=
  match exs with
  | [] => Ok []
  | (v, l) :: r =>
      match new_exemplar v l with
      | Err e => Err e
      | Ok e => match new_exemplars r with Err e' => Err e' | Ok es => Ok (e :: es) end
      end
  end.

(* newExemplar / NewMetricWithExemplars under model.LegacyValidation (same control flow, legacy name check) *)
Fixpoint ex_loop_legacy (l : list lpair) (runes : Z) (acc : list lpair) : res (Z * list lpair) :=
  match l with
  | [] => Ok (runes, rev acc)
  | (name, value) :: r =>
      if negb (check_label_name_legacy name) then Err ErrExName
      else let runes1 := runes + rune_count name in
           if negb (utf8_valid value) then Err ErrExValue
           else ex_loop_legacy r (runes1 + rune_count value) ((name, value) :: acc)
  end.
Fixpoint new_exemplars_legacy (exs : list (f64 * list lpair)) : option err :=
  match exs with
  | [] => None
  | (v, l) :: r =>
      match ex_loop_legacy l 0 [] with
      | Err e => Some e
      | Ok (runes, _) => if exemplar_max_runes <? runes then Some ErrExRunes else new_exemplars_legacy r
      end
  end.

(* ------------------------------------------------------------------ sort.Search *)
Fixpoint go_search_loop (fuel : nat) (f : Z -> bool) (i j : Z) : Z :=
  match fuel with
  | O => i
  | S fuel' =>
      if Z.ltb i j then
        let h := (i + j) / 2 in
        if negb (f h) then go_search_loop fuel' f (h + 1) j else go_search_loop fuel' f i h
      else i
  end.
Definition go_search (n : Z) (f : Z -> bool) : Z := go_search_loop (S (Z.to_nat n)) f 0 n.

(* ------------------------------------------------------------------ metric.go withExemplarsMetric.Write *)
(* What a wrapped metric writes (the projection the wrapper looks at). *)
Record bucket := mkBucket { b_bound : f64; b_cum : Z; b_ex : option exemplar }.
Inductive payload :=
| PCounter (v : f64) (ex : option exemplar)
| PHistogram (count : Z) (buckets : list bucket)
| POther.

Fixpoint set_ex (bs : list bucket) (i : nat) (e : exemplar) : list bucket :=
  match bs, i with
  | [], _ => []
  | b :: r, O => mkBucket (b_bound b) (b_cum b) (Some e) :: r
  | b :: r, S k => b :: set_ex r k e
  end.

Definition place_one (count : Z) (bs : list bucket) (e : exemplar) : list bucket :=
  let n := Z.of_nat (length bs) in
  let i := go_search n (fun i => fge (b_bound (nth (Z.to_nat i) bs (mkBucket fnan 0 None))) (ex_value e)) in
  if i <? n then set_ex bs (Z.to_nat i) e
  else bs ++ [mkBucket pinf count (Some e)].

(* The wrapper writes into copies (a fresh dto.Counter, proto.Clone of the histogram): the wrapped
   metric's payload [p] is read, never written; the result is the wrapper's own output. *)
Definition with_exemplars_write (p : payload) (exs : list exemplar) : res payload :=
  match p with
  | PCounter v _ => Ok (PCounter v (Some (last exs (mkEx fnan []))))     (* m.exemplars[len-1] *)
  | PHistogram count bs => Ok (PHistogram count (fold_left (place_one count) exs bs))
  | POther => Err ErrInject
  end.

Definition new_metric_with_exemplars (p : payload) (exs : list (f64 * list lpair)) : res payload :=
  match exs with
  | [] => Err ErrNoExemplar
  | _ => match new_exemplars exs with Err e => Err e | Ok es => with_exemplars_write p es end
  end.

(* ------------------------------------------------------------------ live constructors (histogram.go newHistogram, summary.go newSummary, vec.go) *)
Inductive live_result := LivePanicLabel | LivePanicOther | LiveOk (d : desc) (labels : list lpair).

(* reserved = "le" for histograms, "quantile" for summaries, none for the other kinds; is_vec: the
   child is created through WithLabelValues, which validates the values first; early: SummaryVec *)
Definition new_live (reserved : option str) (is_vec early : bool) (ns sub name help : str) (vars : list str)
    (consts : list lpair) (lvs : list str) : live_result :=
  (* summary.go NewSummaryVec looks for "quantile" among the variable labels before anything else *)
  if early && (match reserved with Some r => existsb (str_eqb r) vars | None => false end) then LivePanicLabel else
  let d := new_desc (build_fq_name ns sub name) help vars consts in
  if is_vec && (match validate_label_values lvs (Z.of_nat (length vars)) with Some _ => true | None => false end)
  then LivePanicOther
  else if negb (Nat.eqb (length (d_vars d)) (length lvs)) then LivePanicOther
  else
    let hit := match reserved with
               | Some r => existsb (str_eqb r) (d_vars d) || existsb (fun p => str_eqb (fst p) r) (d_const d)
               | None => false
               end in
    if hit then LivePanicLabel else LiveOk d (make_label_pairs d lvs).

(* =========================================================================================
   Part 2: SPECIFICATION
   ========================================================================================= *)

(* --- BuildFQName: the non-empty parts joined by "_", empty iff the name part is empty --- *)
Fixpoint join_us (parts : list str) : str :=
  match parts with [] => [] | [p] => p | p :: r => p ++ underscore ++ join_us r end.
Definition fq_spec (ns sub name : str) : str :=
  if is_empty name then [] else join_us (filter (fun p => negb (is_empty p)) [ns; sub; name]).

(* --- UTF-8 by encoding: a string is valid iff it is the concatenated shortest encoding of scalar values --- *)
Definition is_scalar (c : Z) : bool := in_rng 0 55295 c || in_rng 57344 1114111 c.
Definition utf8_encode1 (c : Z) : str :=
  if c <? 128 then [c]
  else if c <? 2048 then [192 + c / 64; 128 + c mod 64]
  else if c <? 65536 then [224 + c / 4096; 128 + (c / 64) mod 64; 128 + c mod 64]
  else [240 + c / 262144; 128 + (c / 4096) mod 64; 128 + (c / 64) mod 64; 128 + c mod 64].
Definition utf8_encode (cs : list Z) : str := flat_map utf8_encode1 cs.
(* rune count of a valid string: the bytes that are not continuation bytes *)
Definition count_starts (s : str) : Z := Z.of_nat (length (filter (fun c => negb (is_cont c)) s)).

(* --- NewDesc accepts exactly ... --- *)
Definition name_ok_spec (l : str) : bool := negb (is_empty l) && utf8_valid l && negb (has_prefix l reserved_label_prefix).
Fixpoint nodup_b (l : list str) : bool :=
  match l with [] => true | x :: r => negb (str_in x r) && nodup_b r end.
Definition desc_ok_spec (fq : str) (vars : list str) (consts : list lpair) : bool :=
  negb (is_empty fq) && utf8_valid fq &&
  forallb name_ok_spec (map fst consts) && forallb name_ok_spec vars &&
  nodup_b (map fst consts ++ vars) &&
  forallb utf8_valid (map snd consts).

(* --- the same under model.LegacyValidation --- *)
Definition name_ok_spec_legacy (l : str) : bool := legacy_label_name_valid l && negb (has_prefix l reserved_label_prefix).
Definition desc_ok_spec_legacy (fq : str) (vars : list str) (consts : list lpair) : bool :=
  legacy_metric_name_valid fq &&
  forallb name_ok_spec_legacy (map fst consts) && forallb name_ok_spec_legacy vars &&
  nodup_b (map fst consts ++ vars) &&
  forallb utf8_valid (map snd consts).
Definition exemplar_ok_spec_legacy (l : list lpair) : bool :=
  forallb (fun p => name_ok_spec_legacy (fst p) && utf8_valid (snd p)) l &&
  (fold_left (fun a p => a + count_starts (fst p) + count_starts (snd p)) l 0 <=? exemplar_max_runes).

(* --- label pairs: strictly sorted by name and exactly the given pairs --- *)
Fixpoint sorted_names_b (l : list lpair) : bool :=
  match l with
  | a :: ((b :: _) as r) => str_ltb (fst a) (fst b) && sorted_names_b r
  | _ => true
  end.
Definition lpair_eqb (a b : lpair) : bool := str_eqb (fst a) (fst b) && str_eqb (snd a) (snd b).
Fixpoint remove1 {A} (eqb : A -> A -> bool) (x : A) (l : list A) : option (list A) :=
  match l with
  | [] => None
  | y :: r => if eqb x y then Some r else match remove1 eqb x r with Some r' => Some (y :: r') | None => None end
  end.
Fixpoint perm_b {A} (eqb : A -> A -> bool) (a b : list A) : bool :=
  match a with
  | [] => match b with [] => true | _ => false end
  | x :: r => match remove1 eqb x b with Some b' => perm_b eqb r b' | None => false end
  end.
Definition label_pairs_spec (vars lvs : list str) (consts out : list lpair) : bool :=
  sorted_names_b out && perm_b lpair_eqb (combine vars lvs ++ consts) out.

(* --- classic buckets / quantiles: strictly increasing bounds, exactly the given entries --- *)
Fixpoint sorted_f_b {B} (l : list (f64 * B)) : bool :=
  match l with
  | a :: ((b :: _) as r) => flt (fst a) (fst b) && sorted_f_b r
  | _ => true
  end.
Definition fz_eqb (a b : f64 * Z) : bool := fbits_eq (fst a) (fst b) && (snd a =? snd b).
Definition ff_eqb (a b : f64 * f64) : bool := fbits_eq (fst a) (fst b) && fbits_eq (snd a) (snd b).
Definition buckets_spec (given out : list (f64 * Z)) : bool := sorted_f_b out && perm_b fz_eqb given out.
Definition quantiles_spec (given out : list (f64 * f64)) : bool := sorted_f_b out && perm_b ff_eqb given out.

(* --- native: spans and deltas decode to exactly the given populations --- *)
(* decoder of the exposition format: absolute indices and absolute (int64) populations *)
Fixpoint decode_span (len : nat) (idx cnt : Z) (deltas : list Z) : list (Z * Z) * Z * Z * list Z :=
  match len with
  | O => ([], idx, cnt, deltas)
  | S k =>
      match deltas with
      | [] => ([], idx, cnt, [])
      | dl :: ds =>
          let c := wrap64 (cnt + dl) in
          let '(out, idx', cnt', ds') := decode_span k (idx + 1) c ds in
          ((idx, c) :: out, idx', cnt', ds')
      end
  end.
Fixpoint decode_spans_from (spans : list span) (idx cnt : Z) (deltas : list Z) : list (Z * Z) :=
  match spans with
  | [] => []
  | (o, l) :: r =>
      let '(out, idx', cnt', ds') := decode_span (Z.to_nat l) (idx + o) cnt deltas in
      out ++ decode_spans_from r idx' cnt' ds'
  end.
Definition decode_spans (spans : list span) (deltas : list Z) : list (Z * Z) := decode_spans_from spans 0 0 deltas.

Fixpoint find_int (k : Z) (m : imap) : option Z :=
  match m with [] => None | (a, v) :: r => if a =? k then Some v else find_int k r end.
Fixpoint increasing_b (l : list Z) : bool :=
  match l with a :: ((b :: _) as r) => (a <? b) && increasing_b r | _ => true end.
Definition total_len (spans : list span) : Z := fold_left (fun a s => a + snd s) spans 0.
(* every given bucket is present with its population, every other decoded bucket is empty,
   decoded indices strictly increase, all deltas are consumed *)
Definition pops_spec (given : imap) (spans : list span) (deltas : list Z) : bool :=
  let dec := decode_spans spans deltas in
  (total_len spans =? Z.of_nat (length deltas)) &&
  forallb (fun s => (0 <=? snd s) && in_rng min_int32 max_int32 (fst s)) spans &&
  increasing_b (map fst dec) &&
  forallb (fun p => match find_int (fst p) dec with Some v => v =? snd p | None => false end) given &&
  forallb (fun p => match find_int (fst p) given with Some v => v =? snd p | None => snd p =? 0 end) dec.

(* populations consistent with the count (unbounded integers) *)
Definition pop_sum (m : imap) : Z := fold_left (fun a p => a + snd p) m 0.
Definition count_consistent_spec (sum : f64) (count : Z) (neg pos : imap) (zero : Z) : bool :=
  let s := pop_sum pos + pop_sum neg + zero in
  if is_nan sum then s <=? count else s =? count.

(* the gaps between consecutive populated buckets (and the first index) fit an int32 span offset *)
Fixpoint gaps_spec (ii : list Z) (next_i : Z) : bool :=
  match ii with
  | [] => true
  | i :: r => in_rng min_int32 max_int32 (i - next_i) && gaps_spec r (i + 1)
  end.

(* --- timestamp: whole milliseconds toward minus infinity --- *)
Definition timestamp_spec (unix_sec nanosecond : Z) : Z := (unix_sec * 1000000000 + nanosecond) / 1000000.  (* Z./ is floor *)

(* the outermost wrapper's time is exposed; without a wrapper, what the metric wrote itself *)
Definition nested_timestamp_spec (inner : option Z) (layers : list (Z * Z)) : option Z :=
  match rev layers with
  | [] => inner
  | t :: _ => Some (timestamp_spec (fst t) (snd t))
  end.

(* --- exemplars --- *)
Definition exemplar_ok_spec (l : list lpair) : bool :=
  forallb (fun p => name_ok_spec (fst p) && utf8_valid (snd p)) l &&
  (fold_left (fun a p => a + count_starts (fst p) + count_starts (snd p)) l 0 <=? exemplar_max_runes).

(* placement: bucket j (bounds b_0 < b_1 < ...; lower bound of bucket 0 is -Inf) carries the last
   exemplar whose value v satisfies b_(j-1) < v <= b_j; a +Inf bucket is appended iff some exemplar
   lies above every bound *)
Definition in_bucket (lo : option f64) (hi : f64) (v : f64) : bool :=
  fle v hi && match lo with Some l => flt l v | None => true end.
Definition last_in (lo : option f64) (hi : f64) (exs : list exemplar) : option exemplar :=
  fold_left (fun acc e => if in_bucket lo hi (ex_value e) then Some e else acc) exs None.
Fixpoint spec_place_from (lo : option f64) (bs : list bucket) (count : Z) (exs : list exemplar) : list bucket :=
  match bs with
  | [] =>
      match last_in lo pinf exs with
      | Some e => [mkBucket pinf count (Some e)]
      | None => []
      end
  | b :: r =>
      mkBucket (b_bound b) (b_cum b) (match last_in lo (b_bound b) exs with Some e => Some e | None => b_ex b end)
      :: spec_place_from (Some (b_bound b)) r count exs
  end.
Definition spec_place (bs : list bucket) (count : Z) (exs : list exemplar) : list bucket := spec_place_from None bs count exs.
