(* Model/Rebucket.v -- C18: runtime histogram re-bucketing and the batch histogram.
   Part 1 is a transcription of the Go code
     prometheus/internal/go_runtime_metrics.go:39-143  (RuntimeMetricsToProm, RuntimeMetricsBucketsForUnit, reBucketExp)
     prometheus/go_collector_latest.go:126-148         (matchRuntimeMetricsRules)
     prometheus/go_collector_latest.go:200-244         (metric set / sample buffer construction)
     prometheus/go_collector_latest.go:480-574         (newBatchHistogram, update, Write)
   with Go panics (index out of range, negative make) as [None].
   Part 2 is the (much simpler) executable specification of what property C18 demands.
   Executable definitions only; proofs are in Proofs/C18_proofs.v. *)
From Coq Require Import ZArith List Bool.
From Verif Require Import Base.F64 Base.Str.
Import ListNotations.
Open Scope Z_scope.

(* ================================================================== *)
(* Part 1: the model                                                   *)
(* ================================================================== *)

Definition M64 : Z := 2 ^ 64.
Definition wrap64 (z : Z) : Z := z mod M64.          (* uint64 arithmetic *)

(* ---- reBucketExp (go_runtime_metrics.go:111-143) ----
   for i := 1; i < len(buckets); i++ {
     if bucket >= 0 && buckets[i] < bucket*base { continue }
     else if bucket < 0 && buckets[i] < bucket/base { continue }
     newBuckets = append(newBuckets, bucket); bucket = buckets[i] }
   return append(newBuckets, bucket)                                    *)
Definition skip_exp (base bucket next : f64) : bool :=
  if fge bucket pzero && flt next (fmul bucket base) then true
  else if flt bucket pzero && flt next (fdiv bucket base) then true
  else false.

(* [rest] is buckets[i:]; the result is what is appended to newBuckets from here on *)
Fixpoint rb_loop (skip : f64 -> f64 -> bool) (bucket : f64) (rest : list f64) : list f64 :=
  match rest with
  | [] => [bucket]
  | x :: r => if skip bucket x then rb_loop skip bucket r else bucket :: rb_loop skip x r
  end.

Definition re_bucket_exp (skip : f64 -> f64 -> bool) (buckets : list f64) : option (list f64) :=
  match buckets with
  | [] => None                                             (* buckets[0] *)
  | b0 :: r0 =>
      if feq b0 ninf then                                  (* bucket == math.Inf(-1) *)
        match r0 with
        | [] => None                                       (* buckets = buckets[1:]; bucket = buckets[0] *)
        | b1 :: r1 => Some (b0 :: rb_loop skip b1 r1)
        end
      else Some (rb_loop skip b0 r0)
  end.

(* ---- RuntimeMetricsBucketsForUnit (go_runtime_metrics.go:85-105) ---- *)
Inductive unit_t := UBytes | USeconds | UOther.

Definition f_two : f64 := of_Z 2.
Definition f_ten : f64 := of_Z 10.

(* for i := range b { if b[i] <= 1 { continue }; b[i] = +Inf; b = b[:i+1]; break } *)
Fixpoint seconds_cut (b : list f64) : list f64 :=
  match b with
  | [] => []
  | x :: r => if fle x fone then x :: seconds_cut r else [pinf]
  end.

Definition buckets_for_unit_gen (skip2 skip10 : f64 -> f64 -> bool) (u : unit_t) (buckets : list f64)
  : option (list f64) :=
  match u with
  | UBytes => re_bucket_exp skip2 buckets
  | USeconds => option_map seconds_cut (re_bucket_exp skip10 buckets)
  | UOther => Some buckets
  end.

Definition buckets_for_unit : unit_t -> list f64 -> option (list f64) :=
  buckets_for_unit_gen (skip_exp f_two) (skip_exp f_ten).

(* ---- batchHistogram (go_collector_latest.go:463-574) ---- *)
Record bhist := mkBH { bh_buckets : list f64; bh_counts : list Z; bh_has_sum : bool; bh_sum : f64 }.

(* if buckets[0] == -Inf { buckets = buckets[1:] }; counts: make([]uint64, len(buckets)-1) *)
Definition strip_ninf (buckets : list f64) : option (list f64) :=
  match buckets with
  | [] => None
  | b0 :: r => Some (if feq b0 ninf then r else buckets)
  end.

Definition new_batch_histogram (buckets : list f64) (has_sum : bool) : option bhist :=
  match strip_ninf buckets with
  | None => None
  | Some [] => None                                        (* make([]uint64, -1) panics *)
  | Some ((_ :: r) as bs) => Some (mkBH bs (repeat 0 (length r)) has_sum pzero)
  end.

Fixpoint set_nth (l : list Z) (n : nat) (v : Z) : list Z :=
  match l, n with
  | [], _ => []
  | _ :: r, O => v :: r
  | x :: r, S n' => x :: set_nth r n' v
  end.

(* var j int
   for i, count := range counts { h.counts[j] += count; if buckets[i+1] == h.buckets[j+1] { j++ } } *)
Fixpoint update_loop (cs : list Z) (i : nat) (ib hb : list f64) (hc : list Z) (j : nat) : option (list Z) :=
  match cs with
  | [] => Some hc
  | c :: cs' =>
      match nth_error hc j, nth_error ib (S i), nth_error hb (S j) with
      | Some old, Some bi, Some hj =>
          update_loop cs' (S i) ib hb (set_nth hc j (wrap64 (old + c))) (if feq bi hj then S j else j)
      | _, _, _ => None
      end
  end.

Definition update (h : bhist) (cs : list Z) (ib : list f64) (sum : f64) : option bhist :=
  match update_loop cs 0 ib (bh_buckets h) (repeat 0 (length (bh_counts h))) 0 with
  | None => None
  | Some hc => Some (mkBH (bh_buckets h) hc (bh_has_sum h) (if bh_has_sum h then sum else bh_sum h))
  end.

(* math.Nextafter(x, y) *)
Definition nextafter (x y : f64) : f64 :=
  if is_nan x || is_nan y then fnan
  else if feq x y then x
  else if flt x y then fsucc x
  else fpred x.

Record wout := mkW { w_count : Z; w_sum : f64; w_buckets : list (f64 * Z) }.

(* for i, count := range h.counts {
     totalCount += count
     if !h.hasSum { if count != 0 { sum += h.buckets[i] * float64(count) } }
     if math.IsInf(h.buckets[i+1], 1) { break }
     upperBound := math.Nextafter(h.buckets[i+1], h.buckets[i]); append (upperBound, totalCount) }
   h.buckets[i] and h.buckets[i+1] are read together here: len(h.buckets) = len(h.counts)+1 is fixed by
   newBatchHistogram and never changed, so neither read can fail on its own. *)
Fixpoint write_loop (hb : list f64) (has_sum : bool) (cs : list Z) (i : nat) (total : Z) (sum : f64)
                    (acc : list (f64 * Z)) : option wout :=
  match cs with
  | [] => Some (mkW total sum (rev acc))
  | c :: cs' =>
      let total' := wrap64 (total + c) in
      match nth_error hb i, nth_error hb (S i) with
      | Some bi, Some bi1 =>
          let sum' := if negb has_sum && negb (Z.eqb c 0) then fadd sum (fmul bi (of_Z c)) else sum in
          if is_pinf bi1 then Some (mkW total' sum' (rev acc))
          else write_loop hb has_sum cs' (S i) total' sum' ((nextafter bi1 bi, total') :: acc)
      | _, _ => None
      end
  end.

Definition write (h : bhist) : option wout :=
  write_loop (bh_buckets h) (bh_has_sum h) (bh_counts h) 0 0 (if bh_has_sum h then bh_sum h else pzero) [].

(* the whole life of one runtime histogram: reduce, construct, then (update; Write) per sample *)
Fixpoint run_updates (h : bhist) (ib : list f64) (ups : list (list Z * f64)) : option (list wout) :=
  match ups with
  | [] => Some []
  | (cs, s) :: r =>
      match update h cs ib s with
      | None => None
      | Some h' =>
          match write h', run_updates h' ib r with
          | Some w, Some ws => Some (w :: ws)
          | _, _ => None
          end
      end
  end.

Definition run_hist (u : unit_t) (ib : list f64) (has_sum : bool) (ups : list (list Z * f64))
  : option (list f64 * list wout) :=
  match buckets_for_unit u ib with
  | None => None
  | Some red =>
      match new_batch_histogram red has_sum with
      | None => None
      | Some h => match run_updates h ib ups with None => None | Some ws => Some (bh_buckets h, ws) end
      end
  end.

(* ---- matchRuntimeMetricsRules (go_collector_latest.go:126-148) ----
   a rule is (does its regexp match this name, Deny); the regexp verdict is recorded from the real matcher.
   deny := true; for _, r := range rules { if !match { continue }; deny = r.Deny } *)
Definition match_rules (rules : list (bool * bool)) : bool :=
  fold_left (fun (deny : bool) (r : bool * bool) => if fst r then snd r else deny) rules true.

(* descs in metrics.All() order, each with its rule verdicts: the names that are exposed, in order *)
Definition match_all {A} (all : list (A * list (bool * bool))) : list A :=
  map fst (filter (fun d => negb (match_rules (snd d))) all).

(* ---- metric set and sample buffer (go_collector_latest.go:200-244): one loop appends to both, after
   the [!ok -> continue]; the exact-sum and MemStats samples are appended afterwards ---- *)
Fixpoint build_sets {A} (descs : list (A * bool)) (sample_buf metric_set : list A) : list A * list A :=
  match descs with
  | [] => (sample_buf, metric_set)
  | (d, ok) :: r => if ok then build_sets r (sample_buf ++ [d]) (metric_set ++ [d]) else build_sets r sample_buf metric_set
  end.
Definition sample_buf_of {A} (descs : list (A * bool)) (extra : list A) : list A * list A :=
  let (sb, ms) := build_sets descs (@nil A) (@nil A) in (sb ++ extra, ms).

(* ---- RuntimeMetricsToProm (go_runtime_metrics.go:39-79) for names "/seg/.../seg:unit" ---- *)
Definition c_slash : Z := 47.  Definition c_dash : Z := 45.  Definition c_colon : Z := 58.
Definition c_star : Z := 42.   Definition c_us : Z := 95.

(* strings.SplitN(s, ":", 2) *)
Fixpoint split_colon (s : str) : str * option str :=
  match s with
  | [] => ([], None)
  | c :: r => if Z.eqb c c_colon then ([], Some r)
              else let '(a, b) := split_colon r in (c :: a, b)
  end.

(* position-free split at the last '/': (before, after); None when there is no '/' *)
Fixpoint split_last_slash (s : str) : option (str * str) :=
  match s with
  | [] => None
  | c :: r =>
      match split_last_slash r with
      | Some (a, b) => Some (c :: a, b)
      | None => if Z.eqb c c_slash then Some ([], r) else None
      end
  end.

Definition replace_byte (from : Z) (to : str) (s : str) : str :=
  flat_map (fun c => if Z.eqb c from then to else [c]) s.

(* the names handled: '/' first, no "//", no trailing '/', no "." segments, a ':' present (clean paths,
   where path.Dir / path.Base are plain splits at the last '/') *)
Fixpoint clean_from (prev_slash : bool) (s : str) : bool :=
  match s with
  | [] => negb prev_slash
  | c :: r => if Z.eqb c c_slash then negb prev_slash && clean_from true r
              else if Z.eqb c 46 then false else clean_from false r
  end.
Definition clean_key (key : str) : bool :=
  match key with
  | c :: ((_ :: _) as r) => Z.eqb c c_slash && clean_from true r &&
                           match split_last_slash r with Some _ => true | None => false end
  | _ => false
  end.

Definition is_name_byte (first : bool) (c : Z) : bool :=
  ((97 <=? c) && (c <=? 122)) || ((65 <=? c) && (c <=? 90)) || Z.eqb c c_us || Z.eqb c c_colon ||
  (negb first && (48 <=? c) && (c <=? 57)).
Definition valid_legacy_name (s : str) : bool :=
  match s with
  | [] => false
  | c :: r => is_name_byte true c && forallb (is_name_byte false) r
  end.

Definition go_pfx : str := [103; 111].          (* "go" *)
Definition s_total : str := [95; 116; 111; 116; 97; 108].   (* "_total" *)
Definition s_per : str := [95; 112; 101; 114; 95].          (* "_per_" *)

(* kind: 1 uint64, 2 float64, 3 float64 histogram, anything else unsupported.
   Result: (fully qualified name as BuildFQName joins it, valid) *)
Definition runtime_metrics_to_prom (name : str) (cumulative : bool) (kind : Z) : option (str * bool) :=
  match split_colon name with
  | (key, Some unit) =>
      if clean_key key then
        match split_last_slash (tl key) with
        | Some (dir, base) =>
            let subsystem := replace_byte c_dash [c_us] (replace_byte c_slash [c_us] dir) in
            let unit := replace_byte c_slash s_per (replace_byte c_star [c_us] (replace_byte c_dash [c_us] unit)) in
            let nm := replace_byte c_dash [c_us] base ++ [c_us] ++ unit in
            let nm := if cumulative && negb (Z.eqb kind 3) then nm ++ s_total else nm in
            let fq := go_pfx ++ [c_us] ++ subsystem ++ [c_us] ++ nm in
            let valid := valid_legacy_name fq && ((Z.eqb kind 1) || (Z.eqb kind 2) || (Z.eqb kind 3)) in
            Some (fq, valid)
        | None => None
        end
      else None
  | _ => None
  end.

(* ================================================================== *)
(* Part 2: the specification                                           *)
(* ================================================================== *)

(* the shape the runtime produces: strictly increasing boundaries (so no NaN, interior ones finite),
   +Inf last; -Inf may come first *)
Fixpoint strictly_inc (l : list f64) : bool :=
  match l with
  | x :: ((y :: _) as r) => flt x y && strictly_inc r
  | _ => true
  end.

Definition runtime_shape (ib : list f64) : bool :=
  strictly_inc ib && is_pinf (last ib fnan) && (2 <=? Z.of_nat (length ib)).

(* the first finite boundary *)
Definition first_finite (ib : list f64) : option f64 :=
  match ib with
  | b0 :: r => if is_ninf b0 then (match r with b1 :: _ => if is_fin b1 then Some b1 else None | [] => None end)
               else if is_fin b0 then Some b0 else None
  | [] => None
  end.

(* "at least one finite boundary surviving the unit's reduction" *)
Definition survives (u : unit_t) (ib : list f64) : bool :=
  match first_finite ib with
  | None => false
  | Some f => match u with USeconds => fle f fone | _ => true end
  end.

Definition precondition (u : unit_t) (ib : list f64) (ups : list (list Z * f64)) : bool :=
  runtime_shape ib && survives u ib &&
  forallb (fun up => Nat.eqb (S (length (fst up))) (length ib) &&
                     forallb (fun c => (0 <=? c) && (c <? M64)) (fst up)) ups.

(* sublist by bit pattern *)
Fixpoint is_sublist (a b : list f64) : bool :=
  match a, b with
  | [], _ => true
  | _ :: _, [] => false
  | x :: a', y :: b' => if fbits_eq x y then is_sublist a' b' else is_sublist a b'
  end.

(* clause "re-bucketing by unit keeps a subset of the input boundaries, strictly increasing, with seconds
   histograms cut off above one second" -- [hb] are the boundaries kept (the -Inf one already dropped) *)
Definition rebucket_ok (u : unit_t) (ib hb : list f64) : bool :=
  is_sublist hb ib && strictly_inc hb && is_pinf (last hb fnan) &&
  match hb, first_finite ib with
  | h0 :: _, Some f => fbits_eq h0 f
  | _, _ => false
  end &&
  match u with
  | USeconds => forallb (fun b => is_pinf b || fle b fone) hb
  | _ => true
  end.

Definition sumZ (l : list Z) : Z := fold_right Z.add 0 l.

(* the input bucket with upper boundary [hi] lies entirely at or below [ub]: every float below [hi]
   is at most [ub], i.e. hi <= the float following ub *)
Definition entirely_below (hi ub : f64) : bool := fle hi (nextafter_up ub).

(* number of input observations in input buckets lying entirely at or below [ub];
   [ibt] = the upper boundaries of the input buckets = tl ib *)
Fixpoint count_below (test : f64 -> bool) (cs : list Z) (ibt : list f64) : Z :=
  match cs, ibt with
  | c :: cs', hi :: ibt' => (if test hi then c else 0) + count_below test cs' ibt'
  | _, _ => 0
  end.

Definition write_ok (ib : list f64) (cs : list Z) (w : wout) : bool :=
  Z.eqb (w_count w) (wrap64 (sumZ cs)) &&
  forallb (fun p => let nx := nextafter_up (fst p) in      (* entirely_below hi (fst p) = fle hi nx *)
                    Z.eqb (snd p) (wrap64 (count_below (fun hi => fle hi nx) cs (tl ib))))
          (w_buckets w).

(* what the property demands of an observed run (None = the code panicked) *)
Definition spec_ok (u : unit_t) (ib : list f64) (ups : list (list Z * f64)) (o : option (list f64 * list wout)) : bool :=
  if precondition u ib ups then
    match o with
    | None => false                                         (* no index out of range *)
    | Some (hb, ws) =>
        rebucket_ok u ib hb && Nat.eqb (length ws) (length ups) &&
        forallb (fun p => write_ok ib (fst (fst p)) (snd p)) (combine ups ws)
    end
  else true.

(* re-bucketing is a function of its input: the model is a Gallina function, so the same input gives the same
   output and the input (a value) cannot change.  The harness observes both on the real code, which works on
   slices: [unchanged] = the caller's boundary slice is bit-identical after the calls, [same] = a second call on
   the same slice returns the same boundaries.  Required whenever the code did not panic. *)
Definition purity_ok (unchanged same : bool) : bool := unchanged && same.

(* a histogram of runtime shape, registered with a pedantic registry, is gathered without error
   ([gathered] is observed by the harness on the real registry; nothing is required outside the precondition) *)
Definition gather_ok (pre gathered : bool) : bool := negb pre || gathered.

(* rules: the last matching rule decides; no matching rule means denied *)
Definition rule_spec (rules : list (bool * bool)) : bool :=
  match find (fun r => fst r) (rev rules) with
  | Some r => snd r
  | None => true
  end.

(* documented name derivation, written independently: split at ':' and at every '/',
   go_<segments but the last joined by _>_<last>_<unit>[_total], '-' -> '_', '*' -> '_', '/' in unit -> _per_ *)
Fixpoint split_slash (s : str) (cur : str) : list str :=
  match s with
  | [] => [rev cur]
  | c :: r => if Z.eqb c c_slash then rev cur :: split_slash r [] else split_slash r (c :: cur)
  end.
Fixpoint join_us (l : list str) : str :=
  match l with
  | [] => []
  | [x] => x
  | x :: r => x ++ [c_us] ++ join_us r
  end.
Definition dash_us (s : str) : str := map (fun c => if Z.eqb c c_dash then c_us else c) s.
Definition name_spec (name : str) (cumulative : bool) (kind : Z) : option str :=
  match split_colon name with
  | (key, Some unit) =>
      if clean_key key then
        let segs := split_slash (tl key) [] in
        let unit' := flat_map (fun c => if Z.eqb c c_slash then s_per
                                        else if Z.eqb c c_dash || Z.eqb c c_star then [c_us] else [c]) unit in
        Some (join_us (go_pfx :: map dash_us segs) ++ [c_us] ++ unit' ++
              (if cumulative && negb (Z.eqb kind 3) then s_total else []))
      else None
  | _ => None
  end.
