(* Properties/C18.v -- Runtime collectors are self-consistent and re-bucket without losing counts.
   Only theorem statements; proofs are in Proofs/C18_proofs.v.  The model (Model/Rebucket.v) transcribes
   RuntimeMetricsBucketsForUnit / reBucketExp, newBatchHistogram / update / Write and
   matchRuntimeMetricsRules; Go panics are [None].  Counts are uint64 (arithmetic modulo 2^64).
   [precondition u ib ups] is the runtime shape of the property text: strictly increasing boundaries ending
   in +Inf, optionally starting with -Inf, a finite boundary surviving the unit's reduction, one count per
   input bucket.  The live collectors (pedantic registration, concurrent gathering, name uniqueness, counter
   monotonicity) are exercised by the harness only. *)
From Coq Require Import ZArith List Bool.
From Verif Require Import Base.F64 Base.Str Model.Rebucket Proofs.C18_proofs.
Import ListNotations.
Open Scope Z_scope.

(* re-bucketing by unit keeps a sublist of the input boundaries, strictly increasing, first finite boundary
   kept, +Inf last, -Inf dropped; seconds: no finite boundary above 1.  For every skip predicate that never
   skips +Inf -- so whatever the floating-point arithmetic inside reBucketExp's predicate does. *)
Theorem rebucket_sublist_strict : forall skip2 skip10 u ib,
  (forall b, skip2 b pinf = false) -> (forall b, skip10 b pinf = false) ->
  runtime_shape ib = true -> survives u ib = true ->
  exists red hb, buckets_for_unit_gen skip2 skip10 u ib = Some red /\ strip_ninf red = Some hb /\
    sublist hb ib /\ strictly_inc hb = true /\ last hb fnan = pinf /\ hd_error hb = first_finite ib /\
    (u = USeconds -> Forall (fun b => b = pinf \/ fle b fone = true) hb).
Proof. exact C18_proofs.rebucket_sublist_strict_lemma. Qed.

(* the predicate of the real code (bucket*base, bucket/base in binary64) never skips +Inf *)
Theorem rebucket_real_skip : forall base b, skip_exp base b pinf = false.
Proof. exact C18_proofs.rebucket_real_skip_lemma. Qed.

(* under the runtime-shape precondition no index goes out of range: construction, every update and every
   Write complete *)
Theorem no_index_out_of_range : forall u ib hs ups,
  precondition u ib ups = true -> exists hb ws, run_hist u ib hs ups = Some (hb, ws).
Proof. exact C18_proofs.no_index_out_of_range_lemma. Qed.

(* SampleCount = total of the input counts (uint64 arithmetic) *)
Theorem update_conserves_total : forall u ib hs ups hb ws,
  precondition u ib ups = true -> run_hist u ib hs ups = Some (hb, ws) ->
  Forall2 (fun up w => w_count w = wrap64 (sumZ (fst up))) ups ws.
Proof. exact C18_proofs.update_conserves_total_lemma. Qed.

(* ... and exactly the total whenever that total fits in a uint64 *)
Theorem update_conserves_total_exact : forall u ib hs ups hb ws,
  precondition u ib ups = true -> run_hist u ib hs ups = Some (hb, ws) ->
  Forall2 (fun up w => sumZ (fst up) < M64 -> w_count w = sumZ (fst up)) ups ws.
Proof. exact C18_proofs.update_conserves_total_exact_lemma. Qed.

(* every kept finite boundary B after the first is exposed once, as the float just below it, and its
   cumulative count is the total of the input buckets whose upper boundary is <= B *)
Theorem cumulative_is_entirely_below : forall u ib hs ups hb ws,
  precondition u ib ups = true -> run_hist u ib hs ups = Some (hb, ws) ->
  Forall2 (fun up w =>
     S (S (length (w_buckets w))) = length hb /\
     Forall (fun p => exists B prev, In B hb /\ is_pinf B = false /\ is_fin prev = true /\ flt prev B = true /\
                        fst p = nextafter B prev /\
                        snd p = wrap64 (count_below (fun hi => fle hi B) (fst up) (tl ib)))
            (w_buckets w)) ups ws.
Proof. exact C18_proofs.cumulative_is_entirely_below_lemma. Qed.

(* "upper boundary <= B" is the same as "the input bucket lies entirely at or below the exposed bound":
   every float below hi is at most nextafter(B, prev) exactly when hi <= B *)
Theorem entirely_below_exposed : forall hi B prev,
  is_fin prev = true -> is_pinf B = false -> flt prev B = true ->
  entirely_below hi (nextafter B prev) = fle hi B.
Proof. exact C18_proofs.entirely_below_exposed. Qed.

(* the model's output passes the executable specification checker the harness applies to the real code
   (sample count, cumulative counts at the exposed bounds, re-bucketing clause, no panic) for every input *)
Theorem model_satisfies_spec : forall u ib hs ups, spec_ok u ib ups (run_hist u ib hs ups) = true.
Proof. exact C18_proofs.model_satisfies_spec_lemma. Qed.

(* rules: the last matching rule decides, no matching rule means denied *)
Theorem rule_semantics : forall rules, match_rules rules = rule_spec rules.
Proof. exact C18_proofs.rule_semantics_lemma. Qed.

Theorem rule_last_wins : forall rules m d, match_rules (rules ++ [(m, d)]) = if m then d else match_rules rules.
Proof. exact C18_proofs.rule_last_wins_lemma. Qed.

Theorem rule_default_deny : forall rules, Forall (fun r => fst r = false) rules -> match_rules rules = true.
Proof. exact C18_proofs.rule_default_deny_lemma. Qed.

(* the exposed descriptions keep the order of metrics.All() and are exactly the allowed ones *)
Theorem match_all_order : forall (A : Type) (all : list (A * list (bool * bool))),
  sublist (match_all all) (map fst all) /\
  forall d, In d (filter (fun d => negb (match_rules (snd d))) all) <-> In d all /\ rule_spec (snd d) = false.
Proof. exact C18_proofs.match_all_order_lemma. Qed.

(* exposed metric i reads sample i of the buffer, whatever is appended for exact sums and MemStats *)
Theorem index_correspondence : forall (A : Type) (descs : list (A * bool)) (extra : list A) sb ms,
  sample_buf_of descs extra = (sb, ms) ->
  forall i, (i < length ms)%nat -> nth_error sb i = nth_error ms i.
Proof. exact C18_proofs.index_correspondence_lemma. Qed.

(* name derivation: the transcription of RuntimeMetricsToProm produces the documented name
   go_<path segments joined by _>_<unit>[_total] ('-' and '*' -> '_', '/' inside the unit -> _per_) *)
Theorem name_model_is_spec : forall n c k fq v,
  runtime_metrics_to_prom n c k = Some (fq, v) -> name_spec n c k = Some fq.
Proof. exact C18_proofs.name_model_is_spec_lemma. Qed.

(* the hypotheses are satisfiable: a seconds histogram with -Inf first and a count overflowing uint64 *)
Example example_precondition :
  precondition USeconds ex_ib ex_ups = true /\ precondition UBytes ex_ib ex_ups = true.
Proof. exact C18_proofs.example_precondition_lemma. Qed.

Example example_run :
  option_map (fun o => (length (fst o), map w_count (snd o), map (fun w => map snd (w_buckets w)) (snd o)))
             (run_hist USeconds ex_ib false ex_ups)
  = Some (4%nat, [45; 35], [[3; 10]; [3; 10]]).
Proof. exact C18_proofs.example_run_lemma. Qed.
