(* Properties/C12.v -- HTTP instrumentation records exactly what happened and is transparent.
   Only theorem statements; proofs are in Proofs/C12_proofs.v.  The tables (status switch, method
   switch, 32-entry delegator table, newDelegator's assertions) are regenerated from the Go source
   on every run, so these theorems are re-proved against what the code says now. *)
From Coq Require Import ZArith List Bool.
From Verif Require Import Base.Str Gen.Gen_Delegators Model.Instrument Proofs.C12_proofs.
Import ListNotations.
Open Scope Z_scope.

(* every status code maps to its own decimal string, 0 to "200", outside 100..599 to "unknown" *)
Theorem sanitize_code_spec : forall s : Z, sanitize_code s = code_spec s.
Proof. exact C12_proofs.sanitize_code_spec_lemma. Qed.

(* method = lower-cased method if well-known (upper or lower case) or equal-fold to an extra method, else "unknown" *)
Theorem sanitize_method_spec : forall (m : str) (extra : list str), sanitize_method m extra = method_spec m extra.
Proof. exact C12_proofs.sanitize_method_spec_lemma. Qed.

(* for every handler program the recorded code label is the status the peer receives (200 if none was set) *)
Theorem recorded_status_is_final : forall acts : list act,
  sanitize_code (d_status (d_run acts)) = code_spec (peer_status acts).
Proof. exact C12_proofs.recorded_status_is_final_lemma. Qed.

(* exactly the bytes accepted by the underlying writer (Write and ReadFrom) are counted *)
Theorem bytes_counted_exact : forall acts : list act, d_written (d_run acts) = accepted_bytes acts.
Proof. exact C12_proofs.bytes_counted_exact_lemma. Qed.

(* the write-header observer fires at most once, with the status at header time *)
Theorem header_observed_once : forall acts : list act,
  d_observed (d_run acts) = match header_time_status acts with Some c => [c] | None => [] end.
Proof. exact C12_proofs.header_observed_once_lemma. Qed.

(* what the middlewares record equals the specification for every method, option set and program *)
Theorem middleware_matches_spec : forall m extra acts, run_middleware m extra acts = spec_middleware m extra acts.
Proof. exact C12_proofs.middleware_matches_spec_lemma. Qed.

(* transparency of the status: the WriteHeader calls forwarded to the wrapped writer decide the same final status *)
Theorem transparent_status : forall acts : list act,
  match first_final (d_fwd (d_run acts)) with Some c => c | None => 200 end = peer_status acts.
Proof. exact C12_proofs.transparent_status_lemma. Qed.

(* all 32 combinations: the writer handed to the handler offers exactly the optional interfaces of the
   underlying one, each forwarding to the same interface of the underlying writer *)
Theorem delegator_table_complete : forall has : iface -> bool,
  exists l, offered has = Some l /\
            (forall i, In i (map fst l) <-> has i = true) /\
            (forall p, In p l -> fst p = snd p) /\
            length l = length (filter has all_ifaces).
Proof. exact C12_proofs.delegator_table_complete_lemma. Qed.

(* vectors with other free labels are refused at construction *)
Theorem free_labels_refused : forall free,
  (check_labels free = None <-> exists n, In n free /\ n <> s_code /\ n <> s_method) /\
  (forall c m, check_labels free = Some (c, m) -> (c = true <-> In s_code free) /\ (m = true <-> In s_method free)).
Proof. exact C12_proofs.check_labels_spec_lemma. Qed.

(* stacked middlewares with code/method/context-derived labels: every request is counted exactly once by each
   middleware, under the label tuple derived from that request and that middleware's own layout; what the other
   middlewares of the stack are does not matter *)
Theorem stacked_counted_once : forall lay extra qs,
  total_count (children lay extra qs) = Z.of_nat (List.length qs) /\
  (forall ls, lookup_child ls (children lay extra qs) =
              Z.of_nat (List.length (filter (fun q => labels_eqb (req_labels lay extra q) ls) qs))).
Proof. exact C12_proofs.stacked_counted_once_lemma. Qed.

Theorem stack_independent : forall lays extra qs n lay,
  nth_error lays n = Some lay -> nth_error (stack_children lays extra qs) n = Some (children lay extra qs).
Proof. exact C12_proofs.stack_independent_lemma. Qed.

(* non-vacuity: an informational header, an implicit 200 and a late explicit status *)
Example example_1xx_then_write :
  let acts := [AWriteHeader 103; AWrite 5 5; AWriteHeader 500; AReadFrom 7 3] in
  (peer_status acts, d_status (d_run acts), d_written (d_run acts), d_observed (d_run acts), d_fwd (d_run acts))
  = (200, 200, 8, [200], [103; 200; 500]).
Proof. vm_compute. reflexivity. Qed.
