(* Properties/C05.v -- C05: native histograms stay conservative under concurrency and limit enforcement.
   Statements only; proofs in Proofs/C05_proofs.v.  C05's concurrency is NOT modelled as a step machine: the
   harness (harness/cmd/c05) runs the real instrumented code under explored schedules and applies the executable
   checker Run/C05_run.v `scrape_ok bounds must may c` to every scrape (MUST = observations that returned
   before the scrape was invoked, MAY = observations invoked before it returned; final scrape MUST = MAY = all).
   What is PROVED here: (T1,T2) every exposition the proved sequential law of C04 allows is accepted by that
   checker with MUST = MAY = the observations made, for all Writes of C04's sequential model when no reset is
   configured; (T3) the sandwich is monotone, so approximating MUST from below / MAY from above (recorded
   timestamps) never rejects what the true sets accept; (T4) what a pass means, in Prop; (T5) the merges of the
   three limit strategies conserve populations and move every key to a bucket that still contains its values.
   What is NOT PROVED (tested_not_proved): the interleaving-level invariant `native_conc_inv` -- reset, widen
   and halve racing with observers and collectors keep every scrape inside the sandwich -- and the absence of
   deadlocks/panics; for the classic count/buckets of a histogram on which no maintenance fires the hot/cold
   protocol theorems of Properties/C02.v apply (scrape_consistent, scrape_real_time, write_no_deadlock_partial). *)
From Coq Require Import ZArith List Bool Sorted.
From Verif Require Import Base.F64 Base.Sx Model.ClassicHist Model.NativeHist Proofs.C04_keys Proofs.C04_proofs Proofs.C04_spec
     Run.C05_run Proofs.C05_proofs.
Import ListNotations.
Open Scope Z_scope.

(* T1: C04's exact sequential law (accounting_check, with a non-negative zero threshold, which every Write of
   the model has) and classic cumulative counts consistent with G imply the conservative checker with
   MUST = MAY = G.  (classic_consistent: bounds = [] or cum_i = #{v in G | v <= b_i}.) *)
Theorem accounting_implies_conservative : forall bounds G e cum,
  accounting_check G e = true -> fle pzero (e_zt e) = true -> classic_consistent bounds G cum ->
  scrape_ok bounds G G (mkC e cum) = true.
Proof. exact C05_proofs.accounting_implies_conservative_lemma. Qed.

(* T2 (partial): no reset configured (NativeHistogramMinResetDuration = 0), every valid configuration and
   every sequence of Observe / ObserveWithExemplar / Write / Advance / FireTimer of C04's sequential model,
   limit strategies (widen, halve) firing: the model never hangs, and every Write -- up to the first INEXACT
   widening (C04's known finding subnormal-widen; b = true: there was none and l lists all Writes of `run`) --
   exposes something the checker accepts with MUST = MAY = ALL observations made before it
   (conservative_write p seen: the spans/deltas decode to e and scrape_ok bounds seen seen (mkC e cum) = true
   for every consistent classic part). *)
Theorem sequential_scrapes_conservative_partial : forall g ops, valid_config g -> g_min_reset g = 0 ->
  exists l b, run_ghost (new_hist g) [] ops = Some (l, b) /\
    (b = true -> run g ops = Some (map fst l)) /\
    Forall2 conservative_write l (firstn (length l) (seen_at_writes [] ops)).
Proof. exact C05_proofs.sequential_scrapes_conservative_partial_lemma. Qed.

(* without a reset the ghost G of C04 is all observations made so far (used by T2) *)
Theorem no_reset_keeps_everything : forall ops h G l b, g_min_reset (h_cfg h) = 0 -> h_sched h = false ->
  run_ghost h G ops = Some (l, b) ->
  Forall2 (fun p s => snd p = s) l (firstn (length l) (seen_at_writes G ops)).
Proof. exact C05_proofs.ghost_all_noreset. Qed.

(* T3: soundness of the real-time sandwich.  submset A B: A ++ extra is a permutation of B.  Shrinking MUST or
   enlarging MAY never turns a pass into a fail; equivalently a FAIL reported with the driver's sets
   (MUST under-approximated, MAY over-approximated by recorded timestamps) is a FAIL with the true sets. *)
Theorem sandwich_monotone : forall bounds must may must' may' c, scrape_ok bounds must may c = true ->
  submset must' must -> submset may may' -> scrape_ok bounds must' may' c = true.
Proof. exact C05_proofs.sandwich_monotone_lemma. Qed.

(* the sets `check` builds by filtering on timestamps: a weaker selection predicate gives a super-multiset *)
Theorem filter_gives_submset : forall (T : Type) (h : T -> f64) (f g : T -> bool),
  (forall o, f o = true -> g o = true) -> forall l, submset (map h (filter f l)) (map h (filter g l)).
Proof. exact (@C05_proofs.filter_submset). Qed.

(* T4: what a pass means: schema in range, populations non-negative with strictly increasing keys,
   count = zero count + populations + n with n between the NaN observations of MUST and MAY, count between
   |MUST| and |MAY|, zero count between the zeros of MUST and the within-threshold values of MAY, every
   population between the MUST values strictly in that bucket and the MAY values the bucket contains, and
   every non-NaN MUST value outside the zero threshold lies in a listed bucket of its sign with positive
   population that contains it at the exposed schema. *)
Theorem self_consistency_of_ok : forall bounds must may c, scrape_ok bounds must may c = true ->
  let e := x c in
  -4 <= e_schema e <= 8 /\
  (forall p, In p (e_pos e ++ e_neg e) -> 0 <= snd p) /\
  StronglySorted (fun p q => fst p < fst q) (e_pos e) /\ StronglySorted (fun p q => fst p < fst q) (e_neg e) /\
  (exists n, e_count e = e_zc e + zsum (map snd (e_pos e)) + zsum (map snd (e_neg e)) + n /\
             nan_count must <= n <= nan_count may) /\
  zlen must <= e_count e <= zlen may /\
  zero_values must <= e_zc e <= want_zero may (e_zt e) /\
  (forall neg p, In p (if neg : bool then e_neg e else e_pos e) ->
     key_count_strict must (e_schema e) (e_zt e) (fst p) neg <= snd p <= key_count may (e_schema e) (fst p) neg) /\
  (forall v, In v must -> is_nan v = false -> in_zero (e_zt e) v = false ->
     exists p, In p (if signbit v then e_neg e else e_pos e) /\ 0 < snd p /\
               in_key (e_schema e) (fst p) (signbit v) v = true).
Proof. exact C05_proofs.self_consistency_of_ok_lemma. Qed.

(* T5: conservation by the re-aggregation functions (sequential facts about the model's functions) *)
(* doubleBucketWidth: totals conserved; source key k lands at halve k *)
Theorem halve_merge_conserves : forall cm hm bn,
  zsum (map snd (fst (double_merge cm hm bn))) = zsum (map snd hm) + zsum (map snd cm) /\
  (forall lo k', sorted_from hm lo ->
     m_get (fst (double_merge cm hm bn)) k' = m_get hm k' + sumif (fun k => Z.eqb (halve k) k') cm).
Proof. exact C05_proofs.halve_merge_conserves_lemma. Qed.

(* ... and bucket halve k of schema s-1 contains every value bucket k of schema s contains (C04 key_halving) *)
Theorem halve_merge_contains : forall s k neg v, -3 <= s <= 8 ->
  in_key s k neg v = true -> in_key (s - 1) (halve k) neg v = true.
Proof. exact C05_proofs.halve_merge_contains_lemma. Qed.

(* maybeWidenZeroBucket: zero bucket + regular buckets conserved, the drained map is left all-zero *)
Theorem widen_merge_conserves : forall sk cm hm hzb hbn cb c' hm' hzb' hbn' cb',
  widen_merge sk cm hm hzb hbn cb = (c', hm', hzb', hbn', cb') ->
  hzb' + zsum (map snd hm') = hzb + zsum (map snd hm) + zsum (map snd cm) /\ zsum (map snd c') = 0.
Proof. exact C05_proofs.widen_merge_conserves_lemma. Qed.

(* addAndResetCounts: count, zero bucket and sum move from the drained set to the hot one *)
Theorem add_and_reset_conserves : forall hot cold,
  let (h', c') := add_and_reset_counts hot cold in
  c_cnt h' + c_cnt c' = c_cnt hot + c_cnt cold /\ c_zb h' + c_zb c' = c_zb hot + c_zb cold /\
  c_sum h' = fadd (c_sum hot) (c_sum cold) /\ c_sum c' = pzero /\ c_cnt c' = 0 /\ c_zb c' = 0 /\
  c_pos h' = c_pos hot /\ c_neg h' = c_neg hot /\ c_pos c' = c_pos cold /\ c_neg c' = c_neg cold /\
  c_schema h' = c_schema hot /\ c_zt h' = c_zt hot /\ c_schema c' = c_schema cold /\ c_zt c' = c_zt cold.
Proof. exact C05_proofs.add_and_reset_conserves_lemma. Qed.

(* two cases of a real concurrent run (two observers, one scraper; with classic buckets) are accepted *)
Example real_run_accepted : check ex_case1 = 0 /\ check ex_case2 = 0.
Proof. exact C05_proofs.real_run_accepted_lemma. Qed.

(* a value counted in a bucket that does not contain it is rejected; in its own bucket it is accepted *)
Example wrong_bucket_rejected :
  scrape_ok [] [ex_three] [ex_three] (ex_expo 5) = false /\ scrape_ok [] [ex_three] [ex_three] (ex_expo 2) = true.
Proof. exact C05_proofs.wrong_bucket_rejected_lemma. Qed.

(* ====================================================================================================== *)
(* Concurrency, ALL schedules (Model/NativeConc.v; proofs in Proofs/C05_conc_inv.v, C05_hom.v, C05_conc.v)   *)
(* ====================================================================================================== *)
(* Setting: zmachine = the native-only histogram of histogram.go as a Base.Conc step machine with integer counters:
   threads run Observe v (any float: NaN, +-0, +-Inf, ...), Write, and -- for the reset strategy -- NFire (the timer
   goroutine: run one pending time.AfterFunc callback, i.e. the scheduled reset(), if there is one) and NAdvance d (the
   injected clock h.now moves on by d ns); one machine step per sync/atomic operation, mutex operation, sync.Map
   operation or Gosched, in the order the code performs them; limitBuckets under h.mtx with maybeReset
   (MinResetDuration > 0: reset now if due -- resetCounts(cold), repeat the observation into it, SwapUint64 of
   countAndHotIdx, cool-down wait, resetCounts(formerly hot), lastResetTime -- else schedule reset() once), the
   zero-bucket widening and the bucket-width doubling (flip, cool-down wait, addAndResetCounts, per-bucket merge into
   the hot counts); the timer's reset() (lock, resetCounts(cold), swap, cool-down, resetCounts, unlock); Write's flip,
   cool-down, reads, addAndResetCounts and deferred merge.
   Every theorem quantifies over ALL configurations g (schema, thresholds, bucket limit, MinResetDuration), ALL
   program lists progs (any number of threads, any calls, any values, any clock advances and timer polls) and ALL
   schedules sched; c is the configuration reached.  Theorems that carry the hypothesis g_min_reset g = 0 speak of the
   histogram without reset (the reset code is then never entered, C05_conc.NoR_reachable); the others hold with resets.
   NOT modelled / NOT proved here: classic buckets (C02), exemplars, real time (the clock is an oracle the program
   moves); see the `_partial` names and checks/C05.json. *)
From Verif Require Import Base.Conc Model.NativeConc Proofs.C05_conc Proofs.C05_cont Proofs.C05_rt.

(* (a) Every completed Write -- with or without resets racing with it -- is self-consistent and no Write panics: no population is negative, bucket keys are
   strictly increasing, and the sample count is the zero bucket plus all positive and negative populations plus a
   non-negative remainder nan_count E (the NaN observations counted: E is a list of no_count values whose non-NaN
   members are exactly as many as zero bucket + populations). *)
Theorem native_conc_scrape_consistent : forall (g : NativeHist.config) (progs : list (list nop)) (sched : list Z),
  let c := run_sched zmachine (init_config zmachine (ninit Z 0 g) progs) sched in
  forall k, In k (Conc.hist c) ->
    c_ret k <> NPanic Z /\
    forall o, c_ret k = NOut Z o ->
      (forall p, In p (no_pos Z o ++ no_neg Z o) -> 0 <= snd p) /\ 0 <= no_zc Z o /\
      keys_increasing (no_pos Z o) = true /\ keys_increasing (no_neg Z o) = true /\
      exists E : list f64, no_count Z o = zlen E /\
        no_zc Z o + zsum (map snd (no_pos Z o)) + zsum (map snd (no_neg Z o)) + nan_count E = no_count Z o.
Proof. exact C05_conc.writes_ok_Z. Qed.

(* (b, partial) Conservation at quiescence, no reset configured: once every call of every thread has returned -- whatever widenings,
   halvings and Writes raced with the observers -- the mutex is free, the ticket counter and the hot count are the
   number N of Observe calls of the program, the hot set satisfies count = zero bucket + populations + NaN with
   non-negative populations and increasing keys, and the cold set is drained (count 0, zero bucket 0, every
   remaining cold bucket 0): nothing was lost or duplicated, so the next Write (which flips, finds the cool-down
   satisfied at once and reads this set) reports exactly N.
   PARTIAL: containment (each observation in a bucket that contains it at the exposed schema and threshold) is
   not proved for the concurrent machine; it is proved for the sequential model (C04, T2 above) and tested. *)
Theorem native_conc_quiescent_accounts_partial : forall (g : NativeHist.config) (progs : list (list nop)) (sched : list Z),
  g_min_reset g = 0 ->
  let c := run_sched zmachine (init_config zmachine (ninit Z 0 g) progs) sched in
  all_done zmachine c = true ->
  let N := C05_conc.nobs_progs progs in
  let h := sh c in let hot := nget Z h (nh_hot Z h) in let cold := nget Z h (negb (nh_hot Z h)) in
  nh_mtx Z h = false /\ nh_tk Z h = N /\ ns_cnt Z hot = N /\
  (forall p, In p (ns_pos Z hot ++ ns_neg Z hot) -> 0 <= snd p) /\ 0 <= ns_zb Z hot /\
  keys_increasing (ns_pos Z hot) = true /\ keys_increasing (ns_neg Z hot) = true /\
  (exists E : list f64, zlen E = N /\
     ns_zb Z hot + zsum (map snd (ns_pos Z hot)) + zsum (map snd (ns_neg Z hot)) + nan_count E = N) /\
  ns_cnt Z cold = 0 /\ ns_zb Z cold = 0 /\ (forall p, In p (ns_pos Z cold ++ ns_neg Z cold) -> snd p = 0).
Proof. exact C05_conc.quiescent_Z. Qed.

(* (b-reset) Conservation RELATIVE TO THE LAST COMPLETED RESET, for every MinResetDuration.  Ldg = the ledger of the
   run (Model/NativeConc.v `ledger`): the values of the Observe calls that took their ticket after the last executed
   SwapUint64 of a reset; a maybeReset swap opens the new ledger with the value of the call that triggered it (the code
   repeats that observation into the new hot set).  In EVERY reachable configuration the ticket counter is |Ldg| ... *)
Theorem native_conc_tickets_since_reset : forall (g : NativeHist.config) (progs : list (list nop)) (sched : list Z),
  let c := run_sched zmachine (init_config zmachine (ninit Z 0 g) progs) sched in
  nh_tk Z (sh c) = zlen (ledger Z 0 Z.add (fun _ => 1) (fun x => x) (init_config zmachine (ninit Z 0 g) progs) sched []).
Proof. exact C05_conc.tickets_since_reset_Z. Qed.

(* ... and once every call has returned (resets, widenings, halvings and Writes having raced with the observers in any
   way) the mutex is free, the hot count is N = |Ldg| = the number of Observe calls ticketed after the last reset swap,
   the hot set satisfies count = zero bucket + populations + NaN with non-negative populations and increasing keys, and
   the cold set is drained: nothing ticketed after the last reset was lost or duplicated, nothing older survived.
   PARTIAL: only the NUMBER of counted values is tied to the ledger, not the values themselves (for MinResetDuration = 0
   the values are: native_conc_quiescent_values_partial). *)
Theorem native_conc_quiescent_since_reset_partial : forall (g : NativeHist.config) (progs : list (list nop)) (sched : list Z),
  let c := run_sched zmachine (init_config zmachine (ninit Z 0 g) progs) sched in
  all_done zmachine c = true ->
  let N := zlen (ledger Z 0 Z.add (fun _ => 1) (fun x => x) (init_config zmachine (ninit Z 0 g) progs) sched []) in
  let h := sh c in let hot := nget Z h (nh_hot Z h) in let cold := nget Z h (negb (nh_hot Z h)) in
  nh_mtx Z h = false /\ nh_tk Z h = N /\ ns_cnt Z hot = N /\
  (forall p, In p (ns_pos Z hot ++ ns_neg Z hot) -> 0 <= snd p) /\ 0 <= ns_zb Z hot /\
  keys_increasing (ns_pos Z hot) = true /\ keys_increasing (ns_neg Z hot) = true /\
  (exists E : list f64, zlen E = N /\
     ns_zb Z hot + zsum (map snd (ns_pos Z hot)) + zsum (map snd (ns_neg Z hot)) + nan_count E = N) /\
  ns_cnt Z cold = 0 /\ ns_zb Z cold = 0 /\ (forall p, In p (ns_pos Z cold ++ ns_neg Z cold) -> snd p = 0).
Proof. exact C05_conc.quiescent_since_reset_Z. Qed.

(* (c) No reachable configuration (resets included) is a deadlock: whenever some call is unfinished some thread can take a step (the
   only blocking operation is Mutex.Lock on a held mutex, and a held mutex has exactly one holder, which is never
   blocked) ... *)
Theorem native_conc_no_deadlock : forall (g : NativeHist.config) (progs : list (list nop)) (sched : list Z),
  let c := run_sched zmachine (init_config zmachine (ninit Z 0 g) progs) sched in
  all_done zmachine c = false -> exists tid, sched_step zmachine c tid <> None.
Proof. exact C05_conc.no_deadlock_Z. Qed.

(* ... and the cool-down spin (waitForCooldown in Write, maybeWidenZeroBucket and doubleBucketWidth) exits as soon as
   no observer is left in flight on the cold set (such observers are never blocked; that the scheduler runs them is a
   fairness assumption): stated on lmachine, the machine whose counters carry the observed values and of which
   zmachine is the image under `length` (Proofs/C05_hom.v); F cold T = number of threads of T between their ticket
   and their count increment on set `cold`. *)
Theorem native_conc_spin_exits_partial : forall (g : NativeHist.config) (progs : list (list nop)) (sched : list Z),
  let c := run_sched lmachine (init_config lmachine (C05_conc.linit g) progs) sched in
  forall i t o k cold count inv, nth_error (thr c) i = Some t -> t_cur t = Some (o, xCool (list f64) k cold count, inv) ->
  C05_conc.F cold (thr c) = 0 -> Z.of_nat (length (ns_cnt (list f64) (nget (list f64) (sh c) cold))) = count.
Proof. exact C05_conc.spin_exits_L. Qed.

(* the same for the cool-down of a reset (after its swap, on the formerly hot set) *)
Theorem native_conc_reset_spin_exits_partial : forall (g : NativeHist.config) (progs : list (list nop)) (sched : list Z),
  let c := run_sched lmachine (init_config lmachine (C05_conc.linit g) progs) sched in
  forall i t o rk cold count inv, nth_error (thr c) i = Some t -> t_cur t = Some (o, rCool (list f64) rk cold count, inv) ->
  C05_conc.F cold (thr c) = 0 -> Z.of_nat (length (ns_cnt (list f64) (nget (list f64) (sh c) cold))) = count.
Proof. exact C05_conc.rspin_exits_L. Qed.

(* zmachine is the image of lmachine: same programs, same schedule, counters replaced by their lengths *)
Theorem native_conc_machines_agree : forall (g : NativeHist.config) (progs : list (list nop)) (sched : list Z),
  run_sched zmachine (init_config zmachine (ninit Z 0 g) progs) sched =
  C05_conc.zcfg (run_sched lmachine (init_config lmachine (C05_conc.linit g) progs) sched).
Proof. exact C05_conc.zrun. Qed.

(* (b') No reset configured: at quiescence the histogram accounts for every observation ever made, by VALUE: the sample count is the
   number of Observe calls of the program and zero bucket + all populations is the number of its non-NaN
   observations (AV = the values of all Observe calls of the program; on lmachine the hot set's counter IS a
   permutation of AV, C05_conc.quiescent_values_L).  Which bucket each value sits in is the part not proved. *)
Theorem native_conc_quiescent_values_partial : forall (g : NativeHist.config) (progs : list (list nop)) (sched : list Z),
  g_min_reset g = 0 ->
  let c := run_sched zmachine (init_config zmachine (ninit Z 0 g) progs) sched in
  all_done zmachine c = true ->
  let h := sh c in let hot := nget Z h (nh_hot Z h) in
  let AV := C05_conc.obs_vals (concat progs) in
  ns_cnt Z hot = zlen AV /\
  ns_zb Z hot + zsum (map snd (ns_pos Z hot)) + zsum (map snd (ns_neg Z hot)) + nan_count AV = zlen AV.
Proof. exact C05_conc.quiescent_values_Z. Qed.

(* ---------------- containment under concurrency (Proofs/C05_cont.v) ---------------- *)
(* (b'') Quiescence, with containment, no reset configured: once every call has returned, the integer state of the code's machine is the
   length-image (C05_conc.zsh) of a value-carrying state hl whose hot set satisfies: its counter is a permutation of
   AV = the values of all Observe calls; its zero bucket and its buckets together hold exactly the non-NaN values of
   AV; and every value held by bucket k of either sign lies in bucket k at the exposed schema (C05_run.in_key: C04's
   exact boundaries, sign, not +-0).  So every observation ever made is NaN, or counted in the zero bucket, or counted in
   an exposed bucket whose range contains it.
   PARTIAL: for the values counted in the ZERO bucket nothing is claimed about the exposed zero threshold (they were
   within the threshold in force when they were classified, or came from buckets absorbed by a widening; that
   getLe's float equals the absorbed bucket's exact bound is C04's widen_exact, false for subnormal bounds: the
   known finding subnormal-widen); and, as in the checker, a regular bucket may hold values that a LATER wider
   threshold also covers. *)
Theorem native_conc_quiescent_contained_partial : forall (g : NativeHist.config) (progs : list (list nop)) (sched : list Z),
  valid_config g -> g_min_reset g = 0 ->
  let c := run_sched zmachine (init_config zmachine (ninit Z 0 g) progs) sched in
  all_done zmachine c = true ->
  exists hl : nsh (list f64), sh c = C05_conc.zsh hl /\
    let hot := nget (list f64) hl (nh_hot (list f64) hl) in let AV := C05_conc.obs_vals (concat progs) in
    Permutation.Permutation (ns_cnt (list f64) hot) AV /\
    Permutation.Permutation (ns_zb (list f64) hot ++ C05_conc_inv.allc (ns_pos (list f64) hot) ++ C05_conc_inv.allc (ns_neg (list f64) hot))
                            (C05_conc_inv.nn AV) /\
    forall sg k cell v, In (k, cell) (if sg : bool then ns_neg (list f64) hot else ns_pos (list f64) hot) -> In v cell ->
      in_key (ns_sch (list f64) hot) k sg v = true.
Proof. exact C05_cont.quiescent_contained_Z. Qed.

(* (b''-reset) With resets (any MinResetDuration): at quiescence the integer state is the length-image of a
   value-carrying state whose hot buckets contain their values at the exposed schema (a reset returns both sets to the
   configured schema and threshold).  PARTIAL as above (zero bucket), and which values these are is not stated. *)
Theorem native_conc_quiescent_contained_reset_partial : forall (g : NativeHist.config) (progs : list (list nop)) (sched : list Z),
  valid_config g ->
  let c := run_sched zmachine (init_config zmachine (ninit Z 0 g) progs) sched in
  all_done zmachine c = true ->
  exists hl : nsh (list f64), sh c = C05_conc.zsh hl /\
    let hot := nget (list f64) hl (nh_hot (list f64) hl) in
    forall sg k cell v, In (k, cell) (if sg : bool then ns_neg (list f64) hot else ns_pos (list f64) hot) -> In v cell ->
      in_key (ns_sch (list f64) hot) k sg v = true.
Proof. exact C05_cont.quiescent_contained_gen_Z. Qed.

(* (a') Every completed Write, racing or not, with or without resets: the exposition is the length-image (C05_conc.zout) of a value-carrying
   exposition ol that is self-consistent (good_out: its zero bucket and buckets hold exactly the non-NaN members of a
   list E of no_count values) and in which every value held by bucket k lies in bucket k at the exposed schema. *)
Theorem native_conc_scrape_contained_partial : forall (g : NativeHist.config) (progs : list (list nop)) (sched : list Z),
  valid_config g ->
  let c := run_sched zmachine (init_config zmachine (ninit Z 0 g) progs) sched in
  forall k o, In k (Conc.hist c) -> c_ret k = NOut Z o ->
  exists ol : nout (list f64), o = C05_conc.zout ol /\ C05_conc_inv.good_out ol /\
    forall sg kk cell v, In (kk, cell) (if sg : bool then no_neg (list f64) ol else no_pos (list f64) ol) -> In v cell ->
      in_key (no_sch (list f64) ol) kk sg v = true.
Proof. exact C05_cont.writes_contained_Z. Qed.

(* ---------------- the real-time sandwich under concurrency (Proofs/C05_rt.v) ---------------- *)
(* (d) On lmachine (the machine whose counters carry the observed values; zmachine is its image under `length`,
   native_conc_machines_agree), for ALL configurations, programs and schedules, in every reachable configuration c and
   for every completed Write w with exposition `out`: there is a list E of values such that
   - `out` describes E: sample count = |E|, zero bucket ++ all buckets = the non-NaN members of E (goodE);
   - MUST <= E: every value of an Observe call that had returned when w was invoked (Done: c_res <= c_inv w) is in E,
     with multiplicity (sub A B: A ++ extra is a permutation of B);
   - E <= MAY: E is contained in the values of the Observe calls invoked before w returned, finished (hist) or still
     running in some thread (Ub c (c_res w)).
   Multisets of VALUES (two calls observing the same value are not distinguished).  MinResetDuration = 0 (with a reset
   the lower bound is false by design: a reset forgets finished observations). *)
Theorem native_conc_real_time_sandwich : forall (g : NativeHist.config) (progs : list (list nop)) (sched : list Z),
  g_min_reset g = 0 ->
  let c := run_sched lmachine (init_config lmachine (C05_conc.linit g) progs) sched in
  forall w out, In w (Conc.hist c) -> c_ret w = NOut (list f64) out ->
  exists E : list f64, C05_rt.goodE out E /\
    C05_rt.sub (C05_rt.Done (Conc.hist c) (c_inv w)) E /\ C05_rt.sub E (C05_rt.Ub c (c_res w)).
Proof. exact C05_rt.rt_sandwich_L. Qed.

(* ... and once all calls have returned MAY is read off the history alone: the values of the Observe calls with
   c_inv < c_res w *)
Theorem native_conc_real_time_sandwich_done : forall (g : NativeHist.config) (progs : list (list nop)) (sched : list Z),
  g_min_reset g = 0 ->
  let c := run_sched lmachine (init_config lmachine (C05_conc.linit g) progs) sched in
  all_done lmachine c = true ->
  forall w out, In w (Conc.hist c) -> c_ret w = NOut (list f64) out ->
  exists E : list f64, C05_rt.goodE out E /\
    C05_rt.sub (C05_rt.Done (Conc.hist c) (c_inv w)) E /\ C05_rt.sub E (C05_rt.HVb (Conc.hist c) (c_res w)).
Proof. exact C05_rt.rt_sandwich_done_L. Qed.
