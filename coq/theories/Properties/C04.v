(* Properties/C04.v -- C04: native histogram buckets account for exactly the observations made.
   Statements only; proofs are in Proofs/C04_keys.v, C04_proofs.v, C04_law.v, C04_spec.v.  The boundary table
   (Gen/Gen_Bounds.v) is re-translated from prometheus/histogram.go on every run, so the table
   theorems are re-proved against what the code says now.
   Reading guide: Model/NativeHist.v Part 1 is the transcription of the Go code (the MODEL), Part 2
   the SPECIFICATION.  key_of = the bucket index computed by histogramCounts.observe; halve = the
   key rule of doubleBucketWidth; make_buckets/decode = span+delta encoding / its standard reading;
   run_ghost = the model run paired with G, the observations since the last reset. *)
From Coq Require Import ZArith List Bool Reals.
From Flocq Require Import Core.Core IEEE754.BinarySingleNaN.
From Verif Require Import Base.F64 Model.ClassicHist Model.NativeHist Proofs.C04_keys Proofs.C04_proofs
     Proofs.C04_law Proofs.C04_spec.
Import ListNotations.
Open Scope Z_scope.

(* ---------------- (1) the generated boundary table ---------------- *)
(* row s (schema s = 0..8) has 2^s entries and starts with 1/2 *)
Theorem bounds_len : forall s, 0 <= s <= 8 ->
  Z.of_nat (length (bounds_row s)) = 2 ^ s /\ nth_f (bounds_row s) 0 = half.
Proof. exact C04_keys.bounds_len_lemma. Qed.

(* every row is strictly increasing *)
Theorem bounds_sorted : forall s, 0 <= s <= 8 -> strictly_increasing_b (bounds_row s) = true.
Proof. exact C04_keys.bounds_sorted_lemma. Qed.

(* every entry is a finite float in [1/2, 1) *)
Theorem bounds_range : forall s, 0 <= s <= 8 ->
  forallb (fun b => fle half b && flt b fone && is_fin b) (bounds_row s) = true.
Proof. exact C04_keys.bounds_range_lemma. Qed.

(* rows are nested: entry i of row s is, bit for bit, entry 2i of row s+1 *)
Theorem bounds_nested : forall s i, 0 <= s <= 7 -> 0 <= i ->
  nth_f (bounds_row s) i = nth_f (bounds_row (s + 1)) (2 * i).
Proof. exact C04_keys.bounds_nested_lemma. Qed.

(* ---------------- (2) spans and deltas ---------------- *)
(* for every finite map with strictly increasing keys, what makeBuckets emits decodes to the map
   itself with gaps of one or two keys inside a span zero-filled (fill) ... *)
Theorem spans_decode : forall m : bmap, sorted_keys m ->
  decode (fst (make_buckets m)) (snd (make_buckets m)) = Some (fill m true 0).
Proof. exact C04_keys.spans_decode_lemma. Qed.

(* ... which denotes the same population at every key (0 where the map has none), *)
Theorem spans_decode_populations : forall (m : bmap) k, sorted_keys m -> m_get (fill m true 0) k = m_get m k.
Proof. exact C04_keys.fill_get. Qed.

(* has the same total, *)
Theorem spans_decode_total : forall (m : bmap) first lo, zsum (map snd (fill m first lo)) = zsum (map snd m).
Proof. exact C04_keys.fill_total. Qed.

(* and no negative population if the map has none *)
Theorem spans_decode_nonneg : forall (m : bmap) first lo, (forall p, In p m -> 0 <= snd p) ->
  forall p, In p (fill m first lo) -> 0 <= snd p.
Proof. exact C04_keys.fill_nonneg. Qed.

(* ---------------- (3) halving the resolution ---------------- *)
(* for every schema s in -3..8 and every float v other than NaN and +-0 (which never enter a sparse
   bucket), the bucket of v under schema s-1 is halve (bucket under s): the merge rule of
   doubleBucketWidth moves every observation to the bucket it belongs to (+-Inf included) *)
Theorem key_halving : forall s v, -3 <= s <= 8 -> is_nan v = false -> feq v pzero = false ->
  key_of (s - 1) v = halve (key_of s v).
Proof. exact C04_keys.key_halving_lemma. Qed.

(* halve is the ceiling of k/2 although written with Go's truncating division *)
Theorem halve_is_ceiling : forall k, halve k = (k + 1) / 2.
Proof. exact C04_keys.halve_ceil. Qed.

(* ---------------- (4) the key law ---------------- *)
(* math.Frexp of a finite non-zero magnitude x: x = frac * 2^exp exactly, frac a float in [1/2, 1) *)
Theorem frexp_range : forall x : f64, is_finite_strict x = true -> (0 < B2R x)%R ->
  let (fr, e) := frexp x in
  is_fin fr = true /\ fle half fr = true /\ flt fr fone = true /\ (B2R x = B2R fr * bpow radix2 e)%R.
Proof. exact C04_keys.frexp_range. Qed.

(* key_law: for every schema in [-4,8] and every float v other than NaN and +-0, with k = key_of s v
   (the index histogramCounts.observe computes): B(k-1) < |v| <= B(k) for finite v, where B is the
   EXACT dyadic boundary of the specification (exact_B: table_s[k mod 2^s] * 2^(k div 2^s + 1) for
   s > 0, the exact power of two 2^(k*2^-s) for s <= 0; comparison by dy_lt/dy_le on (mantissa,
   exponent) pairs), and k = max_key s + 1 (the bucket after the one holding MaxFloat64) for +-Inf.
   All finite values: normal, subnormal, MaxFloat64, every table boundary and its neighbours. *)
Theorem key_law : forall s v, -4 <= s <= 8 -> is_nan v = false -> feq v pzero = false ->
  let k := key_of s v in
  in_bucket s k (exact_B s (k - 1)) (exact_B s k) (fabs v) = true.
Proof. exact C04_law.key_law_lemma. Qed.

(* ... and no other bucket: the specification's bucket test holds for k iff key_of says k *)
Theorem key_law_unique : forall s k v, -4 <= s <= 8 -> is_nan v = false -> feq v pzero = false ->
  in_bucket s k (exact_B s (k - 1)) (exact_B s k) (fabs v) = Z.eqb (key_of s v) k.
Proof. exact C04_spec.in_bucket_key. Qed.

(* the dyadic comparison of the specification is the order of the reals m * 2^e *)
Theorem dy_cmp_is_real_order : forall a b : dy, 0 < fst a -> 0 < fst b ->
  dy_cmp a b = Rcompare (IZR (fst a) * bpow radix2 (snd a)) (IZR (fst b) * bpow radix2 (snd b)).
Proof. exact C04_law.dy_cmp_correct. Qed.

(* the boundaries strictly increase with the bucket index *)
Theorem boundaries_increase : forall s k, -4 <= s <= 8 ->
  (dy_val (exact_B s k) < dy_val (exact_B s (k + 1)))%R.
Proof. exact C04_spec.exact_B_step. Qed.

(* the table/shift level facts the key law rests on (kept as theorems of their own) *)
Theorem key_law_table_partial : forall s fr e, 0 <= s <= 8 -> fle half fr = true ->
  let n := 2 ^ s in
  let k := key_frac_exp s fr e in
  let p := k - (e - 1) * n in
  0 <= p <= n /\
  (p < n -> fle fr (nth_f (bounds_row s) p) = true /\ k mod n = p /\ k / n + 1 = e) /\
  (p = n -> k mod n = 0 /\ k / n + 1 = e + 1) /\
  (0 < p -> flt (nth_f (bounds_row s) (p - 1)) fr = true /\ (k - 1) mod n = p - 1 /\ (k - 1) / n + 1 = e) /\
  (p = 0 -> feq fr half = true /\ (k - 1) mod n = n - 1 /\ (k - 1) / n + 1 = e - 1).
Proof. exact C04_keys.key_law_table_partial. Qed.

(* key_law_partial (schemas -4..0): with w = 2^-s and |v| = 2^k0 exactly (frac = 1/2, k0 = exp-1) or
   2^(k0-1) < |v| < 2^k0 (k0 = exp): w*(k-1) < k0 <= w*k, i.e. 2^(w(k-1)) < |v| <= 2^(wk) *)
Theorem key_law_shift_partial : forall s fr e, -4 <= s <= 0 ->
  let w := 2 ^ (- s) in
  let k := key_frac_exp s fr e in
  let k0 := if feq fr half then e - 1 else e in
  w * (k - 1) < k0 <= w * k.
Proof. exact C04_keys.key_law_shift_partial. Qed.

(* ---------------- (5) accounting over all operation sequences ---------------- *)
(* native_accounting, no bucket limit configured: for every valid configuration and EVERY sequence
   of Observe / ObserveWithExemplar / Write / Advance / FireTimer the sequential model never hangs
   (waitForCooldown always returns) and every Write exposes, for G = all observations so far:
   count = |G|, zero count = #{v in G classified zero}, sum = left fold of +, and positive/negative
   spans+deltas that DECODE to populations p with p(k) = #{v in G on that side with key_of schema v = k},
   all >= 0, totals adding up; schema in [-4,8], zero threshold >= 0 (out_ok2). *)
Theorem native_accounting_nolimit : forall g ops, valid_config g -> g_max_buckets g = 0 ->
  exists l, run_ghost (new_hist g) [] ops = Some (l, true) /\ outs_ok g l /\ run g ops = Some (map fst l).
Proof. exact C04_proofs.native_accounting_nolimit_lemma. Qed.

(* native_accounting with the limit strategies (reset, widen zero bucket, halve resolution, timer
   reset) firing: same conclusion with G = the observations since the last reset, for every Write
   up to the first widening step that is not exact (widen_exact: the float threshold getLe produced
   separates G exactly as the merged bucket did).  Resets and halvings need no hypothesis (halving
   uses key_halving).  An inexact widening exists: widen_subnormal_refuted below. *)
Theorem native_accounting : forall g ops, valid_config g ->
  exists l b, run_ghost (new_hist g) [] ops = Some (l, b) /\ outs_ok g l.
Proof. exact C04_proofs.native_accounting_lemma. Qed.

(* what native_accounting establishes per Write (out_ok2: the code's own comparisons and key_of)
   IMPLIES the SPECIFICATION: accounting_check -- zero bucket = #{|v| <= z}, bucket k of either sign
   = #{B(k-1) < |v| <= B(k)} with exact boundaries, +-Inf after MaxFloat64's bucket, NaN in count and
   sum only, populations >= 0 with strictly increasing keys, totals + zero count + NaN = count, sum *)
Theorem out_ok_implies_spec : forall g G w, out_ok2 g G w ->
  exists x, expo_of_wout w = Some x /\ accounting_check G x = true.
Proof. exact C04_spec.out_ok_spec_lemma. Qed.

(* the two accounting theorems in the specification's terms *)
Theorem native_accounting_spec : forall g ops, valid_config g ->
  exists l b, run_ghost (new_hist g) [] ops = Some (l, b) /\ Forall spec_ok_out l.
Proof. exact C04_spec.native_accounting_spec_lemma. Qed.

Theorem native_accounting_nolimit_spec : forall g ops, valid_config g -> g_max_buckets g = 0 ->
  exists l, run_ghost (new_hist g) [] ops = Some (l, true) /\ Forall spec_ok_out l /\ run g ops = Some (map fst l).
Proof. exact C04_spec.native_accounting_nolimit_spec_lemma. Qed.

(* G is always a suffix of the observations made so far: a reset drops a prefix, nothing else is
   ever dropped, duplicated or reordered (with count = |G| this makes G the last `count` observations,
   which is how the correspondence checker reconstructs it) *)
Theorem ghost_is_suffix : forall ops h G seen l b, is_suffix G seen -> run_ghost h G ops = Some (l, b) ->
  Forall2 (fun p s => is_suffix (snd p) s) l (firstn (length l) (seen_at_writes seen ops)).
Proof. exact C04_spec.ghost_suffix_lemma. Qed.

(* the code's classification is the specification's: zero bucket iff |v| <= z; positive side iff
   not zero-bucket and sign bit clear (for every zero threshold z >= 0, +Inf included) *)
Theorem zero_bucket_is_abs_le : forall zt v, is_nan zt = false ->
  goes_zero zt v = negb (is_nan v) && in_zero zt v.
Proof. exact C04_spec.goes_zero_spec. Qed.

(* the ghost run is the run: when no inexact widening occurred the outputs are those of run *)
Theorem ghost_run_is_run : forall ops h G l, run_ghost h G ops = Some (l, true) -> run_ops h ops = Some (map fst l).
Proof. exact C04_proofs.run_ghost_outputs. Qed.

(* the decoded totals plus zero count plus NaN observations equal the sample count *)
Theorem classification_partition : forall zt G,
  cnt (goes_pos zt) G + cnt (goes_neg zt) G + cnt (goes_zero zt) G + cnt is_nan G = zlen G.
Proof. exact C04_proofs.cnt_partition. Qed.

(* a reset restarts from the configured schema and zero threshold, retaining only the observation
   that triggered it; the created timestamp becomes the current clock *)
Theorem reset_restarts : forall h G v h', inv2 h G -> observe_k h v = Some (h', SReset) ->
  inv2 h' [v] /\ c_schema (h_hot h') = g_schema (h_cfg h) /\ c_zt (h_hot h') = init_zt (h_cfg h) /\
  c_cnt (h_hot h') = 1 /\ h_last h' = h_clock h.
Proof. exact C04_proofs.reset_restarts_lemma. Qed.

(* the timer-driven reset retains nothing *)
Theorem timer_restarts : forall h G h', inv2 h G -> timer_reset h = Some h' ->
  inv2 h' [] /\ h_hot h' = reset_counts (h_cfg h) /\ h_last h' = h_clock h /\ h_sched h' = false.
Proof. exact C04_proofs.timer_restarts_lemma. Qed.

(* between resets the schema never increases (any Observe that does not reset) *)
Theorem schema_never_increases : forall h G v, inv2 h G ->
  match observe_k h v with
  | None => False
  | Some (h', k) => h_cfg h' = h_cfg h /\ after_kind k h h' (G ++ [v]) v (c_observe (h_hot h) v) /\
                    (k <> SReset -> c_schema (h_hot h') <= c_schema (h_hot h))
  end.
Proof. exact C04_proofs.observe_k_inv. Qed.

(* known finding subnormal-widen as a theorem about the faithful model: a concrete valid
   configuration and three operations for which the widening is inexact and the exposition
   (zero threshold bits 6 = 6*2^-1074, zero count 1, bucket -2142 population 1) is rejected by the
   specification's accounting_check *)
Theorem widen_subnormal_refuted :
  valid_config kf_cfg /\
  match run_ghost (new_hist kf_cfg) [] kf_ops with Some (l, b) => Some (length l, b) | None => None end = Some (0%nat, false) /\
  option_map (map (fun w => (to_bits (w_zt w), w_zc w, decode (w_pspans w) (w_pdeltas w),
                             match expo_of_wout w with Some x => Some (accounting_check kf_obs x) | None => None end)))
             (run kf_cfg kf_ops)
  = Some [(6, 1, Some [(-2142, 1)], Some false)].
Proof. exact C04_proofs.widen_subnormal_refuted_lemma. Qed.

(* the hypotheses are satisfiable and the model-level accounting agrees with the SPECIFICATION on a
   run that widens (exactly), halves three times, schedules and fires the timer *)
Example accounting_example :
  match run_ghost (new_hist ex_cfg) [] ex_ops with
  | Some (l, true) =>
      Some (map (fun p => (w_schema (fst p), w_count (fst p), w_created (fst p))) l,
            forallb (fun p => match expo_of_wout (fst p) with Some x => accounting_check (snd p) x | None => false end) l)
  | _ => None
  end = Some ([(2, 3, 0); (1, 6, 0); (-1, 8, 0); (2, 0, 2000)], true).
Proof. exact C04_proofs.accounting_example_lemma. Qed.

(* ---------------- (6) limit steps, exemplars ---------------- *)
(* whenever a non-NaN observation leaves more buckets populated than the configured limit, that
   very Observe has reset, widened, halved -- or found the resolution minimal (next theorem) *)
Theorem limit_step_taken : forall h v h' k, is_nan v = false -> observe_k h v = Some (h', k) ->
  0 < g_max_buckets (h_cfg h) -> g_max_buckets (h_cfg h) < c_bn (c_observe (h_hot h) v) -> k <> SNone.
Proof. exact C04_proofs.limit_step_taken_lemma. Qed.

Theorem limit_minimal : forall h v h', observe_k h v = Some (h', SMinimal) -> c_schema (h_cold h') = -4.
Proof. exact C04_proofs.limit_minimal_lemma. Qed.

(* exemplars, for every value of the math.Log oracle and every TTL (positive, zero, any negative) *)
Theorem exemplars_bounded : forall g l e o, zlen l <= ex_cap g -> zlen (add_exemplar g l e o) <= ex_cap g.
Proof. exact C04_proofs.exemplars_bounded_lemma. Qed.

Theorem exemplars_from_observations : forall g l e o x, In x (add_exemplar g l e o) -> x = e \/ In x l.
Proof. exact C04_proofs.exemplars_from_lemma. Qed.

Theorem exemplars_contain_latest : forall g l e o, ex_disabled g = false -> In e (add_exemplar g l e o).
Proof. exact C04_proofs.exemplars_latest_lemma. Qed.

Theorem exemplars_switched_off : forall g l e o, g_ex_max g < 0 -> add_exemplar g l e o = l.
Proof. exact C04_proofs.exemplars_disabled_lemma. Qed.

(* findSmallestKey returns MaxInt32 or a key of the map, and no key of the map is smaller *)
Theorem smallest_key_is_min : forall m : bmap,
  (forall p, In p m -> find_smallest_key m <= fst p) /\
  (find_smallest_key m = max_int32 \/ exists p, In p m /\ find_smallest_key m = fst p).
Proof. exact C04_spec.smallest_key_lemma. Qed.

(* schema_in_range: pickSchema's switch yields a schema in [-4,8] for every non-NaN value of
   floor(log2(log2 factor)) (the libm value is an input; every factor > 1 gives a non-NaN one) *)
Theorem schema_in_range : forall fl : f64, is_nan fl = false -> -4 <= pick_schema_of_floor fl <= 8.
Proof. exact C04_spec.schema_in_range_lemma. Qed.

(* exemplars_sorted: for every oracle value and every TTL, inserting a non-NaN exemplar into a
   value-sorted list of non-NaN exemplars leaves it value-sorted *)
Theorem exemplars_sorted : forall g l e o, ex_sorted l = true -> vnn l -> is_nan (fst e) = false ->
  ex_sorted (add_exemplar g l e o) = true.
Proof. exact C04_spec.exemplars_sorted_lemma. Qed.

(* the exemplar clauses over whole runs: for every configuration (every limit, every TTL), every
   operation sequence and every value of the math.Log oracle, each Write exposes native exemplars
   that satisfy the SPECIFICATION's exemplars_check against exs = the exemplar-carrying non-NaN
   observations made so far: none if the maximum is negative, else at most the configured number
   (10 for 0), sorted by value, each one of exs, the most recent of exs among them *)
Theorem exemplars_over_runs : forall ops h exs g, ex_inv h exs -> h_cfg h = g ->
  match run_exs h exs ops with
  | Some l => Forall (fun p => exemplars_check g (snd p) (w_ex (fst p)) = true) l
  | None => True
  end.
Proof. exact C04_spec.exemplars_run_lemma. Qed.

Theorem exemplars_initially : forall g, ex_inv (new_hist g) [].
Proof. exact C04_spec.ex_inv_new. Qed.
