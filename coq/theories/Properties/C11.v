(* Properties/C11.v -- the metrics handler serves exactly what was gathered, in the negotiated encoding.
   Only statements; proofs are in Proofs/C11_proofs.v.  The model (Model/Handler.v) transcribes
   header.ParseAccept, httputil.NegotiateContentEncoding, negotiateEncodingWriter and the request
   function of HandlerForTransactional; the executable specification is Part 5 of that file. *)
From Coq Require Import ZArith List Bool Strings.String.
From Verif Require Import Base.F64 Base.Str Model.Handler Proofs.C11_proofs.
Import ListNotations.
Open Scope Z_scope.

(* For every gather outcome, option set and header: a gather error is handled as the configured policy says.
   HTTPErrorOnError, and ContinueOnError with nothing gathered: 500, plain error text, no Content-Encoding,
   no metrics.  ContinueOnError with partial families: 200 with exactly those families.  PanicOnError: panic.
   The gathering counter moves by one and done() is called once in each case. *)
Theorem policy_table : forall (fam : Type) (i : hin fam),
  sem_admits (h_limit i) (h_inflight i) = true -> h_gerr i = true ->
  match h_policy i with
  | PHttpError => is_err500 fam (handle i)
  | PContinue =>
      match h_mfs i with
      | [] => is_err500 fam (handle i)
      | _ => o_status (handle i) = 200 /\ o_plain (handle i) = false /\ o_panic (handle i) = false /\
             o_encoded (handle i) = filter (fun f => negb (h_encfail i f)) (h_mfs i) /\
             o_gathering (handle i) = 1 /\ o_encoding (handle i) = spec_encoding_count fam i /\ o_done (handle i) = 1 /\
             (spec_encoding_count fam i = 0 -> o_encoded (handle i) = h_mfs i /\ o_closed (handle i) = true)
      end
  | PPanic => o_panic (handle i) = true /\ o_encoded (handle i) = [] /\ o_gathering (handle i) = 1 /\
              o_encoding (handle i) = 0 /\ o_done (handle i) = 1
  | POther => True
  end.
Proof. exact C11_proofs.policy_table_lemma. Qed.

(* done() and Gather() exactly once on every path behind the semaphore (error, panic, abort included);
   the gathering counter moves iff gathering failed *)
Theorem done_exactly_once : forall (fam : Type) (i : hin fam), sem_admits (h_limit i) (h_inflight i) = true ->
  o_done (handle i) = 1 /\ o_gathers (handle i) = 1 /\ o_gathering (handle i) = (if h_gerr i then 1 else 0).
Proof. exact C11_proofs.done_once_lemma. Qed.

(* the encoding counter moves once per Encode/Close call that fails *)
Theorem encoding_counter_per_failure : forall (fam : Type) (i : hin fam),
  sem_admits (h_limit i) (h_inflight i) = true -> stops fam i = false ->
  o_encoding (handle i) = spec_encoding_count fam i.
Proof. exact C11_proofs.encoding_count_lemma. Qed.

(* an excess request: 503, plain text, no gather, no done(), no counter *)
Theorem excess_request_503 : forall (fam : Type) (i : hin fam),
  sem_admits (h_limit i) (h_inflight i) = false -> handle i = out503.
Proof. exact C11_proofs.rejected_lemma. Qed.

(* byte level, for every list of Accept-Encoding header values and every offer list: the negotiated
   coding is "" (refused), "identity", or an offer with an effective entry (explicit entry, else wildcard) of quality > 0 *)
Theorem negotiated_coding_accepted_nonzero : forall (vals offers : list str),
  let c := negotiate_ce (parse_accept vals) offers in
  c = [] \/ c = s_identity \/ (In c offers /\ accepted_nonzero (parse_accept vals) c = true).
Proof. exact C11_proofs.parse_then_negotiate_lemma. Qed.

(* the inner loop of ParseAccept is modelled with fuel S(length s); no larger fuel changes the result,
   i.e. the loop always ends by itself (every continuing iteration consumes a byte) *)
Theorem parse_value_fuel_sufficient : forall (fuel : nat) (s : str), (S (List.length s) <= fuel)%nat ->
  parse_value fuel s = parse_value (S (List.length s)) s.
Proof. exact C11_proofs.parse_value_fuel_sufficient_lemma. Qed.

Theorem refused_coding_never_selected : forall (vals offers : list str) (c : str),
  c <> s_identity -> c <> [] -> accepted_nonzero (parse_accept vals) c = false ->
  negotiate_ce (parse_accept vals) offers <> c.
Proof. exact C11_proofs.refused_never_selected_lemma. Qed.

(* the Content-Encoding header of every response: absent, or gzip/zstd, offered, compression enabled,
   and accepted by the client with non-zero quality *)
Theorem chosen_encoding_accepted_nonzero : forall (fam : Type) (i : hin fam),
  cenc_allowed (h_disable i) (compressions (h_disable i) (h_offered i) (h_zstd i)) (parse_accept (h_ae i))
               (o_cenc (handle i)) = true.
Proof. exact C11_proofs.chosen_encoding_lemma. Qed.

(* none is declared when compression is disabled, when no supported offer is acceptable, or on an error response *)
Theorem no_encoding_when_disabled_or_failed : forall (fam : Type) (i : hin fam),
  (h_disable i = true \/
   (forall c, In c (compressions (h_disable i) (h_offered i) (h_zstd i)) -> c = s_gzip \/ c = s_zstd ->
              accepted_nonzero (parse_accept (h_ae i)) c = false) \/
   o_status (handle i) <> 200) ->
  o_cenc (handle i) = None.
Proof. exact C11_proofs.no_encoding_lemma. Qed.

(* the declared Content-Encoding and the writer actually used always agree *)
Theorem header_matches_writer : forall (fam : Type) (i : hin fam),
  (cenc_of fam i = None /\ writer_of fam i = CId) \/
  (cenc_of fam i = Some s_gzip /\ writer_of fam i = CGzip) \/
  (cenc_of fam i = Some s_zstd /\ writer_of fam i = CZstd /\ h_zstd i = ZOk).
Proof. exact C11_proofs.cenc_writer_agree. Qed.

(* relative to the codec hypotheses: undoing the declared Content-Encoding and decoding in the declared
   Content-Type gives back precisely the gathered families (all of them, in order) *)
Theorem body_is_encoding_of_gathered :
  forall (fam bytes : Type) (encode encode_open : str -> list fam -> bytes) (error_text : bytes)
         (gz zs ungz unzs : bytes -> bytes) (decode : str -> bytes -> list fam),
  (forall b, ungz (gz b) = b) -> (forall b, unzs (zs b) = b) -> (forall ct fs, decode ct (encode ct fs) = fs) ->
  forall i : hin fam, sem_admits (h_limit i) (h_inflight i) = true ->
  (h_gerr i = false \/ (h_policy i = PContinue /\ h_mfs i <> [])) ->
  (forall f, In f (h_mfs i) -> h_encfail i f = false) -> h_closefail i = false ->
  let o := handle i in
  o_status o = 200 /\ o_ctype o = Some (h_ct i) /\ o_panic o = false /\
  option_map (decode (h_ct i)) (unwrap ungz unzs (o_cenc o) (body encode encode_open error_text gz zs i o)) = Some (h_mfs i).
Proof. exact C11_proofs.body_lemma. Qed.

(* the model's answer passes the executable specification used by the correspondence runner, for every input *)
Theorem handle_satisfies_spec : forall (i : hin (Z * bool)) (trailer registry : bool),
  spec_ok i (obs_of i trailer registry (handle i)) = true.
Proof. exact C11_proofs.handle_satisfies_spec_lemma. Qed.

(* for every schedule of arrivals and exits (normal or by panic): at most MaxRequestsInFlight gathers at a time,
   the channel length equals the number of running gathers, every gather is matched by its done() *)
Theorem inflight_bounded : forall (limit : Z) (es : list ev), 0 < limit ->
  let m := sem_run limit es in
  running m <= limit /\ m_peak m <= limit /\ m_count m = running m /\ m_gathers m = m_dones m + running m.
Proof. exact C11_proofs.inflight_bounded_lemma. Qed.

Theorem excess_rejected : forall (limit : Z) (es : list ev) (t : Z), 0 < limit ->
  let m := sem_run limit es in
  tlookup t (m_threads m) = None ->
  let m' := sem_step limit m (Start t) in
  (running m = limit -> m_503 m' = m_503 m + 1 /\ m_gathers m' = m_gathers m /\ m_dones m' = m_dones m /\
                        tlookup t (m_threads m') = Some TRejected) /\
  (running m < limit -> m_503 m' = m_503 m /\ m_gathers m' = m_gathers m + 1 /\ tlookup t (m_threads m') = Some TRunning).
Proof. exact C11_proofs.excess_rejected_lemma. Qed.

Theorem no_limit_never_rejects : forall (limit : Z) (es : list ev), limit <= 0 -> m_503 (sem_run limit es) = 0.
Proof. exact C11_proofs.no_limit_never_rejects_lemma. Qed.

Theorem done_once_per_gather_at_rest : forall (limit : Z) (es : list ev), running (sem_run limit es) = 0 ->
  m_dones (sem_run limit es) = m_gathers (sem_run limit es) /\ m_count (sem_run limit es) = 0.
Proof. exact C11_proofs.quiescent_done_lemma. Qed.

(* the per-event answers of the semaphore machine (let in / 503) pass the schedule specification used by the runner *)
Theorem schedule_outcomes_satisfy_spec : forall (limit : Z) (es : list ev),
  spec_sched limit [] es (sem_outcomes limit sem0 es) = true.
Proof. exact C11_proofs.sched_spec_lemma. Qed.

(* the hypotheses are satisfiable: concrete negotiations, policy rows and a schedule *)
Example negotiation_examples :
  negotiate_ce (parse_accept (ex_hdr "gzip;q=0, *;q=0.5")) [s_gzip] = [] /\
  negotiate_ce (parse_accept (ex_hdr "gzip;q=0, *;q=0.5")) [s_gzip; s_zstd] = s_zstd /\
  negotiate_ce (parse_accept (ex_hdr "*;q=0.5, gzip;q=0")) [s_identity; s_gzip; s_zstd] = s_identity /\
  negotiate_ce (parse_accept (ex_hdr "gzip;q=0.5, zstd;q=0.5")) [s_identity; s_gzip; s_zstd] = s_gzip /\
  negotiate_ce (parse_accept (ex_hdr "*;q=0")) [s_identity; s_gzip] = [].
Proof. exact C11_proofs.ex_explicit_refusal_beats_wildcard. Qed.

Example policy_rows :
  o_status (handle (ex_in PHttpError "gzip" true [(0, false)])) = 500 /\
  o_cenc (handle (ex_in PHttpError "gzip" true [(0, false)])) = None /\
  o_status (handle (ex_in PContinue "gzip" true [(0, false)])) = 200 /\
  o_cenc (handle (ex_in PContinue "gzip" true [(0, false)])) = Some s_gzip /\
  o_encoded (handle (ex_in PContinue "zstd" false [(0, false); (1, true); (2, false)])) = [(0, false); (2, false)] /\
  o_encoding (handle (ex_in PContinue "zstd" false [(0, false); (1, true); (2, false)])) = 1 /\
  o_panic (handle (ex_in PPanic "" true [])) = true /\
  o_status (handle (mkIn PHttpError false [] [] ZOk [] [(0, false)] false (@snd Z bool) false 2 2)) = 503.
Proof. exact C11_proofs.ex_policy_rows. Qed.

Example schedule_example :
  let m := sem_run 2 [Start 1; Start 2; Start 3; End 1 false; Start 4; End 2 true; End 4 false] in
  sem_outcomes 2 sem0 [Start 1; Start 2; Start 3; End 1 false; Start 4; End 2 true; End 4 false] = [1; 1; 2; 0; 1; 0; 0] /\
  m_peak m = 2 /\ m_503 m = 1 /\ m_gathers m = 3 /\ m_dones m = 3 /\ running m = 0.
Proof. exact C11_proofs.ex_schedule. Qed.

(* Timeout x MaxRequestsInFlight: a request answered by the timeout 503 still holds its slot while its gather runs,
   so the next request is refused with the limit 503 (inflight_bounded covers every schedule with TimedOut events) *)
Example schedule_with_timeout_example :
  sem_outcomes 1 sem0 [Start 1; TimedOut 1; Start 2; End 1 false; Start 3; TimedOut 2; End 3 true] = [1; 3; 2; 0; 1; 0; 0] /\
  m_peak (sem_run 1 [Start 1; TimedOut 1; Start 2; End 1 false; Start 3; TimedOut 2; End 3 true]) = 1 /\
  m_503 (sem_run 1 [Start 1; TimedOut 1; Start 2; End 1 false; Start 3; TimedOut 2; End 3 true]) = 1.
Proof. exact C11_proofs.ex_schedule_timeout. Qed.
