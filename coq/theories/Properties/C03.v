(* Properties/C03.v -- C03: classic histogram buckets follow `le` semantics.
   Statements only; proofs are in Proofs/C03_proofs.v. *)
From Coq Require Import ZArith List Bool.
From Verif Require Import Base.F64 Gen.Gen_Consts Model.ClassicHist Proofs.C03_proofs.
Import ListNotations.
Open Scope Z_scope.

(* The bucket index chosen by findBucket (early exits, linear scan below the cutoff, binary
   search at or above it) is the number of bounds b with not (v <= b), for every float v
   (NaN, +-Inf, +-0 included) and every strictly increasing layout of any length. *)
Theorem find_bucket_spec : forall (bs : list f64) (v : f64),
  ClassicHist.strictly_increasing_b bs = true ->
  ClassicHist.find_bucket bs v = Z.of_nat (length (filter (fun b => negb (F64.fle v b)) bs)).
Proof. exact C03_proofs.find_bucket_spec_lemma. Qed.

(* Construction: empty means the default buckets; a layout that is not strictly increasing
   (this includes any NaN in a layout of two or more bounds) is rejected; a trailing +Inf is trimmed. *)
Theorem validate_spec : forall (bs : list f64),
  ClassicHist.validate_buckets bs =
  (let bs' := match bs with [] => ClassicHist.def_buckets | _ => bs end in
   if ClassicHist.strictly_increasing_b bs' then Some (ClassicHist.trim_inf bs') else None).
Proof. exact C03_proofs.validate_spec_lemma. Qed.

(* Main theorem: for every layout and every interleaving of Observe/Write, every Write exposes
   count = number of observations so far, sum = fold_left fadd obs +0 (bit-exact), and for every
   bound b the cumulative count = number of observations v with v <= b (Go's <=, so NaN is in
   no finite bucket); Write does not disturb the state seen by later Writes. *)
Theorem classic_le_semantics : forall (bounds : list f64) (ops : list ClassicHist.op),
  ClassicHist.run bounds ops = ClassicHist.spec_run bounds ops.
Proof. exact C03_proofs.classic_le_semantics_lemma. Qed.

(* Write is transparent: inserting one more Write after the prefix ops1 changes nothing but adds
   that Write's own output w at position k = (number of Writes in ops1): every other Write
   returns exactly what it returned without the extra Write, and construction fails in one run
   iff it fails in the other. *)
Theorem write_transparent : forall (bounds : list f64) (ops1 ops2 : list ClassicHist.op),
  match ClassicHist.run bounds (ops1 ++ ops2),
        ClassicHist.run bounds (ops1 ++ ClassicHist.OWrite :: ops2) with
  | Some a, Some b =>
      let k := length (filter (fun o => match o with
                                        | ClassicHist.OWrite => true
                                        | ClassicHist.OObs _ => false
                                        end) ops1) in
      exists w, b = firstn k a ++ w :: skipn k a
  | None, None => True
  | _, _ => False
  end.
Proof. exact C03_proofs.write_transparent_lemma. Qed.

(* Non-vacuity.  Outputs projected to (count, bits of sum, cumulative counts).
   3 bounds 1, 5, 10 (linear path); observations 5 (equal to a bound), 0.5, 7, Write,
   then NaN, +Inf, 10, Write. *)
Example example_small :
  option_map (map (fun w => (ClassicHist.w_count w, F64.to_bits (ClassicHist.w_sum w),
                             map snd (ClassicHist.w_cum w))))
    (ClassicHist.run [F64.of_Z 1; F64.of_Z 5; F64.of_Z 10]
         [ClassicHist.OObs (F64.of_Z 5); ClassicHist.OObs (F64.of_ZE 1 (-1));
          ClassicHist.OObs (F64.of_Z 7); ClassicHist.OWrite;
          ClassicHist.OObs F64.fnan; ClassicHist.OObs F64.pinf;
          ClassicHist.OObs (F64.of_Z 10); ClassicHist.OWrite])
  = Some [ (3, 0x4029000000000000 (* 12.5 *), [1; 2; 3]);
           (6, 0x7FF8000000000001 (* NaN *),  [1; 2; 4]) ].
Proof. exact C03_proofs.example_small_lemma. Qed.

(* 40 bounds 1..40 (binary-search path); observations 17 (equal to a bound), 17.5, +0,
   41 (above every bound), Write, then NaN, +Inf, Write. *)
Example example_large :
  option_map (map (fun w => (ClassicHist.w_count w, F64.to_bits (ClassicHist.w_sum w),
                             map snd (ClassicHist.w_cum w))))
    (ClassicHist.run (map (fun i => F64.of_Z (Z.of_nat i)) (seq 1 40))
         [ClassicHist.OObs (F64.of_Z 17); ClassicHist.OObs (F64.of_ZE 35 (-1));
          ClassicHist.OObs F64.pzero; ClassicHist.OObs (F64.of_Z 41); ClassicHist.OWrite;
          ClassicHist.OObs F64.fnan; ClassicHist.OObs F64.pinf; ClassicHist.OWrite])
  = Some [ (4, 0x4052E00000000000 (* 75.5 *), repeat 1 16 ++ [2] ++ repeat 3 23);
           (6, 0x7FF8000000000001 (* NaN *),  repeat 1 16 ++ [2] ++ repeat 3 23) ].
Proof. exact C03_proofs.example_large_lemma. Qed.

(* Construction: decreasing, equal and NaN-containing layouts are rejected; a trailing +Inf is
   trimmed (one bucket left); the default buckets of the Go source are accepted. *)
Example example_construct :
  ClassicHist.run [F64.of_Z 2; F64.of_Z 1] [ClassicHist.OWrite] = None /\
  ClassicHist.run [F64.of_Z 1; F64.of_Z 1] [ClassicHist.OWrite] = None /\
  ClassicHist.run [F64.of_Z 1; F64.fnan; F64.of_Z 2] [ClassicHist.OWrite] = None /\
  option_map (map (fun w => (ClassicHist.w_count w, map snd (ClassicHist.w_cum w))))
    (ClassicHist.run [F64.of_Z 1; F64.pinf]
       [ClassicHist.OObs (F64.of_Z 1); ClassicHist.OObs (F64.of_Z 2); ClassicHist.OWrite])
    = Some [(2, [1])] /\
  ClassicHist.run [] [] = Some [].
Proof. exact C03_proofs.example_construct_lemma. Qed.
