(* Properties/C20.v -- Remote-write delivers each message intact and retries only retryable failures.
   Only statements; proofs are in Proofs/C20_proofs.v.  Model: Model/RemoteWrite.v (transcribed from
   exp/api/remote/remote_api.go, remote_headers.go and the vendored backoff package).

   Conventions of the client theorems: [script] lists, per attempt, what the server / network did
   (OTransport = connection failure, OBodyErr, OResp = status + statistics headers + Retry-After) and when
   the context was cancelled; [jit] is the random jitter of the backoff (any non-negative values);
   m = write cfg ty k jit script is the model's run: w_reqs = the requests the server received in order,
   w_err / w_stats = Write's return values, w_delays = the delay slept before each retry.
   "seen" = map fst (firstn (length (w_reqs m)) script) = the server's answers to the received requests.
   MaxRetries semantics (backoff.go:53): > 0 bounds the number of retries, 0 means NO limit, < 0 no retry. *)
From Coq Require Import Strings.String.
From Coq Require Import ZArith List Bool Permutation.
From Verif Require Import Base.Str Model.RemoteWrite Proofs.C20_proofs.
Import ListNotations.
Open Scope string_scope.
Open Scope list_scope.
Open Scope Z_scope.

(* ---------- client: retries ---------- *)

(* an answer is followed by another request only if it was retryable: a transport error, a 5xx, or - when
   enabled - a 429 (spec_retryable); every other answer ends the call *)
Theorem retry_only_retryable :
  forall cfg ty k jit script t,
    0 <= c_min cfg -> (forall n, 0 <= jit n) -> validate ty = Some t -> marshals k = true ->
    forall i o c, nth_error script i = Some (o, c) ->
      (S i < length (w_reqs (write cfg ty k jit script)))%nat -> spec_retryable cfg o = true.
Proof. exact C20_proofs.retry_only_retryable_lemma. Qed.

(* ... in particular any other 4xx (and 3xx, 429 with the option off, unreadable bodies) is never retried:
   the request that got such an answer is the last one *)
Theorem never_retries_terminal :
  forall cfg ty k jit script t,
    0 <= c_min cfg -> (forall n, 0 <= jit n) -> validate ty = Some t -> marshals k = true ->
    forall i o c, nth_error script i = Some (o, c) ->
      (i < length (w_reqs (write cfg ty k jit script)))%nat -> spec_retryable cfg o = false ->
      length (w_reqs (write cfg ty k jit script)) = S i.
Proof. exact C20_proofs.never_retries_terminal_lemma. Qed.

(* ... and every retryable answer - in particular EVERY transport error, whatever its error value (timeouts and errors
   wrapping context.DeadlineExceeded / context.Canceled included) - IS retried while the caller's own context is alive:
   with no cancellation in the script the call stops after a retryable answer only when the retries are used up
   (then more than MaxRetries requests were made) or the script has no further entry *)
Theorem retries_while_alive :
  forall cfg ty k jit script t,
    0 <= c_min cfg -> (forall n, 0 <= jit n) -> validate ty = Some t -> marshals k = true ->
    cancel_bound script = None ->
    forall last tl,
      rev (map fst (firstn (length (w_reqs (write cfg ty k jit script))) script)) = last :: tl ->
      spec_retryable cfg last = true ->
      (c_max_retries cfg = 0 \/ Z.of_nat (length (w_reqs (write cfg ty k jit script))) <= c_max_retries cfg) ->
      length (w_reqs (write cfg ty k jit script)) = length script.
Proof. exact C20_proofs.retries_while_alive_lemma. Qed.

(* at most MaxRetries retries (MaxRetries + 1 requests) when MaxRetries > 0; none when it is negative *)
Theorem at_most_max_retries :
  forall cfg ty k jit script t,
    0 <= c_min cfg -> (forall n, 0 <= jit n) -> validate ty = Some t -> marshals k = true ->
    (0 < c_max_retries cfg -> Z.of_nat (length (w_reqs (write cfg ty k jit script))) <= c_max_retries cfg + 1) /\
    (c_max_retries cfg < 0 -> (length (w_reqs (write cfg ty k jit script)) <= 1)%nat).
Proof. exact C20_proofs.at_most_max_retries_lemma. Qed.

(* MaxRetries = 0 is "no limit": n retryable answers in a row are all retried, for every n *)
Theorem max_retries_zero_unbounded :
  forall cfg t jit n b acc, c_max_retries cfg = 0 ->
    length (w_reqs (write_loop cfg t jit (repeat (r503, CNone) n ++ [(r200, CNone)]) b acc false)) = S n.
Proof. exact C20_proofs.loop_unbounded. Qed.

(* request i carries the headers of the message type and Retry-Attempt = i exactly when i > 0
   (mk_request t i: Content-Type / version by type, Content-Encoding snappy, q_retry = Some (decimal i) iff 0 < i) *)
Theorem retry_attempt_header :
  forall cfg ty k jit script t,
    0 <= c_min cfg -> (forall n, 0 <= jit n) -> validate ty = Some t -> marshals k = true ->
    w_reqs (write cfg ty k jit script) = map (mk_request t) (zseq 0 (length (w_reqs (write cfg ty k jit script)))).
Proof. exact C20_proofs.retry_attempt_header_lemma. Qed.

(* Write returns nil only if the last answer was a 2xx; for v2 messages only if that answer carried a
   written-statistics header or the accumulated statistics are non-zero *)
Theorem nil_only_after_2xx :
  forall cfg ty k jit script t,
    0 <= c_min cfg -> (forall n, 0 <= jit n) -> validate ty = Some t -> marshals k = true ->
    w_err (write cfg ty k jit script) = WNil ->
    exists last tl,
      rev (map fst (firstn (length (w_reqs (write cfg ty k jit script))) script)) = last :: tl /\
      is_2xx last = true /\
      (t = V2 -> has_stat_header last = true \/ no_data_written (w_stats (write cfg ty k jit script)) = false).
Proof. exact C20_proofs.nil_only_after_2xx_lemma. Qed.

(* the statistics returned are the sum of the statistics headers of all answers seen (v2; zero for v1) -
   except when the context is cancelled during a backoff wait, where the code returns empty statistics *)
Theorem stats_accumulate :
  forall cfg ty k jit script t,
    0 <= c_min cfg -> (forall n, 0 <= jit n) -> validate ty = Some t -> marshals k = true ->
    w_err (write cfg ty k jit script) <> WCanceled ->
    triple (w_stats (write cfg ty k jit script)) =
    sum3 (map (spec_stats_of t) (map fst (firstn (length (w_reqs (write cfg ty k jit script))) script))).
Proof. exact C20_proofs.stats_accumulate_lemma. Qed.

(* every delay before a retry is at least the Retry-After of the answer that caused it *)
Theorem retry_after_honoured :
  forall cfg ty k jit script t,
    0 <= c_min cfg -> (forall n, 0 <= jit n) -> validate ty = Some t -> marshals k = true ->
    gaps_ok (w_delays (write cfg ty k jit script))
            (map fst (firstn (length (w_reqs (write cfg ty k jit script))) script)) = true.
Proof. exact C20_proofs.retry_after_honoured_lemma. Qed.

(* nothing is sent after the context was cancelled (cancel_bound: j requests if cancelled before attempt j,
   j+1 if cancelled while or after attempt j was answered) *)
Theorem no_send_after_cancel :
  forall cfg ty k jit script t,
    0 <= c_min cfg -> (forall n, 0 <= jit n) -> validate ty = Some t -> marshals k = true ->
    match cancel_bound script with
    | Some j => (length (w_reqs (write cfg ty k jit script)) <= j)%nat
    | None => True
    end.
Proof. exact C20_proofs.no_send_after_cancel_lemma. Qed.

(* the executable checker applied to the real code's observables by the harness accepts every run of the model *)
Theorem write_model_satisfies_spec :
  forall cfg ty k jit script t,
    0 <= c_min cfg -> (forall n, 0 <= jit n) -> validate ty = Some t -> marshals k = true ->
    w_err (write cfg ty k jit script) <> WExhausted ->
    spec_write_ok cfg ty k script (obs_of (write cfg ty k jit script)) = true.
Proof. exact C20_proofs.write_model_satisfies_spec_lemma. Qed.

(* what a pass of that checker on OBSERVED values means: every received body decoded to the message of the call with
   the headers of its type and attempt number, only retryable answers were followed by another request, the retry
   budget was respected, and nil was returned only after a 2xx *)
Theorem spec_write_ok_meaning :
  forall cfg ty k script ob t,
    validate ty = Some t -> marshals k = true -> spec_write_ok cfg ty k script ob = true ->
    let seen := map fst (firstn (length (ob_reqs ob)) script) in
    (forall j q, nth_error (ob_reqs ob) j = Some q ->
       oq_body_ok q = true /\ spec_headers_ok t (Z.of_nat j) (oq q) = true) /\
    (forall i o, nth_error seen i = Some o -> (S i < length seen)%nat -> spec_retryable cfg o = true) /\
    (0 < c_max_retries cfg -> Z.of_nat (length (ob_reqs ob)) <= c_max_retries cfg + 1) /\
    (ob_err ob = WNil -> exists last tl, rev seen = last :: tl /\ is_2xx last = true).
Proof. exact C20_proofs.spec_write_ok_meaning_lemma. Qed.

(* ---------- client: options ---------- *)

(* NewAPI's configuration depends only on the SET of options, not on the order they are passed in (as long as
   WithAPIBackoff is not given twice with different configurations) ... *)
Theorem options_order_insensitive :
  forall l l', Permutation l l' -> one_backoff l -> apply_options l = apply_options l'.
Proof. exact C20_proofs.options_order_insensitive_lemma. Qed.

(* ... in particular disabling retry-on-429 survives a backoff option given before or after it *)
Theorem options_meaning :
  forall mn mx mr,
  apply_options [] = default_cfg /\
  apply_options [ONoRetry429] = mkCfg (c_min default_cfg) (c_max default_cfg) (c_max_retries default_cfg) false /\
  apply_options [OBackoff mn mx mr] = mkCfg mn mx mr true /\
  apply_options [ONoRetry429; OBackoff mn mx mr] = mkCfg mn mx mr false /\
  apply_options [OBackoff mn mx mr; ONoRetry429] = mkCfg mn mx mr false.
Proof. exact C20_proofs.options_meaning_lemma. Qed.

(* ---------- client: pooled buffers ---------- *)

(* for any number of calls, any interleaving at the granularity Get / marshal / compress / send / Put, and any
   choice sync.Pool.Get makes: every body put on the wire by call t is the compression of the encoding of the
   message of call t *)
Theorem payload_intact :
  forall (msg : Type) (enc : msg -> str) (compress : str -> str) (max_enc_len : nat -> nat) (cap0 : nat)
         (msg_of : nat -> msg) (path_of : nat -> mpath) (early_of : nat -> bool) (sched : list (nat * nat)) t bs,
    In (t, bs) (p_wire (prun msg enc compress max_enc_len cap0 msg_of path_of early_of (init cap0) sched)) ->
    bs = compress (enc (msg_of t)).
Proof. exact C20_proofs.payload_intact_lemma. Qed.

(* a buffer referenced by a call is not in the pool and is referenced by no other call *)
Theorem buffer_single_owner :
  forall (msg : Type) (enc : msg -> str) (compress : str -> str) (max_enc_len : nat -> nat) (cap0 : nat)
         (msg_of : nat -> msg) (path_of : nat -> mpath) (early_of : nat -> bool) (sched : list (nat * nat)) t id,
    let st := prun msg enc compress max_enc_len cap0 msg_of path_of early_of (init cap0) sched in
    holds st t id -> ~ In id (p_pool st) /\ forall t', holds st t' id -> t' = t.
Proof. exact C20_proofs.buffer_single_owner_lemma. Qed.

(* whatever the two pooled buffers held before (b1, b2), each of the three marshalling paths followed by
   compressPayload produces exactly compress(encoding) *)
Theorem payload_intact_sequential :
  forall (compress : str -> str) (max_enc_len : nat -> nat) (p : mpath) (data : str) (b1 b2 : buffer),
    let buf := marshal_into p data b1 in
    let cb := compress_into compress max_enc_len (bytes buf) b2 in
    bytes buf = data /\ firstn (snd cb) (b_arr (fst cb)) = compress data.
Proof. exact C20_proofs.payload_intact_sequential_lemma. Qed.

(* ---------- handler ---------- *)

(* the decision table: encoding other than snappy/absent -> 415; undecodable body -> 400; method other than POST
   -> 405; Content-Type not parsable -> 415; message type not accepted -> 415; otherwise the store gets the parsed
   type and the decompressed payload, the three written-statistics headers are set (zero if the store returned no
   response), and the status is 204 or - on a store error - the store's status (500 if it set none) *)
Theorem handler_decision_table :
  forall decode accepted sb r,
  (enc_ok r = false -> serve decode accepted sb r = HOut 415 None None) /\
  (enc_ok r = true -> read_body decode r = None -> serve decode accepted sb r = HOut 400 None None) /\
  (forall d, enc_ok r = true -> read_body decode r = Some d -> str_eqb (h_method r) post = false ->
     serve decode accepted sb r = HOut 405 None None) /\
  (forall d, enc_ok r = true -> read_body decode r = Some d -> str_eqb (h_method r) post = true ->
     parse_proto_msg (eff_ctype r) = None -> serve decode accepted sb r = HOut 415 None None) /\
  (forall d t, enc_ok r = true -> read_body decode r = Some d -> str_eqb (h_method r) post = true ->
     parse_proto_msg (eff_ctype r) = Some t -> existsb (mtype_eqb t) accepted = false ->
     serve decode accepted sb r = HOut 415 None None) /\
  (forall d t, enc_ok r = true -> read_body decode r = Some d -> str_eqb (h_method r) post = true ->
     parse_proto_msg (eff_ctype r) = Some t -> existsb (mtype_eqb t) accepted = true ->
     serve decode accepted sb r = HOut (store_status sb) (Some (store_written sb)) (Some (t, d))).
Proof. exact C20_proofs.handler_decision_table_lemma. Qed.

(* for every Content-Type built from the RFC 9110 grammar (tokens, optional whitespace around ";", non-empty
   parameters) ParseProtoMsg returns what the grammar says: media type application/x-protobuf, first "proto"
   parameter names a known message, none means v1 *)
Theorem content_type_params_parsed :
  forall a, wf_ast a -> parse_proto_msg (render a) = ct_spec a.
Proof. exact C20_proofs.content_type_params_parsed_lemma. Qed.

(* the handler satisfies the checker the harness applies to the real handler *)
Theorem handler_satisfies_spec :
  forall decode accepted sb r ast,
    match ast with Some a => wf_ast a /\ render a = h_ctype r | None => True end ->
    handler_spec_ok decode accepted sb r ast (serve decode accepted sb r) = true.
Proof. exact C20_proofs.handler_satisfies_spec_lemma. Qed.

(* relative to a correct codec (decode (encode x) = Some x): the store receives exactly the payload *)
Theorem handler_passes_decompressed_payload :
  forall (encode : str -> str) (decode : str -> option str),
    (forall x, decode (encode x) = Some x) ->
    forall accepted sb ctype cenc payload t,
      is_empty cenc || str_eqb cenc snappy_name = true ->
      parse_proto_msg (if is_empty ctype then app_proto else ctype) = Some t ->
      existsb (mtype_eqb t) accepted = true ->
      serve decode accepted sb (mkHReq post ctype cenc (encode payload) false) =
      HOut (store_status sb) (Some (store_written sb)) (Some (t, payload)).
Proof. exact C20_proofs.handler_passes_decompressed_payload_lemma. Qed.

(* a store that returns (nil, err) is answered 500 with zero statistics headers, (nil, nil) 204
   (the handler used to dereference the nil response; fixed in /repo) *)
Theorem handler_nil_store_response :
  forall decode accepted r d t err,
    enc_ok r = true -> read_body decode r = Some d -> str_eqb (h_method r) post = true ->
    parse_proto_msg (eff_ctype r) = Some t -> existsb (mtype_eqb t) accepted = true ->
    serve decode accepted (mkSB true 0 0 0 0 err) r = HOut (if err then 500 else 204) (Some (0, 0, 0)) (Some (t, d)).
Proof. exact C20_proofs.handler_nil_store_response_lemma. Qed.

(* ---------- the hypotheses are satisfiable; the model computes ---------- *)
Example write_example :
  let m := write ex_cfg v2_name MVt (fun _ => 0) ex_script in
  w_err m = WNil /\ triple (w_stats m) = (7, 1, 0) /\ length (w_reqs m) = 4%nat /\
  map q_retry (w_reqs m) = [None; Some (of_string "1"); Some (of_string "2"); Some (of_string "3")] /\
  w_delays m = [1000 + 1000000000; 2000; 4000] /\
  spec_write_ok ex_cfg v2_name MVt ex_script (obs_of m) = true.
Proof. exact C20_proofs.write_example. Qed.

Example wf_ast_example :
  let a := mkAst [32] app_proto
                 [mkParam [] [32] (of_string "charset") (of_string "utf-8");
                  mkParam [32] [9] (of_string "proto") v2_name] [] in
  wf_ast a /\ parse_proto_msg (render a) = Some V2.
Proof. exact C20_proofs.wf_ast_example. Qed.
