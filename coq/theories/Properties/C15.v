(* Properties/C15.v -- A push delivers exactly the gathered metrics under exactly the configured key.
   Only theorem statements; proofs are in Proofs/C15_proofs.v; model and specification in Model/Push.v.

   Vocabulary (defined in Proofs/C15_proofs.v):
     bytes s          every element of s is a byte value 0..255
     name_ok n        n is non-empty and consists of [A-Za-z0-9_:] bytes
     groupings_ok ops every Grouping(n, v) call in ops has name_ok n, n <> "job", bytes v
     observe host o   what a peer sees of an outcome (request target = URL minus scheme://authority)
     run_calls p cs   outcomes of a sequence of calls, each with its own iteration order of the grouping map
     calls_ok ..      the specification checker spec_call_ok of Model/Push.v on every call of a sequence
   Go map iteration order is unspecified: `order` is universally quantified (any permutation of the map).

   KNOWN FINDINGS (known_findings.txt): label names outside [A-Za-z0-9_:] that are valid UTF-8 are accepted
   and inserted unescaped (label-name-slash); Grouping("job", v) is accepted (grouping-job).  Both are stated
   below as *_refuted theorems with their witnesses; push_path_roundtrip therefore carries groupings_ok.

   Tested by the harness only (checks/C15.json): the body bytes (expfmt encoding), net/http's handling of the
   URL and headers, Registerer/Gatherer behaviour (inputs of the model). *)
From Coq Require Import Strings.String.
From Coq Require Import ZArith List Bool Permutation.
From Verif Require Import Base.Str Model.Push Proofs.C15_proofs.
Import ListNotations.
Open Scope Z_scope.

(* ---- the codec ---- *)

(* percent-encoding as done by encodeComponent (QueryEscape, then "+" -> "%20") is undone by percent-decoding *)
Theorem pct_roundtrip : forall s, bytes s -> pct_decode (replace_plus (query_escape s)) = Some s.
Proof. exact C15_proofs.pct_roundtrip_lemma. Qed.

(* base64.RawURLEncoding is undone by the gateway's decodeBase64, for every byte string of any length *)
Theorem b64url_roundtrip : forall s, bytes s -> b64url_decode (b64url_encode s) = Some s.
Proof. exact C15_proofs.b64url_roundtrip_lemma. Qed.

(* encodeComponent: the result decodes (by the rule its flag selects) to the input, is non-empty,
   contains no '/', and in the base64 case no '%' *)
Theorem encode_component_roundtrip : forall s, bytes s ->
  let (e, b) := encode_component s in
  (if b then b64url_decode e else pct_decode e) = Some s /\
  e <> [] /\ Forall (fun x => x <> 47) e /\ (b = true -> Forall (fun x => x <> 37) e).
Proof. exact C15_proofs.encode_component_lemma. Qed.

(* ---- the key ---- *)

(* for every job, every sequence of builder calls without a recorded error, and every iteration order of the
   grouping map: the path decodes by the Pushgateway rules to exactly the job and the grouping labels in that
   order; each label name occurs once, none is "job", and the value of a label is that of its last Grouping call;
   every name given to Grouping is present *)
Theorem push_path_roundtrip : forall url job ops pre order,
  let p := run_builder (new url job) ops in
  p_err p = None -> bytes job -> groupings_ok ops -> Permutation order (p_grouping p) ->
  decode_path pre (pre ++ s_metrics ++ key_path (p_job p) order) = Some (job, order) /\
  NoDup (map fst order) /\ ~ In s_job (map fst order) /\
  (forall n v, In (n, v) order <-> spec_lookup n ops = Some v) /\
  (forall n, In n (spec_names ops) -> In n (map fst order)).
Proof. exact C15_proofs.push_path_roundtrip_lemma. Qed.

(* label-name-slash (known finding): without the hypothesis on label names the clause is false *)
Theorem push_path_roundtrip_label_name_refuted :
  exists job n v,
    let ops := [BGrouping n v] in
    let p := run_builder (new (of_string "h") job) ops in
    label_name_valid n = true /\ p_err p = None /\
    decode_path [] (url_path (full_url_with p (p_grouping p))) = None /\
    spec_key_ok [] job ops (url_path (full_url_with p (p_grouping p))) = false.
Proof. exact C15_proofs.label_name_slash_refuted_lemma. Qed.

(* grouping-job (known finding): Grouping("job", v) is accepted and the key carries "job" twice *)
Theorem grouping_job_refuted :
  exists job v,
    let ops := [BGrouping s_job v] in
    let p := run_builder (new (of_string "h") job) ops in
    p_err p = None /\
    decode_path [] (url_path (full_url_with p (p_grouping p))) = Some (job, [(s_job, v)]) /\
    spec_key_ok [] job ops (url_path (full_url_with p (p_grouping p))) = false.
Proof. exact C15_proofs.grouping_job_refuted_lemma. Qed.

(* ---- errors of the builder ---- *)

(* the recorded error is the first failure among: empty job, invalid grouping label name, failed registration *)
Theorem builder_error_is_first : forall url job ops,
  p_err (run_builder (new url job) ops) = spec_first_error job ops.
Proof. exact C15_proofs.builder_error_is_first_lemma. Qed.

Theorem builder_failure_recorded : forall url job ops,
  (job = [] \/ (exists n v, In (BGrouping n v) ops /\ label_name_valid n = false) \/ In (BCollector true) ops) ->
  p_err (run_builder (new url job) ops) <> None.
Proof. exact C15_proofs.builder_failure_recorded_lemma. Qed.

(* the first error is sticky: after it, any interleaving of builder methods and Push/Add/Delete calls
   leaves it in place, and every call returns it and sends nothing *)
Theorem first_error_sticky : forall ops p e, p_err p = Some e ->
  p_err (fst (run p ops)) = Some e /\
  Forall (fun o => o_req o = None /\ o_err o = CBuilder e) (snd (run p ops)).
Proof. exact C15_proofs.first_error_sticky_lemma. Qed.

Theorem builder_failure_blocks_everything : forall url job ops later,
  spec_first_error job ops <> None ->
  let p := run_builder (new url job) ops in
  exists e, spec_first_error job ops = Some e /\ p_err (fst (run p later)) = Some e /\
            Forall (fun o => o_req o = None /\ o_err o = CBuilder e) (snd (run p later)).
Proof. exact C15_proofs.builder_failure_blocks_everything_lemma. Qed.

(* ---- one call ---- *)

(* nothing is sent (and an error is returned) if an error is recorded, gathering fails, or a gathered metric
   already carries a "job" label or a grouping label name *)
Theorem nothing_sent_when : forall p order c,
  (p_err p <> None \/
   (c_kind c <> KDelete /\
    (c_gather c = None \/
     exists fs, c_gather c = Some fs /\
                (has_label (fun n => str_eqb n s_job) fs = true \/
                 has_label (fun n => map_has n (p_grouping p)) fs = true)))) ->
  o_req (snd (do_call p order c)) = None /\ o_err (snd (do_call p order c)) <> CNone.
Proof. exact C15_proofs.nothing_sent_when_lemma. Qed.

(* PUT for Push, POST for Add, DELETE for Delete; the URL is fullURL; the body holds exactly the gathered families *)
Theorem method_per_call : forall p order c r, o_req (snd (do_call p order c)) = Some r ->
  r_method r = method_of (c_kind c) /\ r_url r = full_url_with p order /\
  r_fams r = match c_kind c with KDelete => None | _ => c_gather c end.
Proof. exact C15_proofs.method_per_call_lemma. Qed.

(* a transport error is returned; so is every response other than 200/202 (Delete: other than 202) *)
Theorem status_classification : forall p order c r, o_req (snd (do_call p order c)) = Some r ->
  o_err (snd (do_call p order c)) =
  match c_tr c with TFail => CTransport | TStatus s => spec_status_err (c_kind c) s end.
Proof. exact C15_proofs.status_classification_lemma. Qed.

Theorem status_ok_iff : forall k s,
  spec_status_err k s = CNone <-> (k = KDelete /\ s = 202) \/ (k <> KDelete /\ (s = 200 \/ s = 202)).
Proof. exact C15_proofs.spec_status_err_ok. Qed.

(* custom headers and basic auth are applied, Content-Type declares the configured format *)
Theorem headers_applied : forall p order c r, o_req (snd (do_call p order c)) = Some r ->
  (forall k vs, map_get k (match p_hdr p with Some h => h | None => [] end) = Some vs ->
                k <> s_content_type -> k <> s_authorization -> map_get k (r_hdr r) = Some vs) /\
  (forall u pw, p_auth p = Some (u, pw) -> map_get s_authorization (r_hdr r) = Some [basic_value u pw]) /\
  (c_kind c <> KDelete -> map_get s_content_type (r_hdr r) = Some [p_fmt p]).
Proof. exact C15_proofs.headers_applied_lemma. Qed.

(* ---- the model passes the specification checker the harness applies to the implementation ---- *)
(* for every URL, job, builder calls and every sequence of Push/Add/Delete calls with any gather results,
   server responses and transport failures (body decoding assumed: observe sets ob_body_ok) *)
Theorem model_satisfies_spec : forall host pre url job ops cs,
  let p := run_builder (new url job) ops in
  p_url p = host ++ pre -> bytes job -> groupings_ok ops ->
  Forall (fun oc => Permutation (fst oc) (p_grouping p)) cs ->
  calls_ok host pre job ops cs (run_calls p cs) = true.
Proof. exact C15_proofs.model_satisfies_spec_lemma. Qed.

(* the same over all HISTORIES of one Pusher: builder methods (Grouping with new or repeated names, Header,
   BasicAuth, Format, Collector, ...) and Push/Add/Delete calls in any interleaving.  Every call passes the
   checker given the builder calls made before it, so a Grouping between two requests is visible in the key of
   the second request; after every builder call the recorded error is the first failure so far.
   hist_wf: Grouping names over [A-Za-z0-9_:] and not "job", byte values, iteration orders are permutations. *)
Theorem history_satisfies_spec : forall host pre url job,
  p_url (new url job) = host ++ pre -> bytes job ->
  forall h, hist_wf (new url job) h ->
  hist_ok host pre job [] (new url job) h = true /\ hist_err_ok job [] (new url job) h = true.
Proof. exact C15_proofs.history_satisfies_spec_lemma. Qed.

(* ---- non-vacuity ---- *)
Example example_roundtrip :
  p_err ex_p = None /\
  full_url_with ex_p (p_grouping ex_p) =
    of_string "http://gw:9091/pre/metrics/job@base64/YSBiL2M/zone@base64/w6kv/empty@base64/=" /\
  decode_path (of_string "/pre") (url_path (full_url_with ex_p (p_grouping ex_p))) =
    Some (of_string "a b/c", [(of_string "zone", [195; 169; 47]); (of_string "empty", [])]) /\
  fst (encode_component (of_string "a b+c%?#;=.~")) = of_string "a%20b%2Bc%25%3F%23%3B%3D.~" /\
  basic_value (of_string "u") (of_string "p") = of_string "Basic dTpw".
Proof. exact C15_proofs.example_roundtrip_lemma. Qed.

Example example_calls :
  let cs := [(p_grouping ex_p, mkC KPush (Some [(of_string "m", [[(of_string "l", of_string "v")]])]) (TStatus 200));
             (rev (p_grouping ex_p), mkC KDelete None (TStatus 200));
             (p_grouping ex_p, mkC KAdd (Some [(of_string "m", [[(of_string "zone", of_string "v")]])]) (TStatus 202));
             (p_grouping ex_p, mkC KAdd None TFail)] in
  p_url ex_p = of_string "http://gw:9091" ++ of_string "/pre" /\
  bytesb (of_string "a b/c") = true /\
  map (fun o => (o_err o, match o_req o with Some r => r_method r | None => -1 end)) (run_calls ex_p cs) =
    [(CNone, 0); (CStatus 200, 2); (CGroupLabel, -1); (CGather, -1)] /\
  calls_ok (of_string "http://gw:9091") (of_string "/pre") (of_string "a b/c") ex_ops cs (run_calls ex_p cs) = true.
Proof. exact C15_proofs.example_calls_lemma. Qed.

Example example_sticky :
  let later := [OB (BGrouping (of_string "ok") []); OC (mkC KPush (Some []) (TStatus 200)); OB (BCollector true);
                OC (mkC KDelete None (TStatus 202))] in
  map o_err (snd (run (run_builder (new (of_string "h") (of_string "j")) [BGrouping [255] []; BCollector true]) later)) =
    [CBuilder (EBadName [255]); CBuilder (EBadName [255])].
Proof. exact C15_proofs.example_sticky_lemma. Qed.

Example example_history :
  let h := [HB (BGrouping (of_string "zone") (of_string "a")); HC [(of_string "zone", of_string "a")] (mkC KPush (Some []) (TStatus 200));
            HB (BGrouping (of_string "zone") (of_string "b/c")); HC [(of_string "zone", of_string "b/c")] (mkC KDelete None (TStatus 202))] in
  hist_ok (of_string "http://h") [] (of_string "j") [] (new (of_string "h") (of_string "j")) h = true /\
  map (fun o => match o_req o with Some r => url_path (r_url r) | None => [] end)
      (snd (run (new (of_string "h") (of_string "j"))
                [OB (BGrouping (of_string "zone") (of_string "a")); OC (mkC KPush (Some []) (TStatus 200));
                 OB (BGrouping (of_string "zone") (of_string "b/c")); OC (mkC KDelete None (TStatus 202))])) =
    [of_string "/metrics/job/j/zone/a"; of_string "/metrics/job/j/zone@base64/Yi9j"].
Proof. exact C15_proofs.example_history_lemma. Qed.

Example example_constants :
  s_job = of_string "job" /\ s_b64suffix = of_string "@base64" /\ s_metrics = of_string "/metrics/" /\
  s_scheme_sep = of_string "://" /\ s_http = of_string "http://" /\ s_basic = of_string "Basic " /\
  s_content_type = of_string "Content-Type" /\ s_authorization = of_string "Authorization".
Proof. exact C15_proofs.constants_lemma. Qed.
