(* Properties/C09.v -- Gather always returns a valid, consistent, complete-or-reported result.
   Only theorem statements; proofs are in Proofs/C09_proofs.v.  Model and specification: Model/Gather.v.
   [arr] is the list of metrics in the order in which the collect loop of Gather hands them to processMetric:
   the concurrent collection workers only decide this order, and the theorems hold for EVERY list. *)
From Coq Require Import ZArith List Bool Permutation.
From Verif Require Import Base.Str Model.Gather Proofs.C09_proofs.
Import ListNotations.
Open Scope Z_scope.

(* whatever is emitted, in whatever order: sorted unique names, type match, labels sorted/unique/valid/non-reserved/UTF-8,
   no own quantile/le, unique (name, labels, timestamp), no suffix collisions; and no empty family *)
Theorem gather_valid : forall (lg ped : bool) (ids : list Z) (arr : list emitted),
  names_ok arr ->
  valid_result lg (fst (gather lg ped ids arr)) = true /\ no_empty_family (fst (gather lg ped ids arr)) = true.
Proof. exact C09_proofs.gather_valid_lemma. Qed.

(* the emitted metrics split into accepted and rejected ones: the result holds exactly the accepted ones
   (each once, labels sorted), and there is one error per rejected one *)
Theorem gather_complete_or_reported : forall (lg ped : bool) (ids : list Z) (arr : list emitted),
  names_ok arr ->
  exists acc rej, Permutation arr (acc ++ rej) /\
    Permutation (all_metrics (fst (gather lg ped ids arr))) (map emitted_as acc) /\
    length rej = length (snd (gather lg ped ids arr)).
Proof. exact C09_proofs.gather_complete_lemma. Qed.

(* nil error: every emitted metric is present exactly once *)
Theorem gather_nil_error_all_present : forall (lg ped : bool) (ids : list Z) (arr : list emitted),
  names_ok arr -> snd (gather lg ped ids arr) = [] ->
  Permutation (all_metrics (fst (gather lg ped ids arr))) (map emitted_as arr).
Proof. exact C09_proofs.gather_all_present_lemma. Qed.
