(* Properties/C09.v -- Gather always returns a valid, consistent, complete-or-reported result.
   Only theorem statements; proofs are in Proofs/C09_proofs.v.  Model and specification: Model/Gather.v.

   [arr] is the list of metrics in the order in which the collect loop of Registry.Gather hands them to
   processMetric: the concurrent collection workers only decide this order, and the theorems quantify over
   EVERY list (any multiset of emitted metrics, any arrival order, any size).
   [names_ok arr]: a Desc without error carries a non-empty name (guaranteed by NewDesc; see checks/C09.json).
   [lg] selects model.LegacyValidation / UTF8Validation, [ped] the pedantic registry, [ids] its descIDs. *)
From Coq Require Import ZArith List Bool Permutation.
From Verif Require Import Base.Str Model.Gather Proofs.C09_proofs.
Import ListNotations.
Open Scope Z_scope.

(* whatever is emitted, in whatever order: families sorted by unique name, every metric matches its family's type,
   has sorted, unique, valid, non-reserved label names and UTF-8 values, no own quantile/le label, is unique by
   (name, label set, timestamp) across the result, no family collides with a derived series name; no empty family *)
Theorem gather_valid : forall (lg ped : bool) (ids : list Z) (arr : list emitted),
  names_ok arr ->
  valid_result lg (fst (gather lg ped ids arr)) = true /\ no_empty_family (fst (gather lg ped ids arr)) = true.
Proof. exact C09_proofs.gather_valid_lemma. Qed.

(* the boolean checkers valid_result / metric_ok (also applied to the implementation's output by the harness) in words *)
Theorem valid_result_meaning : forall lg fs, valid_result lg fs = true ->
  strictly_sorted (map f_name fs) = true /\ NoDup (map f_name fs) /\
  (forall f m, In f fs -> In m (f_metrics f) -> metric_ok lg (f_type f) m = true) /\
  NoDup (map series_of (all_metrics fs)) /\
  (forall f g, In f fs -> In g fs -> collides (f_name f) (f_type f) (f_name g) = false).
Proof. exact C09_proofs.valid_result_meaning_lemma. Qed.

Theorem metric_ok_meaning : forall lg ty m, metric_ok lg ty m = true ->
  type_matches ty m = true /\ strictly_sorted (map fst (d_labels m)) = true /\ NoDup (map fst (d_labels m)) /\
  (forall n v, In (n, v) (d_labels m) -> label_name_ok lg n = true /\ utf8_valid v = true) /\
  (ty = ty_summary -> ~ In quantile_label (map fst (d_labels m))) /\
  (ty = ty_histogram -> ~ In bucket_label (map fst (d_labels m))).
Proof. exact C09_proofs.metric_ok_meaning_lemma. Qed.

(* complete or reported: the emitted metrics split into accepted and rejected ones; the result holds exactly the
   accepted ones (each once, labels sorted), and the error list has one entry per rejected one *)
Theorem gather_complete_or_reported : forall (lg ped : bool) (ids : list Z) (arr : list emitted),
  names_ok arr ->
  exists acc rej, Permutation arr (acc ++ rej) /\
    Permutation (all_metrics (fst (gather lg ped ids arr))) (map emitted_as acc) /\
    length rej = length (snd (gather lg ped ids arr)).
Proof. exact C09_proofs.gather_complete_lemma. Qed.

(* the same statement through the boolean checker the harness applies to the implementation's output
   (multiset inclusion of the result in the emitted metrics, one error per missing metric) *)
Theorem gather_satisfies_checker : forall (lg ped : bool) (ids : list Z) (arr : list emitted),
  names_ok arr ->
  complete_or_reported arr (fst (gather lg ped ids arr)) (length (snd (gather lg ped ids arr))) = true.
Proof. exact C09_proofs.gather_checker_lemma. Qed.

(* nil error: every emitted metric is present exactly once *)
Theorem gather_nil_error_all_present : forall (lg ped : bool) (ids : list Z) (arr : list emitted),
  names_ok arr -> snd (gather lg ped ids arr) = [] ->
  Permutation (all_metrics (fst (gather lg ped ids arr))) (map emitted_as arr).
Proof. exact C09_proofs.gather_all_present_lemma. Qed.

(* order independence: two arrival orders of the same metrics that both report no error return the SAME slices:
   same families in the same order, same metrics in the same order inside every family (MetricSorter.Less is a strict
   total order on metrics with distinct (labels, timestamp), which gather_valid guarantees inside the result) *)
Theorem gather_order_independent : forall (lg ped : bool) (ids : list Z) (arr1 arr2 : list emitted),
  names_ok arr1 -> Permutation arr1 arr2 ->
  snd (gather lg ped ids arr1) = [] -> snd (gather lg ped ids arr2) = [] ->
  fst (gather lg ped ids arr1) = fst (gather lg ped ids arr2).
Proof. exact C09_proofs.gather_order_independent_exact_lemma. Qed.

(* inside every returned family (Registry.Gather and Gatherers.Gather) the metrics are sorted by (labels, timestamp),
   for every input and arrival order *)
Theorem gather_metrics_sorted : forall (lg ped : bool) (ids : list Z) (arr : list emitted),
  metrics_sorted (fst (gather lg ped ids arr)) = true.
Proof. exact C09_proofs.gather_sorted_lemma. Qed.

Theorem gatherers_metrics_sorted : forall (lg : bool) (gs : list (list family * list Z)),
  metrics_sorted (fst (gatherers_gather lg gs)) = true.
Proof. exact C09_proofs.gatherers_sorted_lemma. Qed.

(* MetricSorter.Less: transitive, asymmetric, and total up to equal (labels, timestamp) *)
Theorem metric_lt_strict_total_order :
  (forall a b c, metric_lt a b = true -> metric_lt b c = true -> metric_lt a c = true) /\
  (forall a b, metric_lt a b = true -> metric_lt b a = false) /\
  (forall a b, metric_lt a b = false -> metric_lt b a = false -> mkey a = mkey b).
Proof. exact (conj C09_proofs.metric_lt_trans (conj C09_proofs.metric_lt_asym C09_proofs.metric_lt_total)). Qed.

(* every returned family carries a valid metric name, given that Descs without error do (NewDesc's guarantee;
   a forged zero-value Desc breaks it: KNOWN finding forged-desc, stream known-forged-desc) *)
Theorem gather_family_names_valid : forall (lg ped : bool) (ids : list Z) (arr : list emitted),
  desc_names_valid lg arr -> family_names_ok lg (fst (gather lg ped ids arr)) = true.
Proof. exact C09_proofs.gather_names_valid_lemma. Qed.

(* REFUTED, strong reading of "whenever no error is reported the result is independent of the order": whether an error
   is reported at all can depend on the order (a dto.Metric with two payloads set); confirmed on the real code.
   KNOWN finding multi-payload-order (known_findings.txt), reproduced by stream known-multi-payload-order *)
Theorem nil_error_depends_on_order_refuted :
  exists lg ped ids arr1 arr2, names_ok arr1 /\ Permutation arr1 arr2 /\
    snd (gather lg ped ids arr1) = [] /\ snd (gather lg ped ids arr2) <> [].
Proof. exact C09_proofs.nil_error_depends_on_order_refuted_lemma. Qed.

(* Gatherers: merging any answers whose families are named and typed 0..4 (e.g. Registry.Gather results) is valid *)
Theorem gatherers_valid : forall (lg : bool) (gs : list (list family * list Z)),
  gs_wf gs ->
  valid_result lg (fst (gatherers_gather lg gs)) = true /\ no_empty_family (fst (gatherers_gather lg gs)) = true.
Proof. exact C09_proofs.gatherers_valid_lemma. Qed.

(* Gatherers: first occurrence wins -- every family (with its help and type) and metric merged from the first
   gatherers gs1 is in the final result whatever the later gatherers gs2 answer *)
Theorem gatherers_first_wins : forall (lg : bool) (gs1 gs2 : list (list family * list Z)) (g : family) (m : dmetric),
  In g (fst (fst (merge_gatherers lg gs1 ([], [])))) -> In m (f_metrics g) ->
  exists f, In f (fst (gatherers_gather lg (gs1 ++ gs2))) /\ hdr3 f = hdr3 g /\ In m (f_metrics f).
Proof. exact C09_proofs.gatherers_first_wins_lemma. Qed.

(* the hypotheses are satisfiable and the model computes: {a="1"}, {b="1"}, {a="1"} again -> the duplicate is reported *)
Example gather_example :
  names_ok (map ex_e [ex_a; ex_b; ex_a]) /\
  gather false false [] (map ex_e [ex_a; ex_b; ex_a]) = ([mkF [109] [104] ty_gauge [ex_a; ex_b]], [e_dup_metric]).
Proof. exact C09_proofs.gather_example_lemma. Qed.

(* well-behaved metrics (valid Desc, successful Write, well-formed labels, one help and one leading payload type per
   name, pairwise distinct fingerprints, no suffix collision between the names, on a pedantic registry consistent with a
   registered descriptor -- all true of the built-in metric types registered under non-conflicting names) are all
   present, each exactly once, with a nil error, in every arrival order *)
Theorem gather_wellbehaved_all_present : forall (lg ped : bool) (ids : list Z) (arr : list emitted),
  wellbehaved lg ped ids arr ->
  snd (gather lg ped ids arr) = [] /\
  Permutation (all_metrics (fst (gather lg ped ids arr))) (map emitted_as arr).
Proof. exact C09_proofs.gather_wellbehaved_lemma. Qed.

Example wellbehaved_example : wellbehaved false false [] (map ex_e [ex_a; ex_b]).
Proof. exact C09_proofs.wellbehaved_example_lemma. Qed.
