(* Properties/C08.v -- Registration enforces descriptor uniqueness and consistency, atomically.
   Only statements; proofs are in Proofs/C08_proofs.v.  Model and specification: Model/Registry.v.

   Reading guide.  [run hash ops] is the transcription of Registry.Register/Unregister
   (prometheus/registry.go:270-400) over descriptors built by the transcription of NewDesc / wrapDesc
   (prometheus/desc.go:92-172, prometheus/wrap.go:229-260); [hash] stands for xxhash.  [spec_run],
   [spec_check] are the set-based specification written from the property text (no hashes).
   Hypotheses of the main theorems:
     - descriptors are what the Go constructors can build ([built], or the weaker [ops_wf]);
     - [collision_free hash (keys_of ops)]: xxhash does not collide on the byte strings hashed in this
       history (and, in the abstraction, neither does the XOR of descriptor ids);
     - [ops_unambiguous ops]: no help string contains byte 0xFF and no constant label name starts with
       "$".  Without it the clause "agrees in help text and label-name sets" is FALSE for the code:
       [dimhash_refuted] (known finding dimhash-0xff) and [dimhash_dollar_refuted] (dimhash-dollar). *)
From Coq Require Import ZArith List Bool.
From Coq Require Import Sorted Permutation.
From Verif Require Import Base.Str Model.Registry Proofs.C08_proofs Model.RegistryLin Base.Conc Proofs.C08_conc.
Import ListNotations.
Open Scope Z_scope.

(* Every outcome of every Register/Unregister/Gather in every sequence satisfies the specification:
   [spec_check] = accepted / AlreadyRegistered(original collector) / rejected exactly as the property
   demands, the reported error kind is justified, Unregister answers as specified, gathered names are
   those of the currently registered collectors; [obs_matches] restates it outcome by outcome. *)
Theorem register_spec : forall (hash : str -> str) (ops : list Registry.op),
  Forall built (all_descs ops) -> ops_unambiguous ops = true -> collision_free hash (keys_of ops) ->
  spec_check ops (run hash ops) = true /\ Forall2 obs_matches (run hash ops) (spec_run ops).
Proof. exact C08_proofs.register_spec_built_lemma. Qed.

(* the same for any descriptors satisfying what NewDesc establishes *)
Theorem register_spec_wf : forall (hash : str -> str) (ops : list Registry.op),
  ops_wf ops -> ops_unambiguous ops = true -> collision_free hash (keys_of ops) ->
  spec_check ops (run hash ops) = true /\ Forall2 obs_matches (run hash ops) (spec_run ops).
Proof. exact C08_proofs.register_spec_lemma. Qed.

Theorem built_descriptors_wf : forall d, built d -> desc_wf d.
Proof. exact C08_proofs.built_wf. Qed.

(* what "accepted" means in the specification: no descriptors (unchecked), or all valid, all consistent
   with everything ever registered and among themselves, and none equal to a descriptor of a
   currently registered collector *)
Theorem spec_accept_iff : forall s cid ds,
  fst (spec_register s cid ds) = SOk <->
  ds = [] \/ (all_valid ds = true /\ all_consistent s ds = true /\ clashes s ds = false).
Proof. exact C08_proofs.spec_accept_iff_lemma. Qed.

(* AlreadyRegistered carries a registered collector with an equal descriptor set; nothing changes *)
Theorem spec_already : forall s cid ds c,
  fst (spec_register s cid ds) = SAlready c ->
  all_valid ds = true /\ all_consistent s ds = true /\
  exists ds', In (c, ds') (s_regd s) /\ desc_set_eq ds ds' = true /\ snd (spec_register s cid ds) = s.
Proof. exact C08_proofs.spec_already_lemma. Qed.

Theorem spec_unregister_exact : forall s ds,
  let vs := filter valid ds in
  (fst (spec_unregister s ds) = true <-> exists c, In c (s_regd s) /\ desc_set_eq vs (snd c) = true) /\
  s_regd (snd (spec_unregister s ds)) = filter (fun c => negb (desc_set_eq vs (snd c))) (s_regd s) /\
  s_ever (snd (spec_unregister s ds)) = s_ever s /\ s_unch (snd (spec_unregister s ds)) = s_unch s.
Proof. exact C08_proofs.spec_unregister_exact_lemma. Qed.

(* a rejected registration changes nothing: any hash, any registry state, any descriptors *)
Theorem rejected_changes_nothing : forall hash r cid ds,
  fst (register hash r cid ds) <> RNil -> snd (register hash r cid ds) = r.
Proof. exact C08_proofs.rejected_changes_nothing_lemma. Qed.

(* a collector without descriptors is accepted unchecked *)
Theorem no_desc_unchecked : forall hash r cid,
  register hash r cid [] = (RNil, mkReg (r_colls r) (r_descids r) (r_dims r) (r_unchecked r ++ [cid])).
Proof. exact C08_proofs.no_desc_unchecked_lemma. Qed.

(* order and multiplicity of the emitted descriptors do not change any outcome of the sequence *)
Theorem register_order_multiplicity_insensitive : forall (hash : str -> str) (ops ops' : list Registry.op),
  Forall2 op_equiv ops ops' ->
  ops_wf ops -> ops_unambiguous ops = true -> collision_free hash (keys_of ops) ->
  Forall2 obs_same (run hash ops) (run hash ops').
Proof. exact C08_proofs.register_order_multiplicity_insensitive_lemma. Qed.

(* MustRegister(c1..cn) = Register in order, stop at (and report) the first rejected collector; it is
   an operation of [run] / [spec_run] (OMust), so register_spec covers it.  An instance: *)
Example must_register_example :
  run hash_id [ORegister 0 [ex_a]; OMust [(1, [ex_n]); (2, [ex_a]); (3, [ex_w])]; OGather; ORegister 3 [ex_w]] =
  [BReg RNil; BReg (RAlready 0); BGather [[109]; [110]]; BReg RNil].
Proof. exact C08_proofs.must_register_example_lemma. Qed.

(* ... but which of the two rejection messages is given does (first offending descriptor wins) *)
Example error_kind_order_dependent :
  run hash_id [ORegister 0 [ex_a]; ORegister 1 [ex_bad; ex_b]] = [BReg RNil; BReg RInvalid] /\
  run hash_id [ORegister 0 [ex_a]; ORegister 1 [ex_b; ex_bad]] = [BReg RNil; BReg RInconsistent].
Proof. exact C08_proofs.error_kind_order_dependent_lemma. Qed.

(* serialisations *)
Theorem utf8_valid_excludes_separator : forall s, utf8_valid s = true -> ~ In sep s.
Proof. exact C08_proofs.utf8_valid_no_sep. Qed.

Theorem ser_injective : forall l1 l2,
  Forall (fun s => ~ In sep s) l1 -> Forall (fun s => ~ In sep s) l2 -> ser l1 = ser l2 -> l1 = l2.
Proof. exact C08_proofs.ser_inj. Qed.

Theorem id_serialisation_injective : forall d e,
  desc_wf d -> desc_wf e -> d_err d = false -> d_err e = false ->
  d_idser d = d_idser e -> d_fq d = d_fq e /\ map snd (d_consts d) = map snd (d_consts e).
Proof. exact C08_proofs.id_serialisation_injective_lemma. Qed.

Theorem dim_serialisation_injective : forall d e,
  desc_wf d -> desc_wf e -> d_err d = false -> d_err e = false ->
  dim_unambiguous d = true -> dim_unambiguous e = true ->
  (d_dimser d = d_dimser e <-> agree d e = true).
Proof. exact C08_proofs.dim_serialisation_injective_lemma. Qed.

(* The clause "agrees in help text and label-name sets" fails for the code, for every hash function:
   two valid descriptors of the same name that do not agree have the same dimension serialisation,
   so both registrations succeed where the specification rejects the second. *)
Theorem dimhash_refuted :
  exists d e, built d /\ built e /\ d_err d = false /\ d_err e = false /\
    agree d e = false /\ d_fq d = d_fq e /\ d_dimser d = d_dimser e /\
    (forall hash, hdim hash d = hdim hash e) /\
    run hash_id [ORegister 0 [d]; ORegister 1 [e]] = [BReg RNil; BReg RNil] /\
    spec_run [ORegister 0 [d]; ORegister 1 [e]] = [TReg SOk; TReg SRejected].
Proof. exact C08_proofs.dimhash_refuted_lemma. Qed.

Theorem dimhash_dollar_refuted :
  exists d e, built d /\ built e /\ d_err d = false /\ d_err e = false /\
    agree d e = false /\ d_fq d = d_fq e /\ d_dimser d = d_dimser e /\
    (forall hash, hdim hash d = hdim hash e) /\
    run hash_id [ORegister 0 [d]; ORegister 1 [e]] = [BReg RNil; BReg RNil] /\
    spec_run [ORegister 0 [d]; ORegister 1 [e]] = [TReg SOk; TReg SRejected].
Proof. exact C08_proofs.dimhash_dollar_refuted_lemma. Qed.

(* the hypotheses of register_spec are satisfiable, with every kind of outcome occurring *)
Example register_spec_hypotheses_satisfiable :
  Forall built (all_descs ex_ops) /\ ops_unambiguous ex_ops = true.
Proof. exact C08_proofs.ex_ops_hyps. Qed.

Example register_spec_example :
  run hash_id ex_ops =
  [ BReg RNil; BReg (RAlready 0); BReg RDuplicate; BReg RInconsistent; BReg RInvalid; BReg RNil; BReg RNil;
    BGather [[109]; [110]; [112; 95; 110]]; BUnreg true; BUnreg false; BReg RInconsistent; BReg RNil;
    BGather [[109]; [112; 95; 110]] ] /\
  spec_check ex_ops (run hash_id ex_ops) = true.
Proof. exact C08_proofs.ex_ops_run. Qed.

(* ====================================================================================================
   "atomically": Register / Unregister under concurrency (Model/RegistryLin.v, Proofs/C08_conc.v).
   reg_machine hash is registry.go at lock granularity: one step per operation on r.mtx, the code of a
   critical section runs with the step that acquires the lock; Describe is thread-local.
     Register   = Lock [validate + commit] Unlock
     Unregister = RLock [probe] RUnlock (false if absent); Lock [re-check; deletes] Unlock
   The theorems hold for every hash, every number of threads, ALL programs and EVERY schedule.
   ==================================================================================================== *)

(* Real-time linearizability w.r.t. the sequential model (which register_spec ties to the property):
   replaying register/unregister over the calls in the order of their responses reproduces every result,
   that order never puts a call after one that was invoked only after it had returned (last clause), every
   call takes at least one step, and when no writer is inside the shared registry is the replayed state. *)
Theorem registry_linearizable_realtime : forall (hash : str -> str) (progs : list (list qop)) (sched : list Z),
  let M := reg_machine hash in
  let c := run_sched M (init_config M q_init progs) sched in
  (exists r, seq_replay (reg_spec_step hash) empty_registry (map (@c_op M) (hist c)) = (r, map (@c_ret M) (hist c)) /\
             (q_w (sh c) = false -> q_reg (sh c) = r)) /\
  StronglySorted res_lt (hist c) /\
  Forall (fun k : call M => 0 <= c_inv k < c_res k /\ c_res k <= now c) (hist c) /\
  (forall i j a b, nth_error (hist c) i = Some a -> nth_error (hist c) j = Some b ->
     c_res a <= c_inv b -> (i < j)%nat).
Proof. exact C08_conc.registry_linearizable_realtime_lemma. Qed.

(* Descriptor ids stay unique under any mix of concurrent Register and Unregister calls (any hash: ids are
   the hashes): (1) whenever no writer is inside, no two registered collectors share a descriptor id;
   (2) two successful Register calls for collectors with a common descriptor id are separated, in the
   linearization, by an Unregister that answered true. *)
Theorem registers_with_common_descriptor_at_most_one_succeeds :
  forall (hash : str -> str) (progs : list (list qop)) (sched : list Z),
  let M := reg_machine hash in
  let c := run_sched M (init_config M q_init progs) sched in
  (q_w (sh c) = false ->
     forall i j e1 e2 x, nth_error (r_colls (q_reg (sh c))) i = Some e1 -> nth_error (r_colls (q_reg (sh c))) j = Some e2 ->
       In x (fst e1) -> In x (fst e2) -> i = j) /\
  (forall i j a b x, (i < j)%nat -> nth_error (hist c) i = Some a -> nth_error (hist c) j = Some b ->
     c_ret a = RReg RNil -> c_ret b = RReg RNil -> In x (reg_ids hash (c_op a)) -> In x (reg_ids hash (c_op b)) ->
     exists k u, (i < k < j)%nat /\ nth_error (hist c) k = Some u /\ c_ret u = RUn true).
Proof. exact C08_conc.registers_unique_lemma. Qed.

(* No deadlock: while a call is unfinished some thread can take a step *)
Theorem registry_no_deadlock : forall (hash : str -> str) (progs : list (list qop)) (sched : list Z),
  let M := reg_machine hash in
  let c := run_sched M (init_config M q_init progs) sched in
  all_done M c = false -> exists tid c', sched_step M c tid = Some c'.
Proof. exact C08_conc.no_deadlock_lemma. Qed.

(* The executable checker applied to the implementation's histories decides real-time linearizability
   of ANY history of complete calls: sound and complete; and it accepts every history of the machine. *)
Theorem reg_lin_check_sound : forall (hash : str -> str) (h : list (call (reg_machine hash))),
  reg_lin_check hash h = true -> exists h', Permutation h' h /\ linearization_of hash empty_registry h'.
Proof. exact C08_conc.reg_lin_check_sound_lemma. Qed.

Theorem reg_lin_check_complete : forall (hash : str -> str) (h : list (call (reg_machine hash))),
  (exists h', Permutation h' h /\ linearization_of hash empty_registry h') -> reg_lin_check hash h = true.
Proof. exact C08_conc.reg_lin_check_complete_lemma. Qed.

Theorem reg_lin_check_accepts_machine_histories : forall (hash : str -> str) (progs : list (list qop)) (sched : list Z),
  reg_lin_check hash (hist (run_sched (reg_machine hash) (init_config (reg_machine hash) q_init progs) sched)) = true.
Proof. exact C08_conc.reg_lin_check_machine_lemma. Qed.

(* History.  Before commit d5949f3 the second critical section of Unregister deleted WITHOUT re-checking.
   This machine (then with an unconditional delete step) exposed two schedules, found here:
     rf_progs1 / rf_sched1:  T0: Register(c); Unregister(c) || T1: Unregister(c): both Unregister calls
       answered true - no sequential order explains that (was: unregister_not_atomic_refuted);
     rf_progs2 / rf_sched2:  T0: Register(c={n}); Unregister(c) || T1: Unregister(c); Register(d={n,y}): T0's late
       deletes removed descriptor id n, by then owned by d, and a further collector with descriptor n was
       accepted (was: unregister_window_breaks_uniqueness_refuted).
   Fixed in d5949f3 (re-check under the write lock).  The same programs under the same schedules now: *)
Example unregister_regression_both_true :
  let M := reg_machine hash_id in
  let c := run_sched M (init_config M q_init rf_progs1) rf_sched1 in
  all_done M c = true /\
  map (@c_ret M) (hist c) = [RReg RNil; RUn true; RUn false] /\
  reg_lin_check hash_id (hist c) = true.
Proof. exact C08_conc.unregister_regression1_lemma. Qed.

Example unregister_regression_late_deletes :
  let M := reg_machine hash_id in
  let c := run_sched M (init_config M q_init rf_progs2) rf_sched2 in
  all_done M c = true /\
  map (@c_ret M) (hist c) = [RReg RNil; RUn true; RReg RNil; RUn false] /\
  reg_lin_check hash_id (hist c) = true /\
  map (fun e => fst (snd e)) (r_colls (q_reg (sh c))) = [1] /\
  fst (register hash_id (q_reg (sh c)) 2 [rf_n]) = RDuplicate.
Proof. exact C08_conc.unregister_regression2_lemma. Qed.
