(* Properties/C08.v -- Registration enforces descriptor uniqueness and consistency, atomically.
   Only statements; proofs are in Proofs/C08_proofs.v.  Model and specification: Model/Registry.v.

   Reading guide.  [run hash ops] is the transcription of Registry.Register/Unregister
   (prometheus/registry.go:270-400) over descriptors built by the transcription of NewDesc / wrapDesc
   (prometheus/desc.go:92-172, prometheus/wrap.go:229-260); [hash] stands for xxhash.  [spec_run],
   [spec_check] are the set-based specification written from the property text (no hashes).
   Hypotheses of the main theorems:
     - descriptors are what the Go constructors can build ([built], or the weaker [ops_wf]);
     - [collision_free hash (keys_of ops)]: xxhash does not collide on the byte strings hashed in this
       history (and, in the abstraction, neither does the XOR of descriptor ids);
     - [ops_unambiguous ops]: no help string contains byte 0xFF and no constant label name starts with
       "$".  Without it the clause "agrees in help text and label-name sets" is FALSE for the code:
       [dimhash_refuted] (known finding dimhash-0xff) and [dimhash_dollar_refuted] (dimhash-dollar). *)
From Coq Require Import ZArith List Bool.
From Verif Require Import Base.Str Model.Registry Proofs.C08_proofs.
Import ListNotations.
Open Scope Z_scope.

(* Every outcome of every Register/Unregister/Gather in every sequence satisfies the specification:
   [spec_check] = accepted / AlreadyRegistered(original collector) / rejected exactly as the property
   demands, the reported error kind is justified, Unregister answers as specified, gathered names are
   those of the currently registered collectors; [obs_matches] restates it outcome by outcome. *)
Theorem register_spec : forall (hash : str -> str) (ops : list op),
  Forall built (all_descs ops) -> ops_unambiguous ops = true -> collision_free hash (keys_of ops) ->
  spec_check ops (run hash ops) = true /\ Forall2 obs_matches (run hash ops) (spec_run ops).
Proof. exact C08_proofs.register_spec_built_lemma. Qed.

(* the same for any descriptors satisfying what NewDesc establishes *)
Theorem register_spec_wf : forall (hash : str -> str) (ops : list op),
  ops_wf ops -> ops_unambiguous ops = true -> collision_free hash (keys_of ops) ->
  spec_check ops (run hash ops) = true /\ Forall2 obs_matches (run hash ops) (spec_run ops).
Proof. exact C08_proofs.register_spec_lemma. Qed.

Theorem built_descriptors_wf : forall d, built d -> desc_wf d.
Proof. exact C08_proofs.built_wf. Qed.

(* what "accepted" means in the specification: no descriptors (unchecked), or all valid, all consistent
   with everything ever registered and among themselves, and none equal to a descriptor of a
   currently registered collector *)
Theorem spec_accept_iff : forall s cid ds,
  fst (spec_register s cid ds) = SOk <->
  ds = [] \/ (all_valid ds = true /\ all_consistent s ds = true /\ clashes s ds = false).
Proof. exact C08_proofs.spec_accept_iff_lemma. Qed.

(* AlreadyRegistered carries a registered collector with an equal descriptor set; nothing changes *)
Theorem spec_already : forall s cid ds c,
  fst (spec_register s cid ds) = SAlready c ->
  all_valid ds = true /\ all_consistent s ds = true /\
  exists ds', In (c, ds') (s_regd s) /\ desc_set_eq ds ds' = true /\ snd (spec_register s cid ds) = s.
Proof. exact C08_proofs.spec_already_lemma. Qed.

Theorem spec_unregister_exact : forall s ds,
  let vs := filter valid ds in
  (fst (spec_unregister s ds) = true <-> exists c, In c (s_regd s) /\ desc_set_eq vs (snd c) = true) /\
  s_regd (snd (spec_unregister s ds)) = filter (fun c => negb (desc_set_eq vs (snd c))) (s_regd s) /\
  s_ever (snd (spec_unregister s ds)) = s_ever s /\ s_unch (snd (spec_unregister s ds)) = s_unch s.
Proof. exact C08_proofs.spec_unregister_exact_lemma. Qed.

(* a rejected registration changes nothing: any hash, any registry state, any descriptors *)
Theorem rejected_changes_nothing : forall hash r cid ds,
  fst (register hash r cid ds) <> RNil -> snd (register hash r cid ds) = r.
Proof. exact C08_proofs.rejected_changes_nothing_lemma. Qed.

(* a collector without descriptors is accepted unchecked *)
Theorem no_desc_unchecked : forall hash r cid,
  register hash r cid [] = (RNil, mkReg (r_colls r) (r_descids r) (r_dims r) (r_unchecked r ++ [cid])).
Proof. exact C08_proofs.no_desc_unchecked_lemma. Qed.

(* order and multiplicity of the emitted descriptors do not change any outcome of the sequence *)
Theorem register_order_multiplicity_insensitive : forall (hash : str -> str) (ops ops' : list op),
  Forall2 op_equiv ops ops' ->
  ops_wf ops -> ops_unambiguous ops = true -> collision_free hash (keys_of ops) ->
  Forall2 obs_same (run hash ops) (run hash ops').
Proof. exact C08_proofs.register_order_multiplicity_insensitive_lemma. Qed.

(* MustRegister(c1..cn) = Register in order, stop at (and report) the first rejected collector; it is
   an operation of [run] / [spec_run] (OMust), so register_spec covers it.  An instance: *)
Example must_register_example :
  run hash_id [ORegister 0 [ex_a]; OMust [(1, [ex_n]); (2, [ex_a]); (3, [ex_w])]; OGather; ORegister 3 [ex_w]] =
  [BReg RNil; BReg (RAlready 0); BGather [[109]; [110]]; BReg RNil].
Proof. exact C08_proofs.must_register_example_lemma. Qed.

(* ... but which of the two rejection messages is given does (first offending descriptor wins) *)
Example error_kind_order_dependent :
  run hash_id [ORegister 0 [ex_a]; ORegister 1 [ex_bad; ex_b]] = [BReg RNil; BReg RInvalid] /\
  run hash_id [ORegister 0 [ex_a]; ORegister 1 [ex_b; ex_bad]] = [BReg RNil; BReg RInconsistent].
Proof. exact C08_proofs.error_kind_order_dependent_lemma. Qed.

(* serialisations *)
Theorem utf8_valid_excludes_separator : forall s, utf8_valid s = true -> ~ In sep s.
Proof. exact C08_proofs.utf8_valid_no_sep. Qed.

Theorem ser_injective : forall l1 l2,
  Forall (fun s => ~ In sep s) l1 -> Forall (fun s => ~ In sep s) l2 -> ser l1 = ser l2 -> l1 = l2.
Proof. exact C08_proofs.ser_inj. Qed.

Theorem id_serialisation_injective : forall d e,
  desc_wf d -> desc_wf e -> d_err d = false -> d_err e = false ->
  d_idser d = d_idser e -> d_fq d = d_fq e /\ map snd (d_consts d) = map snd (d_consts e).
Proof. exact C08_proofs.id_serialisation_injective_lemma. Qed.

Theorem dim_serialisation_injective : forall d e,
  desc_wf d -> desc_wf e -> d_err d = false -> d_err e = false ->
  dim_unambiguous d = true -> dim_unambiguous e = true ->
  (d_dimser d = d_dimser e <-> agree d e = true).
Proof. exact C08_proofs.dim_serialisation_injective_lemma. Qed.

(* The clause "agrees in help text and label-name sets" fails for the code, for every hash function:
   two valid descriptors of the same name that do not agree have the same dimension serialisation,
   so both registrations succeed where the specification rejects the second. *)
Theorem dimhash_refuted :
  exists d e, built d /\ built e /\ d_err d = false /\ d_err e = false /\
    agree d e = false /\ d_fq d = d_fq e /\ d_dimser d = d_dimser e /\
    (forall hash, hdim hash d = hdim hash e) /\
    run hash_id [ORegister 0 [d]; ORegister 1 [e]] = [BReg RNil; BReg RNil] /\
    spec_run [ORegister 0 [d]; ORegister 1 [e]] = [TReg SOk; TReg SRejected].
Proof. exact C08_proofs.dimhash_refuted_lemma. Qed.

Theorem dimhash_dollar_refuted :
  exists d e, built d /\ built e /\ d_err d = false /\ d_err e = false /\
    agree d e = false /\ d_fq d = d_fq e /\ d_dimser d = d_dimser e /\
    (forall hash, hdim hash d = hdim hash e) /\
    run hash_id [ORegister 0 [d]; ORegister 1 [e]] = [BReg RNil; BReg RNil] /\
    spec_run [ORegister 0 [d]; ORegister 1 [e]] = [TReg SOk; TReg SRejected].
Proof. exact C08_proofs.dimhash_dollar_refuted_lemma. Qed.

(* the hypotheses of register_spec are satisfiable, with every kind of outcome occurring *)
Example register_spec_hypotheses_satisfiable :
  Forall built (all_descs ex_ops) /\ ops_unambiguous ex_ops = true.
Proof. exact C08_proofs.ex_ops_hyps. Qed.

Example register_spec_example :
  run hash_id ex_ops =
  [ BReg RNil; BReg (RAlready 0); BReg RDuplicate; BReg RInconsistent; BReg RInvalid; BReg RNil; BReg RNil;
    BGather [[109]; [110]; [112; 95; 110]]; BUnreg true; BUnreg false; BReg RInconsistent; BReg RNil;
    BGather [[109]; [112; 95; 110]] ] /\
  spec_check ex_ops (run hash_id ex_ops) = true.
Proof. exact C08_proofs.ex_ops_run. Qed.
