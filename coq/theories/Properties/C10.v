(* Properties/C10.v -- C10: concurrent use of a registry is safe; every Gather is valid and contains every
   collector that stayed registered throughout the call.
   Statements only; proofs and the small definitions used here (eff, replay, saw, explained, ev_of, events,
   pending_unreg, summary, the ex_ configurations) are in Proofs/C10_proofs.v.
   Data races, panics, deadlocks of the real code and goroutine leaks are runtime properties: harness/cmd/c10
   exercises them under the race detector.  The theorems carry the lock-level logic: reg_machine
   (Model/RegistryConc.v) executes every critical section of registry.go as one atomic step - Register one
   section, Unregister a check section and a delete section, Gather one snapshot section - under the
   interleaving semantics of Base/Conc.v.  Every theorem quantifies over ALL program lists (any number of
   goroutines, any calls) and ALL schedules; c is the configuration reached; hist c lists the finished calls
   in completion order with invocation and response times (time = number of sections executed so far). *)
From Coq Require Import ZArith List Bool.
From Verif Require Import Base.Conc Proofs.C01_proofs Model.RegistryConc Proofs.C10_proofs.
Import ListNotations.
Open Scope Z_scope.

(* T1. A Gather contains every collector that stayed registered throughout the call: if a successful
   Register k returned before the Gather g was invoked, and every COMPLETED Unregister k either returned
   before that Register was invoked or was invoked after g returned (no completed Unregister k overlaps
   [c_inv r, c_res g]), then k is in g's snapshot.  No assumption is needed about Unregister k calls still in
   flight in c: the deletion is the last section of Unregister, so a call that has deleted k is already in
   hist c and a pending one has deleted nothing. *)
Theorem gather_contains_stably_registered : forall (progs : list (list rop)) (sched : list Z),
  let c := run_sched reg_machine (init_config reg_machine [] progs) sched in
  forall g ns r k,
  In g (hist c) -> c_ret g = RSnapshot ns ->
  In r (hist c) -> c_op r = RRegister k -> c_ret r = RBool true -> c_res r <= c_inv g ->
  (forall u, In u (hist c) -> c_op u = RUnregister k -> c_res u <= c_inv r \/ c_res g <= c_inv u) ->
  mem k ns = true.
Proof. exact C10_proofs.gather_contains_stably_registered_lemma. Qed.

(* T1'. The same with the in-flight Unregister k calls constrained as well (a thread whose call in progress is
   an Unregister k invoked at time inv must have been invoked after g returned); weaker than T1, kept because
   it is the literal reading of "no Unregister k overlaps the interval". *)
Theorem gather_contains_stably_registered_pending : forall (progs : list (list rop)) (sched : list Z),
  let c := run_sched reg_machine (init_config reg_machine [] progs) sched in
  forall g ns r k,
  In g (hist c) -> c_ret g = RSnapshot ns ->
  In r (hist c) -> c_op r = RRegister k -> c_ret r = RBool true -> c_res r <= c_inv g ->
  (forall u, In u (hist c) -> c_op u = RUnregister k -> c_res u <= c_inv r \/ c_res g <= c_inv u) ->
  (forall inv, pending_unreg c k inv -> c_res g <= inv) ->
  mem k ns = true.
Proof. exact C10_proofs.gather_contains_stably_registered_pending_lemma. Qed.

(* T2. A Gather contains nothing that was never registered: every collector in the snapshot was put there by
   a successful Register that completed (Register is a single section) no later than the snapshot, hence was
   invoked strictly before the Gather returned. *)
Theorem gather_only_registered : forall (progs : list (list rop)) (sched : list Z),
  let c := run_sched reg_machine (init_config reg_machine [] progs) sched in
  forall g ns k, In g (hist c) -> c_ret g = RSnapshot ns -> mem k ns = true ->
  exists r, In r (hist c) /\ c_op r = RRegister k /\ c_ret r = RBool true /\ c_inv r < c_res g /\ c_res r <= c_res g.
Proof. exact C10_proofs.gather_only_registered_lemma. Qed.

(* T3. The extracted checker that the harness applies to the recorded Register/Unregister/Gather histories
   (Run/C10_run.v: gather_check) accepts the history of every reachable configuration of the machine - in
   particular of every quiescent one (all_done), which is what a finished program records - for every
   collector range n. *)
Theorem gather_check_sound_on_model : forall (progs : list (list rop)) (sched : list Z) (n : Z),
  let c := run_sched reg_machine (init_config reg_machine [] progs) sched in
  gather_check n (events (hist c)) = true.
Proof. exact C10_proofs.gather_check_sound_on_model_lemma. Qed.

(* T4. The registered set evolves as a sequential set: the shared state is the replay, in completion order,
   of the effects of the finished calls (successful Register adds, successful Unregister removes); every
   Register and every Gather returns exactly what the set replayed from the calls completed before it
   dictates (explained: Register k returns whether k was absent, Gather returns the set); an Unregister k
   that returns false found k absent at its only section; an Unregister k that returns true saw k registered
   at some moment after its invocation (its check section: `saw`), and right after its delete section k is not
   in the set.  Unregister is two sections, so it is not atomic: see unregister_race_both_true. *)
Theorem register_unregister_sequential_spec : forall (progs : list (list rop)) (sched : list Z),
  let c := run_sched reg_machine (init_config reg_machine [] progs) sched in
  sh c = replay (hist c) /\
  (forall h1 x h2, hist c = h1 ++ x :: h2 -> explained h1 x) /\
  (forall h1 x h2 k, hist c = h1 ++ x :: h2 -> c_op x = RUnregister k -> c_ret x = RBool true ->
     mem k (replay (h1 ++ [x])) = false).
Proof. exact C10_proofs.register_unregister_sequential_spec_lemma. Qed.

(* T5. No section ever blocks: the step function is total, every thread with a call in progress can be
   scheduled, and from every reachable configuration that is not quiescent some schedule entry succeeds
   (and advances the clock, so every fair schedule terminates the finite programs). *)
Theorem no_deadlock : forall (progs : list (list rop)) (sched : list Z),
  let c := run_sched reg_machine (init_config reg_machine [] progs) sched in
  (forall s pc, step reg_machine s pc <> None) /\
  (forall i t o l inv, nth_error (thr c) i = Some t -> t_cur t = Some (o, l, inv) ->
     exists c', sched_step reg_machine c (Z.of_nat i) = Some c' /\ now c' = now c + 1) /\
  (all_done reg_machine c = false ->
     exists tid c', sched_step reg_machine c tid = Some c' /\ now c' = now c + 1).
Proof. exact C10_proofs.no_deadlock_lemma. Qed.

(* Gather scheduled between the check and the delete section of Unregister 1: the snapshot still contains 1
   (the Unregister overlaps the Gather, so neither outcome is demanded), and the checker accepts. *)
Example gather_between_unregister_sections :
  summary ex_gather_between =
    [(0, RRegister 1, RBool true, 0, 1); (1, RGather, RSnapshot [1], 0, 3); (0, RUnregister 1, RBool true, 1, 4)] /\
  sh ex_gather_between = [] /\ all_done reg_machine ex_gather_between = true /\
  gather_check 3 (events (hist ex_gather_between)) = true.
Proof. vm_compute. repeat split; reflexivity. Qed.

(* two racing Unregister 1 both pass the check before either deletes: both return true *)
Example unregister_race_both_true :
  summary ex_unreg_race =
    [(0, RRegister 1, RBool true, 0, 1); (0, RUnregister 1, RBool true, 1, 4); (1, RUnregister 1, RBool true, 0, 5)] /\
  sh ex_unreg_race = [] /\ all_done reg_machine ex_unreg_race = true.
Proof. vm_compute. repeat split; reflexivity. Qed.
