(* Properties/C14.v -- Constructors either reject an input or expose it faithfully.
   Only theorem statements; proofs are in Proofs/C14_proofs.v.  The model (Model/ConstMetrics.v, part 1)
   transcribes prometheus/{desc,labels,value,metric,histogram,summary}.go; part 2 of that file is the
   specification the statements below refer to.  A Go map is an association list with pairwise distinct
   keys (hypothesis NoDup (map fst _)); its list order stands for an arbitrary iteration order. *)
From Coq Require Import ZArith List Bool Sorted Permutation.
From Verif Require Import Base.F64 Base.Str Gen.Gen_Consts Model.ConstMetrics Proofs.C14_proofs.
From Verif Require Proofs.Gen_tie.
Import ListNotations.
Open Scope Z_scope.

Local Notation int64 z := (-9223372036854775808 <= z < 9223372036854775808).

(* ---- BuildFQName: exactly the non-empty parts joined by '_'; empty iff the name part is empty ---- *)
Theorem fq_name_spec : forall ns sub name : str,
  build_fq_name ns sub name = fq_spec ns sub name /\ (build_fq_name ns sub name = [] <-> name = []).
Proof. exact C14_proofs.fq_name_spec_lemma. Qed.

(* ---- NewDesc records no error iff: name non-empty valid UTF-8, every label name non-empty valid UTF-8 without
   the reserved "__" prefix, no name twice across constant and variable labels, constant values valid UTF-8 ---- *)
Theorem new_desc_ok_iff : forall (fq help : str) (vars : list str) (consts : list lpair),
  NoDup (map fst consts) ->
  (d_err (new_desc fq help vars consts) = None <-> desc_ok_spec fq vars consts = true).
Proof. exact C14_proofs.new_desc_ok_iff_lemma. Qed.

(* the error is one of the four documented kinds *)
Theorem new_desc_err_kinds : forall fq help vars consts e,
  d_err (new_desc fq help vars consts) = Some e ->
  e = ErrMetricName \/ e = ErrLabelName \/ e = ErrUtf8Value \/ e = ErrDuplicate.
Proof. exact C14_proofs.new_desc_err_cases. Qed.

(* ---- MakeLabelPairs on a valid descriptor: strictly sorted by name and exactly the variable labels
   (with the given values) plus the constant labels ---- *)
Theorem label_pairs_sorted_complete : forall fq help vars consts lvs,
  NoDup (map fst consts) -> d_err (new_desc fq help vars consts) = None -> length lvs = length vars ->
  Sorted lp_lt (make_label_pairs (new_desc fq help vars consts) lvs) /\
  Permutation (combine vars lvs ++ consts) (make_label_pairs (new_desc fq help vars consts) lvs).
Proof. exact C14_proofs.label_pairs_sorted_complete_lemma. Qed.

(* the boolean checker the runner applies to the implementation's label pairs means the same *)
Theorem label_pairs_checker_sound : forall vars lvs consts out,
  label_pairs_spec vars lvs consts out = true -> Sorted lp_lt out /\ Permutation (combine vars lvs ++ consts) out.
Proof. exact C14_proofs.label_pairs_spec_sound. Qed.

(* ---- NewConstMetric: accepted exactly for a valid descriptor, the right number of valid UTF-8 values and a known
   value type; then Write carries the given type and value under MakeLabelPairs ---- *)
Theorem const_metric_faithful : forall fq help vars consts vt v lvs,
  NoDup (map fst consts) ->
  let d := new_desc fq help vars consts in
  (desc_ok_spec fq vars consts = true /\ length lvs = length vars /\ forallb utf8_valid lvs = true /\ 1 <= vt <= 3 ->
     new_const_metric d vt v lvs = Ok (mkSimple (make_label_pairs d lvs) vt v)) /\
  (~ (desc_ok_spec fq vars consts = true /\ length lvs = length vars /\ forallb utf8_valid lvs = true /\ 1 <= vt <= 3) ->
     exists e, new_const_metric d vt v lvs = Err e).
Proof. exact C14_proofs.const_metric_faithful_lemma. Qed.

(* NewConstMetricWithCreatedTimestamp decides exactly like NewConstMetric on counters and refuses every other type *)
Theorem const_metric_ct_faithful : forall d vt v lvs,
  (vt = 1 -> new_const_metric_ct d vt v lvs = new_const_metric d vt v lvs) /\
  (vt <> 1 -> exists e, new_const_metric_ct d vt v lvs = Err e).
Proof. exact C14_proofs.const_metric_ct_lemma. Qed.

(* ---- classic const buckets / quantiles: exactly the given entries, strictly increasing when the given bounds
   are pairwise comparable (distinct, not NaN) ---- *)
Theorem const_buckets_sorted : forall fq help vars consts count sum buckets lvs o,
  new_const_histogram (new_desc fq help vars consts) count sum buckets lvs = Ok o ->
  d_err (new_desc fq help vars consts) = None /\
  ho_labels o = make_label_pairs (new_desc fq help vars consts) lvs /\ ho_count o = count /\ ho_sum o = sum /\
  Permutation buckets (ho_buckets o) /\
  (ForallOrdPairs fcomparable buckets -> Sorted (fun a b => flt (fst a) (fst b) = true) (ho_buckets o)).
Proof. exact C14_proofs.const_histogram_faithful_lemma. Qed.

Theorem const_quantiles_sorted : forall fq help vars consts count sum qs lvs o,
  new_const_summary (new_desc fq help vars consts) count sum qs lvs = Ok o ->
  d_err (new_desc fq help vars consts) = None /\
  su_labels o = make_label_pairs (new_desc fq help vars consts) lvs /\ su_count o = count /\ su_sum o = sum /\
  Permutation qs (su_quantiles o) /\
  (ForallOrdPairs fcomparable qs -> Sorted (fun a b => flt (fst a) (fst b) = true) (su_quantiles o)).
Proof. exact C14_proofs.const_summary_faithful_lemma. Qed.

Theorem distinct_bounds_comparable : forall x y : f64,
  is_nan x = false -> is_nan y = false -> feq x y = false -> flt x y = true \/ flt y x = true.
Proof. exact C14_proofs.distinct_nonnan_comparable. Qed.

(* ---- explicit timestamps: whole milliseconds toward minus infinity, also before the epoch
   (sec = t.Unix(), ns = t.Nanosecond(); no int64 overflow of sec*1000) ---- *)
Theorem timestamp_floor_ms : forall sec ns : Z,
  0 <= ns < 1000000000 ->
  -9223372036854775808 <= sec * 1000 -> sec * 1000 + 999 < 9223372036854775808 ->
  timestamp_ms sec ns = timestamp_spec sec ns /\
  timestamp_spec sec ns * 1000000 <= sec * 1000000000 + ns < (timestamp_spec sec ns + 1) * 1000000.
Proof. exact C14_proofs.timestamp_floor_ms_lemma. Qed.

(* nested timestamp wrappers, and wrapped metrics that write a timestamp of their own: the OUTERMOST wrapper's time
   is what is exposed (floored to milliseconds); with no wrapper, what the metric wrote itself *)
Theorem outermost_timestamp_wins : forall inner layers,
  Forall (fun t => 0 <= snd t < 1000000000 /\ -9223372036854775808 <= fst t * 1000 /\ fst t * 1000 + 999 < 9223372036854775808) layers ->
  nested_timestamp inner layers = nested_timestamp_spec inner layers.
Proof. exact C14_proofs.outermost_timestamp_wins_lemma. Qed.

(* ---- native const histograms ---- *)
(* validateBucketIndexes accepts exactly when the first index and every gap fit an int32 span offset
   (the wrapping int64 arithmetic of the Go code does not matter for Go ints) *)
Theorem bucket_index_validation_exact : forall m : imap,
  NoDup (map fst m) -> (forall k, In k (map fst m) -> int64 k) ->
  (validate_bucket_indexes m = None <-> gaps_spec (sort_ints (map fst m)) 0 = true).
Proof. exact C14_proofs.bucket_index_validation_exact_lemma. Qed.

(* validateCount is the documented consistency check as long as nothing overflows int64 ... *)
Theorem count_validation_exact : forall sum count (neg pos : imap) zero,
  0 <= count < 9223372036854775808 -> int64 (pop_sum pos + pop_sum neg + zero) ->
  (validate_count sum count neg pos zero = None <-> count_consistent_spec sum count neg pos zero = true).
Proof. exact C14_proofs.validate_count_exact_lemma. Qed.

(* ... and is NOT without that hypothesis: a uint64 count of 2^64-3 is accepted for one bucket with population -3
   (int64(count) wraps).  Reported as a finding; the ordinary case streams avoid it. *)
Theorem count_validation_wrap_refuted :
  exists sum count (neg pos : imap) zero,
    0 <= count < 18446744073709551616 /\ is_nan sum = false /\
    count_consistent_spec sum count neg pos zero = false /\ validate_count sum count neg pos zero = None.
Proof. exact C14_proofs.validate_count_wrap_refuted_lemma. Qed.

(* spans and deltas produced by makeBucketsFromMap decode (decode_spans: the exposition format's decoder with int64
   accumulation) to exactly the given populations; buckets filled into gaps of one or two are empty; indices increase *)
Theorem native_const_spans_decode : forall m : imap,
  NoDup (map fst m) -> (forall k v, In (k, v) m -> int64 k /\ int64 v) ->
  validate_bucket_indexes m = None ->
  let dec := decode_spans (fst (make_buckets_from_map m)) (snd (make_buckets_from_map m)) in
  (forall k v, In (k, v) m -> In (k, v) dec) /\
  (forall k v, In (k, v) dec -> In (k, v) m \/ (v = 0 /\ ~ In k (map fst m))) /\
  Sorted Z.lt (map fst dec).
Proof. exact C14_proofs.native_const_spans_decode_lemma. Qed.

(* the boolean checker the runner applies to the implementation's spans and deltas means the same *)
Theorem native_checker_sound : forall (given : imap) spans deltas,
  pops_spec given spans deltas = true -> decodes_to given spans deltas.
Proof. exact C14_proofs.pops_spec_sound_lemma. Qed.

(* the constructor as a whole: an accepted input is exposed with the given scalars, a schema in -4..8, the label
   pairs of MakeLabelPairs, and spans/deltas that decode to the given populations on both sides *)
Theorem native_const_faithful : forall d count sum (pos neg : imap) zero schema zt lvs o,
  NoDup (map fst pos) -> NoDup (map fst neg) ->
  (forall k v, In (k, v) pos -> int64 k /\ int64 v) -> (forall k v, In (k, v) neg -> int64 k /\ int64 v) ->
  new_const_native_histogram d count sum pos neg zero schema zt lvs = Ok o ->
  d_err d = None /\ validate_label_values lvs (Z.of_nat (length (d_vars d))) = None /\
  schema_min <= schema <= schema_max /\
  no_labels o = make_label_pairs d lvs /\ no_count o = count /\ no_sum o = sum /\ no_zero o = zero /\
  no_schema o = schema /\ no_zt o = zt /\
  decodes_to pos (no_pos_spans o) (no_pos_deltas o) /\ decodes_to neg (no_neg_spans o) (no_neg_deltas o).
Proof. exact C14_proofs.native_const_faithful_lemma. Qed.

(* ---- exemplars ---- *)
(* Go's RuneCountInString on a valid string counts code points (bytes that are not continuation bytes) *)
Theorem rune_count_is_code_points : forall s : str, utf8_valid s = true -> rune_count s = count_starts s.
Proof. exact C14_proofs.rune_count_valid. Qed.

(* utf8_valid (Go's utf8.ValidString, used for every name and value above) accepts exactly the concatenations of the
   shortest encodings of Unicode scalar values (no surrogates, nothing above U+10FFFF, no overlong forms), and
   rune_count counts those scalar values *)
Theorem utf8_valid_iff_encoding : forall s : str,
  utf8_valid s = true <-> exists cs, forallb is_scalar cs = true /\ s = utf8_encode cs.
Proof. exact C14_proofs.utf8_valid_iff_encoding_lemma. Qed.

Theorem rune_count_of_encoding : forall cs : list Z,
  forallb is_scalar cs = true -> rune_count (utf8_encode cs) = Z.of_nat (length cs).
Proof. exact C14_proofs.rune_count_encode_lemma. Qed.

(* newExemplar accepts exactly: every name valid and not reserved, every value valid UTF-8, at most 128 runes over
   names and values together; the exemplar then carries the given value and labels *)
Theorem exemplar_rune_limit : forall (v : f64) (l : list lpair),
  (exemplar_ok_spec l = true -> new_exemplar v l = Ok (mkEx v l)) /\
  (exemplar_ok_spec l = false -> exists e, new_exemplar v l = Err e /\
     (e = ErrExName \/ e = ErrExValue \/
      (e = ErrExRunes /\ forallb pair_ok l = true /\
       128 < fold_left (fun a p => a + count_starts (fst p) + count_starts (snd p)) l 0))).
Proof. exact C14_proofs.exemplar_rune_limit_lemma. Qed.

Theorem exemplars_all_or_nothing : forall exs : list (f64 * list lpair),
  (forallb (fun p => exemplar_ok_spec (snd p)) exs = true ->
     new_exemplars exs = Ok (map (fun p => mkEx (fst p) (snd p)) exs)) /\
  (forallb (fun p => exemplar_ok_spec (snd p)) exs = false -> exists e, new_exemplars exs = Err e).
Proof. exact C14_proofs.new_exemplars_spec. Qed.

(* placement over strictly increasing, non-NaN bounds and non-NaN exemplar values: bucket j carries the last
   exemplar with bound(j-1) < value <= bound(j) (otherwise what it carried before); a +Inf bucket holding the
   sample count is appended iff some exemplar lies above every bound (spec_place) *)
Theorem exemplar_placement : forall count bs exs,
  chain None bs -> Forall (fun e => is_nan (ex_value e) = false) exs ->
  fold_left (place_one count) exs bs = spec_place bs count exs.
Proof. exact C14_proofs.exemplar_placement_lemma. Qed.

(* how to read spec_place: the bucket at position n has the wrapped bucket's bound and count and carries the last
   exemplar lying in (previous bound, own bound], else what the wrapped bucket carried *)
Theorem exemplar_placement_reading : forall count exs bs lo b_lo b r,
  spec_place_from lo bs count exs = b_lo ++ b :: r -> (length b_lo < length bs)%nat ->
  exists b0 lo', nth_error bs (length b_lo) = Some b0 /\ b_bound b = b_bound b0 /\ b_cum b = b_cum b0 /\
    (lo' = match length b_lo with O => lo | S j => option_map b_bound (nth_error bs j) end) /\
    b_ex b = match last_in lo' (b_bound b0) exs with Some e => Some e | None => b_ex b0 end.
Proof. exact C14_proofs.spec_place_reading. Qed.

(* whatever the exemplars are: the wrapper's output keeps the wrapped value / count and every wrapped bucket's bound
   and cumulative count; it only adds exemplars and +Inf buckets carrying the sample count *)
Theorem exemplar_wrapper_keeps_values : forall p exs out,
  with_exemplars_write p exs = Ok out ->
  match p, out with
  | PCounter v _, PCounter v' e' => v' = v /\ e' = Some (last exs (mkEx fnan []))
  | PHistogram c bs, PHistogram c' bs' => c' = c /\ exists k, map bc bs' = map bc bs ++ repeat (pinf, c) k
  | _, _ => False
  end.
Proof. exact C14_proofs.exemplar_wrapper_keeps_values_lemma. Qed.

(* ---- live histograms and summaries never come into existence with an 'le' / 'quantile' label ---- *)
Theorem le_quantile_refused_on_live : forall r is_vec early ns sub name help vars consts lvs d labels,
  new_live (Some r) is_vec early ns sub name help vars consts lvs = LiveOk d labels ->
  d = new_desc (build_fq_name ns sub name) help vars consts /\ labels = make_label_pairs d lvs /\
  length lvs = length (d_vars d) /\
  (d_err d = None -> ~ In r vars /\ ~ In r (map fst consts)).
Proof. exact C14_proofs.le_quantile_refused_on_live_lemma. Qed.

(* ---- non-vacuity ---- *)
Require Import Coq.Strings.String.
Definition s (x : String.string) : str := of_string x.
Arguments s x%string_scope.

Example example_desc_and_pairs :
  let d := new_desc (s "m_total") (s "help") [s "b"] [(s "z", s "1"); (s "a", s "2")] in
  (d_err d, make_label_pairs d [s "v"], desc_ok_spec (s "m_total") [s "b"] [(s "z", s "1"); (s "a", s "2")],
   d_err (new_desc (s "m") (s "h") [s "a"] [(s "a", s "2")]),
   d_err (new_desc (s "m") (s "h") [s "__a"] []))
  = (None, [(s "a", s "2"); (s "b", s "v"); (s "z", s "1")], true, Some ErrDuplicate, Some ErrLabelName).
Proof. vm_compute. reflexivity. Qed.

Example example_native_gaps_and_negative_population :
  let m := [(5, 3); (1, 2); (2, 0); (9, -1)] in
  (validate_bucket_indexes m, make_buckets_from_map m,
   decode_spans (fst (make_buckets_from_map m)) (snd (make_buckets_from_map m)),
   validate_bucket_indexes [(0, 1); (4294967301, 1)])
  = (None, ([(1, 5); (3, 1)], [2; -2; 0; 0; 3; -4]), [(1, 2); (2, 0); (3, 0); (4, 0); (5, 3); (9, -1)],
     Some ErrBucketIndex).
Proof. vm_compute. reflexivity. Qed.

Example example_timestamp_before_epoch :
  (timestamp_ms (-1) 999999999, timestamp_ms (-2) 500000, timestamp_ms 1 1999999) = (-1, -2000, 1001).
Proof. vm_compute. reflexivity. Qed.

Example example_exemplar_128_runes :
  let e_acute := [195; 169] in
  let val n := flat_map (fun _ => e_acute) (seq 0 n) in
  (match new_exemplar fone [(s "a", val 127%nat)] with Ok _ => 0 | Err e => err_code e end,
   match new_exemplar fone [(s "a", val 128%nat)] with Ok _ => 0 | Err e => err_code e end,
   rune_count (val 128%nat), Z.of_nat (List.length (val 128%nat)))
  = (0, 12, 128, 256).
Proof. vm_compute. reflexivity. Qed.

Example example_exemplar_placement :
  let b x := mkBucket (of_Z x) 7 None in
  let e x := mkEx (of_Z x) [] in
  map (fun k => match b_ex k with Some x => Some (to_Z_exact (ex_value x)) | None => None end)
      (fold_left (place_one 9) [e 1; e 2; e 5; e 2; e 9] [b 1; b 2; b 4])
  = [Some (Some 1); Some (Some 2); None; Some (Some 9)].
Proof. vm_compute. reflexivity. Qed.

(* the schema limits of the model are the ones of the Go source (regenerated on every run) *)
Theorem native_schema_limits_match_source :
  ConstMetrics.schema_max = Verif.Gen.Gen_Consts.native_schema_max /\ ConstMetrics.schema_min = Verif.Gen.Gen_Consts.native_schema_min.
Proof. exact Verif.Proofs.Gen_tie.native_schema_limits_match_source_lemma. Qed.
