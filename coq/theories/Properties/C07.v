(* Properties/C07.v -- metric vectors identify children by their label values alone
   (prometheus/vec.go, labels.go:126-184, fnv.go).  Only theorem statements; proofs are in
   Proofs/C07_proofs.v, the model and the specification in Model/Vec.v.

   Reading guide.  `run H0 hadd haddb names cstr init_world ops` executes the MODEL (a transcription of
   vec.go: hash buckets, curried views, validation order) on an operation sequence over the base
   vector (view 0) and the views created by CurryWith; H0/hadd/haddb are the replaceable hash hooks
   (ARBITRARY here, so constant and colliding hashes are covered), names the variable label names,
   cstr the label constraints.  `spec_ok names cstr init_sworld ops rs` replays the same operations on
   the SPECIFICATION, a plain association map from the full label-value tuple (after constraint
   normalisation) to the child's creation index, and checks every observed result against it:
   lookups return the map's child or a fresh index, Delete/DeleteLabelValues report and remove exactly
   the tuple's child, DeletePartialMatch removes and counts exactly the selected children, Collect is
   exactly the map's range, malformed requests are errors (never a crash) that leave everything alone.
   `Rw` (Proofs) relates a model state and a map: state invariant `inv` (every stored entry sits under
   the hash of its values, no two entries with equal values, ids distinct and below the counter), same
   children up to order, same counter, same well-formed views.  `op_wf`: label maps have distinct keys
   (they are Go maps). *)
From Coq Require Import ZArith List Bool Permutation Sorted.
From Verif Require Import Base.Str Gen.Gen_Consts Base.Conc Model.CounterGauge Model.Vec Model.VecConc
                          Proofs.C07_proofs Proofs.C07_conc.
Import ListNotations.

(* for EVERY hash, every label-name set, every constraint functions and every operation sequence:
   the results the model produces are the ones the plain map prescribes, and the final state is
   related to the map's (so the invariant holds in every reachable state) *)
Theorem vec_refines_map :
  forall (H0 : Z) (hadd : Z -> str -> Z) (haddb : Z -> Z -> Z) (names : list str)
         (cstr : list (str * (str -> str))),
  NoDup names -> forall ops, Forall op_wf ops ->
  let '(rs, w') := run H0 hadd haddb names cstr init_world ops in
  spec_ok names cstr init_sworld ops rs = true /\
  Rw H0 hadd haddb names w' (snd (spec_run names cstr init_sworld ops)).
Proof. exact C07_proofs.vec_refines_map_lemma. Qed.

(* the same, one operation at a time, from any related pair of states *)
Theorem vec_step_refines :
  forall (H0 : Z) (hadd : Z -> str -> Z) (haddb : Z -> Z -> Z) (names : list str)
         (cstr : list (str * (str -> str))),
  NoDup names -> forall w s o, Rw H0 hadd haddb names w s -> op_wf o ->
  let '(r, w') := step H0 hadd haddb names cstr w o in
  let '(x, s') := sstep names cstr s o in
  res_ok o x r = true /\ Rw H0 hadd haddb names w' s'.
Proof. exact C07_proofs.step_refines. Qed.

(* related states satisfy the state invariant and hold the same children *)
Theorem related_states_invariant :
  forall H0 hadd haddb names w s, Rw H0 hadd haddb names w s ->
  inv (Hfold H0 hadd haddb) (w_st w) /\ Permutation (entries (mm (w_st w))) (s_map s) /\
  next (w_st w) = s_next s /\ w_views w = s_views s /\ Forall (cwf names) (w_views w).
Proof. exact (fun H0 hadd haddb names w s R => R). Qed.

(* two lookups (by values or by label map, on any views) issued one after the other return the same
   child iff their full tuples are equal *)
Theorem lookup_same_child_iff_same_tuple :
  forall (H0 : Z) (hadd : Z -> str -> Z) (haddb : Z -> Z -> Z) (names : list str)
         (cstr : list (str * (str -> str))),
  NoDup names -> forall w s o1 o2 t1 t2, Rw H0 hadd haddb names w s -> op_wf o1 -> op_wf o2 ->
  is_lookup o1 = true -> is_lookup o2 = true ->
  req_of names cstr (w_views w) o1 = Some t1 -> req_of names cstr (w_views w) o2 = Some t2 ->
  exists a b, fst (step H0 hadd haddb names cstr w o1) = RId a /\
              fst (step H0 hadd haddb names cstr (snd (step H0 hadd haddb names cstr w o1)) o2) = RId b /\
              (a = b <-> t1 = t2).
Proof. exact C07_proofs.lookup_same_child_iff. Qed.

(* after a successful Delete / DeleteLabelValues of a tuple, the next lookup of that tuple returns a
   child with the next unused creation index (every earlier child has a smaller one) *)
Theorem deleted_child_is_recreated_fresh :
  forall (H0 : Z) (hadd : Z -> str -> Z) (haddb : Z -> Z -> Z) (names : list str)
         (cstr : list (str * (str -> str))),
  NoDup names -> forall w s o1 o2 t, Rw H0 hadd haddb names w s -> op_wf o1 -> op_wf o2 ->
  is_delete o1 = true -> is_lookup o2 = true ->
  req_of names cstr (w_views w) o1 = Some t -> req_of names cstr (w_views w) o2 = Some t ->
  fst (step H0 hadd haddb names cstr w o1) = RBool true ->
  fst (step H0 hadd haddb names cstr (snd (step H0 hadd haddb names cstr w o1)) o2) = RId (next (w_st w)) /\
  forall e, In e (entries (mm (w_st w))) -> (snd e < next (w_st w))%nat.
Proof. exact C07_proofs.deleted_child_recreated_fresh. Qed.

(* malformed requests (wrong arity; unknown, missing or already-curried names; invalid UTF-8, also in
   CurryWith) fail with an error that is not a runtime panic, Delete* answer false, and neither the
   children nor the views change *)
Theorem malformed_requests_fail_without_side_effects :
  forall (H0 : Z) (hadd : Z -> str -> Z) (haddb : Z -> Z -> Z) (names : list str)
         (cstr : list (str * (str -> str))),
  NoDup names -> forall w s o, Rw H0 hadd haddb names w s -> op_wf o ->
  match o with
  | OGetLV v must _ | OGetL v must _ =>
      req_of names cstr (w_views w) o = None ->
      exists e, step H0 hadd haddb names cstr w o = (RErr e must, w) /\ e <> e_panic
  | OCurry v must ls =>
      curry_ok names cstr (view_of (w_views w) v) ls = false ->
      exists e, step H0 hadd haddb names cstr w o = (RErr e must, w) /\ e <> e_panic
  | ODelLV _ _ | ODelL _ _ =>
      req_of names cstr (w_views w) o = None -> step H0 hadd haddb names cstr w o = (RBool false, w)
  | _ => True
  end.
Proof. exact C07_proofs.malformed_no_side_effect. Qed.

(* Delete / DeleteLabelValues remove exactly the child of the selected tuple and report whether there was one *)
Theorem delete_removes_exactly_the_selected_child :
  forall (H0 : Z) (hadd : Z -> str -> Z) (haddb : Z -> Z -> Z) (names : list str)
         (cstr : list (str * (str -> str))),
  NoDup names -> forall w s o t, Rw H0 hadd haddb names w s -> op_wf o -> is_delete o = true ->
  req_of names cstr (w_views w) o = Some t ->
  let '(r, w') := step H0 hadd haddb names cstr w o in
  entries (mm (w_st w')) = s_remove t (entries (mm (w_st w))) /\
  r = RBool (match alookup t (entries (mm (w_st w))) with Some _ => true | None => false end).
Proof. exact C07_proofs.delete_removes_exactly. Qed.

(* DeletePartialMatch removes exactly the children whose non-curried labels match and reports their number *)
Theorem delete_partial_match_exact :
  forall (H0 : Z) (hadd : Z -> str -> Z) (haddb : Z -> Z -> Z) (names : list str)
         (cstr : list (str * (str -> str))),
  NoDup names -> forall w s v ls, Rw H0 hadd haddb names w s ->
  let sel := fun e : entry => sel_partial names cstr (view_of (w_views w) v) ls (fst e) in
  let '(r, w') := step H0 hadd haddb names cstr w (ODelPartial v ls) in
  entries (mm (w_st w')) = filter (fun e => negb (sel e)) (entries (mm (w_st w))) /\
  r = RNum (Z.of_nat (length (filter sel (entries (mm (w_st w)))))).
Proof. exact (fun H0 hadd haddb names cstr _ => C07_proofs.delete_partial_removes_exactly H0 hadd haddb names cstr). Qed.

(* concurrency at lock granularity: a lookup is two critical sections (RLock probe; Lock re-check and
   create), every other call one -- Collect included (QCollect): it holds the read lock until its last
   send, so no deletion interleaves with it and what it delivers is the children of ONE state of the map.  For ANY hash of the tuple, any number of threads, any programs and
   any schedule of the sections: the calls ordered by their last section, with the results they
   returned, are a run of the plain map (linearizable); the invariant holds (one live child per tuple);
   the surviving children are exactly the map's (no lost or duplicated child); and the history
   consists of each thread's own calls in program order *)
Theorem vec_concurrent_linearizable :
  forall (H : values -> Z) (progs : list (list creq)) (sched : list nat),
  let '(c', hist) := crun H (cinit progs) sched in
  lin_ok init_sworld hist = true /\
  inv H (c_st c') /\
  Permutation (entries (mm (c_st c'))) (s_map (lin_final init_sworld hist)) /\
  forall tid, nth tid progs [] = done_by tid hist ++ todo_of c' tid.
Proof. exact C07_proofs.concurrent_linearizable. Qed.

(* REAL-TIME linearizability under the interleaving semantics of Base/Conc.v.  `vec_machine H` executes one
   critical section of metricMap per step (a lookup: RLock probe, then Lock re-check and create); time is
   the number of steps executed; a call's c_inv is the time at which it was invoked, c_res the time at
   which it returned.  For ANY hash, ANY thread programs and ANY schedule:
   (1) the plain map (vec_spec_step), replayed over the calls in the order of the history, returns exactly
       the results the calls returned, and the shared state satisfies the invariant and holds exactly the
       map's children;
   (2) that order is the order of the linearization points: the point of a call is the single step at
       which it returns, the history is strictly sorted by it (res_lt), and it lies strictly after the
       invocation and not after the response: 0 <= c_inv k < c_res k <= now;
   (3) hence real-time order is respected: a call that returned before another one was invoked
       (c_res a <= c_inv b) is replayed before it. *)
Theorem vec_linearizable_realtime :
  forall (H : values -> Z) (progs : list (list creq)) (sched : list Z),
  let c := Conc.run_sched (vec_machine H) (Conc.init_config (vec_machine H) (mkM [] 0) progs) sched in
  (exists s, seq_replay vec_spec_step init_sworld_c (map (@c_op (vec_machine H)) (hist c)) =
               (s, map (@c_ret (vec_machine H)) (hist c)) /\
             inv H (sh c) /\ Permutation (entries (mm (sh c))) (s_map s) /\ next (sh c) = s_next s) /\
  StronglySorted res_lt (hist c) /\
  Forall (fun k : call (vec_machine H) => (0 <= c_inv k < c_res k /\ c_res k <= now c)%Z) (hist c) /\
  (forall i j a b, nth_error (hist c) i = Some a -> nth_error (hist c) j = Some b ->
     (c_res a <= c_inv b)%Z -> (i < j)%nat).
Proof. exact C07_conc.vec_linearizable_realtime_lemma. Qed.

(* the executable real-time linearizability checker the harness applies to the implementation's histories
   (Model/VecConc.v vec_lin_check = lin_check over the plain map) accepts every history of the machine ... *)
Theorem vec_lin_check_complete :
  forall (H : values -> Z) (progs : list (list creq)) (sched : list Z),
  let c := Conc.run_sched (vec_machine H) (Conc.init_config (vec_machine H) (mkM [] 0) progs) sched in
  vec_lin_check H (hist c) = true.
Proof. exact C07_conc.vec_lin_check_complete_lemma. Qed.

(* ... and is sound: when it accepts a history (of complete calls with invocation and response times)
   there is a permutation of the calls that the plain map explains and in which no call comes after a
   different call that was invoked only after it had returned *)
Theorem vec_lin_check_sound :
  forall (H : values -> Z) (h : list (call (vec_machine H))),
  vec_lin_check H h = true -> exists h', Permutation h' h /\ linearization_of H init_sworld_c h'.
Proof. exact C07_conc.vec_lin_check_sound_lemma. Qed.

(* the production hooks compute FNV-1a (constants read from fnv.go by the translator) of
   value_1 FF value_2 FF ...; the theorems above therefore cover the production hash *)
Theorem fnv_fold_is_H :
  forall vals, Hfold fnv_offset64 fnv_add fnv_addb vals = fnv1a (concat (map (fun v => v ++ [255%Z]) vals)).
Proof. exact C07_proofs.fnv_fold_is_H_lemma. Qed.

(* hypotheses are satisfiable, statements not vacuous: a concrete run under a constant hash (all
   children collide), its acceptance by the specification checker, and a creation race *)
Example example_constant_hash_run :
  fst (run 7%Z (fun h _ => h) (fun h _ => h) ex_names [] init_world ex_ops) =
  [ RId 0; RId 1; RView; RId 2; RId 0; RErr 1%Z false; RNum 2%Z; RId 3; RBool false;
    RColl [([[50%Z]; [121%Z]], 1%nat); ([[49%Z]; [120%Z]], 3%nat)] ].
Proof. exact C07_proofs.ex_constant_hash. Qed.

Example example_hypotheses_hold : NoDup ex_names /\ Forall op_wf ex_ops.
Proof. exact C07_proofs.ex_names_nodup. Qed.

Example example_spec_checker_accepts :
  spec_ok ex_names [] init_sworld ex_ops
    (fst (run fnv_offset64 fnv_add fnv_addb ex_names [] init_world ex_ops)) = true.
Proof. exact C07_proofs.ex_spec_ok. Qed.

Example example_creation_race :
  map e_res (snd (crun (fun _ => 0%Z) (cinit [[QGet [[49%Z]]]; [QGet [[49%Z]]; QDel [[49%Z]]]]) [0; 1; 1; 0; 1]%nat)) =
  [RId 0; RId 0; RBool true].
Proof. exact C07_proofs.ex_race. Qed.
