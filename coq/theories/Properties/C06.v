(* Properties/C06.v -- Summary count/sum are exact and quantiles reflect only the sliding window
   (prometheus/summary.go, the summary WITH objectives).  Only statements; proofs are in
   Proofs/C06_proofs.v.  The model (Model/SummaryWindow.v) transcribes Observe / Write / asyncFlush /
   swapBufs / flushColdBuf / maybeRotateStreams with time as Z nanoseconds and a quantile stream as
   the list of values inserted since its last reset; the specification is written over the
   observation log only.  All theorems quantify over every configuration with streamDuration > 0,
   AgeBuckets > 0, BufCap > 0, every creation time, and every sequence of Observe / Advance / Write
   with non-negative clock advances, without any size bound.

   The concurrent clause is proved at the end of this file over the step machine of
   Model/SummaryConc.v (one step per schedule point of the instrumented code) for ALL schedules.
   Not proved here (tested by the harness, see checks/C06.json): the epsilon-rank guarantee of the
   value the external estimator (beorn7/perks) returns. *)
From Coq Require Import ZArith List Bool Sorted Permutation.
From Verif Require Import Base.F64 Base.Str Model.SummaryWindow Proofs.C06_proofs.
From Verif Require Import Base.Conc Model.SummaryConc Proofs.C06_conc.
From Verif Require Gen.Gen_Consts Proofs.Gen_tie.
Import ListNotations.
Open Scope Z_scope.

(* the model equals the specification on every history: no OutOfFuel, no panic, and every collection
   reports (number of observations, fadd-fold of the observations, the window of the exact law) *)
Theorem model_eq_spec : forall c objs t0 ops, valid_cfg c -> advances_nonneg ops ->
  exists outs, run c objs t0 ops = Ok outs /\ map project outs = spec_run c t0 ops
               /\ Forall (shaped objs) outs.
Proof. exact C06_proofs.model_eq_spec_lemma. Qed.

(* count = number of Observe calls so far; sum = left fold of float addition over them in call order
   (NaN and infinities included) *)
Theorem summary_count_sum_exact : forall c objs t0 ops, valid_cfg c -> advances_nonneg ops ->
  exists outs w, run c objs t0 (ops ++ [OWrite]) = Ok (outs ++ [w])
    /\ w_count w = Z.of_nat (length (obs_values ops))
    /\ w_sum w = fold_left fadd (obs_values ops) pzero.
Proof. exact C06_proofs.summary_count_sum_exact_lemma. Qed.

(* exact window law: a collection at time t queries a stream holding exactly the observations made
   strictly after t0 + (max 1 ceil((t-t0)/d) - n) * d, in order; all of them while that bound is <= t0 *)
Theorem window_contents : forall c objs t0 ops, valid_cfg c -> advances_nonneg ops ->
  exists outs w, run c objs t0 (ops ++ [OWrite]) = Ok (outs ++ [w])
    /\ w_window w = spec_window c t0 (obs_log t0 ops) (end_time t0 ops).
Proof. exact C06_proofs.window_contents_lemma. Qed.

(* hence: every observation younger than (n-1)*d is in the window, and nothing older than n*d is
   (n*d <= MaxAge by new_summary_cfg; (n-1)*d is MaxAge*(1-1/n) up to the < n ns lost to the
   integer division MaxAge / AgeBuckets) *)
Theorem window_bounds : forall c objs t0 ops, valid_cfg c -> advances_nonneg ops ->
  exists outs w, run c objs t0 (ops ++ [OWrite]) = Ok (outs ++ [w]) /\
    (forall o, In o (obs_log t0 ops) -> younger c (end_time t0 ops) o = true -> In (snd o) (w_window w)) /\
    (forall v, In v (w_window w) -> exists o, In o (obs_log t0 ops) /\ snd o = v /\ not_older c (end_time t0 ops) o = true).
Proof. exact C06_proofs.window_bounds_lemma. Qed.

(* the exposed quantiles are the sorted objectives, and a quantile is NaN iff the window is empty
   (otherwise the external Query is asked about exactly that window) *)
Theorem quantile_nan_iff_empty : forall c objs t0 ops outs, run c objs t0 ops = Ok outs ->
  Forall (fun w => map fst (w_quantiles w) = map fst objs /\
                   forall q v, In (q, v) (w_quantiles w) -> (v = QNaN <-> w_window w = [])) outs.
Proof. exact C06_proofs.quantile_nan_iff_empty_lemma. Qed.

(* sort.Float64s on the objective keys: increasing, same entries *)
Theorem objectives_sorted : forall l, Forall (fun y => is_nan (fst y) = false) l ->
  Sorted obj_le (sort_objs l) /\ Permutation (sort_objs l) l.
Proof. exact C06_proofs.objectives_sorted_lemma. Qed.

(* both loops terminate when streamDuration > 0 *)
Theorem rotation_terminates :
  (forall d now exp, 0 < d -> exists fuel e, swap_loop fuel d now exp = Some e) /\
  (forall c objs t0 ops, valid_cfg c -> advances_nonneg ops ->
     run c objs t0 ops <> OutOfFuel /\ run c objs t0 ops <> Panic).
Proof. exact C06_proofs.rotation_terminates_lemma. Qed.

(* KNOWN finding stream-duration-zero: MaxAge = 1ns, AgeBuckets = 5 is accepted, streamDuration = 0,
   and once the clock has advanced the swapBufs loop of Observe does not end for any fuel *)
Theorem stream_duration_zero_refuted :
  exists o c objs s, 0 < o_max_age o /\ new_summary o 0 = NSummary c objs s /\ c_d c = 0 /\
    forall fuel v, observe_f fuel c 1 v s = OutOfFuel.
Proof. exact C06_proofs.stream_duration_zero_refuted_lemma. Qed.

(* construction: "quantile" is refused as a variable or constant label name ... *)
Theorem quantile_label_refused : forall o t0, length (o_vars o) = o_nvalues o ->
  (In quantile_label (o_vars o) \/ In quantile_label (o_consts o) <-> new_summary o t0 = NPanicQuantileLabel).
Proof. exact C06_proofs.quantile_label_refused_lemma. Qed.

Theorem vec_quantile_label_refused : forall vars,
  new_summary_vec_refuses vars = true <-> In quantile_label vars.
Proof. exact C06_proofs.vec_quantile_label_refused_lemma. Qed.

(* ... and a negative MaxAge panics *)
Theorem negative_maxage_panics : forall o t0, length (o_vars o) = o_nvalues o ->
  ~ In quantile_label (o_vars o) -> ~ In quantile_label (o_consts o) ->
  (o_max_age o < 0 <-> new_summary o t0 = NPanicMaxAge).
Proof. exact C06_proofs.negative_maxage_panics_lemma. Qed.

(* an accepted construction starts in the initial state, n*d <= MaxAge, and the configuration is
   valid (d > 0) exactly when MaxAge >= AgeBuckets nanoseconds (after defaults) *)
Theorem new_summary_cfg : forall o t0 c objs s, 0 <= o_age_buckets o -> 0 <= o_buf_cap o ->
  new_summary o t0 = NSummary c objs s ->
  s = init_state c t0 /\ 0 <= c_d c /\ Z.of_nat (c_n c) * c_d c <= eff_max_age o /\
  (valid_cfg c <-> eff_buckets o <= eff_max_age o).
Proof. exact C06_proofs.new_summary_cfg_lemma. Qed.

(* the rank checker used by the harness accepts only values that occur in the window *)
Theorem rank_check_member : forall w q eps x, is_nan x = false ->
  rank_check w q eps x = true -> exists y, In y w /\ feq y x = true.
Proof. exact C06_proofs.rank_check_member_lemma. Qed.

(* lock order bufMtx -> mtx on a two-lock abstraction (superseded by conc_no_deadlock below, kept as a sanity lemma) *)
Theorem summary_no_deadlock : forall ts,
  existsb (fun t => negb (match t with TIdle => true | _ => false end)) ts = true ->
  existsb (enabled ts) ts = true.
Proof. exact C06_proofs.summary_no_deadlock_lemma. Qed.

(* the hypotheses are satisfiable and the law computes what one expects on a concrete history *)
Example hypotheses_satisfiable : valid_cfg ex_cfg /\ advances_nonneg ex_ops.
Proof. exact C06_proofs.example_hyps. Qed.

Example window_example :
  match run ex_cfg [] 0 ex_ops with
  | Ok outs => map (fun w => (w_count w, map to_bits (w_window w))) outs
  | _ => []
  end = [(3, map to_bits [of_Z 1; of_Z 2; of_Z 3]); (4, map to_bits [of_Z 1; of_Z 2; of_Z 3; of_Z 4]);
         (4, map to_bits [of_Z 4]); (4, [])].
Proof. exact C06_proofs.example_run. Qed.

(* the defaults and the reserved label of the model are the ones of the Go source (regenerated on every run) *)
Theorem summary_defaults_match_source :
  SummaryWindow.def_max_age = Verif.Gen.Gen_Consts.def_max_age_ns /\
  SummaryWindow.def_age_buckets = Verif.Gen.Gen_Consts.def_age_buckets /\
  SummaryWindow.def_buf_cap = Verif.Gen.Gen_Consts.def_buf_cap /\
  SummaryWindow.quantile_label = Verif.Gen.Gen_Consts.quantile_label.
Proof. exact Verif.Proofs.Gen_tie.summary_defaults_match_source_lemma. Qed.

(* ================================================================== *)
(* The concurrent clause: concurrent Observe and Write calls never lose an observation.
   Setting: the step machine summ_obj_machine c objs clk of Model/SummaryConc.v (threads run Observe v /
   Write; one step per Mutex.Lock / Mutex.Unlock of bufMtx and mtx - the critical-section body is executed
   with the Lock that precedes it - and per start of the goroutine spawned by asyncFlush, which is a thread of
   its own; swapBufs / flushColdBuf / maybeRotateStreams are those of Model/SummaryWindow.v; the injected
   clock is an arbitrary oracle clk) under the interleaving semantics of Base/Conc.v.  Every theorem
   quantifies over ALL configurations with streamDuration > 0, ALL clocks, ALL program lists (any number of
   threads and calls, any values, NaN included) and ALL schedules; hist cf is the list of finished calls in
   completion order with logical invocation/response times c_inv / c_res.
   Vocabulary (Proofs/C06_conc.v):  kobs k: the call k is an Observe;  kwrite k: k returned a collection;
     vals S: the observation values of the calls S;
     snapshot_of hs F w S: the Write call w returned out with  w_count out = |P|  and
       w_sum out = fold_left fadd P +0  for an initial segment P of F that is a permutation of vals S, where S is
       a duplicate-free list of Observe calls of hs, every member of S returned before w returned, and every
       Observe of hs that returned before w was invoked is in S;
     quiescent cf: every thread has finished its program (flusher-pool threads whose goroutine was never
       spawned do not count) and no spawned flusher is waiting to start. *)

(* (a) There is ONE sequence F - the observation values in the order in which the machine flushed them; the
   final cnt and sum are its length and its left-to-right float sum - such that every completed Write reports
   count and float sum of an initial segment of F which is a permutation of the values of a set S of Observe
   calls containing every Observe that returned before the Write started and only Observes that returned
   before it finished; the sets of successive Writes (completion order) form an increasing chain. *)
Theorem conc_writes_explained : forall (c : cfg) (objs : list (f64 * f64)) (clk : Z -> Z), 0 < c_d c ->
  forall (t0 : Z) (progs : list (list sop)) (sched : list Z),
  let M := summ_obj_machine c objs clk in
  let cf := run_sched M (init_config M (cinit c t0) progs) sched in
  exists (F : list f64) (snap : list (call M * list (call M))),
    cnt (c_st (sh cf)) = Z.of_nat (length F) /\ sum (c_st (sh cf)) = fold_left fadd F pzero /\
    map fst snap = filter (C06_conc.kwrite c objs clk) (Conc.hist cf) /\
    Forall (fun e => C06_conc.snapshot_of c objs clk (Conc.hist cf) F (fst e) (snd e)) snap /\
    (forall i j e1 e2, (i < j)%nat -> nth_error snap i = Some e1 -> nth_error snap j = Some e2 ->
       incl (snd e1) (snd e2)).
Proof. exact C06_conc.writes_explained_lemma. Qed.

(* ... in particular the reported count never decreases from one Write to the next (completion order) *)
Theorem conc_write_counts_monotone : forall (c : cfg) (objs : list (f64 * f64)) (clk : Z -> Z), 0 < c_d c ->
  forall (t0 : Z) (progs : list (list sop)) (sched : list Z),
  let M := summ_obj_machine c objs clk in
  let cf := run_sched M (init_config M (cinit c t0) progs) sched in
  exists snap : list (call M * list (call M)),
    map fst snap = filter (C06_conc.kwrite c objs clk) (Conc.hist cf) /\
    forall i j w1 S1 w2 S2 o1 o2, (i < j)%nat -> nth_error snap i = Some (w1, S1) -> nth_error snap j = Some (w2, S2) ->
      (c_ret w1 : sret) = ROut o1 -> (c_ret w2 : sret) = ROut o2 -> w_count o1 <= w_count o2.
Proof. exact C06_conc.write_counts_monotone_lemma. Qed.

(* (b) At quiescence both mutexes are free, the cold buffer is empty, and the flushed sequence F followed by
   the hot buffer is a permutation of ALL Observe calls of the history: cnt + |hotBuf| observations, none lost,
   none twice; sum is the float sum of F in the order the machine flushed it. *)
Theorem conc_quiescent_total : forall (c : cfg) (objs : list (f64 * f64)) (clk : Z -> Z), 0 < c_d c ->
  forall (t0 : Z) (progs : list (list sop)) (sched : list Z),
  let M := summ_obj_machine c objs clk in
  let cf := run_sched M (init_config M (cinit c t0) progs) sched in
  C06_conc.quiescent c objs clk cf = true ->
  let st := c_st (sh cf) in
  c_buf (sh cf) = false /\ c_mtx (sh cf) = false /\ cold st = [] /\
  exists F, cnt st = Z.of_nat (length F) /\ sum st = fold_left fadd F pzero /\
            Permutation (F ++ hot st) (C06_conc.vals c objs clk (filter (C06_conc.kobs c objs clk) (Conc.hist cf))).
Proof. exact C06_conc.quiescent_total_lemma. Qed.

(* (c) No reachable configuration is a deadlock (lock order bufMtx -> mtx; a spawned flusher always runs):
   for user programs U run together with the pool of 2 * (number of Observe calls) flusher threads
   (crun / all_progs: an Observe executes at most two `go` statements), whenever the configuration is not
   quiescent some thread can take a step.  No thread ever panics ("coldBuf is not empty") or exhausts the
   loop fuel: `crashed` is excluded by the invariant. *)
Theorem conc_no_deadlock : forall (c : cfg) (objs : list (f64 * f64)) (clk : Z -> Z), 0 < c_d c ->
  forall (t0 : Z) (U : list (list uop)) (sched : list Z),
  let cf := crun c objs clk t0 U sched in
  C06_conc.quiescent c objs clk cf = false ->
  exists tid, sched_step (summ_obj_machine c objs clk) cf tid <> None.
Proof. exact C06_conc.no_deadlock_lemma. Qed.

(* a concrete interleaving (BufCap 1): a Write running between two Observes of another thread reports exactly the
   first one; at the end the machine is quiescent with count 2 *)
Example conc_example :
  map (fun k : call (summ_obj_machine exc [] (fun _ => 0)) =>
         (c_tid k, c_idx k, match (c_ret k : sret) with ROut w => Some (w_count w, to_bits (w_sum w)) | RUnit => None end,
          c_inv k, c_res k)) (Conc.hist excf)
  = [(0, 0, None, 0, 4); (2, 0, None, 0, 6); (1, 0, Some (1, to_bits (of_Z 1)), 0, 10); (0, 1, None, 4, 13); (3, 0, None, 0, 14)]
  /\ map fst (trace excf) = [0; 0; 2; 0; 1; 2; 1; 1; 0; 1; 0; 3; 0; 3]
  /\ C06_conc.quiescent exc [] (fun _ => 0) excf = true /\ cnt (c_st (sh excf)) = 2.
Proof. exact C06_conc.conc_example_lemma. Qed.
