(* Properties/C06.v -- Summary count/sum are exact and quantiles reflect only the sliding window
   (prometheus/summary.go, the summary WITH objectives).  Only statements; proofs are in
   Proofs/C06_proofs.v.  The model (Model/SummaryWindow.v) transcribes Observe / Write / asyncFlush /
   swapBufs / flushColdBuf / maybeRotateStreams with time as Z nanoseconds and a quantile stream as
   the list of values inserted since its last reset; the specification is written over the
   observation log only.  All theorems quantify over every configuration with streamDuration > 0,
   AgeBuckets > 0, BufCap > 0, every creation time, and every sequence of Observe / Advance / Write
   with non-negative clock advances, without any size bound.

   Not proved here (tested by the harness, see checks/C06.json): the epsilon-rank guarantee of the
   value the external estimator (beorn7/perks) returns, and the concurrent clause on real goroutines. *)
From Coq Require Import ZArith List Bool Sorted Permutation.
From Verif Require Import Base.F64 Base.Str Model.SummaryWindow Proofs.C06_proofs.
From Verif Require Gen.Gen_Consts Proofs.Gen_tie.
Import ListNotations.
Open Scope Z_scope.

(* the model equals the specification on every history: no OutOfFuel, no panic, and every collection
   reports (number of observations, fadd-fold of the observations, the window of the exact law) *)
Theorem model_eq_spec : forall c objs t0 ops, valid_cfg c -> advances_nonneg ops ->
  exists outs, run c objs t0 ops = Ok outs /\ map project outs = spec_run c t0 ops
               /\ Forall (shaped objs) outs.
Proof. exact C06_proofs.model_eq_spec_lemma. Qed.

(* count = number of Observe calls so far; sum = left fold of float addition over them in call order
   (NaN and infinities included) *)
Theorem summary_count_sum_exact : forall c objs t0 ops, valid_cfg c -> advances_nonneg ops ->
  exists outs w, run c objs t0 (ops ++ [OWrite]) = Ok (outs ++ [w])
    /\ w_count w = Z.of_nat (length (obs_values ops))
    /\ w_sum w = fold_left fadd (obs_values ops) pzero.
Proof. exact C06_proofs.summary_count_sum_exact_lemma. Qed.

(* exact window law: a collection at time t queries a stream holding exactly the observations made
   strictly after t0 + (max 1 ceil((t-t0)/d) - n) * d, in order; all of them while that bound is <= t0 *)
Theorem window_contents : forall c objs t0 ops, valid_cfg c -> advances_nonneg ops ->
  exists outs w, run c objs t0 (ops ++ [OWrite]) = Ok (outs ++ [w])
    /\ w_window w = spec_window c t0 (obs_log t0 ops) (end_time t0 ops).
Proof. exact C06_proofs.window_contents_lemma. Qed.

(* hence: every observation younger than (n-1)*d is in the window, and nothing older than n*d is
   (n*d <= MaxAge by new_summary_cfg; (n-1)*d is MaxAge*(1-1/n) up to the < n ns lost to the
   integer division MaxAge / AgeBuckets) *)
Theorem window_bounds : forall c objs t0 ops, valid_cfg c -> advances_nonneg ops ->
  exists outs w, run c objs t0 (ops ++ [OWrite]) = Ok (outs ++ [w]) /\
    (forall o, In o (obs_log t0 ops) -> younger c (end_time t0 ops) o = true -> In (snd o) (w_window w)) /\
    (forall v, In v (w_window w) -> exists o, In o (obs_log t0 ops) /\ snd o = v /\ not_older c (end_time t0 ops) o = true).
Proof. exact C06_proofs.window_bounds_lemma. Qed.

(* the exposed quantiles are the sorted objectives, and a quantile is NaN iff the window is empty
   (otherwise the external Query is asked about exactly that window) *)
Theorem quantile_nan_iff_empty : forall c objs t0 ops outs, run c objs t0 ops = Ok outs ->
  Forall (fun w => map fst (w_quantiles w) = map fst objs /\
                   forall q v, In (q, v) (w_quantiles w) -> (v = QNaN <-> w_window w = [])) outs.
Proof. exact C06_proofs.quantile_nan_iff_empty_lemma. Qed.

(* sort.Float64s on the objective keys: increasing, same entries *)
Theorem objectives_sorted : forall l, Forall (fun y => is_nan (fst y) = false) l ->
  Sorted obj_le (sort_objs l) /\ Permutation (sort_objs l) l.
Proof. exact C06_proofs.objectives_sorted_lemma. Qed.

(* both loops terminate when streamDuration > 0 *)
Theorem rotation_terminates :
  (forall d now exp, 0 < d -> exists fuel e, swap_loop fuel d now exp = Some e) /\
  (forall c objs t0 ops, valid_cfg c -> advances_nonneg ops ->
     run c objs t0 ops <> OutOfFuel /\ run c objs t0 ops <> Panic).
Proof. exact C06_proofs.rotation_terminates_lemma. Qed.

(* KNOWN finding stream-duration-zero: MaxAge = 1ns, AgeBuckets = 5 is accepted, streamDuration = 0,
   and once the clock has advanced the swapBufs loop of Observe does not end for any fuel *)
Theorem stream_duration_zero_refuted :
  exists o c objs s, 0 < o_max_age o /\ new_summary o 0 = NSummary c objs s /\ c_d c = 0 /\
    forall fuel v, observe_f fuel c 1 v s = OutOfFuel.
Proof. exact C06_proofs.stream_duration_zero_refuted_lemma. Qed.

(* construction: "quantile" is refused as a variable or constant label name ... *)
Theorem quantile_label_refused : forall o t0, length (o_vars o) = o_nvalues o ->
  (In quantile_label (o_vars o) \/ In quantile_label (o_consts o) <-> new_summary o t0 = NPanicQuantileLabel).
Proof. exact C06_proofs.quantile_label_refused_lemma. Qed.

Theorem vec_quantile_label_refused : forall vars,
  new_summary_vec_refuses vars = true <-> In quantile_label vars.
Proof. exact C06_proofs.vec_quantile_label_refused_lemma. Qed.

(* ... and a negative MaxAge panics *)
Theorem negative_maxage_panics : forall o t0, length (o_vars o) = o_nvalues o ->
  ~ In quantile_label (o_vars o) -> ~ In quantile_label (o_consts o) ->
  (o_max_age o < 0 <-> new_summary o t0 = NPanicMaxAge).
Proof. exact C06_proofs.negative_maxage_panics_lemma. Qed.

(* an accepted construction starts in the initial state, n*d <= MaxAge, and the configuration is
   valid (d > 0) exactly when MaxAge >= AgeBuckets nanoseconds (after defaults) *)
Theorem new_summary_cfg : forall o t0 c objs s, 0 <= o_age_buckets o -> 0 <= o_buf_cap o ->
  new_summary o t0 = NSummary c objs s ->
  s = init_state c t0 /\ 0 <= c_d c /\ Z.of_nat (c_n c) * c_d c <= eff_max_age o /\
  (valid_cfg c <-> eff_buckets o <= eff_max_age o).
Proof. exact C06_proofs.new_summary_cfg_lemma. Qed.

(* the rank checker used by the harness accepts only values that occur in the window *)
Theorem rank_check_member : forall w q eps x, is_nan x = false ->
  rank_check w q eps x = true -> exists y, In y w /\ feq y x = true.
Proof. exact C06_proofs.rank_check_member_lemma. Qed.

(* lock order bufMtx -> mtx, two-lock abstraction: whenever some thread is not idle, some thread can step *)
Theorem summary_no_deadlock : forall ts,
  existsb (fun t => negb (match t with TIdle => true | _ => false end)) ts = true ->
  existsb (enabled ts) ts = true.
Proof. exact C06_proofs.summary_no_deadlock_lemma. Qed.

(* the hypotheses are satisfiable and the law computes what one expects on a concrete history *)
Example hypotheses_satisfiable : valid_cfg ex_cfg /\ advances_nonneg ex_ops.
Proof. exact C06_proofs.example_hyps. Qed.

Example window_example :
  match run ex_cfg [] 0 ex_ops with
  | Ok outs => map (fun w => (w_count w, map to_bits (w_window w))) outs
  | _ => []
  end = [(3, map to_bits [of_Z 1; of_Z 2; of_Z 3]); (4, map to_bits [of_Z 1; of_Z 2; of_Z 3; of_Z 4]);
         (4, map to_bits [of_Z 4]); (4, [])].
Proof. exact C06_proofs.example_run. Qed.

(* the defaults and the reserved label of the model are the ones of the Go source (regenerated on every run) *)
Theorem summary_defaults_match_source :
  SummaryWindow.def_max_age = Verif.Gen.Gen_Consts.def_max_age_ns /\
  SummaryWindow.def_age_buckets = Verif.Gen.Gen_Consts.def_age_buckets /\
  SummaryWindow.def_buf_cap = Verif.Gen.Gen_Consts.def_buf_cap /\
  SummaryWindow.quantile_label = Verif.Gen.Gen_Consts.quantile_label.
Proof. exact Verif.Proofs.Gen_tie.summary_defaults_match_source_lemma. Qed.
