(* Properties/C19.v -- WriteToTextfile replaces the target atomically or not at all.
   Only statements; proofs are in Proofs/C19_proofs.v.

   The program is Gen_Textfile.write_to_textfile_ops, regenerated from prometheus/registry.go on
   every run.  All clauses are proved for EVERY program accepted by the recogniser shape_safe
   (gathers; create temp in the target directory; defer remove right away; gathers; encode all into
   the temp file; close; chmod 0644; rename last -- each returning early on error) and instantiated
   by program_shape_safe.  Writing in place, renaming before close, a chmod other than 0644 or
   dropping the deferred remove make the translator emit a different list and this theorem fail.

   Quantifiers: nf w = number of families gathered by call w (any); old = target absent or a
   complete file of any mode; evs = ANY list of events over arbitrarily many concurrent calls on the
   same path: a step of some call, failing with an error or a panic or not, or a crash of some call
   (optionally in the middle of a write).  Every prefix of a run is a run, so statements about
   `run nf evs` speak about every intermediate state. *)
From Coq Require Import ZArith List Bool.
From Verif Require Import Gen.Gen_Textfile Model.Textfile Proofs.C19_proofs.
Import ListNotations.

Definition prog := write_to_textfile_ops.

(* the Go source still has the recognised shape *)
Theorem program_shape_safe : shape_safe prog = true.
Proof. exact C19_proofs.program_shape_safe_lemma. Qed.

(* at every moment of every run the target path is exactly as before (absent / the complete old
   content with its mode) or a complete new exposition with mode 0644: never partial, never empty
   or missing when it existed *)
Theorem textfile_atomic : forall ops nf old evs,
  shape_safe ops = true ->
  target_ok old (target_state nf (run nf evs (init_sys ops old))) = true.
Proof. exact C19_proofs.textfile_atomic_lemma. Qed.

(* once a call has returned (nil, error or panic) its temp file is gone ... *)
Theorem no_temp_left : forall ops nf old evs w,
  shape_safe ops = true ->
  let s := run nf evs (init_sys ops old) in
  w_status (s_ws s w) = Returned -> temp_state nf s w = TAbsent.
Proof. exact C19_proofs.no_temp_left_lemma. Qed.

(* ... but after a crash a partial temp file may remain (the target is still intact) *)
Theorem temp_may_remain_after_crash :
  exists evs, let s := run (fun _ => 2%nat) evs (init_sys prog (Some 420%Z)) in
    w_status (s_ws s 0%nat) = Crashed /\ temp_state (fun _ => 2%nat) s 0%nat = TPartial /\
    target_state (fun _ => 2%nat) s = TOldFile 420%Z.
Proof. exact C19_proofs.temp_may_remain_after_crash_lemma. Qed.

(* a reader that opens the path at any moment (after evs1) holds a file that never changes again
   (whatever happens later, evs2) and is complete old / complete new 0644; and a path that existed
   never goes missing *)
Theorem reader_never_partial : forall ops nf old evs1 evs2 i,
  shape_safe ops = true ->
  let s1 := run nf evs1 (init_sys ops old) in
  let s2 := run nf evs2 s1 in
  dir (s_fs s1) NTarget = Some i ->
  inodes (s_fs s2) i = inodes (s_fs s1) i /\
  target_ok old (classify nf (s_fs s2) (Some i)) = true /\
  dir (s_fs s2) NTarget <> None.
Proof. exact C19_proofs.reader_never_partial_lemma. Qed.

(* one call, nobody else: nil means the complete new file with mode 0644 ... *)
Theorem success_means_new_0644 : forall ops nf old evs w,
  shape_safe ops = true ->
  (forall e, In e evs -> ev_writer e = w) ->
  let s := run nf evs (init_sys ops old) in
  w_status (s_ws s w) = Returned -> w_res (s_ws s w) = ROk ->
  target_state nf s = TNewFile w new_mode.
Proof. exact C19_proofs.success_means_new_0644_lemma. Qed.

(* ... and an error or a panic means the target is exactly as before *)
Theorem error_means_unchanged : forall ops nf old evs w,
  shape_safe ops = true ->
  (forall e, In e evs -> ev_writer e = w) ->
  let s := run nf evs (init_sys ops old) in
  w_status (s_ws s w) = Returned -> w_res (s_ws s w) <> ROk ->
  target_state nf s = old_state old.
Proof. exact C19_proofs.error_means_unchanged_lemma. Qed.

(* concurrent calls on one path: if some call returned nil the target is the complete file of a call
   whose rename succeeded; as long as no rename succeeded it is untouched *)
Theorem concurrent_calls : forall ops nf old evs,
  shape_safe ops = true ->
  let s := run nf evs (init_sys ops old) in
  (forall w, w_status (s_ws s w) = Returned -> w_res (s_ws s w) = ROk ->
     exists w', w_ops (s_ws s w') = [] /\ w_res (s_ws s w') = ROk /\ target_state nf s = TNewFile w' new_mode) /\
  ((forall w, w_res (s_ws s w) = ROk -> w_ops (s_ws s w) <> []) -> target_state nf s = old_state old).
Proof. exact C19_proofs.concurrent_calls_lemma. Qed.

(* model = specification for a sequential call: it terminates, returns nil iff no fault was injected
   at a reachable site, and leaves exactly what the property demands *)
Theorem exec_matches_spec : forall ops n st pk old,
  shape_safe ops = true ->
  w_status (fst (exec_solo ops n st pk old)) = Returned /\
  outcome_of n (exec_solo ops n st pk old) = spec_outcome old n st pk.
Proof. exact C19_proofs.exec_matches_spec_lemma. Qed.

(* the interpreter with a crash point: killed after any number of steps, the target is intact *)
Theorem exec_crash_atomic : forall ops n faults crash old,
  shape_safe ops = true ->
  target_ok old (target_state (fun _ => n) (exec ops n faults crash old)) = true.
Proof. exact C19_proofs.exec_atomic_lemma. Qed.

(* non-vacuity: two calls interleaved on an existing 0600 file; call 1 fails in its second family,
   call 0 succeeds; a reader in between sees the old file, afterwards the new one; no temp is left *)
Example example_two_calls :
  let nf := fun w : nat => match w with O => 2%nat | _ => 3%nat end in
  let go := fun evs => run nf evs (init_sys prog (Some 384%Z)) in
  let half := [EStep 0 FNone; EStep 1 FNone; EStep 0 FNone; EStep 1 FNone; EStep 0 FNone; EStep 1 FNone;
               EStep 0 FNone; EStep 1 FNone; EStep 1 FErr; EStep 0 FNone] in
  let rest := [EStep 0 FNone; EStep 0 FNone; EStep 0 FNone; EStep 0 FNone; EStep 0 FNone; EStep 0 FNone;
               EStep 1 FNone; EStep 1 FNone] in
  (target_state nf (go half), temp_state nf (go half) 0%nat, temp_state nf (go half) 1%nat,
   target_state nf (go (half ++ rest)), temp_state nf (go (half ++ rest)) 0%nat, temp_state nf (go (half ++ rest)) 1%nat,
   w_res (s_ws (go (half ++ rest)) 0%nat), w_res (s_ws (go (half ++ rest)) 1%nat),
   w_status (s_ws (go (half ++ rest)) 0%nat), w_status (s_ws (go (half ++ rest)) 1%nat))
  = (TOldFile 384%Z, TNewFile 0%nat 384%Z (* complete, still 0600, not yet renamed *), TPartial,
     TNewFile 0%nat 420%Z, TAbsent, TAbsent, ROk, RErr, Returned, Returned).
Proof. vm_compute. reflexivity. Qed.

(* non-vacuity of the sequential interpreter: chmod fails with the old file present *)
Example example_chmod_fails :
  outcome_of 3 (exec_solo prog 3 SChmod false (Some 416%Z)) = (RErr, TOldFile 416%Z, TAbsent).
Proof. vm_compute. reflexivity. Qed.
