(* Properties/C02.v -- C02: every histogram/summary scrape is a consistent point-in-time snapshot.
   Statements only; proofs are in Proofs/C02_proofs.v.
   Setting: the step machines of Model/HotCold.v (one step per sync/atomic or mutex operation of
   histogram.go Observe/Write and of summary.go noObjectivesSummary) run under the interleaving semantics
   of Base/Conc.v.  Every theorem quantifies over ALL bucket layouts `bounds`, ALL program lists `progs`
   (any number of observing and collecting threads, any number of calls, any observation values) and ALL
   schedules `sched`; c is the configuration reached, `hist c` its finished calls in completion order with
   logical invocation/response times c_inv/c_res.
   Vocabulary (defined in C02_proofs):
     kobs k            the call k is an Observe;   vals S = the observation values of the calls S
     SumOf l s         s is the value of some fadd-expression whose leaves are exactly the members of l (each once,
                       any order, any bracketing) and +0 leaves  (float addition is not associative: "the sum of
                       exactly these observations" can only mean this)
     consistent bounds o Mo   ho_count o = |Mo|,  ho_cum o = [number of v in Mo with v <= b | b in bounds],
                       SumOf Mo (ho_sum o)
     snapshot_of bounds h w S   the Write call w returned an output consistent with vals S, where S is a
                       duplicate-free list of Observe calls of the history h, every member of S was invoked
                       before w returned, and every Observe of h that returned before w was invoked is in S. *)
From Coq Require Import ZArith List Bool.
From Verif Require Import Base.F64 Base.Conc Model.ClassicHist Model.HotCold Proofs.C02_proofs.
Import ListNotations.
Open Scope Z_scope.

(* T1. Every collection describes ONE set of observations: there is a list Mo of observation values such that the
   sample count is |Mo| (= what the +Inf cumulative bucket would be), every cumulative bucket count is the number
   of members of Mo below its bound, and the sample sum is a float sum of exactly the members of Mo. *)
Theorem scrape_consistent : forall (bounds : list f64) (progs : list (list hop)) (sched : list Z),
  strictly_increasing_b bounds = true ->
  let c := run_sched hist_machine (init_config hist_machine (hinit bounds) progs) sched in
  forall w o, In w (Conc.hist c) -> c_ret w = HOut o ->
  exists Mo : list f64,
    ho_count o = Z.of_nat (length Mo) /\
    ho_cum o = map (fun b => count_le Mo b) bounds /\
    C02_proofs.SumOf Mo (ho_sum o).
Proof. exact C02_proofs.hist_scrape_consistent. Qed.

(* T2. That set is a set S of completed Observe CALLS of the history (no call twice) containing every Observe that
   returned before the collection started and none that started after it finished. *)
Theorem scrape_real_time : forall (bounds : list f64) (progs : list (list hop)) (sched : list Z),
  strictly_increasing_b bounds = true ->
  let c := run_sched hist_machine (init_config hist_machine (hinit bounds) progs) sched in
  forall w o, In w (Conc.hist c) -> c_ret w = HOut o ->
  exists S, C02_proofs.snapshot_of bounds (Conc.hist c) w S.
Proof. exact C02_proofs.hist_scrape_real_time. Qed.

(* T3a. Successive collections are monotone: the Write calls of the history, in completion order, are explained
   (in the sense of T2) by sets of Observe calls that form an increasing chain. *)
Theorem scrapes_monotone_no_loss : forall (bounds : list f64) (progs : list (list hop)) (sched : list Z),
  strictly_increasing_b bounds = true ->
  let c := run_sched hist_machine (init_config hist_machine (hinit bounds) progs) sched in
  exists snap : list (call hist_machine * list (call hist_machine)),
    map fst snap = filter (fun k => negb (C02_proofs.kobs k)) (Conc.hist c) /\
    Forall (fun e => C02_proofs.snapshot_of bounds (Conc.hist c) (fst e) (snd e)) snap /\
    (forall i j e1 e2, (i < j)%nat -> nth_error snap i = Some e1 -> nth_error snap j = Some e2 ->
       incl (snd e1) (snd e2)).
Proof. exact C02_proofs.hist_scrapes_monotone. Qed.

(* T3b. Collections never lose or duplicate an observation: once all calls have returned (whatever number of
   Writes ran concurrently with the observers) the mutex is free, the hot count set holds exactly the completed
   observations (count, and sum as a float sum of exactly their values), and the cold set is empty. *)
Theorem write_preserves_total : forall (bounds : list f64) (progs : list (list hop)) (sched : list Z),
  let c := run_sched hist_machine (init_config hist_machine (hinit bounds) progs) sched in
  all_done hist_machine c = true ->
  let h := sh c in
  let obs := filter C02_proofs.kobs (Conc.hist c) in
  mtx h = false /\ tickets h = Z.of_nat (length obs) /\
  s_cnt (hget h (hot h)) = Z.of_nat (length obs) /\
  C02_proofs.SumOf (C02_proofs.vals obs) (s_sum (hget h (hot h))) /\
  s_cnt (hget h (negb (hot h))) = 0.
Proof. exact C02_proofs.hist_quiescent_total. Qed.

(* T4. Collecting never blocks forever, as far as the protocol is concerned: in every reachable configuration with
   an unfinished call some thread can take a step (the only blocking operation is Mutex.Lock, and a held mutex has a
   holder that is never blocked) ... *)
Theorem write_no_deadlock_partial : forall (bounds : list f64) (progs : list (list hop)) (sched : list Z),
  let c := run_sched hist_machine (init_config hist_machine (hinit bounds) progs) sched in
  all_done hist_machine c = false -> exists tid, sched_step hist_machine c tid <> None.
Proof. exact C02_proofs.hist_write_no_deadlock. Qed.

(* ... and the cool-down spin loop exits as soon as no observer is left between taking a ticket for the cold set and
   incrementing its count (such observers are never blocked).  That the Go scheduler eventually runs them is a
   fairness ASSUMPTION, not proved: hence `_partial`. *)
Theorem spin_exits_when_drained_partial : forall (bounds : list f64) (progs : list (list hop)) (sched : list Z),
  let c := run_sched hist_machine (init_config hist_machine (hinit bounds) progs) sched in
  forall i t o count cold inv,
  nth_error (thr c) i = Some t -> t_cur t = Some (o, wCool count cold, inv) ->
  (forall j tj oj pcj invj, nth_error (thr c) j = Some tj -> t_cur tj = Some (oj, pcj, invj) ->
     match pcj with oBucket _ b _ | oSumLoad _ b | oSumCas _ b _ | oCount b => b <> cold | _ => True end) ->
  s_cnt (hget (sh c) cold) = count.
Proof. exact C02_proofs.hist_spin_exits_when_drained. Qed.

(* ---- the Summary without objectives (no buckets; the machine is started from hinit []) ---- *)
Theorem summary_scrape_consistent : forall (progs : list (list hop)) (sched : list Z),
  let c := run_sched summ_machine (init_config summ_machine (hinit []) progs) sched in
  forall w o, In w (Conc.hist c) -> c_ret w = HOut o ->
  exists Mo : list f64,
    ho_count o = Z.of_nat (length Mo) /\ ho_cum o = [] /\ C02_proofs.SumOf Mo (ho_sum o).
Proof. exact C02_proofs.summ_scrape_consistent. Qed.

Theorem summary_scrape_real_time : forall (progs : list (list hop)) (sched : list Z),
  let c := run_sched summ_machine (init_config summ_machine (hinit []) progs) sched in
  forall w o, In w (Conc.hist c) -> c_ret w = HOut o ->
  exists S, C02_proofs.snapshot_of [] (Conc.hist c) w S.
Proof. exact C02_proofs.summ_scrape_real_time. Qed.

Theorem summary_scrapes_monotone_no_loss : forall (progs : list (list hop)) (sched : list Z),
  let c := run_sched summ_machine (init_config summ_machine (hinit []) progs) sched in
  exists snap : list (call summ_machine * list (call summ_machine)),
    map fst snap = filter (fun k => negb (C02_proofs.kobs k)) (Conc.hist c) /\
    Forall (fun e => C02_proofs.snapshot_of [] (Conc.hist c) (fst e) (snd e)) snap /\
    (forall i j e1 e2, (i < j)%nat -> nth_error snap i = Some e1 -> nth_error snap j = Some e2 ->
       incl (snd e1) (snd e2)).
Proof. exact C02_proofs.summ_scrapes_monotone. Qed.

Theorem summary_write_preserves_total : forall (progs : list (list hop)) (sched : list Z),
  let c := run_sched summ_machine (init_config summ_machine (hinit []) progs) sched in
  all_done summ_machine c = true ->
  let h := sh c in
  let obs := filter C02_proofs.kobs (Conc.hist c) in
  mtx h = false /\ tickets h = Z.of_nat (length obs) /\
  s_cnt (hget h (hot h)) = Z.of_nat (length obs) /\
  C02_proofs.SumOf (C02_proofs.vals obs) (s_sum (hget h (hot h))) /\
  s_cnt (hget h (negb (hot h))) = 0.
Proof. exact C02_proofs.summ_quiescent_total. Qed.

Theorem summary_write_no_deadlock_partial : forall (progs : list (list hop)) (sched : list Z),
  let c := run_sched summ_machine (init_config summ_machine (hinit []) progs) sched in
  all_done summ_machine c = false -> exists tid, sched_step summ_machine c tid <> None.
Proof. exact C02_proofs.summ_write_no_deadlock. Qed.

(* ---- examples (computed) ---- *)
(* An observer parked between its ticket and its count increment across a flip: the collector spins once, its output
   includes the parked observation (1.0) and excludes the observation (4.0) that went to the new hot set although that
   call returned earlier; the next scrape reports both.  The executable history checker accepts the history. *)
Example example_parked_observer :
  let c := run_sched hist_machine (init_config hist_machine (hinit C02_proofs.ex_bounds) C02_proofs.ex1_progs) C02_proofs.ex1_sched in
  C02_proofs.outs (M := hist_machine) (fun r => r) c =
    [(2, None, 0, 9); (0, None, 0, 13);
     (1, Some (1, to_bits (of_Z 1), [1; 1]), 0, 34);
     (1, Some (2, to_bits (of_Z 5), [1; 1]), 34, 57)] /\
  C02_proofs.spins c = 1%nat /\ all_done hist_machine c = true /\
  snapshot_check (M := hist_machine) (fun o => o) (fun r => r) C02_proofs.ex_bounds (Conc.hist c) = true.
Proof. vm_compute. repeat split. Qed.

(* Two collectors: the second finds the mutex held, the first waits for an in-flight observer; both report the same
   two observations. *)
Example example_two_collectors :
  let c := run_sched hist_machine (init_config hist_machine (hinit C02_proofs.ex_bounds) C02_proofs.ex2_progs) C02_proofs.ex2_sched in
  C02_proofs.outs (M := hist_machine) (fun r => r) c =
    [(0, None, 0, 5); (0, None, 5, 14);
     (1, Some (2, to_bits (of_Z 3), [1; 2]), 0, 35);
     (2, Some (2, to_bits (of_Z 3), [1; 2]), 0, 58)] /\
  C02_proofs.spins c = 1%nat /\ all_done hist_machine c = true /\
  snapshot_check (M := hist_machine) (fun o => o) (fun r => r) C02_proofs.ex_bounds (Conc.hist c) = true.
Proof. vm_compute. repeat split. Qed.

(* The parked-observer schedule on the summary machine. *)
Example example_summary :
  let c := run_sched summ_machine (init_config summ_machine (hinit []) C02_proofs.ex1_progs) C02_proofs.ex1_sched in
  C02_proofs.outs (M := summ_machine) (fun r => r) c =
    [(2, None, 0, 9); (0, None, 0, 12);
     (1, Some (1, to_bits (of_Z 1), []), 0, 20);
     (1, Some (2, to_bits (of_Z 5), []), 20, 30)] /\
  C02_proofs.spins c = 1%nat /\ all_done summ_machine c = true.
Proof. vm_compute. repeat split. Qed.
