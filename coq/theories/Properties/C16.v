(* Properties/C16.v -- The API client sends what was asked and never mistakes failure for success.
   Only theorem statements; proofs are in Proofs/C16_proofs.v.  Model/ApiClient.v part 1 transcribes
   api/client.go (URL, Do) and api/prometheus/v1/api.go (the 21 methods, apiClientImpl.Do, DoGetFallback, formatTime);
   part 2 is the specification (parameter lists per method, classification table, demanded requests).
   JSON decoding of results is exercised by the harness only (checks/C16.json, tested_not_proved). *)
From Coq Require Import ZArith List Bool Strings.String.
From Verif Require Import Base.F64 Base.Str Model.ApiClient Proofs.C16_proofs.
From Verif Require Gen.Gen_Api Proofs.Gen_tie.
Import ListNotations.
Open Scope Z_scope.

(* ---- the server receives the documented endpoint and exactly the given parameters ---- *)

(* for each of the 21 methods and all argument values: how the request is issued, and the encoded parameter list
   (names sorted, values of one name in the given order: query strings, matchers, limits, times, step, timeout) *)
Theorem params_exact : forall c : api_call, model_kind c = spec_kind c /\ model_params c = spec_params c.
Proof. exact C16_proofs.params_exact_lemma. Qed.

(* the path: the documented endpoint, the label name being one segment -- provided the name has no "/" *)
Theorem path_exact : forall c : api_call, label_ok c -> model_segments [] c = spec_segments [] c.
Proof. exact C16_proofs.path_exact_lemma. Qed.

(* KNOWN finding label-slash: without that proviso the clause is false for the code as it is *)
Theorem label_name_in_path_refuted :
  exists label ms st en opts,
    model_segments [] (CLabelValues label ms st en opts) <> spec_segments [] (CLabelValues label ms st en opts).
Proof. exact C16_proofs.label_name_in_path_refuted_lemma. Qed.

(* times are sent with millisecond precision (|t| < 2^43 s; the decimal text itself is checked by the harness) *)
Theorem format_time_ms_precision_partial : forall sec nsec : Z,
  - 2 ^ 43 < sec < 2 ^ 43 - 1 -> 0 <= nsec < 1000000000 ->
  within_ms (format_time {| t_sec := sec; t_nsec := nsec |}) sec nsec = true.
Proof. exact C16_proofs.format_time_ms_precision_lemma. Qed.

(* ---- POST form first, GET with identical parameters iff the answer is 405 or 501 ---- *)

Theorem fallback_iff_405_501_same_params : forall path enc b rest,
  let r := do_get_fallback path enc (start_net (b :: rest) false) in
  rev (n_seen (snd r)) =
    post_form path enc ::
    match received_code b with Some c => if is_fallback_code c then [get_query path enc] else [] | None => [] end /\
  match b with
  | SResp c p => fst r = if is_fallback_code c then api_do (answer_of (hd_error rest)) else api_do (OResp c p)
  | SCutBody c =>
      if is_fallback_code c then fst r = api_do (answer_of (hd_error rest))
      else d_err (fst r) = Some EOther /\ d_warn (fst r) = []
  | _ => d_err (fst r) = Some EOther /\ d_warn (fst r) = []
  end.
Proof. exact C16_proofs.fallback_iff_405_501_same_params_lemma. Qed.

Theorem fallback_codes : forall c : Z, is_fallback_code c = true <-> c = 405 \/ c = 501.
Proof. exact C16_proofs.is_fallback_code_iff. Qed.

(* for every method, every script of the peer and every moment of cancellation: the requests that reach the peer
   are exactly the demanded ones (nothing is sent once the context is done) *)
Theorem requests_exact : forall c script pre, label_ok c ->
  rev (n_seen (snd (run_call [] c (start_net script pre)))) = spec_requests [] c script pre.
Proof. exact C16_proofs.run_call_requests_lemma. Qed.

(* ---- no failure is mistaken for success ---- *)

(* every status code (any integer, in particular 100..599) and every body class *)
Theorem nil_error_only_if_2xx_and_no_error : forall code parsed, wf_answer code parsed ->
  d_err (api_do (OResp code parsed)) = None -> 200 <= code <= 299 /\ declared_error parsed = None.
Proof. exact C16_proofs.nil_error_only_if_2xx_and_no_error_lemma. Qed.

Theorem transport_error_is_error : forall rc, d_err (api_do (OErr rc)) = Some EOther.
Proof. exact C16_proofs.transport_error_is_error_lemma. Qed.

(* the returned Error carries the type the table demands: client_error / server_error / bad_response / declared *)
Theorem api_do_matches_table : forall code parsed, wf_answer code parsed ->
  match d_err (api_do (OResp code parsed)) with
  | None => spec_expect code parsed = None
  | Some (EApi t _) => spec_expect code parsed = Some t
  | Some EOther => False
  end.
Proof. exact C16_proofs.api_do_matches_spec_lemma. Qed.

Theorem error_type_reflects_class : forall code parsed, wf_answer code parsed ->
  let e := d_err (api_do (OResp code parsed)) in
  ((code < 200 \/ 299 < code) -> code <> 400 -> code <> 422 ->
     exists m, e = Some (EApi (if (400 <=? code) && (code <=? 499) then err_client
                               else if (500 <=? code) && (code <=? 599) then err_server else err_bad_response) m)) /\
  (forall t, (200 <= code <= 299 /\ code <> 204 \/ code = 400 \/ code = 422) -> declared_error parsed = Some t ->
     exists m, e = Some (EApi t m)) /\
  ((200 <= code <= 299 /\ code <> 204 \/ code = 400 \/ code = 422) -> parsed = None -> exists m, e = Some (EApi err_bad_response m)) /\
  ((code = 400 \/ code = 422) -> declared_error parsed = None -> exists m, e = Some (EApi err_bad_response m)).
Proof. exact C16_proofs.error_type_reflects_class_lemma. Qed.

Theorem warnings_passed_through : forall code parsed, wf_answer code parsed ->
  d_warn (api_do (OResp code parsed)) = spec_warnings code parsed.
Proof. exact C16_proofs.warnings_passed_through_lemma. Qed.

Theorem warnings_with_error : forall code e,
  (200 <= code <= 299 /\ code <> 204 \/ code = 400 \/ code = 422) ->
  d_warn (api_do (OResp code (Some e))) = env_warnings e.
Proof. exact C16_proofs.warnings_with_error_lemma. Qed.

(* a whole call of any method against any script: the result is acceptable for the answer that decides ... *)
Theorem call_result_ok : forall prefix c script pre, wf_script script ->
  spec_result_ok c (spec_final c script pre) (fst (run_call prefix c (start_net script pre))) = true.
Proof. exact C16_proofs.run_call_result_ok_lemma. Qed.

(* ... in particular a nil error means: the deciding answer was 2xx, declared no error, and its data was decodable *)
Theorem call_nil_error_only_if : forall prefix c script pre, wf_script script ->
  r_err (fst (run_call prefix c (start_net script pre))) = None ->
  exists code parsed, spec_final c script pre = Some (SResp code parsed) /\
    200 <= code <= 299 /\ declared_error parsed = None /\
    (decodes_data c = true -> code <> 204 /\ parsed_data_ok parsed = true).
Proof. exact C16_proofs.call_nil_error_only_if_lemma. Qed.

(* ---- non-vacuity ---- *)

Definition ex_t0 : gotime := {| t_sec := zero_time_sec; t_nsec := 0 |}.
Definition ex_t1 : gotime := {| t_sec := 1700000000; t_nsec := 123000000 |}.
Definition ex_ok : envelope :=
  {| env_status := s_success; env_etype := []; env_error := []; env_warnings := [lit "w"]; env_data_ok := true |}.
Definition ex_bad : envelope :=
  {| env_status := s_error; env_etype := err_bad_data; env_error := lit "boom"; env_warnings := [lit "w"]; env_data_ok := false |}.

(* Series with a zero end time against a peer that refuses POST: POST form, then GET with the same three
   parameters; the 200 answer with warnings yields success and the warnings *)
Example example_fallback_taken :
  let c := CSeries [lit "up"] ex_t1 ex_t0 [OLimit 5; OLimit 7] in
  let r := run_call [] c (start_net [SResp 405 None; SResp 200 (Some ex_ok)] false) in
  (map rq_post (rev (n_seen (snd r))), map fst (model_params c), fst r) =
  ([true; false], [k_limit; k_match; k_start], {| r_err := None; r_warn := [lit "w"] |}).
Proof. vm_compute. reflexivity. Qed.

(* 200 with a declared error, and 400 with a body that is no error envelope: both are errors *)
Example example_failures :
  (d_err (api_do (OResp 200 (Some ex_bad))), d_err (api_do (OResp 400 (Some ex_ok))), d_err (api_do (OResp 503 None))) =
  (Some (EApi err_bad_data (MText (lit "boom"))), Some (EApi err_bad_response (MText msg_inconsistent)),
   Some (EApi err_server (MText (lit "server error: 503")))).
Proof. vm_compute. reflexivity. Qed.

(* the label name: one segment without a slash, two with one; and precision is lost beyond 2^53 seconds *)
Example example_label_and_time :
  (model_segments [] (CLabelValues (lit "a b") [] ex_t0 ex_t0 []),
   model_segments [] (CLabelValues (lit "a/b") [] ex_t0 ex_t0 []),
   within_ms (format_time ex_t1) 1700000000 123000000,
   within_ms (format_time {| t_sec := 2 ^ 53 + 1; t_nsec := 0 |}) (2 ^ 53 + 1) 0) =
  (map lit ["api"; "v1"; "label"; "a b"; "values"]%string, map lit ["api"; "v1"; "label"; "a"; "b"; "values"]%string, true, false).
Proof. vm_compute. reflexivity. Qed.

(* the endpoint paths spelled out in the model are the ones of the Go source (Gen/Gen_Api.v is regenerated from
   api/prometheus/v1/api.go on every run) *)
Theorem api_endpoints_match_source :
  map snd Verif.Gen.Gen_Api.api_endpoints =
  [ep_alerts; ep_alertmanagers; ep_query; ep_query_range; ep_query_exemplars; ep_labels; ep_label_values; ep_series;
   ep_targets; ep_targets_metadata; ep_metadata; ep_rules; ep_snapshot; ep_delete_series; ep_clean_tombstones;
   ep_config; ep_flags; ep_buildinfo; ep_runtimeinfo; ep_tsdb; ep_walreplay].
Proof. exact Verif.Proofs.Gen_tie.api_endpoints_match_source_lemma. Qed.
