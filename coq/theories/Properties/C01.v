(* Properties/C01.v -- C01: Counter and gauge updates are atomic.
   Statements only; proofs and the small definitions used here (spec_run, upto, res_lt, zsum,
   int_amount / cas_amount / int_amounts / cas_amounts, ia, ca, ga, amount_ok, no_set, *_summary)
   are in Proofs/C01_proofs.v.  Every theorem quantifies over ALL program lists (any number of
   goroutines, any number of calls each) and ALL schedules; c is the configuration reached by the
   schedule; hist c lists the finished calls in completion order with their invocation and
   response times (time = number of atomic operations executed so far). *)
From Coq Require Import ZArith List Bool Sorted Permutation Reals.
From Flocq Require Import Core.Core IEEE754.BinarySingleNaN.
From Verif Require Import Base.F64 Base.Conc Model.CounterGauge Proofs.C01_proofs.
Import ListNotations.
Open Scope Z_scope.

(* ---------------- gauge ---------------- *)

(* G1. The completion order is a linearization: replaying the sequential specification (Set overwrites,
   Add/Sub/Inc/Dec accumulate with float addition, Write returns the value) over the calls in completion
   order yields exactly the results the calls returned (Leibniz equality, NaN included) and ends in the
   shared value; completion order is strictly sorted by response time, every call takes at least one
   step, and therefore a call that returned before another one started precedes it. *)
Theorem gauge_linearizable : forall (progs : list (list gauge_op)) (sched : list Z),
  let c := run_sched gauge_machine (init_config gauge_machine gauge_init progs) sched in
  spec_run gauge_spec_step gauge_init (map (@c_op gauge_machine) (hist c)) = (sh c, map (@c_ret gauge_machine) (hist c)) /\
  StronglySorted res_lt (hist c) /\
  Forall (fun k => 0 <= c_inv k < c_res k /\ c_res k <= now c) (hist c) /\
  (forall i j a b, nth_error (hist c) i = Some a -> nth_error (hist c) j = Some b ->
     c_res a <= c_inv b -> (i < j)%nat).
Proof. exact C01_proofs.gauge_linearizable_lemma. Qed.

(* G2. The executable linearizability checker used by the model runner accepts every reachable history. *)
Theorem gauge_lin_check_complete : forall (progs : list (list gauge_op)) (sched : list Z),
  let c := run_sched gauge_machine (init_config gauge_machine gauge_init progs) sched in
  @lin_check gauge_machine f64 gauge_spec_step gauge_ret_eqb gauge_init (hist c) = true.
Proof. exact C01_proofs.gauge_lin_check_complete_lemma. Qed.

(* G3 (order-dependent form). At quiescence every call of the programs has completed exactly once, the
   value is the sequential result in completion order, and without Set it is the float sum of the
   amounts in completion order. *)
Theorem gauge_quiescent_completion_order : forall (progs : list (list gauge_op)) (sched : list Z),
  let c := run_sched gauge_machine (init_config gauge_machine gauge_init progs) sched in
  all_done gauge_machine c = true ->
  Permutation (map (@c_op gauge_machine) (hist c)) (concat progs) /\
  sh c = fst (spec_run gauge_spec_step gauge_init (map (@c_op gauge_machine) (hist c))) /\
  (Forall no_set (concat progs) ->
   sh c = fold_left fadd (flat_map ga (map (@c_op gauge_machine) (hist c))) pzero).
Proof. exact C01_proofs.gauge_quiescent_completion_order_lemma. Qed.

(* G3. Without Set and with amounts on a common grid (`grid_ok`, the executable exactness guard of
   Model/CounterGauge.v: non-negative multiples of 2^k with total below 2^(k+53)), the quiescent value is
   the float sum of the program's amounts in PROGRAM order, whatever the schedule was. *)
Theorem gauge_quiescent_exact : forall (progs : list (list gauge_op)) (sched : list Z),
  let c := run_sched gauge_machine (init_config gauge_machine gauge_init progs) sched in
  all_done gauge_machine c = true -> Forall no_set (concat progs) ->
  grid_ok (flat_map ga (concat progs)) = true ->
  sh c = fold_left fadd (flat_map ga (concat progs)) pzero.
Proof. exact C01_proofs.gauge_quiescent_exact_lemma. Qed.

(* Float facts behind G3 / C5: on a grid the float sum is independent of the order, and it is the exact
   real sum of the amounts (no rounding), or +Inf once the real sum reaches 2^1024. *)
Theorem grid_sum_order_independent : forall l l' : list f64, grid_ok l = true -> Permutation l l' ->
  fold_left fadd l' pzero = fold_left fadd l pzero.
Proof. exact C01_proofs.grid_sum_order_independent_lemma. Qed.

Theorem grid_sum_exact : forall l : list f64, grid_ok l = true ->
  let r := fold_left fadd l pzero in
  (r = pinf /\ (bpow radix2 1024 <= rsum l)%R) \/ (is_fin r = true /\ B2R r = rsum l).
Proof. exact C01_proofs.grid_sum_exact_lemma. Qed.

(* ---------------- counter ---------------- *)

(* C1. valInt is the sum (mod 2^64) of the amounts of the finished integer-path calls, valBits is the
   float sum, in completion order, of the amounts of the finished float-path (CAS) calls. *)
Theorem counter_state_invariant : forall (progs : list (list counter_op)) (sched : list Z),
  let c := run_sched counter_machine (init_config counter_machine counter_init progs) sched in
  valInt (sh c) = zsum (int_amounts (hist c)) mod two64 /\
  valBits (sh c) = sum_amounts (cas_amounts (hist c)) /\
  0 <= valInt (sh c) < two64.
Proof. exact C01_proofs.counter_state_invariant_lemma. Qed.

(* C2. Add of a negative amount panics without executing any atomic operation (inv = res, so it cannot
   change the state), and these are the only panicking / zero-step calls. *)
Theorem counter_negative_add_panics_unchanged : forall (progs : list (list counter_op)) (sched : list Z),
  let c := run_sched counter_machine (init_config counter_machine counter_init progs) sched in
  forall k, In k (hist c) ->
    (forall v, c_op k = CAdd v -> flt v pzero = true -> c_ret k = CPanic /\ c_inv k = c_res k) /\
    (c_ret k = CPanic -> exists v, c_op k = CAdd v /\ flt v pzero = true) /\
    (c_inv k = c_res k <-> c_ret k = CPanic).
Proof. exact C01_proofs.counter_negative_add_panics_unchanged_lemma. Qed.

(* C3. Every collected value is explained by two instants inside the Write's real-time interval: the
   float part contains exactly the float-path calls that returned by t1, the integer part exactly the
   integer-path calls that returned by t2, inv <= t1 < t2 <= res. *)
Theorem counter_write_interval : forall (progs : list (list counter_op)) (sched : list Z),
  let c := run_sched counter_machine (init_config counter_machine counter_init progs) sched in
  forall w r, In w (hist c) -> c_ret w = CValue r ->
  c_op w = CWrite /\
  exists t1 t2, c_inv w <= t1 /\ t1 < t2 /\ t2 <= c_res w /\
    r = fadd (sum_amounts (cas_amounts (upto t1 (hist c))))
             (of_Z (zsum (int_amounts (upto t2 (hist c))) mod two64)).
Proof. exact C01_proofs.counter_write_interval_lemma. Qed.

(* C4. Successive collected values never decrease (Go's <=), provided no amount is NaN and the integer
   total of all calls stays below 2^64.  +Inf amounts and float overflow to +Inf are covered. *)
Theorem counter_monotone : forall (progs : list (list counter_op)) (sched : list Z),
  let c := run_sched counter_machine (init_config counter_machine counter_init progs) sched in
  Forall amount_ok (concat progs) -> zsum (map ia (concat progs)) < two64 ->
  forall w1 w2 r1 r2, In w1 (hist c) -> In w2 (hist c) ->
    c_ret w1 = CValue r1 -> c_ret w2 = CValue r2 -> c_res w1 <= c_inv w2 -> fle r1 r2 = true.
Proof. exact C01_proofs.counter_monotone_lemma. Qed.

(* C5. At quiescence every call has completed exactly once; the integer part is the schedule-independent
   total mod 2^64; the float part is the float sum, in completion order, of a permutation of the
   float-path amounts; the value a Write would now return is the float sum of the two. *)
Theorem counter_quiescent_exact : forall (progs : list (list counter_op)) (sched : list Z),
  let c := run_sched counter_machine (init_config counter_machine counter_init progs) sched in
  all_done counter_machine c = true ->
  Permutation (map (@c_op counter_machine) (hist c)) (concat progs) /\
  Permutation (cas_amounts (hist c)) (flat_map ca (concat progs)) /\
  valInt (sh c) = zsum (map ia (concat progs)) mod two64 /\
  valBits (sh c) = sum_amounts (cas_amounts (hist c)) /\
  fadd (valBits (sh c)) (of_Z (valInt (sh c))) =
    fadd (sum_amounts (cas_amounts (hist c))) (of_Z (zsum (map ia (concat progs)) mod two64)).
Proof. exact C01_proofs.counter_quiescent_exact_lemma. Qed.

(* C5, schedule-independent form: when the float-path amounts lie on a common grid, both words and the
   exposed value are functions of the programs alone. *)
Theorem counter_quiescent_grid : forall (progs : list (list counter_op)) (sched : list Z),
  let c := run_sched counter_machine (init_config counter_machine counter_init progs) sched in
  all_done counter_machine c = true -> grid_ok (flat_map ca (concat progs)) = true ->
  valBits (sh c) = sum_amounts (flat_map ca (concat progs)) /\
  valInt (sh c) = zsum (map ia (concat progs)) mod two64 /\
  fadd (valBits (sh c)) (of_Z (valInt (sh c))) =
    fadd (sum_amounts (flat_map ca (concat progs))) (of_Z (zsum (map ia (concat progs)) mod two64)).
Proof. exact C01_proofs.counter_quiescent_grid_lemma. Qed.

(* ... and that value is the exact real total (float part + integer part) rounded ONCE to nearest even:
   exact whenever the total is representable, within one rounding otherwise (integer part below 2^53). *)
Theorem counter_value_rounded : forall (amounts : list f64) (i : Z),
  grid_ok amounts = true -> 0 <= i < 2 ^ 53 ->
  let v := fadd (sum_amounts amounts) (of_Z i) in
  is_fin v = true ->
  B2R v = round radix2 (SpecFloat.fexp 53 1024) (round_mode mode_NE) (rsum amounts + IZR i).
Proof. exact C01_proofs.counter_value_rounded_lemma. Qed.

(* ---------------- examples ---------------- *)

(* Gauge, three goroutines: 0 and 1 both load 0; 0's CAS succeeds (value 1.0); 1's CAS fails, it reloads
   and retries (value 3.0); 2 reads 3.0.  Seven steps, Add(2.0) spans [0,6]. *)
Example example_gauge_cas_retry :
  gauge_summary (run_sched gauge_machine
     (init_config gauge_machine gauge_init [[GAdd fone]; [GAdd (of_Z 2)]; [GWrite]]) [0; 1; 0; 1; 1; 1; 2])
  = (to_bits (of_Z 3), 7, [(0, 0, 3, -1); (1, 0, 6, -1); (2, 0, 7, to_bits (of_Z 3))]).
Proof. vm_compute. reflexivity. Qed.

(* Counter: the first Write loads valBits (0) at t1 = 0, then Inc and Add(0.5) complete, then it loads
   valInt (1) at t2 = 4 and returns 1.0: it contains the Inc (returned by t2) but not the Add(0.5)
   (returned after t1).  Add(-1) panics at time 4 without a step.  The second Write returns 1.5. *)
Example example_counter_write_straddles :
  counter_summary (run_sched counter_machine
     (init_config counter_machine counter_init
        [[CWrite; CWrite]; [CInc]; [CAdd (of_ZE 1 (-1)); CAdd (fneg fone)]]) [0; 1; 2; 2; 0; 0; 0])
  = (to_bits (of_ZE 1 (-1)), 1, 7,
     [(1, 0, 2, -1); (2, 0, 4, -1); (2, 4, 4, -2); (0, 0, 5, to_bits fone); (0, 5, 7, to_bits (of_ZE 3 (-1)))]).
Proof. vm_compute. reflexivity. Qed.
