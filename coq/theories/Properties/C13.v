(* Properties/C13.v -- Prefix/label wrapping is a pure renaming of what a collector exposes.
   Only statements; proofs are in Proofs/C13_proofs.v.  Model/Wrap.v transcribes wrapDesc,
   wrappingMetric.Write (over a slice/heap model), the part of NewDesc they rely on and
   Registry.Register/Unregister; its SPEC section states what the property demands. *)
From Coq Require Import ZArith List Bool Permutation Strings.String.
From Verif Require Import Base.Str Model.Wrap Proofs.C13_proofs.
Import ListNotations.
Open Scope Z_scope.

(* --- "rejected exactly as for a collector that declares those names and labels natively" --- *)

(* NewDesc accepts exactly what the native declaration rule accepts, and then exposes name, help,
   the constant labels sorted by name and the variable labels *)
Theorem new_desc_matches_native_rule : forall fq help var cl,
  NoDup (map fst cl) -> abs_wres (new_desc fq help (Some var) cl) = spec_native fq help var cl.
Proof. exact C13_proofs.new_desc_spec_lemma. Qed.

(* the native rule spelled out: valid metric name, valid label names, UTF-8 values, no duplicate names *)
Theorem native_rule_meaning : forall fq cst var,
  native_reject fq cst var = false <->
  valid_metric_name fq = true /\
  (forall p, In p cst -> check_label_name (fst p) = true /\ utf8_valid (snd p) = true) /\
  (forall l, In l var -> check_label_name l = true) /\
  NoDup (map fst cst ++ var).
Proof. exact C13_proofs.native_reject_false_iff_lemma. Qed.

(* without a conflict the wrapped descriptor is, field by field (including what is hashed into id
   and dimHash), the descriptor NewDesc builds for prefix+name and the union of the labels: the
   registry cannot tell a wrapped collector from a natively declared one *)
Theorem wrap_desc_eq_native : forall d p ls v,
  d_err d = None -> d_var d = Some v ->
  NoDup (map fst (d_const d)) -> NoDup (map fst ls) ->
  existsb (fun l => map_mem (fst l) (d_const d)) ls = false ->
  wrap_desc d p ls = new_desc (p ++ d_fq d) (d_help d) (Some v) (d_const d ++ ls).
Proof. exact C13_proofs.wrap_desc_eq_native_lemma. Qed.

(* a wrapped valid descriptor is refused iff an added label is already a constant label or the
   native declaration of prefix+name with the union of the labels would be refused *)
Theorem wrap_desc_conflict_iff : forall d p ls v d',
  desc_wf d -> d_err d = None -> d_var d = Some v -> NoDup (map fst ls) ->
  wrap_desc d p ls = WDesc d' ->
  (d_err d' <> None <->
   (exists l, In l ls /\ In (fst l) (map fst (d_const d))) \/
   native_reject (p ++ d_fq d) (d_const d ++ ls) v = true).
Proof. exact C13_proofs.wrap_desc_conflict_iff_lemma. Qed.

(* the refusal for an already present label names one of the added labels and keeps name and labels *)
Theorem wrap_desc_conflict_error : forall d p ls,
  d_err d = None -> NoDup (map fst (d_const d)) ->
  existsb (fun l => map_mem (fst l) (d_const d)) ls = true ->
  exists ln d', wrap_desc d p ls = WDesc d' /\ d_err d' = Some (EWrapDup ln) /\ In ln (map fst ls) /\
                d_fq d' = d_fq d /\ d_const d' = d_const d.
Proof. exact C13_proofs.wrap_desc_conflict_lemma. Qed.

(* an invalid descriptor (e.g. NewInvalidDesc) passes through every wrapper unchanged *)
Theorem wrap_invalid_desc_propagates : forall d p ls e, d_err d = Some e -> wrap_desc d p ls = WDesc d.
Proof. exact C13_proofs.wrap_invalid_desc_propagates_lemma. Qed.

(* --- "the families ... equal the families of the unwrapped collector with the prefix prepended
       to every name and the labels added to every metric, labels sorted, everything else unchanged" --- *)

(* one wrapper: the model is the specification, wrapDesc never panics, the invariant is kept *)
Theorem wrap_desc_matches_spec : forall d p ls,
  desc_wf d -> NoDup (map fst ls) ->
  abs_wres (wrap_desc d p ls) = spec_wrap1 (abs_desc d) p ls /\
  exists d', wrap_desc d p ls = WDesc d' /\ desc_wf d'.
Proof. exact C13_proofs.wrap_desc_matches_spec_lemma. Qed.

(* any nesting depth *)
Theorem wrap_layers_matches_spec : forall ly d,
  desc_wf d -> layers_ok ly ->
  abs_wres (wrap_layers d ly) = spec_wrap (abs_desc d) ly /\ exists d', wrap_layers d ly = WDesc d' /\ desc_wf d'.
Proof. exact C13_proofs.wrap_layers_matches_spec_lemma. Qed.

(* an accepted wrapped descriptor: prefix prepended, help and variable labels unchanged, labels added and sorted *)
Theorem wrap_gather_is_rename_desc : forall d p ls d',
  desc_wf d -> NoDup (map fst ls) -> wrap_desc d p ls = WDesc d' -> d_err d' = None ->
  d_err d = None /\ d_fq d' = p ++ d_fq d /\ d_help d' = d_help d /\ d_var d' = d_var d /\
  d_const d' = sort_lp (d_const d ++ ls).
Proof. exact C13_proofs.wrap_gather_is_rename_desc_lemma. Qed.

(* Write through any nesting of wrappers: the payload (value, type, timestamp, exemplars, buckets)
   is the original one, the labels are the original labels plus all added ones, sorted (unchanged
   if nothing is added), and the heap the original lives in is only extended *)
Theorem wrap_gather_is_rename_metric : forall h m ly,
  m_base_ok h m -> m_werr m = false ->
  exists e s, m_write h (wrap_metric m ly) = (h ++ e, Some (s, m_payload m)) /\
              labels_ok (m_labels h m) (all_added ly) (s_read (h ++ e) s) = true.
Proof. exact C13_proofs.wrap_gather_is_rename_metric_lemma. Qed.

(* with distinct label names the checker pins the output down to the specified list *)
Theorem labels_ok_unique : forall orig added out,
  NoDup (map fst (orig ++ added)) -> labels_ok orig added out = true -> out = spec_labels orig added.
Proof. exact C13_proofs.labels_ok_unique_lemma. Qed.

(* whatever sorting algorithm sort.Sort is: a sorted permutation of labels with distinct names is unique *)
Theorem sorted_perm_unique : forall l1 l2 : labels,
  sorted_lp l1 = true -> sorted_lp l2 = true -> Permutation l1 l2 -> NoDup (map fst l1) -> l1 = l2.
Proof. exact C13_proofs.sorted_perm_unique_lemma. Qed.

(* nesting = composition: two accepted wrappers expose what one wrapper with the concatenated
   prefix and the union of the labels exposes *)
Theorem wrap_nested_is_composition : forall d p1 l1 p2 l2 fq help cst var,
  desc_wf d -> NoDup (map fst l1) -> NoDup (map fst l2) ->
  abs_wres (wrap_layers d [(p1, l1); (p2, l2)]) = SAccept fq help cst var ->
  abs_wres (wrap_layers d [(p2 ++ p1, l1 ++ l2)]) = SAccept fq help cst var.
Proof. exact C13_proofs.wrap_nested_is_composition_lemma. Qed.

(* --- "Wrapping never alters what the original collector, its descriptors or its metrics expose" --- *)

(* every Write through wrappers leaves the existing heap as a prefix of the new one *)
Theorem wrap_write_extends_heap : forall m h, m_base_ok h m ->
  exists e, fst (m_write h m) = h ++ e /\
    match snd (m_write h m) with
    | None => m_werr m = true
    | Some (s, pay) => m_werr m = false /\ pay = m_payload m /\ slice_ok (h ++ e) s /\
                       s_read (h ++ e) s = m_labels h m
    end.
Proof. exact C13_proofs.m_write_spec_lemma. Qed.

(* after any sequence of wrapped and unwrapped writes every backing array (including spare capacity)
   and every label slice of the original metrics is what it was, and an unwrapped Write returns
   what it returned before *)
Theorem wrap_does_not_alter_original : forall h ms,
  Forall (m_base_ok h) ms ->
  let h' := run_seq h ms in
  (forall a, (a < List.length h)%nat -> h_arr h' a = h_arr h a) /\
  (forall s, slice_ok h s -> s_read h' s = s_read h s) /\
  (forall d w lbl pay, slice_ok h lbl -> m_write h' (MBase d w lbl pay) = (h', snd (m_write h (MBase d w lbl pay)))).
Proof. exact C13_proofs.wrap_does_not_alter_original_lemma. Qed.

(* --- "Unregister through the same wrapper removes the collector" (for every hash function) --- *)
Theorem wrap_unregister_removes : forall hash r c ly r' ds,
  describe (wrap_collector c ly) = Some ds -> ds <> [] ->
  register_collector hash r (wrap_collector c ly) = Some (r', ROk) ->
  exists r'', unregister_collector hash r' (wrap_collector c ly) = Some (r'', true) /\
              r_coll r'' = r_coll r /\ r_ids r'' = r_ids r /\ r_unchecked r'' = r_unchecked r.
Proof. exact C13_proofs.wrap_unregister_removes_lemma. Qed.

(* --- non-vacuity --- *)
Definition ex_desc : desc :=
  match new_desc (of_string "x") (of_string "h") (Some [of_string "k"]) [(of_string "b", of_string "1")] with
  | WDesc d => d | WPanic => invalid_desc 0 end.

Example example_hypotheses_hold :
  d_err ex_desc = None /\ d_var ex_desc = Some [of_string "k"] /\ nodup_str (map fst (d_const ex_desc)) = true.
Proof. vm_compute. repeat split. Qed.

Example example_prefix_and_label :
  match wrap_layers ex_desc [(of_string "p_", []); ([], [(of_string "a", of_string "2")])] with
  | WDesc d => (d_fq d, d_const d, d_var d, d_err d)
  | WPanic => ([], [], None, None)
  end = (of_string "p_x", [(of_string "a", of_string "2"); (of_string "b", of_string "1")], Some [of_string "k"], None).
Proof. vm_compute. reflexivity. Qed.

Example example_conflicts :
  (abs_wres (wrap_desc ex_desc [] [(of_string "b", of_string "2")]),
   abs_wres (wrap_desc ex_desc [] [(of_string "k", of_string "2")]),
   abs_wres (wrap_desc ex_desc [255] []),
   abs_wres (wrap_desc ex_desc [] [(of_string "__r", of_string "2")]))
  = (SReject, SReject, SReject, SReject).
Proof. vm_compute. reflexivity. Qed.

(* the code before c91a186 panicked on NewInvalidDesc under a non-empty prefix; the code now does not *)
Example example_invalid_desc_old_code_panics :
  wrap_desc_old (invalid_desc 1) (of_string "p_") [] = WPanic /\
  wrap_desc (invalid_desc 1) (of_string "p_") [] = WDesc (invalid_desc 1).
Proof. vm_compute. split; reflexivity. Qed.

(* the code before 5725b9f wrote into the spare capacity of the original's label slice *)
Definition ex_heap : heap := [[(of_string "b", of_string "1"); (of_string "d", of_string "2"); nil_lp]].
Definition ex_metric : metric := MWrap (MBase ex_desc false (mkSlice 0 2) 7) [] [(of_string "a", of_string "0")].
Example example_spare_capacity :
  h_arr (fst (m_write_old ex_heap ex_metric)) 0 <> h_arr ex_heap 0 /\
  h_arr (fst (m_write ex_heap ex_metric)) 0 = h_arr ex_heap 0 /\
  option_map (fun sp => (s_read (fst (m_write ex_heap ex_metric)) (fst sp), snd sp)) (snd (m_write ex_heap ex_metric))
  = Some ([(of_string "a", of_string "0"); (of_string "b", of_string "1"); (of_string "d", of_string "2")], 7).
Proof. vm_compute. split; [discriminate|split; reflexivity]. Qed.

Example example_register_unregister :
  let hash := fold_left (fun a b => a * 257 + b + 1) in
  let c := CBase 1 [ex_desc] [] in
  let ly := [(of_string "p_", [(of_string "a", of_string "2")])] in
  match register_collector (fun s => hash s 0) (empty_registry) (wrap_collector c ly) with
  | Some (r', ROk) =>
      match unregister_collector (fun s => hash s 0) r' (wrap_collector c ly) with
      | Some (r'', true) => is_nil (r_coll r'') && is_nil (r_ids r'') && negb (is_nil (r_ids r'))
      | _ => false
      end
  | _ => false
  end = true.
Proof. vm_compute. reflexivity. Qed.
