(* Properties/C17.v -- Test helpers report equality iff the metrics are equal.
   Only theorem statements; proofs are in Proofs/C17_proofs.v.

   The text encoder `enc` (one family -> text, None = error) and the text parser `parse` are
   github.com/prometheus/common/expfmt, which is outside the verified code.  They are universally
   quantified here, and what the clauses need from them appears as explicit premises:
     (E1) enc (canon f) = enc f         canon f is the family that the text of f denotes;
     (E2) f_name (canon f) = f_name f
     (E3) equal texts denote equal families (map canon a = map canon b)
     (E4) parsing the text of a Gatherer's result and normalising it gives map canon of that result.
   Whether expfmt satisfies them is TESTED by the harness (reflexivity on generated registries and
   every single-token perturbation of their exposition), not proved.  `hypotheses_satisfiable`
   shows they are not contradictory. *)
From Coq Require Import ZArith List Bool.
From Verif Require Import Base.F64 Base.Str Model.TestUtil Proofs.C17_proofs.
Import ListNotations.
Open Scope Z_scope.

(* filterMetrics (nested loops with break) keeps exactly the families whose name is listed, in order *)
Theorem filter_metrics_is_restriction : forall ms ns, filter_metrics ms ns = spec_restrict (Some ns) ms.
Proof. exact C17_proofs.filter_metrics_spec. Qed.

(* Clause 1.  TransactionalGatherAndCompare returns nil iff gathering succeeded, the expected text
   parses, and the families it denotes equal those gathered, both restricted to the names. *)
Theorem compare_nil_iff_equal_filtered :
  forall (enc : family -> option str) (parse : str -> option (list family)) (canon : family -> family),
    (forall f, enc (canon f) = enc f) ->
    (forall a b t, spec_encoding enc a = Some t -> spec_encoding enc b = Some t -> map canon a = map canon b) ->
    forall got gerr expected names,
      transactional_gather_and_compare enc parse (got, gerr) expected names = RNil <->
      gerr = false /\ exists want, convert parse expected = Some want /\
         encodable enc (spec_restrict names got) /\ encodable enc (spec_restrict names want) /\
         map canon (spec_restrict names got) = map canon (spec_restrict names want).
Proof. exact C17_proofs.compare_nil_iff_equal_filtered_lemma. Qed.

(* the same without any premise about expfmt: nil iff both restricted sides encode to the same text *)
Theorem compare_nil_iff_same_text :
  forall enc parse got gerr expected names,
    transactional_gather_and_compare enc parse (got, gerr) expected names = RNil <->
    gerr = false /\ exists want t, convert parse expected = Some want /\
       spec_encoding enc (spec_restrict names got) = Some t /\ spec_encoding enc (spec_restrict names want) = Some t.
Proof. exact C17_proofs.tgc_nil_iff_same_text. Qed.

(* any difference (a name, type, help, label name, label value or sample value that changes the
   denoted restricted families) is answered with a diff of two different texts *)
Theorem compare_differs_gives_diff :
  forall (enc : family -> option str) (parse : str -> option (list family)) (canon : family -> family),
    (forall a b t, spec_encoding enc a = Some t -> spec_encoding enc b = Some t -> map canon a = map canon b) ->
    forall got expected names want g w,
      convert parse expected = Some want ->
      spec_encoding enc (spec_restrict names got) = Some g -> spec_encoding enc (spec_restrict names want) = Some w ->
      map canon (spec_restrict names got) <> map canon (spec_restrict names want) ->
      g <> w /\ transactional_gather_and_compare enc parse (got, false) expected names = RDiff g w.
Proof. exact C17_proofs.compare_differs_gives_diff_lemma. Qed.

(* Clause 2.  Comparing against the gatherer's own text exposition succeeds, for every name filter. *)
Theorem compare_reflexive :
  forall (enc : family -> option str) (parse : str -> option (list family)) (canon : family -> family),
    (forall f, enc (canon f) = enc f) ->
    (forall f, f_name (canon f) = f_name f) ->
    forall wf_gather : list family -> Prop,
    (forall fs t, wf_gather fs -> spec_encoding enc fs = Some t ->
       exists m, parse t = Some m /\ normalize (map fill_help m) = map canon fs) ->
    forall got t names,
      wf_gather got -> spec_encoding enc got = Some t ->
      transactional_gather_and_compare enc parse (got, false) t names = RNil.
Proof. exact C17_proofs.compare_reflexive_lemma. Qed.

(* ScrapeAndCompare parses both sides: a scraped body compared with itself is equal *)
Theorem scrape_reflexive :
  forall enc parse body names s t,
    convert parse body = Some s -> spec_encoding enc s = Some t ->
    scrape_and_compare enc parse false 200 body body names = RNil.
Proof. exact C17_proofs.scrape_reflexive_lemma. Qed.

(* GatherAndCompare, CollectAndCompare and ScrapeAndCompare are the same decision *)
Theorem helpers_agree :
  forall enc parse,
  (forall g expected names, gather_and_compare enc parse g expected names = transactional_gather_and_compare enc parse g expected names) /\
  (forall g expected names, collect_and_compare enc parse false g expected names = transactional_gather_and_compare enc parse g expected names) /\
  (forall g expected names, collect_and_compare enc parse true g expected names = RErrRegister) /\
  (forall body expected names,
     scrape_and_compare enc parse false 200 body expected names =
     match convert parse body with
     | Some scraped => transactional_gather_and_compare enc parse (scraped, false) expected names
     | None => RErrParse
     end) /\
  (forall status body expected names, status <> 200 -> scrape_and_compare enc parse false status body expected names = RErrStatus status) /\
  (forall status body expected names, scrape_and_compare enc parse true status body expected names = RErrScrape).
Proof. exact C17_proofs.helpers_agree_lemma. Qed.

(* a failed gathering or an unparseable expected text is an error, never nil *)
Theorem errors_never_nil :
  forall enc parse,
  (forall got expected names, transactional_gather_and_compare enc parse (got, true) expected names = RErrGather) /\
  (forall got expected names, convert parse expected = None ->
     transactional_gather_and_compare enc parse (got, false) expected names = RErrParse) /\
  (forall expected, parse expected = None <-> convert parse expected = None).
Proof. exact C17_proofs.errors_never_nil_lemma. Qed.

(* the expected side is normalised: families sorted by name, empty families pruned, metrics sorted,
   nil help replaced by "" -- for a parser map with distinct keys *)
Theorem convert_normalized :
  forall parse text fs,
    (forall m, parse text = Some m -> NoDup (map f_name m)) ->
    convert parse text = Some fs -> spec_normalized fs = true.
Proof. exact C17_proofs.convert_normalized_lemma. Qed.

(* Clause 3.  GatherAndCount / CollectAndCount return exactly the number of metrics (for the names);
   CollectAndCount panics where GatherAndCount returns an error *)
Theorem count_exact :
  (forall got names, gather_and_count (got, false) names = CVal (spec_count names got)) /\
  (forall got names, gather_and_count (got, true) names = CErr) /\
  (forall got names, collect_and_count false (got, false) names = CVal (spec_count names got)) /\
  (forall got gerr names, collect_and_count true (got, gerr) names = CPanic) /\
  (forall got names, collect_and_count false (got, true) names = CPanic).
Proof. exact C17_proofs.count_exact_lemma. Qed.

(* Clause 4.  ToFloat64 returns the value of the single Counter/Gauge/Untyped metric, panics otherwise *)
Theorem to_float64_exact_or_panics :
  (forall m v, simple_value m v -> to_float64 [Some m] = FVal v) /\
  (forall m, not_simple m -> to_float64 [Some m] = FPanicType) /\
  to_float64 [None] = FPanicWrite /\
  (forall l, length l <> 1%nat -> to_float64 l = FPanicCount (Z.of_nat (length l))).
Proof. exact C17_proofs.to_float64_exact_or_panics_lemma. Qed.

(* Clause 5.  CollectAndFormat returns exactly the encoding of the filtered families.  It filters
   unconditionally: without names the result is the encoding of NO family (empty output). *)
Theorem collect_and_format_is_encoding_of_filtered :
  forall (encf : Z -> family -> option str) (format : Z),
  (forall got names,
     collect_and_format encf format false (got, false) names =
     match spec_encoding (encf format) (spec_restrict (Some (match names with Some ns => ns | None => [] end)) got) with
     | Some b => BVal b
     | None => BErrEncode
     end) /\
  (forall got, collect_and_format encf format false (got, false) None = BVal []) /\
  (forall g names, collect_and_format encf format true g names = BErrRegister) /\
  (forall got names, collect_and_format encf format false (got, true) names = BErrGather).
Proof. exact C17_proofs.collect_and_format_lemma. Qed.

(* the premises (E1)-(E4) hold for a toy length-prefixed text format with a non-empty gather result *)
Theorem hypotheses_satisfiable :
  exists (enc : family -> option str) (parse : str -> option (list family)) (canon : family -> family)
         (wf : list family -> Prop),
    (forall f, enc (canon f) = enc f) /\ (forall f, f_name (canon f) = f_name f) /\
    (forall a b t, spec_encoding enc a = Some t -> spec_encoding enc b = Some t -> map canon a = map canon b) /\
    (forall fs t, wf fs -> spec_encoding enc fs = Some t ->
       exists m, parse t = Some m /\ normalize (map fill_help m) = map canon fs) /\
    (exists fs t, wf fs /\ spec_encoding enc fs = Some t).
Proof. exact C17_proofs.hypotheses_satisfiable_lemma. Qed.

(* non-vacuity on the toy format: own exposition -> nil with and without a name filter; a renamed
   family -> diff; a filter that excludes the renamed family -> nil; counts, ToFloat64, format *)
Example example_toy_pipeline :
  let bad := [toy_fam [97] fone; toy_fam [98; 100] pzero] in
  (transactional_gather_and_compare toy_enc toy_parse (toy_got, false) toy_text None,
   transactional_gather_and_compare toy_enc toy_parse (toy_got, false) toy_text (Some [[98; 99]]),
   transactional_gather_and_compare toy_enc toy_parse (bad, false) toy_text None,
   transactional_gather_and_compare toy_enc toy_parse (bad, false) toy_text (Some [[97]]),
   transactional_gather_and_compare toy_enc toy_parse (toy_got, false) [7] None,
   gather_and_count (toy_got, false) (Some [[97]; [120]]),
   to_float64 (map (fun f => hd None (map Some (f_metrics f))) toy_got),
   collect_and_format (fun _ => toy_enc) 0 false (toy_got, false) None)
  = (RNil, RNil, RDiff [1; 97; 2; 98; 100] toy_text, RNil, RErrParse, CVal 1, FPanicCount 2, BVal []).
Proof. vm_compute. reflexivity. Qed.
