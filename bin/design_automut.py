#!/usr/bin/env python3
"""Rewrite DESIGN.md section 13.5 (automated mutants and harmless refactorings) from automut/results.jsonl and harmless/*/meta.json."""
import json, glob, collections, os
rows = [json.loads(l) for l in open("/verif/automut/results.jsonl")]
per = collections.defaultdict(collections.Counter)
for r in rows:
    per[r["property"]][r["status"]] += 1
tot = collections.Counter(r["status"] for r in rows)
alive = [r for r in rows if r["status"] not in ("stillborn", "tests-kill", "noop", "error")]
caught = [r for r in alive if r["status"].startswith("detected")]
surv = [r for r in alive if r["status"] == "survived"]
tab = ["| prop | sampled | do not compile | killed by the existing tests | reach the check | caught by the check | caught by a sibling check | caught after strengthening | survive |", "|---|---|---|---|---|---|---|---|---|"]
for p in sorted(per):
    c = per[p]
    n = sum(c.values())
    reach = n - c["stillborn"] - c["tests-kill"] - c["noop"] - c["error"]
    tab.append(f"| {p} | {n} | {c['stillborn']} | {c['tests-kill']} | {reach} | {c['detected']} | {c['detected-by-sibling']} | {c['detected-after-strengthening']} | {c['survived']} |")
st = ["| surviving mutant | change | class | why |", "|---|---|---|---|"]
for r in surv:
    st.append(f"| `{r['id']}` | {r['file']}:{r['line']} `{r['desc']}` | {r.get('triage_class', 'untriaged')} | {r.get('triage', '')} |")
for r in rows:
    if r["status"] == "detected-after-strengthening":
        st.append(f"| `{r['id']}` | {r['file']}:{r['line']} `{r['desc']}` | gap, closed | {r.get('triage', '')} |")
hl = collections.Counter()
hrows = ["| refactoring | prop | what was rewritten | result |", "|---|---|---|---|"]
for f in sorted(glob.glob("/verif/harmless/*/meta.json")):
    m = json.load(open(f))
    v = m["check_result"]["verdict"]
    hl[v] += 1
    if v != "quiet" or m["check_result"].get("note"):
        hrows.append(f"| `{os.path.basename(os.path.dirname(f))}` | {m.get('property')} | {(m.get('title') or '').replace('|', '/')[:200]} | {v}{'; ' + m['check_result']['note'] if m['check_result'].get('note') else ''} |")
sec = f"""### 13.5 Automated mutants and behaviour-preserving refactorings

**Automated mutants** (`bin/automut`, `harness/cmd/mutate`). For every property the syntactic mutation sites (operator
swaps, `++`/`--`, `+=`/`-=`, negated conditions, integer literal + 1, `true`/`false`, `return ... err` -> `nil`, deleted
call / defer / assignment statements, `break`/`continue`) inside the source ranges the property is anchored in
(properties.jsonl, +-3 lines) are enumerated with go/ast, 12 per property are sampled with a fixed seed, each is built and
run through the repository's own test suite in a scratch copy, and the ones that still compile and pass are given to the
property's check (and, if it passes, to the checks of the other properties anchored in the same file). Of
{len(rows)} mutants {tot['stillborn']} do not compile, {tot['tests-kill']} are killed by the existing tests, {len(alive)} reach the
checks; {len(caught)} of those are caught, {len(surv)} survive. Every survivor was triaged by hand (table below): none of
them changes anything the properties speak about; one real gap was found this way and closed.

{chr(10).join(tab)}

{chr(10).join(st)}

**Behaviour-preserving refactorings** (`bin/harmless_batch`, stored in `harmless/`). In three rounds (`h1`, `h2`, `h3`) ten sub-agents that saw only the
property texts and a scratch worktree wrote three refactorings per property and round ({sum(hl.values())} in total: extracted or inlined
helpers, renamed locals, restructured control flow and validation paths, other internal data representations, standard-library
calls for hand-written loops, hot paths included), each confirmed to build and pass the existing tests. The third round was
written after the checks had been strengthened by red-team rounds 8 and 9, and `bin/harmless_regress` re-ran the first two
rounds on the strengthened checks with unchanged verdicts. Result of the property's check on each: {hl['quiet']} quiet (PASS),
{hl['broken-correspondence']} reported as `VIOLATION ... no-failing-input-found` (a generated obligation or the trace correspondence no
longer matches the rewritten code and no failing input exists - the outcome the brief prescribes for that case),
{hl.get('FALSE-ALARM', 0)} with a concrete failing input (that would be a false alarm). The non-quiet ones and the ones that led to
a change of the machinery:

{chr(10).join(hrows)}

"""
p = "/verif/DESIGN.md"
s = open(p).read()
if "### 13.5" in s:
    a = s.index("### 13.5")
    b = min(s.index(m) for m in ("### 13.6", "## Appendix A. Model signatures") if m in s)
    s = s[:a] + sec + s[b:]
else:
    b = min(s.index(m) for m in ("### 13.6", "## Appendix A. Model signatures") if m in s)
    s = s[:b] + sec + s[b:]
open(p, "w").write(s)
print(dict(tot), dict(hl))
