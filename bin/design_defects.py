#!/usr/bin/env python3
"""Rewrite the table of DESIGN.md section 13.2 (defects and their disposition) from known_findings.txt."""
import re
rows, nf, nk = [], 0, 0
for line in open("/verif/known_findings.txt"):
    line = line.strip()
    m = re.match(r"^fixed:\s+property=(C\d+)\s+(\S+)\s+(.*)$", line)
    if m:
        nf += 1
        rows.append(f"| {m.group(1)} | fixed `{m.group(2)}` | {m.group(3).replace('|', '/')} |")
    m = re.match(r"^known:\s+property=(C\d+)\s+key=(\S+)\s+(.*)$", line)
    if m:
        nk += 1
        rows.append(f"| {m.group(1)} | known `{m.group(2)}` | {m.group(3).replace('|', '/')} |")
p = "/verif/DESIGN.md"
s = open(p).read()
a = s.index("| property | disposition | exact failing input / what failed |")
b = s.index("Observations outside the properties' quantifiers")
s = s[:a] + "| property | disposition | exact failing input / what failed |\n|---|---|---|\n" + "\n".join(rows) + "\n\n" + s[b:]
s = re.sub(r"generated from `known_findings.txt` \(\d+ fixed, \d+ known\)", f"generated from `known_findings.txt` ({nf} fixed, {nk} known)", s)
open(p, "w").write(s)
print(nf, "fixed,", nk, "known")
