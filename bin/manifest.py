#!/usr/bin/env python3
"""Regenerate MANIFEST.json from checks/Cnn.json (fields manifest_text, manifest_note, technique, design_ref)
and properties.jsonl. A property is claimed iff its checks/Cnn.json has "claimed": true."""
import json, glob, os
V = "/verif"
props = [json.loads(l) for l in open(f"{V}/properties.jsonl")]
man = json.load(open(f"{V}/MANIFEST.json"))
checks, na, served = [], [], []
for p in props:
    pid = p["id"]
    f = f"{V}/checks/{pid}.json"
    cfg = json.load(open(f)) if os.path.exists(f) else {}
    if cfg.get("claimed"):
        served.append(pid)
        checks.append({
            "property_id": pid, "quick_cmd": f"bin/check {pid} --tier quick", "thorough_cmd": f"bin/check {pid} --tier thorough",
            "evidence_file": f"evidence/{pid}.json", "replay_cmd_template": f"bin/check {pid} --replay {{path}}", "engine": "coq-proof",
            "level_claimed": {"category": cfg.get("level", "proof"), "text": cfg["manifest_text"], "design_ref": cfg.get("design_ref", f"DESIGN 5 {pid}")},
            "level_note": cfg["manifest_note"], "technique": cfg.get("technique", "Coq proof over an executable model + differential correspondence model/implementation")})
    else:
        na.append({"property_id": pid, "reason": cfg.get("not_claimed_reason", "check not built yet (work in progress; will be claimed once its model, theorems and correspondence run)")})
man["checks"] = checks
man["not_applicable"] = na
for e in man["engines"]:
    e["serves_properties"] = served
json.dump(man, open(f"{V}/MANIFEST.json", "w"), indent=1)
print("claimed:", served)
