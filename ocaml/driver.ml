(* modelrun_Cnn: generic driver around the extracted model of one property (model.ml).
   usage: modelrun PROP file.sx            -> prints "<index> <code>" for every case with code <> 0, then "DONE <n>"
          modelrun PROP file.sx --explain k -> prints the model's explanation (an s-expression) of case k
   Wire format: one case per line; s-expressions over decimal integers. Trusted: this parser/printer. *)
module BZ = Z

let rec pos_of_z (z : BZ.t) : Model.positive =
  if BZ.equal z BZ.one then Model.XH
  else if BZ.testbit z 0 then Model.XI (pos_of_z (BZ.shift_right z 1))
  else Model.XO (pos_of_z (BZ.shift_right z 1))

let coqz_of_z (z : BZ.t) : Model.z =
  if BZ.sign z = 0 then Model.Z0 else if BZ.sign z > 0 then Model.Zpos (pos_of_z z) else Model.Zneg (pos_of_z (BZ.neg z))

let rec z_of_pos (p : Model.positive) : BZ.t =
  match p with Model.XH -> BZ.one | Model.XO q -> BZ.shift_left (z_of_pos q) 1 | Model.XI q -> BZ.succ (BZ.shift_left (z_of_pos q) 1)

let z_of_coqz (z : Model.z) : BZ.t =
  match z with Model.Z0 -> BZ.zero | Model.Zpos p -> z_of_pos p | Model.Zneg p -> BZ.neg (z_of_pos p)

exception Parse of string

let parse_line (s : string) : Model.sx =
  let n = String.length s in
  let i = ref 0 in
  let skip () = while !i < n && (s.[!i] = ' ' || s.[!i] = '\t' || s.[!i] = '\r') do incr i done in
  let rec item () : Model.sx =
    skip ();
    if !i >= n then raise (Parse "eof");
    if s.[!i] = '(' then begin
      incr i;
      let acc = ref [] in
      let fin = ref false in
      while not !fin do
        skip ();
        if !i >= n then raise (Parse "unclosed");
        if s.[!i] = ')' then (incr i; fin := true) else acc := item () :: !acc
      done;
      Model.SL (List.rev !acc)
    end else begin
      let j = !i in
      if s.[!i] = '-' then incr i;
      while !i < n && s.[!i] >= '0' && s.[!i] <= '9' do incr i done;
      if !i = j then raise (Parse (Printf.sprintf "unexpected char %c at %d" s.[j] j));
      Model.SZ (coqz_of_z (BZ.of_string (String.sub s j (!i - j))))
    end
  in
  let r = item () in
  skip ();
  if !i < n then raise (Parse "trailing input");
  r

let rec print_sx (b : Buffer.t) (x : Model.sx) : unit =
  match x with
  | Model.SZ z -> Buffer.add_string b (BZ.to_string (z_of_coqz z))
  | Model.SL l ->
    Buffer.add_char b '(';
    List.iteri (fun k y -> if k > 0 then Buffer.add_char b ' '; print_sx b y) l;
    Buffer.add_char b ')'

let () =
  let file = Sys.argv.(2) in
  let (check, explain) = (Model.the_check, Model.the_explain) in
  let ic = open_in file in
  let explain_k = if Array.length Sys.argv > 4 && Sys.argv.(3) = "--explain" then int_of_string Sys.argv.(4) else -1 in
  let k = ref 0 in
  (try
     while true do
       let line = input_line ic in
       if String.length line > 0 then begin
         if explain_k < 0 then begin
           let code = (try z_of_coqz (check (parse_line line)) with Parse m -> (prerr_endline ("parse: " ^ m); BZ.of_int 9)) in
           if not (BZ.equal code BZ.zero) then Printf.printf "%d %s\n" !k (BZ.to_string code)
         end else if explain_k = !k then begin
           let b = Buffer.create 1024 in
           print_sx b (explain (parse_line line));
           print_endline (Buffer.contents b)
         end;
         incr k
       end
     done
   with End_of_file -> ());
  Printf.printf "DONE %d\n" !k
