// Package schedx: schedule exploration helpers on top of vsched (only usable in binaries built with
// overlay_sched.json, which provides the vsched package).
package schedx

import (
	"strings"

	"github.com/prometheus/client_golang/prometheus/vsched"

	"verifharness/internal/emit"
)

// Explore enumerates schedules of the program produced by mk (a fresh object and fresh thread bodies per
// run) by stateless depth-first search, calling visit for every run, until the tree is exhausted
// (complete=true) or maxRuns runs were done.
func Explore(mk func() []func(), maxRuns, maxSteps int, visit func(vsched.Result)) (runs int, complete bool) {
	var prefix []int
	for {
		var width []int
		step := 0
		pick := func(ids []int, labels []string) int {
			k := 0
			if step < len(prefix) {
				k = prefix[step]
			}
			width = append(width, len(ids))
			step++
			return k
		}
		res := vsched.Run(mk(), pick, maxSteps)
		visit(res)
		runs++
		choice := make([]int, len(width))
		copy(choice, prefix)
		i := len(width) - 1
		for ; i >= 0; i-- {
			if choice[i]+1 < width[i] {
				break
			}
		}
		if i < 0 {
			return runs, true
		}
		if runs >= maxRuns {
			return runs, false
		}
		prefix = append(choice[:i:i], choice[i]+1)
	}
}

// Random runs the program once under a seeded random scheduler.
func Random(mk func() []func(), r *emit.Rng, maxSteps int) vsched.Result {
	return vsched.Run(mk(), func(ids []int, labels []string) int { return r.Intn(len(ids)) }, maxSteps)
}

// Canon reduces an instrumenter label "<Func> <operand text>" to "<Func> <last field>" so that renaming a
// receiver or local variable does not change the trace: "AddUint64 hc.buckets[bucket]" -> "AddUint64 buckets".
func Canon(label string) string {
	parts := strings.SplitN(label, " ", 2)
	if len(parts) < 2 {
		return label
	}
	operand := parts[1]
	if i := strings.IndexByte(operand, '['); i >= 0 && !strings.Contains(operand[i:], ".") {
		operand = operand[:i]
	} else if j := strings.LastIndexByte(operand, '.'); j >= 0 {
		operand = operand[j+1:]
		if i := strings.IndexByte(operand, '['); i >= 0 {
			operand = operand[:i]
		}
		return parts[0] + " " + operand
	}
	if j := strings.LastIndexByte(operand, '.'); j >= 0 {
		operand = operand[j+1:]
	}
	return parts[0] + " " + operand
}

// TraceSx renders (schedule, canonical trace).
func TraceSx(tr []vsched.Step, canon bool) (sched string, trace string) {
	s := make([]string, len(tr))
	t := make([]string, len(tr))
	for i, st := range tr {
		s[i] = emit.I(st.Tid)
		l := st.Label
		if canon {
			l = Canon(l)
		}
		t[i] = emit.Pair(emit.I(st.Tid), emit.S(l))
	}
	return emit.L(s), emit.L(t)
}

func Flags(res vsched.Result) int {
	f := 0
	if res.Deadlock {
		f |= 1
	}
	if res.StepLimit {
		f |= 2
	}
	if len(res.Panics) > 0 {
		f |= 4
	}
	return f
}
