// Package cli is the common command line of the per-property implementation drivers:
//
//	<driver> --seed N --tier quick|thorough --out DIR
package cli

import (
	"flag"
	"fmt"
	"io"
	"log"
	"os"
	"runtime"
)

type Ctx struct {
	Prop  string
	Seed  uint64
	Tier  string
	Out   string
	Scale int // 1 for quick, 20 for thorough
}

func Main(prop string, run func(c *Ctx) error) {
	log.SetOutput(io.Discard)
	if runtime.GOOS != "linux" || (runtime.GOARCH != "amd64" && !(runtime.GOARCH == "386" && prop == "C01")) {
		fmt.Fprintln(os.Stderr, "driver: only linux/amd64 is supported (float->uint64 conversion, int width)")
		os.Exit(3)
	}
	fs := flag.NewFlagSet(prop, flag.ExitOnError)
	seed := fs.Uint64("seed", 1, "seed")
	tier := fs.String("tier", "quick", "quick|thorough")
	out := fs.String("out", "", "output directory")
	fs.Parse(os.Args[1:])
	c := &Ctx{Prop: prop, Seed: *seed, Tier: *tier, Out: *out, Scale: 1}
	if *tier == "thorough" {
		c.Scale = 20
	}
	if c.Out == "" {
		fmt.Fprintln(os.Stderr, "driver: --out is required")
		os.Exit(2)
	}
	if err := run(c); err != nil {
		fmt.Fprintln(os.Stderr, prop+" driver:", err)
		os.Exit(1)
	}
}
