// Package emit renders Go values as Coq terms and writes sharded case files that the
// Coq side evaluates with vm_compute (DESIGN 3.4).
package emit

import (
	"encoding/json"
	"fmt"
	"hash/fnv"
	"math"
	"os"
	"path/filepath"
	"sort"
	"strings"
)

// Wire format: s-expressions over decimal integers, one case per line (see coq/theories/Base/Sx.v).

// F renders a float64 as its IEEE bit pattern (NaN canonicalised to Go's NaN).
func F(f float64) string {
	b := math.Float64bits(f)
	if f != f {
		b = 0x7FF8000000000001
	}
	return fmt.Sprintf("%d", b)
}

func Z(i int64) string  { return fmt.Sprintf("%d", i) }
func I(i int) string    { return fmt.Sprintf("%d", i) }
func U(i uint64) string { return fmt.Sprintf("%d", i) }
func B(b bool) string {
	if b {
		return "1"
	}
	return "0"
}

// S renders a Go string as a list of byte values.
func S(s string) string {
	var sb strings.Builder
	sb.WriteString("(")
	for i := 0; i < len(s); i++ {
		if i > 0 {
			sb.WriteString(" ")
		}
		fmt.Fprintf(&sb, "%d", s[i])
	}
	sb.WriteString(")")
	return sb.String()
}

func L(items []string) string { return "(" + strings.Join(items, " ") + ")" }

func FL(fs []float64) string {
	it := make([]string, len(fs))
	for i, f := range fs {
		it[i] = F(f)
	}
	return L(it)
}
func SL(ss []string) string {
	it := make([]string, len(ss))
	for i, f := range ss {
		it[i] = S(f)
	}
	return L(it)
}
func ZL(zs []int64) string {
	it := make([]string, len(zs))
	for i, f := range zs {
		it[i] = Z(f)
	}
	return L(it)
}

func Pair(a, b string) string    { return "(" + a + " " + b + ")" }
func Tup(items ...string) string { return "(" + strings.Join(items, " ") + ")" }
func None() string               { return "()" }
func Some(a string) string       { return "(" + a + ")" }

// C renders constructor number tag applied to args.
func C(tag int, args ...string) string {
	if len(args) == 0 {
		return fmt.Sprintf("(%d)", tag)
	}
	return fmt.Sprintf("(%d %s)", tag, strings.Join(args, " "))
}

// Writer collects cases and writes shards.
type Writer struct {
	Dir    string
	Prop   string
	Stream string // stream name, part of the file name

	cases   []string
	tags    map[string]int
	seen    map[uint64]bool
	nontriv int
	samples []string
	Extra   map[string]interface{}
}

func NewWriter(dir, prop, stream string) *Writer {
	return &Writer{Dir: dir, Prop: prop, Stream: stream,
		tags: map[string]int{}, seen: map[uint64]bool{}, Extra: map[string]interface{}{}}
}

// Add one case. nontrivial is the per-property rule; tags feed the distribution histogram.
func (w *Writer) Add(term string, nontrivial bool, tags ...string) {
	w.cases = append(w.cases, term)
	for _, t := range tags {
		w.tags[t]++
	}
	h := fnv.New64a()
	h.Write([]byte(term))
	k := h.Sum64()
	if !w.seen[k] {
		w.seen[k] = true
		if nontrivial {
			w.nontriv++
		}
	}
	if len(w.samples) < 3 && nontrivial {
		t := term
		if len(t) > 1200 {
			t = t[:1200] + " ..."
		}
		w.samples = append(w.samples, t)
	}
}

func (w *Writer) Tag(t string, n int) { w.tags[t] += n }

func (w *Writer) Len() int { return len(w.cases) }

// Flush writes <Prop>_<Stream>.sx (one case per line) and <Prop>_<Stream>.meta.json.
func (w *Writer) Flush() error {
	if err := os.MkdirAll(w.Dir, 0o755); err != nil {
		return err
	}
	var sb strings.Builder
	for _, c := range w.cases {
		sb.WriteString(c)
		sb.WriteString("\n")
	}
	if err := os.WriteFile(filepath.Join(w.Dir, fmt.Sprintf("%s_%s.sx", w.Prop, w.Stream)), []byte(sb.String()), 0o644); err != nil {
		return err
	}
	n := 1
	keys := make([]string, 0, len(w.tags))
	for k := range w.tags {
		keys = append(keys, k)
	}
	sort.Strings(keys)
	dist := map[string]int{}
	for _, k := range keys {
		dist[k] = w.tags[k]
	}
	meta := map[string]interface{}{
		"stream": w.Stream, "evaluations": len(w.cases), "distinct": len(w.seen),
		"distinct_nontrivial": w.nontriv, "distribution": dist, "samples": append([]string{}, w.samples...), "shards": n,
	}
	for k, v := range w.Extra {
		meta[k] = v
	}
	b, _ := json.MarshalIndent(meta, "", " ")
	return os.WriteFile(filepath.Join(w.Dir, fmt.Sprintf("%s_%s.meta.json", w.Prop, w.Stream)), b, 0o644)
}

// Rng is splitmix64; every random choice of a run derives from one state.
type Rng struct{ s uint64 }

func NewRng(seed uint64) *Rng { return &Rng{s: seed*0x9E3779B97F4A7C15 + 0x1234567} }
func (r *Rng) U64() uint64 {
	r.s += 0x9E3779B97F4A7C15
	z := r.s
	z = (z ^ (z >> 30)) * 0xBF58476D1CE4E5B9
	z = (z ^ (z >> 27)) * 0x94D049BB133111EB
	return z ^ (z >> 31)
}
func (r *Rng) Intn(n int) int {
	if n <= 0 {
		return 0
	}
	return int(r.U64() % uint64(n))
}
func (r *Rng) Bool() bool           { return r.U64()&1 == 1 }
func (r *Rng) Chance(p, q int) bool { return r.Intn(q) < p }
func (r *Rng) Float01() float64     { return float64(r.U64()>>11) / (1 << 53) }
func (r *Rng) Fork() *Rng           { return &Rng{s: r.U64()} }

// Special float64 values every float generator mixes in.
var SpecialFloats = []float64{0, math.Copysign(0, -1), 1, -1, 0.5, 2, math.Inf(1), math.Inf(-1), math.NaN(),
	math.MaxFloat64, -math.MaxFloat64, math.SmallestNonzeroFloat64, -math.SmallestNonzeroFloat64,
	math.Ldexp(1, -1022), math.Ldexp(1, -1023), 1e-300, 1e300, math.Ldexp(1, 53), math.Ldexp(1, 53) + 2, math.Ldexp(1, 63), math.Ldexp(1, 64), 0.1, 0.2, 0.3, 1.0 / 3}

// AnyFloat draws from specials, small integers, random bit patterns and "nice" decimals.
func (r *Rng) AnyFloat() float64 {
	switch r.Intn(6) {
	case 0:
		return SpecialFloats[r.Intn(len(SpecialFloats))]
	case 1:
		return float64(r.Intn(41) - 20)
	case 2:
		return math.Float64frombits(r.U64())
	case 3:
		return float64(r.Intn(2001)-1000) / 8
	case 4:
		return (r.Float01() - 0.5) * math.Pow(10, float64(r.Intn(40)-20))
	default:
		return float64(r.Intn(200)) / 10
	}
}

// Ulp neighbours (non-NaN).
func Up(f float64) float64   { return math.Nextafter(f, math.Inf(1)) }
func Down(f float64) float64 { return math.Nextafter(f, math.Inf(-1)) }
